"""Shared machinery of the /verif checks (python3 stdlib only).

Pipeline of one check (see DESIGN.md §2.4):
  regen (tools/gofacts -> lean/PRV/Gen) -> prove (lake build Props + Audit, axiom audit, grep) ->
  build harness from /repo's working tree (go test -c -overlay) -> run -> compare with the Lean
  driver (model = correspondence, spec = proven monitor) -> decide -> evidence.
"""
import fcntl
import hashlib
import json
import os
import re
import subprocess
import sys
import time

VERIF = os.environ.get("VERIF_ROOT", "/verif")   # a scratch copy of /verif (seed matrix) sets VERIF_ROOT / VERIF_REPO
REPO = os.environ.get("VERIF_REPO", "/repo")
LEAN = VERIF + "/lean"
BUILD = VERIF + "/.build"
GO = "go1.26.8"
ALLOWED_AXIOMS = {"propext", "Classical.choice", "Quot.sound"}

# harness directory -> package directory in /repo (overlay targets)
HARNESS_PKGS = {
    "vh": "internal/verifh/vh",
    "vhs": "internal/verifh/vhs",
    "validator": "internal/resources/hashrate/validator",
    "lib": "internal/lib",
    "hashrate": "internal/resources/hashrate/hashrate",
    "contract": "internal/resources/hashrate/contract",
    "allocator": "internal/resources/hashrate/allocator",
    "proxy": "internal/resources/hashrate/proxy",
    "stratumv1_message": "internal/resources/hashrate/proxy/stratumv1_message",
    "config": "internal/config",
    "hr": "internal/resources/hashrate",
    "contractmanager": "internal/contractmanager",
    "tcphandlers": "internal/handlers/tcphandlers",
    "httphandlers": "internal/handlers/httphandlers",
}


def go_env(extra=None):
    env = dict(os.environ)
    env.update({"GOFLAGS": "-mod=mod", "GOPROXY": "off", "GOSUMDB": "off", "GOTOOLCHAIN": "local",
                "GODEBUG": "asynctimerchan=0", "GOCACHE": os.environ.get("GOCACHE", BUILD + "/gocache")})
    if extra:
        env.update({k: str(v) for k, v in extra.items()})
    return env


def sh(cmd, cwd=None, env=None, timeout=None, stdin=None):
    """run, return (rc, combined output)"""
    try:
        p = subprocess.run(cmd, cwd=cwd, env=env, timeout=timeout, stdin=stdin,
                           stdout=subprocess.PIPE, stderr=subprocess.STDOUT, shell=isinstance(cmd, str))
        return p.returncode, p.stdout.decode("utf-8", "replace")
    except subprocess.TimeoutExpired as e:
        out = (e.stdout or b"").decode("utf-8", "replace")
        return 124, out + "\n[timeout]"


class Lock:
    def __init__(self, name):
        os.makedirs(BUILD, exist_ok=True)
        self.path = BUILD + "/" + name + ".lock"

    def __enter__(self):
        self.f = open(self.path, "w")
        fcntl.flock(self.f, fcntl.LOCK_EX)
        return self

    def __exit__(self, *a):
        fcntl.flock(self.f, fcntl.LOCK_UN)
        self.f.close()


class Ctx:
    def __init__(self, pid, tier, seed):
        self.pid = pid
        self.tier = tier
        self.seed = seed
        self.t0 = time.time()
        self.out = "%s/out/%s" % (BUILD, pid)
        os.makedirs(self.out, exist_ok=True)
        for f in os.listdir(self.out):
            try:
                os.remove(os.path.join(self.out, f))
            except OSError:
                pass
        self.violations = []      # dicts: {signature, what, replay, found_input: bool}
        self.known_hits = []      # (entry, replay)
        self.notes = []
        self.obligations = []     # theorem names
        self.discharged = []      # theorem names that elaborated with allowed axioms
        self.axioms = {}          # theorem -> [axioms]
        self.proof_failures = []  # strings
        self.tie_failures = []    # strings
        self.coverage = {}
        self.samples = []
        self.assumptions = []
        self.trusted_base = []
        self.level = "proof"

    def note(self, s):
        self.notes.append(s)
        print("[%s] %s" % (self.pid, s), flush=True)


# ---------------------------------------------------------------------------------------------
# tie A: regeneration

def build_gofacts():
    with Lock("gofacts"):
        src = VERIF + "/tools/gofacts"
        exe = BUILD + "/gofacts"
        newest = max(os.path.getmtime(os.path.join(src, f)) for f in os.listdir(src))
        if os.path.exists(exe) and os.path.getmtime(exe) >= newest:
            return True, ""
        rc, out = sh(["go", "build", "-o", exe, "."], cwd=src, env=go_env({"GOTOOLCHAIN": "local"}))
        return rc == 0, out


def regen(ctx, props, soft=False):
    """regenerate PRV/Gen/<prop>.lean from /repo; a failure is a broken tie (soft: only noted — the file belongs to another
    property's model and is only linked into the driver)"""
    ok, out = build_gofacts()
    if not ok:
        ctx.tie_failures.append("translator does not build: " + out[-400:])
        return False
    allok = True
    with Lock("lake"):
        for p in props:
            rc, out = sh([BUILD + "/gofacts", "-repo", REPO, "-out", LEAN + "/PRV/Gen", "-prop", p])
            if rc != 0 and soft:
                ctx.notes.append("translator rule failed for Gen.%s (not a dependency of this property's theorems): %s" % (p, out.strip()[-200:]))
            elif rc != 0:
                ctx.tie_failures.append("translator rule failed for Gen.%s: %s" % (p, out.strip()[-400:]))
                allok = False
    return allok


# ---------------------------------------------------------------------------------------------
# prove

THEOREM_RE = re.compile(r"^\s*theorem\s+([A-Za-z0-9_'.]+)", re.M)


def strip_comments(src):
    src = re.sub(r"/-.*?-/", "", src, flags=re.S)
    src = re.sub(r"--.*", "", src)
    return src


def props_theorems(pid):
    path = "%s/PRV/Props/%s.lean" % (LEAN, pid)
    src = strip_comments(open(path).read())
    # names relative to PRV.Props.<pid>, following `namespace` / `end` lines (nested namespaces give dotted names)
    base = "PRV.Props.%s" % pid
    stack, names = [], []
    for line in src.split("\n"):
        m = re.match(r"\s*namespace\s+([A-Za-z0-9_.']+)", line)
        if m:
            stack.append(m.group(1))
            continue
        m = re.match(r"\s*end\s+([A-Za-z0-9_.']+)\s*$", line)
        if m and stack and stack[-1] == m.group(1):
            stack.pop()
            continue
        for n in THEOREM_RE.findall(line):
            full = ".".join(stack + [n])
            if full.startswith(base + "."):
                names.append(full[len(base) + 1:])
            else:
                names.append(n)
    return names


FORBIDDEN = re.compile(r"\bsorry\b|\badmit\b|^\s*axiom\s|native_decide|bv_decide|implemented_by|\bunsafe\s|maxHeartbeats 0", re.M)


def forbidden_grep():
    hits = []
    for root, _, files in os.walk(LEAN + "/PRV"):
        for f in files:
            if f.endswith(".lean"):
                src = strip_comments(open(os.path.join(root, f)).read())
                for m in FORBIDDEN.finditer(src):
                    hits.append("%s: %s" % (os.path.join(root, f), m.group(0).strip()))
    src = strip_comments(open(LEAN + "/Main.lean").read())
    for m in FORBIDDEN.finditer(src):
        hits.append("Main.lean: %s" % m.group(0).strip())
    return hits


def lake(targets, timeout=3000):
    with Lock("lake"):
        return sh(["lake", "build"] + targets, cwd=LEAN, timeout=timeout)


def failing_theorems(out, pid):
    """best effort: map lake error positions in Props/<pid>.lean to theorem names"""
    path = "%s/PRV/Props/%s.lean" % (LEAN, pid)
    try:
        lines = open(path).read().split("\n")
    except OSError:
        return []
    names = []
    for m in re.finditer(r"error: PRV/Props/%s\.lean:(\d+):" % pid, out):
        ln = int(m.group(1))
        for i in range(min(ln, len(lines)) - 1, -1, -1):
            mm = re.match(r"\s*(theorem|example|def|lemma)\s*([A-Za-z0-9_'.]*)", lines[i])
            if mm:
                n = mm.group(2) or ("example@%d" % (i + 1))
                if n not in names:
                    names.append(n)
                break
    return names


def _lean_imports(mod, seen):
    p = "%s/%s.lean" % (LEAN, mod.replace(".", "/"))
    if not os.path.exists(p):
        return
    for m in re.findall(r"^import (PRV\.[A-Za-z0-9_.]+)", open(p).read(), re.M):
        if m not in seen:
            seen.add(m)
            _lean_imports(m, seen)


def needed_gens(pid):
    """the generated files this property's theorems depend on (transitively), and those only the driver links in"""
    seen, drv_seen = set(), set()
    _lean_imports("PRV.Props." + pid, seen)
    _lean_imports("Main", drv_seen)
    own = sorted(m.split(".")[-1] for m in seen if m.startswith("PRV.Gen."))
    drv_only = sorted(m.split(".")[-1] for m in drv_seen if m.startswith("PRV.Gen.") and m.split(".")[-1] not in own)
    return own, drv_only


def regen_needed(ctx):
    """every generated file this check depends on is regenerated from the current tree — also those another check's run may have
    left behind from a different state of /repo (Props import each other; the driver imports several Gen files)"""
    done = getattr(ctx, "_regenerated", set())
    own, drv_only = needed_gens(ctx.pid)
    todo = [g for g in own if g not in done]
    soft = [g for g in drv_only if g not in done]
    if todo:
        regen(ctx, todo)
    if soft:
        regen(ctx, soft, soft=True)
    ctx._regenerated = done | set(todo) | set(soft)


def prove(ctx, extra_targets=()):
    """build Props + Audit for ctx.pid; fill obligations/discharged/axioms/proof_failures"""
    pid = ctx.pid
    regen_needed(ctx)
    thms = props_theorems(pid)
    ctx.obligations = list(thms)
    audit = "%s/PRV/Audit/%s.lean" % (LEAN, pid)
    body = "import PRV.Props.%s\n-- GENERATED by bin/check: axiom audit of every property theorem\n" % pid
    for t in thms:
        body += "#print axioms PRV.Props.%s.%s\n" % (pid, t)
    with Lock("lake"):
        old = open(audit).read() if os.path.exists(audit) else None
        if old != body:
            open(audit, "w").write(body)
    bad = forbidden_grep()
    if bad:
        ctx.proof_failures.append("forbidden constructs in Lean sources: " + "; ".join(bad[:5]))
    rc, out = lake(["PRV.Props.%s" % pid] + list(extra_targets))
    if rc != 0:
        names = failing_theorems(out, pid)
        errs = [l for l in out.split("\n") if l.startswith("error:")][:6]
        ctx.proof_failures.append("lake build PRV.Props.%s failed; theorems no longer checking: %s; %s"
                                  % (pid, ", ".join(names) or "(outside Props: model/Gen/proofs)", " | ".join(errs)))
        return False
    # audit (re-elaborates the #print lines; output has the axioms)
    with Lock("lake"):
        rc, out = sh(["lake", "env", "lean", audit], cwd=LEAN, timeout=1200)
    if rc != 0:
        ctx.proof_failures.append("axiom audit failed: " + out[-300:])
        return False
    flat = re.sub(r"\s+", " ", out)
    for t in thms:
        full = "PRV.Props.%s.%s" % (pid, t)
        m = re.search(r"'%s' depends on axioms: \[([^\]]*)\]" % re.escape(full), flat)
        if m:
            ax = [a.strip() for a in m.group(1).split(",") if a.strip()]
        elif re.search(r"'%s' does not depend on any axioms" % re.escape(full), flat):
            ax = []
        else:
            ctx.proof_failures.append("no axiom report for " + full)
            continue
        ctx.axioms[t] = ax
        extra = [a for a in ax if a not in ALLOWED_AXIOMS]
        if extra:
            ctx.proof_failures.append("theorem %s depends on non-accepted axioms %s" % (t, extra))
        else:
            ctx.discharged.append(t)
    if ctx.tier == "thorough":
        with Lock("lake"):
            rc, out = sh(["lake", "env", "leanchecker", "PRV.Props.%s" % pid], cwd=LEAN, timeout=3000)
        if rc != 0:
            ctx.proof_failures.append("leanchecker rejected PRV.Props.%s: %s" % (pid, out[-300:]))
        else:
            ctx.note("leanchecker accepted PRV.Props.%s" % pid)
    return not ctx.proof_failures


def build_driver(ctx):
    regen_needed(ctx)
    return _build_driver(ctx)


def _build_driver(ctx):
    rc, out = lake(["prvdrv"])
    if rc != 0:
        errs = [l for l in out.split("\n") if l.startswith("error:")][:6]
        ctx.tie_failures.append("model driver does not build (model/Gen no longer elaborates): " + " | ".join(errs))
        return False
    return True


def drv(mode, prop, infile, outfile, timeout=1200):
    with open(infile, "rb") as fi, open(outfile, "wb") as fo:
        p = subprocess.run([LEAN + "/.lake/build/bin/prvdrv", mode, prop.lower()], stdin=fi, stdout=fo,
                           stderr=subprocess.PIPE, timeout=timeout)
    return p.returncode, p.stderr.decode("utf-8", "replace")


# ---------------------------------------------------------------------------------------------
# tie B: harness

def write_overlay():
    rep = {}
    hroot = VERIF + "/harness"
    for d, pkg in HARNESS_PKGS.items():
        src = os.path.join(hroot, d)
        if not os.path.isdir(src):
            continue
        for f in sorted(os.listdir(src)):
            if f.endswith(".go"):
                rep["%s/%s/%s" % (REPO, pkg, f)] = os.path.join(src, f)
    path = BUILD + "/overlay.json"
    body = json.dumps({"Replace": rep}, indent=1, sort_keys=True)
    with Lock("overlay"):
        if not os.path.exists(path) or open(path).read() != body:
            open(path, "w").write(body)
    return path


def build_harness(ctx, hdir, tags="verif"):
    """go test -c of the repo package that harness dir `hdir` overlays; returns binary path or None"""
    ov = write_overlay()
    pkg = HARNESS_PKGS[hdir]
    exe = "%s/%s.%s.test" % (BUILD, hdir, ctx.pid)
    if os.path.exists(exe):
        os.remove(exe)
    rc, out = sh([GO, "test", "-c", "-tags", tags, "-vet=off", "-overlay", ov, "-o", exe, "./" + pkg + "/"],
                 cwd=REPO, env=go_env(), timeout=1200)
    if rc != 0 or not os.path.exists(exe):
        ctx.tie_failures.append("harness for %s does not build against the current tree: %s" % (pkg, out[-600:]))
        return None
    return exe


def run_harness(ctx, exe, test_re, env=None, timeout=1800, args=()):
    e = go_env({"VERIF_OUT": ctx.out, "VERIF_SEED": ctx.seed, "VERIF_TIER": ctx.tier})
    if env:
        e.update({k: str(v) for k, v in env.items()})
    rc, out = sh([exe, "-test.run", test_re, "-test.timeout", "%ds" % timeout] + list(args), cwd=ctx.out, env=e,
                 timeout=timeout + 30)
    return rc, out


# ---------------------------------------------------------------------------------------------
# transcripts

def parse_cases(path):
    """-> list of (header, [lines])"""
    cases = []
    cur = None
    with open(path, errors="replace") as f:
        for line in f:
            line = line.rstrip("\n")
            if line.startswith("# case"):
                cur = (line, [])
                cases.append(cur)
            elif cur is not None and (line.startswith("> ") or line.startswith("< ")):
                cur[1].append(line)
    return cases


def diff_cases(impl_path, other_path):
    """cases whose op/out lines differ: list of dict(header, index, impl, other, lines, first)"""
    a = parse_cases(impl_path)
    b = parse_cases(other_path)
    res = []
    if len(a) != len(b):
        res.append({"header": "# transcript", "index": -1, "impl": "%d cases" % len(a), "other": "%d cases" % len(b),
                    "lines": [], "other_lines": [], "first": 0})
        return res
    for i, ((ha, la), (hb, lb)) in enumerate(zip(a, b)):
        if la == lb:
            continue
        k = 0
        while k < min(len(la), len(lb)) and la[k] == lb[k]:
            k += 1
        res.append({"header": ha, "index": i, "impl": la[k] if k < len(la) else "<end>",
                    "other": lb[k] if k < len(lb) else "<end>", "lines": la, "other_lines": lb, "first": k})
    return res


def case_ops(lines, upto=None):
    ops = [l for l in lines[: upto] if l.startswith("> ")]
    return ops


def last_op_before(lines, k):
    for i in range(min(k, len(lines) - 1), -1, -1):
        if lines[i].startswith("> "):
            return lines[i]
    return ""


def distinct_count(cases, nontrivial):
    seen = set()
    for h, lines in cases:
        if nontrivial(h, lines):
            seen.add(hashlib.sha1("\n".join(l for l in lines if l.startswith("> ")).encode()).hexdigest())
    return len(seen)


# ---------------------------------------------------------------------------------------------
# known findings, replays, decision

def load_known(pid):
    res = []
    p = VERIF + "/known_findings.jsonl"
    if os.path.exists(p):
        for line in open(p):
            line = line.strip()
            if line and not line.startswith("#"):
                e = json.loads(line)
                if e.get("property") == pid:
                    res.append(e)
    return res


def write_replay(ctx, signature, payload):
    os.makedirs(VERIF + "/replays", exist_ok=True)
    h = hashlib.sha1((signature + json.dumps(payload, sort_keys=True)).encode()).hexdigest()[:10]
    path = "%s/replays/%s-%s.json" % (VERIF, ctx.pid, h)
    payload = dict(payload)
    payload.update({"property": ctx.pid, "signature": signature, "seed": ctx.seed, "tier": ctx.tier})
    with open(path, "w") as f:
        json.dump(payload, f, indent=1)
    return path


def violation(ctx, signature, what, payload, found_input=True):
    """register a violation of the property (monitor/spec rejected an implementation behaviour)"""
    for e in load_known(ctx.pid):
        if e.get("kind") == "known" and e.get("signature") == signature:
            if not any(k[0] is e for k in ctx.known_hits):
                ctx.known_hits.append((e, what))
            return
    if any(v["signature"] == signature for v in ctx.violations):
        return
    path = write_replay(ctx, signature, payload)
    ctx.violations.append({"signature": signature, "what": what, "replay": path, "found_input": found_input})


def finish(ctx):
    """decide, write evidence, print the interface lines, return exit code"""
    # broken proof / tie without a concrete failing input
    if (ctx.proof_failures or ctx.tie_failures) and not any(v["found_input"] for v in ctx.violations):
        payload = {"no_longer_checks": ctx.proof_failures + ctx.tie_failures,
                   "note": "no implementation input violating the property was found by the search; "
                           "the property is no longer shown to hold"}
        path = write_replay(ctx, "broken-obligation", payload)
        ctx.violations.append({"signature": "broken-obligation", "what": "; ".join(ctx.proof_failures + ctx.tie_failures)[:300],
                               "replay": path, "found_input": False})
    cov = dict(ctx.coverage)
    cov.setdefault("obligations", len(ctx.obligations))
    cov.setdefault("discharged", len(ctx.discharged))
    cov.setdefault("checker_cmd", "cd /verif/lean && lake build PRV.Props.%s && lake env lean PRV/Audit/%s.lean%s"
                   % (ctx.pid, ctx.pid, " && lake env leanchecker PRV.Props.%s" % ctx.pid if ctx.tier == "thorough" else ""))
    cov.setdefault("trusted_base", ctx.trusted_base)
    cov.setdefault("samples", ctx.samples[:6])
    cov["theorems"] = ctx.obligations
    cov["axioms"] = {k: v for k, v in ctx.axioms.items()}
    cov["proof_failures"] = ctx.proof_failures
    cov["tie_failures"] = ctx.tie_failures
    cov["known_findings_hit"] = [e.get("signature") for e, _ in ctx.known_hits]
    cov["notes"] = ctx.notes[-30:]
    ev = {"property_id": ctx.pid, "tier": ctx.tier, "seed": int(ctx.seed), "level": ctx.level, "coverage": cov,
          "assumptions": ctx.assumptions, "wall_s": round(time.time() - ctx.t0, 2), "violations": len(ctx.violations)}
    os.makedirs(VERIF + "/evidence", exist_ok=True)
    with open("%s/evidence/%s.json" % (VERIF, ctx.pid), "w") as f:
        json.dump(ev, f, indent=1)
    for e, what in ctx.known_hits:
        print("KNOWN-FINDING: property=%s %s" % (ctx.pid, e.get("what", what)))
    for v in ctx.violations:
        tail = "" if v["found_input"] else " no-failing-input-found"
        print("# %s: %s" % (v["signature"], v["what"]))
        print("VIOLATION property=%s replay=%s%s" % (ctx.pid, v["replay"], tail))
    if not ctx.violations:
        print("OK property=%s tier=%s obligations=%d discharged=%d evaluations=%s wall=%.1fs"
              % (ctx.pid, ctx.tier, len(ctx.obligations), len(ctx.discharged), cov.get("evaluations"), time.time() - ctx.t0))
    sys.stdout.flush()
    return 1 if ctx.violations else 0


BASE_TRUST = [
    "Lean 4.33.0 kernel (thorough tier: also leanchecker)",
    "axioms: subset of {propext, Classical.choice, Quot.sound}; no sorry/native_decide/bv_decide (audited each run)",
    "Spec/* and Props/* are the formalisation of the English property",
]


# ---------------------------------------------------------------------------------------------
# generic correspondence + monitor step for transcript-based properties

def shrink_ops(ops, still_fails, budget=150):
    """ddmin over a list of op lines; `still_fails(ops) -> bool`"""
    n = 2
    runs = 0
    while len(ops) >= 2 and runs < budget:
        chunk = max(1, len(ops) // n)
        reduced = False
        for i in range(0, len(ops), chunk):
            cand = ops[:i] + ops[i + chunk:]
            runs += 1
            if cand and still_fails(cand):
                ops = cand
                n = max(n - 1, 2)
                reduced = True
                break
            if runs >= budget:
                break
        if not reduced:
            if chunk == 1:
                break
            n = min(len(ops), n * 2)
    return ops


def replay_differs(ctx, exe, test_re, prop, ops, transcript, mode="spec", env=None):
    """run `ops` on the implementation (replay mode) and on the Lean spec/model; True when they differ"""
    d = ctx.out + "/shrink"
    os.makedirs(d, exist_ok=True)
    opsf = d + "/ops.txt"
    with open(opsf, "w") as f:
        f.write("\n".join(ops) + "\n")
    e = go_env({"VERIF_OUT": d, "VERIF_SEED": ctx.seed, "VERIF_TIER": ctx.tier, "VERIF_REPLAY_OPS": opsf})
    if env:
        e.update({k: str(v) for k, v in env.items()})
    rc, out = sh([exe, "-test.run", test_re, "-test.timeout", "60s"], cwd=d, env=e, timeout=90)
    impl = d + "/" + transcript
    if not os.path.exists(impl):
        return False
    other = d + "/other.txt"
    drv(mode, prop, impl, other)
    return bool(diff_cases(impl, other))


def compare_transcript(ctx, prop, transcript, classify, exe=None, test_re=None, modes=("model", "spec"),
                       shrink=True, env=None):
    """impl transcript vs Lean model (correspondence) and vs Lean spec (proven monitor)"""
    impl = "%s/%s" % (ctx.out, transcript)
    results = {}
    for mode in modes:
        other = "%s/%s.%s.txt" % (ctx.out, transcript, mode)
        rc, err = drv(mode, prop, impl, other)
        if rc != 0:
            ctx.tie_failures.append("driver %s %s failed: %s" % (mode, prop, err[-200:]))
            continue
        results[mode] = diff_cases(impl, other)
    spec_diffs = results.get("spec", [])
    model_diffs = results.get("model", [])
    spec_idx = {d["index"] for d in spec_diffs}
    done = set()
    for d in spec_diffs:
        sig, what = classify(d)
        if sig in done:
            continue
        done.add(sig)
        ops = case_ops(d["lines"], d["first"] + 1)
        if shrink and exe and d["index"] >= 0:
            try:
                ops2 = [o[2:] for o in ops]
                if replay_differs(ctx, exe, test_re, prop, ops2, transcript, "spec", env):
                    ops2 = shrink_ops(ops2, lambda c: replay_differs(ctx, exe, test_re, prop, c, transcript, "spec", env))
                    ops = ["> " + o for o in ops2]
            except Exception as e:  # shrinking is best effort
                ctx.note("shrink failed: %r" % (e,))
        violation(ctx, sig, what, {"clause": sig, "case": d["header"], "ops": ops, "implementation_says": d["impl"],
                                   "specification_says": d["other"],
                                   "how_to_replay": "bin/check %s --replay <this file>" % ctx.pid})
    for d in model_diffs:
        if d["index"] in spec_idx:
            continue
        ctx.tie_failures.append("correspondence broken (%s): model and implementation differ in %s after %s: impl %r model %r"
                                % (transcript, d["header"], last_op_before(d["lines"], d["first"]), d["impl"], d["other"]))
        break
    return results


def generic_replay(ctx, path, hdir, test_re, prop, transcript, mode="spec"):
    rp = json.load(open(path))
    ops = [o[2:] if o.startswith("> ") else o for o in rp.get("ops", [])]
    exe = build_harness(ctx, hdir)
    if not exe or not build_driver(ctx):
        print("cannot build harness/driver: %s" % ctx.tie_failures)
        return 2
    differs = replay_differs(ctx, exe, test_re, prop, ops, transcript, mode=mode)
    d = ctx.out + "/shrink"
    print(open(d + "/" + transcript).read())
    print("---- specification ----")
    print(open(d + "/other.txt").read())
    print("REPLAY: implementation %s the specification" % ("DIFFERS from" if differs else "agrees with"))
    return 1 if differs else 0



def crash_violation(ctx, transcript, out, prefix):
    """the harness process died (a panic in a goroutine of the code under test): the ops of the last case are the replay.
    Returns True when a violation was recorded."""
    m = re.search(r"(panic: [^\n]*|fatal error: [^\n]*)", out)
    path = "%s/%s" % (ctx.out, transcript)
    if not m or "test timed out" in m.group(1) or not os.path.exists(path):
        return False
    cases = parse_cases(path)
    if not cases:
        return False
    h, lines = cases[-1]
    where = re.search(r"\n(github.com/Lumerin-protocol/proxy-router/internal/[^\n(]*)\([^\n]*\n\t(/[^\s]*/internal/[^\s]*)", out[m.end():])
    site = (where.group(2).replace(REPO + "/", "") if where else "?")
    sig = "%s:process-crash-%s" % (prefix, re.sub(r"[^A-Za-z0-9]+", "-", site.split(":")[0].split("/")[-1]))
    ops = [l for l in lines if l.startswith("> ")]
    # the op the harness was executing when the process died is on record as a note ("# doing <op>") but not as an op
    doing = None
    for l in open(path, errors="replace"):
        if l.startswith("# case"):
            doing = None
        elif l.startswith("# doing "):
            doing = "> " + l[len("# doing "):].rstrip("\n")
    if doing and (not ops or ops[-1] != doing):
        ops.append(doing)
    violation(ctx, sig, "the process died: %s at %s" % (m.group(1), site),
              {"clause": "no input crashes the process", "case": h, "ops": ops, "panic": m.group(1), "site": site,
               "how_to_replay": "bin/check %s --replay <this file>" % ctx.pid})
    return True


def run_monitor(ctx, prop, transcript):
    """run `prvdrv monitor` over the implementation transcript; returns list of (case_header, complaint)"""
    impl = "%s/%s" % (ctx.out, transcript)
    outp = "%s/%s.monitor.txt" % (ctx.out, transcript)
    rc, err = drv("monitor", prop, impl, outp)
    if rc != 0:
        ctx.tie_failures.append("driver monitor %s failed: %s" % (prop, err[-200:]))
        return []
    res = []
    cur = ""
    for line in open(outp, errors="replace"):
        line = line.rstrip("\n")
        if line.startswith("# case"):
            cur = line
        elif line.startswith("! "):
            res.append((cur, line[2:]))
    return res


def monitor_accepts_model(ctx, prop, model_path, impl_complaints=()):
    """consistency of the two judges: the monitor is run over the *model's* transcript of the same ops; a complaint there that
    the implementation's trace does not share means monitor and model disagree about the property (one of them is wrong):
    a broken tie, not a violation.  Returns the number of model traces the monitor accepted."""
    outp = model_path + ".monitor.txt"
    rc, err = drv("monitor", prop, model_path, outp)
    if rc != 0:
        ctx.tie_failures.append("driver monitor %s (on the model's trace) failed: %s" % (prop, err[-200:]))
        return 0
    shared = set(impl_complaints)
    cur, ncases, bad = "", 0, []
    for line in open(outp, errors="replace"):
        line = line.rstrip("\n")
        if line.startswith("# case"):
            cur = line
            ncases += 1
        elif line.startswith("! ") and (cur, line[2:]) not in shared:
            bad.append((cur, line[2:]))
    if bad and not any("rejects the model" in t for t in ctx.tie_failures):
        ctx.tie_failures.append("the monitor %s rejects the model's own trace in %d of %d cases (monitor and model disagree): %s (%s)" % (prop, len({c for c, _ in bad}), ncases, bad[0][1][:300], bad[0][0]))
    ctx.coverage["model_traces_accepted_by_monitor"] = ctx.coverage.get("model_traces_accepted_by_monitor", 0) + ncases - len({c for c, _ in bad})
    return ncases - len({c for c, _ in bad})


def buyer_world(ctx, prop):
    """the buyer / validator side end to end (real ContractManager, ContractFactory, ControllerBuyer, store; fake node): every role x
    destination kind x path x fault, judged by Driver/C16.lean monitorBW; complaints tagged with `prop` are violations of it"""
    exe = build_harness(ctx, "contractmanager")
    if not exe:
        return 0
    rc, out = run_harness(ctx, exe, "TestVerifBuyerWorld$", env={}, timeout=900)
    if rc != 0:
        ctx.tie_failures.append("buyer-world harness run failed (rc=%d): %s" % (rc, out[-300:]))
        return 0
    cases = dict(parse_cases(ctx.out + "/buyerworld.impl.txt"))
    seen = set()
    for case, c in run_monitor(ctx, "buyerworld", "buyerworld.impl.txt"):
        body, _, op = c.partition(" @ ")
        if not body.startswith(prop + " "):
            continue
        sig = prop.lower() + ":buyer-side-" + re.sub(r"-+", "-", re.sub(r"[^a-z]+", "-", re.sub(r"\(.*?\)|'.*?'", "", body[len(prop) + 1:]).lower())).strip("-")[:70]
        if sig in seen:
            continue
        seen.add(sig)
        violation(ctx, sig, body[len(prop) + 1:] + " @ " + op, {"clause": body, "case": case, "ops": [l for l in cases.get(case, []) if l.startswith("> ")],
                                                               "how_to_replay": "bin/check %s --tier quick (the buyer-side histories are a fixed list; the op names the one that fails)" % ctx.pid})
    ctx.coverage["buyer_side_histories"] = len(cases)
    return len(cases)


def buyer_world_replay(ctx, prop, path):
    """replay of a buyer-side history: None when the file is not one; the histories are a fixed list, the op names the one"""
    rp = json.load(open(path))
    ops = [o[2:] if o.startswith("> ") else o for o in rp.get("ops", [])]
    if not ops or not ops[0].startswith("world role="):
        return None
    exe = build_harness(ctx, "contractmanager")
    if not exe or not build_driver(ctx):
        print("cannot build harness/driver: %s" % ctx.tie_failures)
        return 2
    run_harness(ctx, exe, "TestVerifBuyerWorld$", env={}, timeout=900)
    hit = [x for c, x in run_monitor(ctx, "buyerworld", "buyerworld.impl.txt") if x.startswith(prop + " ") and x.endswith(" @ " + ops[0])]
    for x in hit:
        print(x)
    print("REPLAY: %s" % ("the violation reproduces" if hit else "no violation"))
    return 1 if hit else 0


def conn_reads(ctx, sig, consequence, clause, pid):
    """what the relay and the parked-pool reader are built on: a stratum Read that is stopped (every destination change stops the
    relay directions and the autoread of the parked pool this way) must not lose a line that arrives at that instant — the read
    side of C14's connection harness (real StratumConnection, hooked net.Conn) against Model/Conn.lean"""
    exe = build_harness(ctx, "proxy")
    if not exe:
        return 0
    rc, out = run_harness(ctx, exe, "TestVerifC14$", env={"VERIF_N": 240 if ctx.tier == "quick" else 3000}, timeout=900)
    if rc != 0:
        ctx.tie_failures.append("connection harness run failed (rc=%d): %s" % (rc, out[-300:]))
        return 0
    impl = ctx.out + "/c14.impl.txt"
    rc, err = drv("model", "c14", impl, impl + ".model.txt")
    if rc != 0:
        ctx.tie_failures.append("driver model c14 failed: " + err[-200:])
        return 0
    for d in diff_cases(impl, impl + ".model.txt"):
        if d["header"].split()[-1] != "read":
            continue
        ops = [l for l in d["lines"][:d["first"] + 1] if l.startswith("> ")]
        violation(ctx, sig, "a stratum Read that is being stopped: implementation %r, model %r — %s" % (d["impl"], d["other"], consequence),
                  {"clause": clause, "case": d["header"], "ops": ops, "how_to_replay": "bin/check %s --replay <this file>" % pid})
        break
    return sum(1 for h, ls in parse_cases(impl) if h.endswith("read") for l in ls if l.startswith("> "))


def handle_complaints(ctx, complaints, sig_of):
    """PROP complaints are property violations (with the op as replay), CORR ones a broken tie"""
    for case, c in complaints:
        body, _, op = c.partition(" @ ")
        if body.startswith("PROP "):
            sig = sig_of(body[5:], op)
            violation(ctx, sig, body[5:] + " @ " + op, {"clause": body[5:], "case": case, "ops": ["> " + op],
                                                           "how_to_replay": "bin/check %s --replay <this file>" % ctx.pid})
        elif body.startswith("CORR "):
            if not any("correspondence" in t for t in ctx.tie_failures):
                ctx.tie_failures.append("correspondence broken: %s @ %s (%s)" % (body[5:], op, case))
