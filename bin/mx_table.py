#!/usr/bin/env python3
"""rebuild seeded/MATRIX.md from the detected_by records in seeded/<id>/meta.json"""
import glob, json, os
S = os.environ.get("VERIF_SEEDS", "/verif/seeded")
rows = []
for d in sorted(glob.glob(S + "/C*-*")):
    m = json.load(open(d + "/meta.json")) if os.path.exists(d + "/meta.json") else {}
    if m.get("status") in ("obsolete", "benign"):
        rows.append((os.path.basename(d), m["status"], m.get("status_note", "")))
        continue
    r = m.get("detected_by", {})
    w = (r.get("what") or [r.get("detail", "")])
    rows.append((os.path.basename(d), r.get("outcome", "not-run"), (w[0] if w else "").replace("|", "/")))
with open(S + "/MATRIX.md", "w") as f:
    f.write("# Seeded changes against the quick checks\n\n| seed | outcome | what the check said |\n|---|---|---|\n")
    for r in rows:
        f.write("| %s | %s | %s |\n" % r)
import collections
print(collections.Counter(r[1] for r in rows))
