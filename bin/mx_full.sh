#!/bin/bash
# usage: bin/mx_full.sh — the whole seed matrix (every stored seeded change against the quick check of its property, thorough when the
# quick one misses) on four scratch copies of /verif and /repo in parallel; /repo itself stays untouched.  Results go to
# seeded/<id>/meta.json; afterwards: python3 bin/mx_table.py rebuilds seeded/MATRIX.md from them.
export GOFLAGS=-mod=mod GOPROXY=off GOSUMDB=off
groups=("C01 C05 C13 C17" "C02 C06 C10 C14" "C03 C07 C11 C15" "C04 C08 C12 C16" "C09 C18 C19 C20")
i=0
for g in "${groups[@]}"; do
  d=/tmp/mxf$i; i=$((i+1))
  (
    rm -rf $d; mkdir -p $d/verif/replays
    rsync -a --delete --exclude .git --exclude seeded --exclude replays /verif/ $d/verif/
    mkdir -p $d/verif/replays
    git clone -q /repo $d/repo
    cd $d/verif && VERIF_ROOT=$d/verif VERIF_REPO=$d/repo VERIF_SEEDS=/verif/seeded MX_NO_TABLE=1 python3 $d/verif/bin/seed_matrix.py $g > $d/matrix.log 2>&1
    echo "group $g done" >> $d/matrix.log
  ) &
done
wait
