#!/usr/bin/env python3
"""writes /verif/MANIFEST.json from the table below (kept in one place so it stays valid)"""
import json

TRUST = ("Lean 4.33.0 kernel; axioms within {propext, Classical.choice, Quot.sound} (audited by #print axioms on every run); "
         "the Lean model is tied to /repo by tools/gofacts (regenerated Gen/*) and/or by the correspondence harness "
         "(differential run of the real code and the model's executable definitions); see DESIGN.md section 3")

CHECKS = {
    "C19": dict(
        text="Kernel-checked refinement: for every history of notify/submit/HasJob/GetLatestJob (any length, ids, times) the "
             "validator's bounded job cache behaves exactly like an unbounded announcement log consulted through its last 30 "
             "entries; plus clause theorems (recent+unexpired => checked against that announcement, expiry set once by the first "
             "clean notify and never changed, duplicate iff same 20-byte key, key injective on well-formed submits). Tied to the "
             "code by regenerating JOB_CACHE_SIZE and by running the real Validator/BoundStackMap/SerializeShare under virtual "
             "time against the model and the specification on seeded histories.",
        technique="Lean 4 refinement proof (bounded cache refines unbounded log) + differential correspondence under synctest virtual time",
        design="5/C19", engine="validator"),
}

CHECKS["C10"] = dict(
    text="Kernel-checked theorems over the *regenerated* tolerance function (100% in the skip period, >= threshold, <= 100%, "
         "antitone in elapsed, for all durations/thresholds), over a model of the validation step (non-ok verdict iff started and "
         "(ended or silence > share timeout or under target by more than the tolerance); over-delivery, grace period, end of contract "
         "never a delivery fault) and over the close/retry loop (reason matches cause over the regenerated errors.Is chain, k failures "
         "=> k+1 transactions with the same reason, closed-first => no transaction). The real GetMaxGlobalError and the real "
         "checkIncomingHashrate (virtual time) are run against the definitions on boundary grids and seeded inputs; the real "
         "ControllerBuyer.Run with its watcher and the real Ethereum store runs against a fake node that takes, refuses, reverts and "
         "mines transactions, and the transactions it sent are judged against the model's close loop and the property's clauses "
         "(nothing without a fault, the verdict's reason, retry until success, none after success, no giving up, the loop ends once "
         "somebody else has closed the contract).",
    technique="Lean 4 proofs over Go->Lean translated definitions (Rat) + differential correspondence + trace monitor over the real buyer controller against a fake Ethereum node under synctest",
    design="5/C10", engine="contract")

CHECKS["C20"] = dict(
    text="Kernel-checked theorems over the *regenerated* conversions of hashrate.go: exact mutual inverses in Q (all inputs, all "
         "non-zero durations), truncation bounds of the integer GH/s conversion, and a rounding theorem (any rounding function with "
         "relative error u after every float operation: round trip off by at most (1+u)^4-1 < 6u); over models of the estimators: "
         "the mean is total work over elapsed seconds and is defined and non-negative for the one-second interval the API uses, the "
         "EMA stays within [0, sum of adds] for every ordered history and any decay in [0,1], the SMA sum invariant and "
         "non-negativity. Real functions and estimators run against these under virtual time.",
    technique="Lean 4 proofs over Go->Lean translated definitions (exact and rounded) + estimator models + differential correspondence",
    design="5/C20", engine="hashrate")

CHECKS["C11"] = dict(
    text="Kernel-checked theorems over a model of the allocator loops, for any item order and any population: whole-miner "
         "allocation hands out only eligible free miners at their own rate, sum <= request, each rate fits what was missing, "
         "remainder = request - sum, no miner twice; partial allocation: every chunk >= minimum, within the miner's spare capacity "
         "for the remaining time, total <= request, no miner twice, nothing with zero time left. The real Allocator over real "
         "Schedulers (fake proxies) is run against the model and against the clauses (incl. a miner that starts disconnecting "
         "while tasks are handed out).",
    technique="Lean 4 proofs by induction over the allocation loops + differential correspondence",
    design="5/C11", engine="allocator")

CHECKS["C07"] = dict(
    text="Kernel-checked theorems about a model of Scheduler.Run/mainLoop/taskLoop + TaskList run to quiescence after every "
         "event, for every event history: every reachable state is well-formed and quiescent (parked on the primary destination "
         "with an empty queue, or serving the head of the queue, which is neither finished, removed nor expired); the queue stays "
         "in arrival order and nothing enters it except through add; after remove(contract) no task of the contract is left and "
         "none is pointed at, and the contract does not come back without a new add; on disconnect every queued task gets its end "
         "and disconnect callbacks; end reasons match causes; reported size = queue length. The model is compared op by op with "
         "the real Scheduler/TaskList under virtual time (fake proxy below the StratumProxyInterface seam).",
    technique="Lean 4 invariant proofs over a run-to-quiescence model + differential correspondence under synctest virtual time",
    design="5/C07", engine="allocator")

CHECKS["C12"] = dict(
    text="Kernel-checked inductive invariant of a transition system whose steps are the atomic operations of lib.Task (any number "
         "of concurrent Start/Stop calls, unbounded restarts), giving for every reachable state: no double close and never two "
         "concurrent runs; completion only if the function returned on its own or the parent ended (and a Stop-induced return "
         "does not complete); once a generation's stop channel is closed its goroutine is gone and anything alive is a later "
         "generation; the running flag is set iff somebody is responsible for it, so a Start after a completed Stop-wait runs the "
         "function again; whoever must close a cancelled generation's stop channel can always step (rank decreases: no waiter "
         "blocked). The code is tied to the model by verif points: a controller replays seeded interleavings step by step on the "
         "real Task and the model, and a monitor judges the real trace; plus an uncontrolled stress.",
    technique="Lean 4 inductive invariant over an interleaving transition system + schedule-controlled correspondence through verif points",
    design="5/C12", engine="lib")

CHECKS["C17"] = dict(
    text="Kernel-checked theorems over a model of the credential functions for all byte strings and URL user-infos: the account "
         "part and the password (value and presence) of the destination are always kept, the worker suffix is appended exactly "
         "when propagation is on, the destination is not lightning-style (no @ in user, no pplp in host), the miner name is not a "
         "hex address and has a suffix; both code paths of the authorize handler agree; contract hashrate carries exactly the "
         "contract address; copying/adjusting a URL changes nothing else. The real functions (lib, proxy, seller watcher) are "
         "compared with the model on generated names x URLs, and the names the pools actually see are judged on the wire: shares "
         "forwarded in real proxy sessions (session monitor) and the authorize of real handshakes incl. contract connections "
         "(compared with the handshake model, whose credentials are this model's).",
    technique="Lean 4 proofs over a functional model + differential correspondence of the real functions + session / handshake harnesses judging the names on the wire",
    design="5/C17", engine="proxy")

CHECKS["C18"] = dict(
    text="Kernel-checked non-interference of the *regenerated* GetSanitized (two configurations differing only in wallet key, "
         "mnemonic and node URL have the same sanitised form; decided over the regenerated assignment list for the whole field "
         "table and lifted to all configurations), AST facts on where the whole configuration value flows (loader; HTTP handler "
         "behind an interface whose only method is GetSanitized; the start-up print uses GetSanitized), and fail-closed theorems "
         "for the decryption glue with the primitive as a parameter (a destination only if decryption and parsing both succeeded, "
         "and then exactly that one; rejected ciphertext => error and no destination; round trip under an inverting primitive). "
         "Partial: the cryptographic strength of ECIES is assumed and only sampled (all truncations / single-byte corruptions).",
    technique="Lean 4 proof over Go->Lean regenerated assignments (decide over the field table + lifting lemma) + glue model with the primitive as parameter + differential correspondence",
    design="5/C18", engine="config")

SESSION_TIE = ("The model (Model/Session.lean: setDest, destination cache and eviction, submit path with fallback, crediting, "
               "notification relay, re-announcement) is compared op by op with a real Proxy (Connect+Run, SetDest) running between a "
               "fake miner and fake pools under virtual time, and a monitor re-judges the implementation's own trace against the "
               "specification reconstructed from what the pools and the miner did.")

CHECKS["C02"] = dict(
    text="Kernel-checked per-event theorems over the session model, for every session state (so every history of switches, "
         "notifications and submits) and every proof-of-work oracle: a submit is forwarded to at most one pool connection and "
         "answered by exactly one reply with its id; the reply says accepted iff the active destination's job memory accepts the "
         "share or (job unknown / too low there) a cached destination's does; an accepted share goes to a destination that knows "
         "the job and whose job memory accepted it; the forwarded share carries the user name authorised on that connection. "
         + SESSION_TIE,
    technique="Lean 4 per-event theorems over a session model + differential correspondence with the real Proxy under synctest virtual time + trace monitor",
    design="5/C02", engine="proxy")

CHECKS["C03"] = dict(
    text="Kernel-checked per-event theorems over the session model: whatever a parked destination sends writes nothing to the "
         "miner; each notification of the active destination reaches the miner as exactly one unaltered message; a job is recorded "
         "with the difficulty and extranonce in force at its arrival and later changes do not touch it; a successful switch writes "
         "to the miner exactly version mask, extranonce, difficulty, clean-jobs notify of the new destination's latest job, followed "
         "by the destination's current extranonce / difficulty exactly when they differ from the job's; a switch to the current "
         "destination and a failed switch write nothing to the miner. " + SESSION_TIE +
         " The monitor checks at every job notification that the values last delivered to the miner are the issuing pool's.",
    technique="Lean 4 per-event theorems over a session model + differential correspondence with the real Proxy under synctest virtual time + trace monitor",
    design="5/C03", engine="proxy")

CHECKS["C04"] = dict(
    text="Kernel-checked per-event theorems over the session model: an accepted share adds the credited difficulty exactly once "
         "to the miner total and once to the worker total and counts one share, a refused share adds nothing; the task callback "
         "fires exactly for accepted shares forwarded to the destination the miner is assigned to, with the same amount; the amount "
         "is the difficulty captured with the job the share solves; each (we accepted?, pool rejected?) combination increments "
         "exactly its cell for the miner and for the destination the share went to; a successful switch (also to the current "
         "destination) installs exactly the callback it was given. " + SESSION_TIE,
    technique="Lean 4 per-event theorems over a session model + differential correspondence with the real Proxy under synctest virtual time + trace monitor",
    design="5/C04", engine="proxy")

CHECKS["C01"] = dict(
    text="Kernel-checked theorems, for every hash function, job, extranonce, submit and difficulty: on well-formed input the "
         "bytes the Go function hashes (model assembled from tables *regenerated* from ValidateDiffFloat's statements) are exactly "
         "the 80-byte Bitcoin header version|prevhash|merkle root|ntime|nbits|nonce with the merkle root folded over the branches "
         "from coinb1|extranonce1|extranonce2|coinb2; the function reports floor(D1/hash) and answers 'meets' iff d*hash <= D1 for "
         "the exact (possibly fractional) job difficulty d, never for NaN/Inf; for integer d this is share difficulty >= d (so the "
         "boundary is accepted and boundary+1 refused); only mask-permitted version bits come from the miner; worker name, job id "
         "text and out-of-mask bits do not influence the verdict; a 5-parameter submit equals a 6-parameter one repeating the job "
         "version inside the mask. The real ValidateDiffFloat/ValidateDiff run in-process against the model executed with a Lean "
         "SHA-256 and against the specification (monitor), on real and mined shares at integer boundaries, seeded jobs with "
         "difficulties aimed at the share's own difficulty to one ulp, and a malformed stream.",
    technique="Lean 4 proofs over a model assembled from Go->Lean regenerated tables (header layout, version mix, constants) + differential correspondence incl. Lean SHA-256 + specification monitor",
    design="5/C01", engine="validator")

CHECKS["C14"] = dict(
    text="Kernel-checked invariants over a byte-level model of StratumConnection.Read/Write, for every stream, segmentation, "
         "interleaving of arrivals / Read calls / cancellations (interrupting ReadBytes after any number of collected bytes) and "
         "every line classifier: lines consumed ++ saved fragment ++ unread bytes = bytes sent (nothing lost, duplicated or "
         "reordered); the consumed lines are exactly the first lines of the stream and the returned messages exactly the known-method "
         "ones among them, in order (unknown ones skipped without touching their neighbours); a Read blocks only when no complete line "
         "is left. Write side, for every sequence of writes each cut at any byte: the wire is the complete lines of the successful "
         "writes in order followed by at most one fragment, after which the connection is closed and no write adds a byte. A real "
         "StratumConnection over net.Pipe runs against the model under virtual time; concurrent writers are judged on the wire.",
    technique="Lean 4 inductive invariants over a byte-level connection model + differential correspondence under synctest virtual time + wire monitor for concurrent writers",
    design="5/C14", engine="proxy")

CHECKS["C15"] = dict(
    text="Kernel-checked per-event theorems over a model of the initial handshake, for every connection state (so every order "
         "of requests, every timing of pool replies, every interleaved notification): a pending configure / subscribe request is "
         "answered under the same id with the pool's result (mask; extranonce and size) exactly once; subscribe is forwarded to the "
         "connection's own destination; authorize on a subscribed connection is acknowledged exactly once and forwarded with the "
         "credentials Model/Cred computes; authorize on a connection that has not itself subscribed is refused with no "
         "acknowledgement, and 'subscribed' only ever becomes true by that connection's own subscribe; the handshake completes only "
         "on a non-refusing reply under the id of a pending authorize, and a refusal fails it; an unknown contract address is "
         "refused without dialling any pool, a known one is attached to its contract's pool; in a process of many connections an "
         "event changes no other connection and its effect depends on its own connection's state alone. Compared op by op with "
         "1..3 real Proxy.Connect handshakes in one process against manually driven fake pools under virtual time.",
    technique="Lean 4 per-event theorems + non-interference over a handshake model + differential correspondence with real Proxy.Connect (several connections per process) under synctest virtual time",
    design="5/C15", engine="proxy")

CHECKS["C05"] = dict(
    text="Kernel-checked theorems that a message which passes the shape validation (tables *regenerated* from validate.go: "
         "minimum parameter count, hex widths, notify slot kinds; the parameter index of every getter; which types have pointer "
         "params and which Validate refuses nil) cannot make a consumer fault: every getter reads an existing parameter; the "
         "fixed-width slices of the duplicate key are in range; the header assembly of the operation-by-operation ValidateDiffFloat "
         "model (parameter indices, 4-byte word swap, 32-bit reads of version / bits / mask) succeeds for every hash function; the "
         "set_extranonce / subscribe-result type assertions hold; and only validated messages leave the (modelled) parser. Every "
         "hostile line runs through the real parser (verdict recomputed from its JSON shape by Model/Parse.lean) and, in six phases "
         "(first line, mid-handshake from miner / pool, mining from miner / active pool / parked pool), through a real Proxy beside a "
         "second connection: a panic anywhere kills the process and is the violation. Partial: process liveness is observed, not "
         "proved; runtime faults outside the modelled code (unbounded line length) are not exhibited.",
    technique="Lean 4 proofs over Go->Lean regenerated validation tables + C01's operation-level model (no fault under the guards) + exhaustive hostile-line enumeration through the real parser and real sessions with crash detection",
    design="5/C05", engine="proxy")

LIFE_TIE = ("A real Scheduler over a real Proxy runs between a fake miner and fake pools under virtual time with pool-side closes, "
            "unreachable / not authorising pools, contract tasks, miner hang-up and shutdown; the regular fragment is compared op by op "
            "with the model, the random stream (tasks and faults in any order) is judged by a trace monitor; a history that never "
            "quiesces, crashes the process or leaves goroutines behind is a violation.")

CHECKS["C06"] = dict(
    text="Kernel-checked theorems over a model of the reconnect path (on top of the session model), for every session state: nothing is "
         "dialled before the reconnect delay has passed; when it is due either exactly one replacement connection is dialled and the "
         "session relays again, or the session is over, the miner's connection is closed and no pool connection is left - never more "
         "than one dial; without a failure of the active connection nothing is ever dialled (no storm); a failure of a parked "
         "connection does not stop the relay; a miner that hung up during the wait is noticed at the reconnect and the replacement "
         "dialled for it is closed again. " + LIFE_TIE + " Partial: stalls and resets are represented by closes; faults at every "
         "handshake step are covered by C15's harness, not here.",
    technique="Lean 4 per-event theorems over a reconnect model + differential correspondence with the real Scheduler+Proxy under synctest virtual time (regular fragment) + trace monitor (random stream)",
    design="5/C06", engine="allocator")

CHECKS["C13"] = dict(
    text="Kernel-checked theorems: a destination switch (to a new, cached or the current destination, successful or not) leaves at most "
         "max(maxCached,1) destination connections, and no other event changes their number (eviction removes the entry with the "
         "earliest idle deadline, which is proved to be an entry of the cache); however a session ends - miner hang-up, shutdown, "
         "failed reconnect - every pool connection it holds is closed and none is left; once released no event dials or reopens "
         "anything. " + LIFE_TIE + " The monitor checks at every quiescence point: at most one Proxy.Run and one Pipe.Run goroutine, open "
         "pool connections within the configured maximum, and after the end nothing open, nothing running, the miner not listed, every "
         "queued task told. Partial: the TCP handler's steps around the scheduler are replayed by the harness; the 10-minute default "
         "idle time is not waited for.",
    technique="Lean 4 invariant proofs (cache bound, release) over the session / lifecycle models + differential correspondence and trace monitor on the real Scheduler+Proxy under synctest virtual time with goroutine-leak detection",
    design="5/C13", engine="allocator")

CHECKS["C16"] = dict(
    text="Kernel-checked theorems over a model of ContractManager, for every chain state and event: after start-up or a restart the "
         "node watches exactly the contracts it sells plus those currently purchased with its wallet as buyer or validator (from every "
         "chain state it may be started in); a purchase with its wallet as buyer or validator is picked up without a restart - also of a "
         "contract that was watched, ended and was released; a purchase by others, a close and the delete flag leave the watched set "
         "alone; a returning controller releases its own contract and only that. The corner that does not hold is a theorem too (a "
         "re-purchase handled before the ended purchase's controller has returned is lost) and is replayed on the real code as a known "
         "finding. The real ContractManager over the real HashrateEthereum store runs against a faked Ethereum node (eth_call by ABI, "
         "log subscriptions) and is compared op by op with the model; the settled state is compared with the specification.",
    technique="Lean 4 per-event theorems + start-up characterisation over a manager model (counterexample theorem for the known finding) + differential correspondence with the real ContractManager/HashrateEthereum over a fake Ethereum client under synctest",
    design="5/C16", engine="contractmanager")

CHECKS["C08"] = dict(
    text="Kernel-checked theorems over a model of the seller controller and the watcher's start / stop / expiry, for every controller "
         "state, chain state and instant: miners are allocated only while the held terms say purchased, not over and with a "
         "destination (invariant: a running watcher has a destination); a close stops the fulfilment at once and expiry stops it; a "
         "purchase or destination update whose payload is empty or does not decrypt starts nothing, stops a running fulfilment and sets "
         "the error (no payload stops the node: the handlers are total); a live contract is engaged from the purchase on, re-engaged "
         "after close and re-purchase, and resumed by a node started at any point of its life, while a contract that is not live is not "
         "started; a destination update to another valid pool is followed. The real ContractFactory / ControllerSeller / watcher / "
         "Allocator / Schedulers run over a faked Ethereum node and fake miners with really encrypted destinations: the controller "
         "lines are compared op by op with the model and the miners' destinations are judged against the chain truth.",
    technique="Lean 4 per-event theorems + invariant over a seller-controller model + differential correspondence with the real controller/watcher/allocator over a fake Ethereum client and fake miners under synctest + trace monitor on miner destinations",
    design="5/C08", engine="contract")

CHECKS["C09"] = dict(
    text="Kernel-checked theorems over a model of the seller watcher's cycle accounting (onCycleEnd / adjustHashrate / replaceMiner / "
         "the 10 s tick), with the allocator as a parameter: the books are exact for every history of cycles (cumulative shortfall = "
         "rate x cycles - delivered), the next request asks for exactly what is owed beyond the full miners, with an allocator that can "
         "arrange what is asked an undisturbed cycle delivers the rate and what one cycle lost is delivered on top in the next one (never "
         "behind by more than that cycle's loss, never ahead), what a leaving miner owed is put back into the request and, if it could "
         "not be arranged on the spot, stays requested and is retried by the tick. Partial: what the real allocator can arrange for a "
         "given fleet is not proved but observed - the real factory / controller / watcher / Allocator / Schedulers run closed-loop over "
         "fake miners in virtual time on many-small / few-large / mixed / busy fleets with miners leaving (by role: full, partial, free) "
         "and joining; the work that really reached the destination is judged against rate x elapsed +- one cycle's worth, a leaving "
         "miner must be replaced within 25 s when a free miner large enough is connected, and the watcher's own books (every delivery "
         "log entry, the request after every disconnect, booked vs delivered work, the cycle clock) are compared with the model. The "
         "fleet the allocator cannot serve (no miner large enough for a minimum job in a cycle, rate below the full-miner threshold) is a "
         "theorem too and a known finding.",
    technique="Lean 4 induction/refinement theorems over a cycle-accounting model with the allocator as parameter (counterexample theorem for the known finding) + regenerated source facts (thresholds, statement skeletons) + closed-loop differential correspondence with the real watcher/allocator/schedulers over fake miners under synctest + trace monitor on delivered work",
    design="5/C09", engine="contract")

# what later rounds added to the checks (appended to the texts above)
EXTRA = {
    "C01": "Which announcement's difficulty / extranonce a share is judged by (\"in force when that job was announced\") is checked too: "
           "the validator harness of C19 (every announcement with its own difficulty, the verdict names the job it used) runs under this check and is judged by Spec/C19. Pools may grant a narrower version mask than the miner asked for; the verdict of every submit of whole sessions is judged as well (the share must satisfy the mask the pool granted). Job ids that need a JSON escape on the wire are announced too (the miner names the decoded id).",
    "C02": "Proof of work is real in the sessions: the fake miner mines shares (difficulties of 1..3 units of 2^-16) against what the pools announced, every submit "
           "carries the share's difficulty against every job data it could be hashed with (measured by the harness's own SHA-256), and model and monitor decide from that table. The lifecycle harness (real TCP handler) adds histories in which the pool of a contract task fails and is re-dialled before and after the switch (after_reconnect). The job-memory harness of C19 (announcements, time, submits — among them the same share spelled with capital hex digits) runs here as well and is judged by Spec/C19: accepted exactly when the job is known, unexpired and the share is not a repeat.",
    "C03": "Sessions run with really mined shares (see C02). Regenerated on every run: when setDest skips a change as \"the same destination\" (the whole url) and the order in which it stops the readers, re-sends to the miner and starts the relay (source_setDest_shape, resend_happens_with_readers_stopped). The connection read cases with a cancellation at the instant bytes arrive run here too (a pool message must not be consumed and dropped while a reader is being stopped).",
    "C04": "Ledger amounts are non-zero: accepted shares are really mined at fractional pool difficulties (see C02), so miner, worker-name, destination and task credit are compared in value, not only in count. Task credit is also followed across a reconnect of the task's destination (lifecycle harness, after_reconnect). The task's side of the credit is followed in the scheduler as well (C07's harness with slow destination changes and destination errors runs here: credits, what a task had left when it ended, crashes).",
    "C05": "Besides single hostile lines: every sequence of up to four well-formed requests (configure / subscribe / authorize / submit, a subscribe answered late) in arbitrary protocol order, next to a well-behaved connection. The random sessions of well-formed events (C02-C04) are run under this check for crashes; a crash replay names the op being executed. Whole lifecycles through the real TCP handler (contract tasks, pool failures, failed reconnects, the relay started again, shares afterwards) run here for crashes; a line that announces a job is followed by a share with version bits for that job; shares from a mining miner and announcements from the active pool are never thinned out.",
    "C06": "What virtual time cannot exhibit runs against the wall clock: a destination change still in its handshake when the reconnect wait of a failed pool ends (four timings in parallel, judged by monitorRT; a complaint counts only if it repeats). Regenerated on every run: Proxy.Run stops the left-over pipe and builds a fresh one on every start, and the session reconnects to its own copy of the configured destination (source_run_renews_its_pipe, source_session_owns_its_destination). Two sessions side by side through one real TCP handler, the earlier one's pool connection breaks: the replacement is authorised for the same destination and the same miner.",
    "C07": "A second, finer model (Model/SchedSlow.lean: the goroutine's position explicit, newTaskSignal as a one-token channel) covers destination changes that take time: add / remove / share / time arrive "
           "while the scheduler is inside SetDest. Theorems for every history of events and releases: every reachable state is well-formed, a SetDest is entered only for a live queued task, a removed contract is never "
           "pointed at again (also when the removal arrives mid-change), the proxy's answer installs the destination and callback that were asked for. The real Scheduler runs over a proxy whose SetDest blocks until released and is compared op by op. A crash of the scheduler (or of a callback it handed to the proxy) is a violation with the history as replay; regenerated: the disconnecting flag is raised first, tasks or not. A miner whose session is over and that is still listed (the real onDisconnect, then allocation calls of the real Allocator) receives no task.",
    "C08": "Terms updates (purchaseInfoUpdated; new terms of a running contract wait for its close), events without a handler and node failures (a refused eth_call under every event) are ops of model, driver and harness; "
           "history-level theorems (history_inv, history_allocates_only_live over every event list, restart point and chain answer), repurchase_under_new_terms, terms_update_while_running, rpc_failure_is_harmless; the monitor also requires the speed and length of the purchase. The stopping watcher against a handler that waited for it is modelled as two threads over the regenerated statement order (restart_after_done_is_clean for every interleaving). Purchases whose block time stamp runs ahead of the node's clock; which contracts are engaged at all (the contract-manager histories with delisted contracts, restarts and refused calls run here too).",
    "C09": "The monitor also requires that the watcher's account lists every connected miner that is directed to the contract's destination (otherwise it can neither be shed nor released); a seam pauses the scheduler inside the end notification of partial jobs, "
           "and a generator makes the whole miner leave so that the watcher wants whole miners at the instant a partial job ends. Late fleets (the contract is bought with too little hashrate, large miners join later): what earlier cycles fell short must be made up within 4 + 2 lag/(spare x cycle) cycles. Two known findings (the +-1000 GH/s dead band of adjustHashrate on contracts smaller than the band) run as corpus histories with model witnesses small_miners_starve_then_flood and whole_miners_overstay. The partial miners' cut-off is regenerated and modelled (cutoff_makes_up, plain_cutoff_never_makes_up); the seller world's destination-change histories run here too (work must reach the contract's current destination); regenerated: the miner-disconnect channel's Send has no default arm. Two whole miners of a contract leaving at the same instant are both replaced (12 fixed histories).",
    "C13": "Tasks are told of the disconnect only once the miner no longer counts as connected (probe inside the notification). Pools that fail by sending a non-stratum line and keeping the socket open, and peers that are no stratum miners at all (hang up, HTTP, TLS hello), are ops of the lifecycle histories. Regenerated: the scheduler's deferred clean-up is a closure that stops the relay task it started. The miner lost in the middle of a change of destination (it hangs up on the first line of the re-send): the session is torn down completely.",
    "C16": "The assumption that a buyer / validator controller returns once its purchase ended is checked against the real ControllerBuyer (C10's harness runs under this check). Node failures are ops: a refused call during the start-up scan or in a clone-factory event handler must end the manager (so that its supervisor restarts it) and every controller must return. How Run ends is regenerated and modelled (run_returns_on_every_exit over the regenerated call list). The buyer / validator side end to end (real factory and controllers): a purchase with this node as buyer or validator is watched whatever its destination decrypts to and whether or not the first subscription is refused.",
    "C17": "Several miners, one after the other, through one real TCP handler (one configured destination): the name and password the pool is presented with vs Model/Cred on the configured destination. The name presented on a pool connection that replaces a failed one (lifecycle reconnect histories).",
    "C18": "Bad payloads go through the real seller controller (C08's world) and are compared with the fail-closed model; every GET route of the real HTTP engine (built around a configuration loaded from flags / environment with marker secrets) is requested and searched for the markers. The buyer world's fail-closed clause (a destination that cannot be read, decrypted or parsed raises an error and is never silently the default pool); what the node prints when its configuration is refused (every configured value in seven malformed shapes, env and flags) is searched for the secrets.",
    "C10": "The same contract bought again in the same process (a late share of the ended purchase, a pause longer than the share timeout): a share-timeout verdict needs a silence longer than the timeout within that purchase. "
           "The default start-up grace period is checked through the real configuration defaults for a grid of configured cycles. The share record (GlobalHashrate) is modelled (Model/WorkerBook.lean), compared op by op with the real one, and the watcher's Reset-then-Initialize is regenerated: fresh_purchase_starts_clean, purchase_reference. Regenerated: the default of the start-up grace period; what the destination-failure signal leads to.",
    "C11": "The vetting threshold the eligibility test relies on is followed through the real TCP handler (MINER_VETTING_SHARES different from the cache size); the remainder clause also under disconnects in the middle of a call. A miner's measured rate moving between the allocator's snapshot and the hand-out (fullr): the work handed out is no more than the request amounts to. Regenerated wiring of the vetting threshold.",
    "C12": "The read path of a stratum connection is included: a cancellation placed between the start of a Read and the clearing of its deadline (hooked connection) returns the cancellation and takes nothing. The same clauses where the tasks are used: each direction of a Pipe stopped in Read / in Write / inside its interceptor and started again, the handshake's pipeSync ended by a failing handler, a Stop and its parent with a message queued; the schedule monitor also requires completion to be signalled when the function returns on its own (also with an inner operation's context error).",
    "C14": "Read streams contain answers as well (result lines built by the package's constructors, among them result null with an error); a cancellation is also placed inside SetReadDeadline (readx). A cancellation at the instant bytes arrive (hooked Read, sendc; Model.Conn.readCancelled): a completed line is still handed out, otherwise nothing is taken.",
    "C15": "Several connections through one real TCP handler: the account the pool is asked to authorise for a connection is Model/Cred's for the configured destination and that connection's miner name, whatever earlier connections did. Regenerated: each handshake handler registers the answer's callback before it writes the request (answer_finds_its_handler for every interleaving); the per-connection copy of the configured destination. Contract routing from the source of the pool destination: the buyer world (real ContractManager, ContractFactory, ControllerBuyer, store; every role x destination kind x path x fault).",
    "C20": "The mean a running seller contract reports is compared with the work that reached its destination over the time since it started delivering (delivery harness, est lines). The worker record (GlobalHashrate) under several connections of one name against Model/WorkerBook.lean; regenerated: the seller converts the missing rate to work and back over one span.",
    "C19": "The same share spelled with capital hex digits; job ids that need a JSON escape; the connection read cases (an announcement consumed by a Read that was being stopped never reaches the job memory).",
}
for _pid, _add in EXTRA.items():
    CHECKS[_pid]["text"] += " " + _add

NOT_YET = {}

ALL = ["C%02d" % i for i in range(1, 21)]


def main():
    checks = []
    for pid in ALL:
        if pid not in CHECKS:
            continue
        c = CHECKS[pid]
        checks.append({
            "property_id": pid,
            "quick_cmd": "bin/check %s --tier quick" % pid,
            "thorough_cmd": "bin/check %s --tier thorough" % pid,
            "evidence_file": "/verif/evidence/%s.json" % pid,
            "replay_cmd_template": "bin/check %s --replay {path}" % pid,
            "engine": c.get("engine", "lean+harness"),
            "level_claimed": {"category": c.get("category", "proof"), "text": c["text"], "design_ref": "DESIGN.md " + c["design"]},
            "level_note": c.get("note", TRUST),
            "technique": c["technique"],
        })
    na = [{"property_id": p, "reason": NOT_YET.get(p, "check not built yet in this round; no claim is made (technique applies, see DESIGN.md section 5)")}
          for p in ALL if p not in CHECKS]
    m = {
        "version": 1,
        "setup_cmd": "bin/setup",
        "hooks": {
            "guard": "verif",
            "enable": "go test -tags verif -overlay /verif/.build/overlay.json (harness files are overlaid from /verif/harness; hook files in /repo carry //go:build verif)",
            "baseline_off_cmd": "cd /repo && GOFLAGS=-mod=mod go test -json -vet=off -count=1 -timeout 25m ./...",
            "source_commits": HOOK_COMMITS,
            "add_only": True,
        },
        "engines": [
            {"name": "lean", "path": "/verif/lean", "serves_properties": sorted(CHECKS), "kind_free_text": "Lean 4 project PRV: Gen (regenerated), Model, Spec, Proofs, Props, Audit; core-only driver exe prvdrv"},
            {"name": "gofacts", "path": "/verif/tools/gofacts", "serves_properties": sorted(CHECKS), "kind_free_text": "Go AST translator regenerating PRV/Gen/*.lean from /repo on every run"},
            {"name": "harness", "path": "/verif/harness", "serves_properties": sorted(CHECKS), "kind_free_text": "in-package Go test files overlaid onto /repo (go test -c -overlay), virtual time via testing/synctest (go1.26.8)"},
            {"name": "check", "path": "/verif/bin/check", "serves_properties": sorted(CHECKS), "kind_free_text": "python3 runner: regen, prove, audit, build+run harness, compare, decide, evidence"},
        ],
        "checks": checks,
        "not_applicable": na,
        "notes": "Fix commits and known findings are listed in /verif/known_findings.jsonl; DESIGN.md describes approach, trusted base and per-property status.",
    }
    json.dump(m, open("/verif/MANIFEST.json", "w"), indent=1)


HOOK_COMMITS = ["7817c1b", "0a4adbc"]

if __name__ == "__main__":
    main()
