#!/usr/bin/env python3
"""usage: confirm_seed.py <Cxx> <worktree> — confirm every out/<n> of a sub-agent worktree
(change compiles, existing suite passes with it, demo fails with it and passes without) and store it
under /verif/seeded/<Cxx>-<n>/ with meta.json."""
import json, os, re, shutil, subprocess, sys

pid, wt = sys.argv[1], sys.argv[2]
env = dict(os.environ, GOFLAGS="-mod=mod", GOPROXY="off", GOSUMDB="off")


def sh(cmd, cwd=wt, timeout=1500):
    p = subprocess.run(cmd, cwd=cwd, env=env, shell=True, stdout=subprocess.PIPE, stderr=subprocess.STDOUT, timeout=timeout)
    return p.returncode, p.stdout.decode("utf-8", "replace")


def pkg_dir(demo, readme):
    m = re.search(r"^package\s+(\w+)", open(demo).read(), re.M)
    pkg = m.group(1).replace("_test", "")
    cands = re.findall(r"(internal/[A-Za-z0-9_/]+|cmd|test)", open(readme).read())
    for c in cands:
        c = c.rstrip("/")
        d = os.path.join(wt, c)
        if os.path.isdir(d):
            for f in os.listdir(d):
                if f.endswith(".go") and re.search(r"^package\s+%s(_test)?\s*$" % pkg, open(os.path.join(d, f)).read(), re.M):
                    return c
    return None


only = set(sys.argv[3:])
for n in sorted(os.listdir(os.path.join(wt, "out"))):
    if only and n not in only:
        continue
    d = os.path.join(wt, "out", n)
    patch, demo, readme = d + "/patch.diff", d + "/demo_test.go", d + "/README.md"
    if not (os.path.exists(patch) and os.path.exists(demo)):
        continue
    sh("git checkout -- . && git clean -fdq -e out")
    res = {"property": pid, "n": n}
    pdir = pkg_dir(demo, readme)
    res["demo_package_dir"] = pdir
    if not pdir:
        print(pid, n, "cannot find demo package dir"); continue
    rc, out = sh("git apply %s" % patch)
    res["applies"] = rc == 0
    rc, out = sh("go build ./...")
    res["builds_with_change"] = rc == 0
    rc, out = sh("go test -vet=off -count=1 ./internal/... 2>&1 | grep -v '^ok\\|no test files' | head -40")
    fails = [l for l in out.split("\n") if l.startswith("--- FAIL") or l.startswith("FAIL")]
    touches_lock = "internal/lib/lock" in open(patch).read() or "internal/lib/mutex" in open(patch).read()
    nonbaseline = [l for l in fails if not (("TestMutex" in l) and not touches_lock) and not re.match(r"FAIL\s+github.com/Lumerin-protocol/proxy-router/internal/lib\b", l) and l.strip() != "FAIL"]
    # timing tests of internal/lib (TestMutex*) are load-sensitive in this sandbox; when they are the only failures
    # of that package and the patch does not touch the lock code they are not counted
    if any(re.match(r"FAIL\s+github.com/Lumerin-protocol/proxy-router/internal/lib\b", l) for l in fails) and any(
            l.startswith("--- FAIL") and "TestMutex" not in l and "internal/lib" not in l for l in fails if l.startswith("--- FAIL")):
        pass
    res["suite_passes_with_change"] = not nonbaseline
    res["suite_fail_lines"] = fails[:6]
    target = os.path.join(wt, pdir, "zz_demo_seed_test.go")
    shutil.copy(demo, target)
    tests = re.findall(r"^func (Test\w+)\(", open(demo).read(), re.M)
    runre = "^(%s)$" % "|".join(tests)
    demogo = os.environ.get("DEMO_GO", "go")
    mdg = re.search(r"^\W*DEMO_GO:\s*`?([^`\n]+?)`?\s*$", open(readme).read(), re.M) if os.path.exists(readme) else None
    if mdg:
        demogo = mdg.group(1).strip()   # e.g. "GOTOOLCHAIN=local GODEBUG=asynctimerchan=0 go1.26.8" for synctest demos
    rc1, out1 = sh("%s test -vet=off -count=1 -run '%s' ./%s/" % (demogo, runre, pdir))
    res["demo_fails_with_change"] = rc1 != 0
    sh("git apply -R %s" % patch)
    rc2, out2 = sh("%s test -vet=off -count=1 -run '%s' ./%s/" % (demogo, runre, pdir))
    res["demo_passes_without_change"] = rc2 == 0
    os.remove(target)
    sh("git checkout -- . && git clean -fdq -e out")
    res["confirmed"] = all([res["applies"], res["builds_with_change"], res["suite_passes_with_change"], res["demo_fails_with_change"], res["demo_passes_without_change"]])
    res["ran"] = ["git apply patch.diff", "go build ./...", "go test -vet=off -count=1 ./internal/...", "%s test -run '%s' ./%s/ (with and without the change)" % (demogo, runre, pdir)]
    print(json.dumps(res))
    if res["confirmed"]:
        dst = "/verif/seeded/%s-%s" % (pid, n)
        os.makedirs(dst, exist_ok=True)
        shutil.copy(patch, dst + "/patch.diff")
        shutil.copy(demo, dst + "/demo_test.go")
        shutil.copy(readme, dst + "/README.md")
        meta = {"property": pid, "breaks": "see README.md", "needs": "see README.md", "demo_package_dir": pdir,
                "confirmed_by": res["ran"], "confirmation": res, "detected_by": None}
        json.dump(meta, open(dst + "/meta.json", "w"), indent=1)
