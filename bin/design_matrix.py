#!/usr/bin/env python3
"""rewrite the seeded-change summary table of DESIGN.md (between the MATRIX-SUMMARY markers) from seeded/*/meta.json"""
import glob, json, os, re

VERIF = "/verif"
rows = {}
for d in sorted(glob.glob(VERIF + "/seeded/C*-*")):
    sid = os.path.basename(d)
    pid, n = sid.split("-")
    m = json.load(open(d + "/meta.json"))
    if m.get("status") in ("obsolete", "benign"):
        cell = m["status"]
    else:
        db = m.get("detected_by", {})
        o = db.get("outcome", "?")
        cell = {"detected": "quick", "detected-thorough": "thorough", "missed": "**missed**"}.get(o, o)
        if db.get("no_failing_input"):
            cell += " (tie only)"
    rows.setdefault(pid, {})[n] = cell
cols = sorted({n for r in rows.values() for n in r}, key=int)
lines = ["| property | " + " | ".join("change %s" % n for n in cols) + " |", "|---|" + "---|" * len(cols)]
tot = det = 0
for pid in sorted(rows):
    r = rows[pid]
    lines.append("| %s | " % pid + " | ".join(r.get(n, "-") for n in cols) + " |")
    for c in r.values():
        if c in ("obsolete", "benign"):
            continue
        tot += 1
        det += not c.startswith("**missed")
lines.append("")
lines.append("%d of the %d live changes are detected (\"quick\" / \"thorough\" = the tier that reports it, with a concrete failing input unless marked *tie only*)." % (det, tot))
p = VERIF + "/DESIGN.md"
s = open(p).read()
block = "<!-- MATRIX-SUMMARY -->\n" + "\n".join(lines) + "\n<!-- /MATRIX-SUMMARY -->"
if "<!-- /MATRIX-SUMMARY -->" in s:
    s = re.sub(r"<!-- MATRIX-SUMMARY -->.*?<!-- /MATRIX-SUMMARY -->", lambda m: block, s, flags=re.S)
else:
    s = s.replace("<!-- MATRIX-SUMMARY -->", block)
s = re.sub(r"and \d+ of \d+ live seeded changes detected", "and %d of %d live seeded changes detected" % (det, tot), s)
open(p, "w").write(s)
print(det, tot)
