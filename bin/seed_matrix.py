#!/usr/bin/env python3
"""usage: seed_matrix.py [Cxx ...] — apply every stored seeded change (patch_current.diff when present) to /repo, run the quick
check of its property, undo, and record the outcome in seeded/<id>/meta.json (detected_by) and seeded/MATRIX.md"""
import glob, json, os, re, subprocess, sys

VERIF, REPO = os.environ.get("VERIF_ROOT", "/verif"), os.environ.get("VERIF_REPO", "/repo")
want = set(sys.argv[1:])
rows = []
SEEDS = os.environ.get("VERIF_SEEDS", VERIF + "/seeded")   # where the seeds live (and where meta.json / MATRIX.md are written)
ONLY = set(os.environ.get("VERIF_ONLY", "").split())      # e.g. "C01-4 C01-5"
for d in sorted(glob.glob(SEEDS + "/C*-*")):
    sid = os.path.basename(d)
    pid = sid.split("-")[0]
    if want and pid not in want:
        continue
    if ONLY and sid not in ONLY:
        continue
    patch = d + "/patch_current.diff" if os.path.exists(d + "/patch_current.diff") and os.path.getsize(d + "/patch_current.diff") > 0 else d + "/patch.diff"
    meta = json.load(open(d + "/meta.json")) if os.path.exists(d + "/meta.json") else {}
    if meta.get("status") in ("obsolete", "benign"):
        rows.append((sid, meta["status"], meta.get("status_note", "")))
        print(sid, meta["status"], flush=True)
        continue
    if subprocess.run("git status --porcelain", cwd=REPO, shell=True, capture_output=True, text=True).stdout.strip():
        print("repo not clean"); sys.exit(2)
    ap = subprocess.run(["git", "apply", patch], cwd=REPO, capture_output=True, text=True)
    if ap.returncode != 0:
        res = {"outcome": "does-not-apply", "detail": ap.stderr.strip()[:200]}
    else:
        b = subprocess.run("go build ./...", cwd=REPO, shell=True, capture_output=True, text=True, env=dict(os.environ, GOFLAGS="-mod=mod", GOPROXY="off", GOSUMDB="off"))
        if b.returncode != 0:
            res = {"outcome": "does-not-compile-at-head", "detail": (b.stderr or b.stdout).strip()[:200]}
        else:
            r = subprocess.run([VERIF + "/bin/check", pid, "--tier", "quick"], cwd=VERIF, capture_output=True, text=True)
            out = r.stdout + r.stderr
            vio = [l for l in out.split("\n") if l.startswith("VIOLATION")]
            why = [l for l in out.split("\n") if l.startswith("# ")]
            res = {"outcome": "detected" if r.returncode == 1 and vio else ("missed" if r.returncode == 0 else "check-error"),
                   "violation_lines": vio[:3], "what": [w[:260] for w in why[:3]], "no_failing_input": any("no-failing-input-found" in v for v in vio)}
            if res["outcome"] == "missed":
                # the quick tier explores less: try the thorough one before calling it missed
                r = subprocess.run([VERIF + "/bin/check", pid, "--tier", "thorough"], cwd=VERIF, capture_output=True, text=True)
                out = r.stdout + r.stderr
                vio = [l for l in out.split("\n") if l.startswith("VIOLATION")]
                why = [l for l in out.split("\n") if l.startswith("# ")]
                if r.returncode == 1 and vio:
                    res = {"outcome": "detected-thorough", "violation_lines": vio[:3], "what": [w[:260] for w in why[:3]],
                           "no_failing_input": any("no-failing-input-found" in v for v in vio)}
    subprocess.run("git checkout -- . && git clean -fdq", cwd=REPO, shell=True)
    meta["detected_by"] = {"check": "bin/check %s --tier quick" % pid, "patch": os.path.basename(patch), **res}
    json.dump(meta, open(d + "/meta.json", "w"), indent=1)
    rows.append((sid, res["outcome"], (res.get("what") or [res.get("detail", "")])[0] if (res.get("what") or res.get("detail")) else ""))
    print(sid, res["outcome"], flush=True)
for f in glob.glob(VERIF + "/replays/*.json"):
    os.remove(f)
if os.environ.get("MX_NO_TABLE"):
    sys.exit(0)   # several of these run in parallel: bin/mx_table.py writes the table from the meta.json files afterwards
# the matrix keeps rows of properties not re-run
old = {}
mp = SEEDS + "/MATRIX.md"
if os.path.exists(mp):
    for l in open(mp):
        m = re.match(r"\| (C\d\d-\d) \| ([a-z-]+) \| (.*) \|$", l.rstrip())
        if m:
            old[m.group(1)] = (m.group(2), m.group(3))
for sid, o, w in rows:
    old[sid] = (o, w.replace("|", "/"))
with open(mp, "w") as f:
    f.write("# Seeded changes against the quick checks\n\n| seed | outcome | what the check said |\n|---|---|---|\n")
    for sid in sorted(old):
        f.write("| %s | %s | %s |\n" % (sid, old[sid][0], old[sid][1]))
