#!/usr/bin/env python3
import os, sys
sys.path.insert(0, os.path.dirname(os.path.abspath(__file__)))
import prvlib as L
ov = L.write_overlay()
pkgs = sorted({"./" + p + "/" for d, p in L.HARNESS_PKGS.items() if d != "vh" and os.path.isdir(L.VERIF + "/harness/" + d)})
rc, out = L.sh([L.GO, "test", "-c", "-tags", "verif", "-vet=off", "-overlay", ov, "-o", "/dev/null"] + pkgs[:1], cwd=L.REPO, env=L.go_env())
for p in pkgs:
    rc, out = L.sh([L.GO, "test", "-c", "-tags", "verif", "-vet=off", "-overlay", ov, "-o", L.BUILD + "/warm.test", p], cwd=L.REPO, env=L.go_env())
    print("warm", p, rc, out[-200:] if rc else "")
try:
    os.remove(L.BUILD + "/warm.test")
except OSError:
    pass
