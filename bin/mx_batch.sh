#!/bin/bash
# usage: bin/mx_batch.sh Cxx [Cxx ...] — confirm the sub-agents' new changes of these properties (worktrees under /tmp/seedw), store them
# under /verif/seeded, and run the seed matrix for them on a scratch copy of /verif and /repo (so /repo itself stays untouched)
export GOFLAGS=-mod=mod GOPROXY=off GOSUMDB=off
mkdir -p ${MXDIR:-/tmp/mx}/log
if [ -z "$SKIP_CONFIRM" ]; then
for p in "$@"; do
  ( python3 /verif/bin/confirm_seed.py $p /tmp/seedw/$p > ${MXDIR:-/tmp/mx}/log/confirm-$p.log 2>&1 ) &
  while [ $(jobs -r | wc -l) -ge 4 ]; do sleep 2; done
done
wait
fi
only=""
for p in "$@"; do for d in /verif/seeded/$p-${MX_GLOB:-[4-9]}; do [ -d "$d" ] && only="$only $(basename $d)"; done; done
echo "confirmed:$only"
rsync -a --delete --exclude .git --exclude seeded --exclude replays /verif/ ${MXDIR:-/tmp/mx}/verif/
mkdir -p ${MXDIR:-/tmp/mx}/verif/replays
rm -rf ${MXDIR:-/tmp/mx}/repo && git clone -q /repo ${MXDIR:-/tmp/mx}/repo
cd ${MXDIR:-/tmp/mx}/verif && VERIF_ROOT=${MXDIR:-/tmp/mx}/verif VERIF_REPO=${MXDIR:-/tmp/mx}/repo VERIF_SEEDS=/verif/seeded VERIF_ONLY="$only" python3 ${MXDIR:-/tmp/mx}/verif/bin/seed_matrix.py
