#!/bin/bash
# usage: [MXDIR=/tmp/mx] bin/mx_sweep.sh <tier> [seed] — run every check at <tier> on a scratch copy of /verif and /repo (unchanged tree);
# output (one to four lines per check) on stdout; PROPS="01 05" restricts the properties
tier=${1:-thorough}; seed=${2:-1}; d=${MXDIR:-/tmp/mx}
mkdir -p $d
rsync -a --delete --exclude .git --exclude seeded --exclude replays /verif/ $d/verif/
mkdir -p $d/verif/replays
rm -rf $d/repo && git clone -q /repo $d/repo
cd $d/verif
for p in ${PROPS:-01 02 03 04 05 06 07 08 09 10 11 12 13 14 15 16 17 18 19 20}; do
  /usr/bin/time -f "C$p %es" env VERIF_ROOT=$d/verif VERIF_REPO=$d/repo VERIF_SEED=$seed python3 $d/verif/bin/check C$p --tier $tier 2>&1 | grep -v "^WARNING\|left out\|^KNOWN" | cut -c1-500 | tail -4
done
