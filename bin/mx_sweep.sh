#!/bin/bash
# usage: bin/mx_sweep.sh <tier> [seed] — run every check at <tier> on a scratch copy of /verif and /repo (unchanged tree), log to /tmp/mx/sweep-<tier>-<seed>.log
tier=${1:-thorough}; seed=${2:-1}
rsync -a --delete --exclude .git --exclude seeded --exclude replays /verif/ /tmp/mx/verif/
mkdir -p /tmp/mx/verif/replays
rm -rf /tmp/mx/repo && git clone -q /repo /tmp/mx/repo
cd /tmp/mx/verif
for p in 01 02 03 04 05 06 07 08 09 10 11 12 13 14 15 16 17 18 19 20; do
  /usr/bin/time -f "C$p %es" env VERIF_ROOT=/tmp/mx/verif VERIF_REPO=/tmp/mx/repo VERIF_SEED=$seed python3 /tmp/mx/verif/bin/check C$p --tier $tier 2>&1 | grep -v "^WARNING\|left out\|^KNOWN" | cut -c1-500 | tail -4
done
