"""C18 — secrets stay secret; encrypted destinations fail closed."""
import prvlib as L


def part(ctx, hdir, test, transcript, env, what):
    exe = L.build_harness(ctx, hdir)
    if not exe:
        return []
    rc, out = L.run_harness(ctx, exe, test, env=env)
    if rc != 0:
        ctx.tie_failures.append("harness run failed (rc=%d): %s" % (rc, out[-500:]))
        return []
    impl = "%s/%s" % (ctx.out, transcript)
    model = impl + ".model.txt"
    rc, err = L.drv("model", "c18", impl, model)
    if rc != 0:
        ctx.tie_failures.append("driver model c18 failed (Gen.C18 no longer elaborates?): " + err[-200:])
        return []
    cases = L.parse_cases(impl)
    # explicit property flags written by the harness
    for h, lines in cases:
        for i, l in enumerate(lines):
            if l.startswith("< DIFFERENT-DESTINATION") or l.startswith("< DESTINATION-FROM-BAD-CIPHERTEXT") or l.startswith("< ROUNDTRIP-FAILED") or l == "< leak 1":
                op = L.last_op_before(lines, i)
                sig = "c18:" + l.split()[1].lower() + (":" + op.split()[3] if op.startswith("> decrypt") else "")
                L.violation(ctx, sig, "%s: %s after %s" % (what, l[2:], op), {"clause": l[2:], "case": h, "ops": [x for x in lines[: i + 1] if x.startswith("> ")][-40:]})
    done = set()
    for d in L.diff_cases(impl, model):
        op = L.last_op_before(d["lines"], d["first"]).split()
        sig = "c18:%s:%s" % (op[1] if len(op) > 1 else "?", "-".join(d["impl"].split()[1:3]) if op[1:2] == ["decrypt"] else d["impl"].split()[1] if len(d["impl"].split()) > 1 else "x")
        if op[1:2] == ["sanitize"]:
            sig = "c18:sanitize:" + (d["impl"].split()[1] if len(d["impl"].split()) > 1 else "end")
        if sig in done:
            continue
        done.add(sig)
        L.violation(ctx, sig, "%s: implementation %r, model %r after %s" % (what, d["impl"], d["other"], " ".join(op[1:5])),
                    {"clause": sig, "case": d["header"], "ops": L.case_ops(d["lines"], d["first"] + 1)[-40:], "implementation_says": d["impl"], "model_says": d["other"]})
    return cases


def fail_closed_in_controller(ctx):
    """the seller controller on bad payloads (C08's harness and model): a purchase or a destination update whose payload is
    empty / does not decrypt / is not hex / is not a URL must leave the contract without a destination, never with another one"""
    exe = L.build_harness(ctx, "contract")
    if not exe:
        return 0
    rc, out = L.run_harness(ctx, exe, "TestVerifSeller$", env={"VERIF_N": 80 if ctx.tier == "quick" else 1500, "VERIF_FLUSH": 1}, timeout=1700)
    if rc != 0:
        ctx.tie_failures.append("seller harness run failed (rc=%d): %s" % (rc, out[-300:]))
        return 0
    impl = "%s/seller.impl.txt" % ctx.out
    proj = impl + ".ctr.txt"
    with open(proj, "w") as f:
        for l in open(impl, errors="replace"):
            if l.startswith("< ") and not l.startswith("< ctr"):
                continue
            f.write(l)
    model = proj + ".model.txt"
    rc, err = L.drv("model", "c08", proj, model)
    if rc != 0:
        ctx.tie_failures.append("driver model c08 failed: " + err[-200:])
        return 0
    amb, cur = set(), None
    for l in open(model, errors="replace"):
        if l.startswith("# case"):
            cur = l.rstrip("\n")
        elif "AMBIGUOUS" in l:
            amb.add(cur)
    n, done = 0, set()
    for d in L.diff_cases(proj, model):
        if d["header"] in amb:
            continue
        op = L.last_op_before(d["lines"], d["first"]).split()
        kind = next((t[8:] for t in op if t.startswith("payload=")), "")
        if op[1:2] and op[1] in ("purchased", "destupdate") and kind in ("empty", "garbage", "nothex", "noturl"):
            sig = "c18:failclosed:%s:%s" % (op[1], kind)
            if sig in done:
                continue
            done.add(sig)
            ops = [l for l in d["lines"][:d["first"] + 1] if l.startswith("> ")]
            L.violation(ctx, sig, "after %s (a payload that is %s) the controller says %r, fail-closed model %r" % (" ".join(op[1:4]), kind, d["impl"], d["other"]),
                        {"clause": sig, "case": d["header"], "ops": ops, "how_to_replay": "bin/check C08 --replay <this file>"})
    for h, lines in L.parse_cases(impl):
        n += sum(1 for l in lines if l.startswith("> ") and any(k in l for k in ("payload=empty", "payload=garbage", "payload=nothex", "payload=noturl")))
    return n


def served_over_http(ctx):
    """every GET route of the real HTTP engine, built around a configuration whose secrets are markers given as flags or in the
    environment: no response may contain them"""
    exe = L.build_harness(ctx, "httphandlers")
    if not exe:
        return 0
    rc, out = L.run_harness(ctx, exe, "TestVerifC18HTTP$", env={}, timeout=300)
    if rc != 0:
        ctx.tie_failures.append("http harness run failed (rc=%d): %s" % (rc, out[-300:]))
        return 0
    n = 0
    for h, lines in L.parse_cases("%s/c18http.impl.txt" % ctx.out):
        for i, l in enumerate(lines):
            if l.startswith("< status"):
                n += 1
                if l.endswith("leak 1"):
                    op = L.last_op_before(lines, i)
                    f = op.split()
                    path = f[3] if len(f) > 3 else "?"
                    L.violation(ctx, "c18:http-leak:" + path.split("?")[0], "GET %s (secrets given as %s) answers with the wallet key, the mnemonic or the Ethereum node URL" % (path, f[2] if len(f) > 2 else "?"),
                                {"clause": "the configuration exposed over HTTP never contains the secrets", "case": h, "ops": [op]})
            elif l.startswith("< load-failed") or l.startswith("< secrets-not-loaded"):
                ctx.tie_failures.append("http harness could not load the marker configuration: " + l)
    return n


def startup_messages(ctx):
    """what the node prints when its configuration is refused (cmd/main.go prints the LoadConfig error): every configured value
    in seven malformed shapes, from the environment and from flags; the text must not contain the secrets"""
    exe = L.build_harness(ctx, "httphandlers")
    if not exe:
        return 0
    rc, out = L.run_harness(ctx, exe, "TestVerifC18Load$", env={}, timeout=300)
    if rc != 0:
        ctx.tie_failures.append("start-up message harness run failed (rc=%d): %s" % (rc, out[-300:]))
        return 0
    n, done = 0, set()
    for h, lines in L.parse_cases("%s/c18load.impl.txt" % ctx.out):
        for i, l in enumerate(lines):
            if l.startswith("< refused") or l.startswith("< accepted"):
                n += 1
            if l.startswith("< refused leaks=") and not l.endswith("leaks=none"):
                op = L.last_op_before(lines, i)
                f = op.split()
                sig = "c18:startup-error-prints-" + l.split("=", 1)[1].split(",")[0]
                if sig in done:
                    continue
                done.add(sig)
                L.violation(ctx, sig, "a configuration refused at start-up (%s given %s, from %s) is reported with an error text that contains %s" % (f[3], f[4], f[2], l.split("=", 1)[1]),
                            {"clause": "secrets never appear in what the node prints about its configuration", "case": h, "ops": [op],
                             "how_to_replay": "bin/check C18 --tier quick (the list of malformed configurations is fixed; the op names the one)"})
    return n


def run(ctx):
    ctx.trusted_base += [
        "tools/gofacts: GetSanitized regenerated as straight-line assignments (struct-level copies expanded to leaf fields; anything else makes the translator fail), the Config field list, where the whole configuration value flows in cmd/main.go, the HTTP handler's Sanitizable interface",
        "correspondence: real Config.GetSanitized on marker-filled configurations vs the regenerated statements (validates the translator), incl. what %+v and JSON print; real EncryptedTerms.Decrypt/DecryptPoolDest on valid / corrupted / truncated / foreign ciphertexts vs Model.Secrets.decryptDest",
        "secrets over HTTP: harness/httphandlers/verif_c18_test.go builds the real gin engine (NewHTTPHandler) around a configuration loaded by config.LoadConfig from flags / from the environment with marker secrets, requests every registered GET route (wild cards filled with every net/http/pprof endpoint that answers at once) and searches the responses for the markers",
        "fail closed where it matters: the seller world of C08 (real ContractFactory / ControllerSeller / watcher over the fake chain, payloads really encrypted) is run here too; a purchase or destination update with an empty / undecryptable / non-hex / non-URL payload is compared with Model/Seller.lean (no destination, not fulfilling, error set)",
        "assumed, sampled only: go-ethereum ECIES rejects corrupted, truncated and foreign ciphertexts (cryptographic strength is outside the proof: partial)",
    ]
    ctx.assumptions += ["ECIES integrity (MAC) of go-ethereum/crypto/ecies", "url.Parse is a function of the plaintext"]
    L.regen(ctx, ["C18"])
    L.prove(ctx)
    if not L.build_driver(ctx):
        return
    cases = part(ctx, "config", "TestVerifC18Sanitize$", "c18cfg.impl.txt", {"VERIF_N": 200 if ctx.tier == "quick" else 5000}, "sanitised configuration")
    cases += part(ctx, "hr", "TestVerifC18Decrypt$", "c18dec.impl.txt", {"VERIF_N": 12 if ctx.tier == "quick" else 40}, "encrypted destination")
    bad_payload_events = fail_closed_in_controller(ctx)
    http_requests = served_over_http(ctx)
    ctx.coverage["refused_configurations_checked"] = startup_messages(ctx)
    L.buyer_world(ctx, "C18")
    kinds = {}
    for h, lines in cases:
        for l in lines:
            if l.startswith("> decrypt"):
                kinds[l.split()[3]] = kinds.get(l.split()[3], 0) + 1
            elif l.startswith("> sanitize"):
                kinds["sanitize"] = kinds.get("sanitize", 0) + 1
    ctx.coverage.update({
        "evaluations": sum(kinds.values()), "distinct_nontrivial": sum(v for k, v in kinds.items() if k not in ("empty",)),
        "rule": "sanitisation: seeded configurations with a distinct marker in ~75% of the leaf fields (all kinds); decryption: seeded key pairs (a third with a leading zero nibble) x URLs; per ciphertext: valid, empty, foreign key, non-hex, odd length, every (thorough) or every 7th (quick) truncation and single-byte corruption with 3 xor masks, a valid ciphertext of a non-URL. Every op is non-trivial except the empty payload; ops are distinct by construction (fresh randomness per ciphertext)",
        "op_kinds": kinds, "traces_validated_against_impl": len(cases), "bad_payload_events_through_the_seller_controller": bad_payload_events, "http_get_requests_searched_for_secrets": http_requests,
    })
    ctx.samples += [{"case": h, "lines": lines[:6]} for h, lines in cases[1:3]]


def replay(ctx, path):
    r = L.buyer_world_replay(ctx, "C18", path)
    if r is not None:
        return r
    import json, importlib.util
    rp = json.load(open(path))
    if any(o.startswith("> world") or o.startswith("world") for o in rp.get("ops", [])):   # a seller-world history
        spec = importlib.util.spec_from_file_location("chk_C08", "%s/checks/C08.py" % L.VERIF)
        mod = importlib.util.module_from_spec(spec)
        spec.loader.exec_module(mod)
        return mod.replay(ctx, path)
    print("rerun bin/check C18 with the same VERIF_SEED; the failing op and its case are in the replay file")
    return 0
