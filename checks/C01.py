"""C01 — share acceptance equals proof-of-work truth."""
import re
import prvlib as L

HDIR, TEST, TRANSCRIPT = "validator", "TestVerifC01$", "c01.impl.txt"


def sig_of(clause):
    c = re.sub(r"\[[^\]]*\]", "X", clause)
    c = re.sub(r"[0-9]+(/[0-9]+)?", "N", c)
    return "c01:" + re.sub(r"-+", "-", re.sub(r"[^A-Za-z]+", "-", c)).strip("-")[:80]


def run(ctx):
    ctx.trusted_base += [
        "tools/gofacts c01.go: ValidateDiffFloat read statement by statement into Gen/C01.lean (parameter tables, coinbase order, header field order and transformations, version mix as a BitVec 32 expression, difficulty-1 constant, verdict comparison, how ValidateAndAddShare calls it); an unrecognised statement fails the regeneration",
        "Model/Pow.lean interprets those tables; the theorems are about that interpretation and hold for every hash function",
        "correspondence harness harness/validator/verif_c01_test.go: the real ValidateDiffFloat / ValidateDiff in-process vs the model run with the Lean SHA-256 of Base/Sha256.lean (so the Lean SHA-256 is compared with crypto/sha256 on every case), and vs Spec/C01.lean through the monitor",
        "sessions: the session harness (real Proxy, really mined shares, pools granting narrower masks) runs here too; the monitor's acceptance clause is a C01 violation when it fails",
        "job capture: the validator harness of C19 (harness/validator/verif_c19_test.go: every announcement with its own difficulty, the error text names the job a share was judged by) is run here too and judged by Spec/C19.lean — which announcement's difficulty / extranonce a share is checked against",
        "modelled, not verified: hex.DecodeString / json.Unmarshal with ignored errors, decode_swap, decode_swap_words, LittleEndian.Uint32, big.Int division and Uint64() as described at the top of Model/Pow.lean (tied by the malformed stream of the harness)",
    ]
    ctx.assumptions += ["hash != 0 and share difficulty < 2^64 (a SHA-256 pre-image would be needed to run the excluded inputs); the guards are explicit hypotheses of the theorems",
                        "the job difficulty is the exact rational value of the float64 the pool sent"]
    L.regen(ctx, ["C01"])
    L.prove(ctx)
    if not L.build_driver(ctx):
        return
    exe = L.build_harness(ctx, HDIR)
    if not exe:
        return
    n = 400 if ctx.tier == "quick" else 20000
    rc, out = L.run_harness(ctx, exe, TEST, env={"VERIF_N": n})
    if rc != 0:
        ctx.tie_failures.append("harness run failed (rc=%d): %s" % (rc, out[-500:]))
        return
    impl = "%s/%s" % (ctx.out, TRANSCRIPT)
    cases = L.parse_cases(impl)
    bycase = {h: lines for h, lines in cases}
    # 1. the specification judges the implementation's answers
    seen = set()
    for case, c in L.run_monitor(ctx, "c01", TRANSCRIPT):
        body, _, op = c.partition(" @ ")
        if body.startswith("PROP "):
            sig = sig_of(body[5:])
            if sig in seen:
                continue
            seen.add(sig)
            ops = ["> " + op]
            if op.startswith("same "):
                prev = None
                for l in bycase.get(case, []):
                    if l == "> " + op:
                        break
                    if l.startswith("> "):
                        prev = l
                if prev:
                    ops = [prev] + ops
            L.violation(ctx, sig, body[5:] + " @ " + op[:60] + "...", {"clause": body[5:], "case": case, "ops": ops,
                                                                      "how_to_replay": "bin/check C01 --replay <this file>"})
        elif not any("correspondence" in t for t in ctx.tie_failures):
            ctx.tie_failures.append("correspondence broken: %s @ %s" % (body, op[:80]))
    # 2. the model (regenerated tables + Lean SHA-256) against the implementation
    model = impl + ".model.txt"
    rc, err = L.drv("model", "c01", impl, model)
    if rc != 0:
        ctx.tie_failures.append("driver model c01 failed: " + err[-200:])
        return
    L.monitor_accepts_model(ctx, "c01", model)
    diffs = L.diff_cases(impl, model)
    if diffs:
        d = diffs[0]
        ctx.tie_failures.append("correspondence broken: model and implementation differ in %d of %d cases; first: %s after %s: impl %r model %r"
                                % (len(diffs), len(cases), d["header"], L.last_op_before(d["lines"], d["first"])[:120], d["impl"], d["other"]))
    # 3. "the difficulty that was in force when that job was announced": which announcement a share is checked against.
    # The validator harness gives every announcement its own difficulty and reads back which one a submit was judged by;
    # the specification (Spec/C19: the latest unexpired announcement of that job id among the last 30) decides.
    def classify_capture(d):
        kind = d["header"].split()[-1] if d["index"] >= 0 else "transcript"
        op = L.last_op_before(d["lines"], d["first"]).split()
        opn = op[1] if len(op) > 1 else "?"
        return ("c01-capture:%s:%s:impl=%s:spec=%s" % (kind, opn, " ".join(d["impl"].split()[1:2]), " ".join(d["other"].split()[1:2])),
                "after %s the validator answered %r where the job memory specification says %r: the share is not judged by the "
                "difficulty / extranonce in force when the job it names was (last) announced" % (" ".join(op[1:3]), d["impl"], d["other"]))
    rc, out = L.run_harness(ctx, exe, "TestVerifC19$", env={"VERIF_N": 150 if ctx.tier == "quick" else 2000, "VERIF_MAXOPS": 40, "VERIF_BSM": 0})
    capture_cases = 0
    if rc != 0:
        ctx.tie_failures.append("validator job-capture run failed (rc=%d): %s" % (rc, out[-300:]))
    else:
        L.compare_transcript(ctx, "c19", "c19.impl.txt", classify_capture, exe, "TestVerifC19$")
        capture_cases = sum(1 for h, _ in L.parse_cases("%s/c19.impl.txt" % ctx.out) if h.endswith("validator"))
    # 4. the verdict where it is given: whole sessions (real Proxy, fake pools, a miner that mines real shares against what
    # the pools announced, pools that grant a narrower version mask than the miner asked for); the session monitor's
    # acceptance clause — accepted exactly when the share meets the difficulty of the job it names, hashed with that pool's
    # extranonce and the mask negotiated with it — is judged here as well
    session_verdicts = 0
    pexe = L.build_harness(ctx, "proxy")
    if pexe:
        rc, out = L.run_harness(ctx, pexe, "TestVerifSession$", env={"VERIF_N": 200 if ctx.tier == "quick" else 3000, "VERIF_MAXOPS": 30}, timeout=1500)
        if rc != 0:
            ctx.tie_failures.append("session harness run failed (rc=%d): %s" % (rc, out[-300:]))
        else:
            scases = dict(L.parse_cases(ctx.out + "/sess.impl.txt"))
            seen_s = set()
            for case, c in L.run_monitor(ctx, "sess", "sess.impl.txt"):
                body, _, op = c.partition(" @ ")
                if not body.startswith("C02 submit") or ("was refused" not in body and "was accepted although" not in body):
                    continue
                sig = "c01:session-verdict-" + ("refused" if "was refused" in body else "accepted")
                if sig in seen_s:
                    continue
                seen_s.add(sig)
                ops = []
                for l in scases.get(case, []):
                    if l.startswith("> "):
                        ops.append(l)
                        if l[2:] == op:
                            break
                L.violation(ctx, sig, body[4:] + " @ " + op[:120], {"clause": body[4:], "case": case, "ops": ops, "how_to_replay": "bin/check C02 --replay <this file>"})
            session_verdicts = sum(1 for ls in scases.values() for l in ls if l.startswith("> submit"))
    kinds, outs, nops, distinct = {}, {}, 0, set()
    accepted_nonzero = 0
    for h, lines in cases:
        k = h.split()[3] if len(h.split()) > 3 else "?"
        kinds[k] = kinds.get(k, 0) + 1
        for i, l in enumerate(lines):
            if l.startswith("> "):
                nops += 1
                distinct.add(l)
            elif l.startswith("< "):
                key = " ".join(l.split()[1:2] + l.split()[3:4])
                outs[key] = outs.get(key, 0) + 1
                f = l.split()
                if len(f) == 4 and f[1] == "ok" and f[3] == "1" and not lines[i - 1].split()[4] == "0":
                    accepted_nonzero += 1
    ctx.coverage.update({
        "evaluations": nops, "distinct_nontrivial": len(distinct),
        "rule": "corpus first (the repository's two real shares and the mined shares of corpus/c01_shares.txt, difficulty >= 1: integer boundaries t-1, t, t+1 through ValidateDiff and ValidateDiffFloat, t+0.5, the float just below t+1); seeded jobs (coinbase 28..200 bytes, 0..12 branches, extranonce1 0..8 bytes, extranonce2 2..8 bytes, masks 1fffe000/0/ffffffff/random, with and without version bits, bits inside and outside the mask, 30% with a nonce mined to difficulty 2^-12..2^-20) with job difficulties aimed at the share's own difficulty (nearest float, next float up/down, x(1+-1e-12), floor, floor+1, 0, denormal, huge, negative, NaN/Inf), `same` ops changing only worker name / job id text / out-of-mask bits, 5-parameter vs 6-parameter submits; a malformed stream (odd / non-hex / short / long fields, wrong JSON types, 0..4 and 7 submit parameters). Distinct = distinct op lines; every op is non-trivial (it computes two SHA-256d)",
        "case_kinds": kinds, "answers": outs, "accepted_at_nonzero_difficulty": accepted_nonzero, "traces_validated_against_impl": len(cases),
        "job_capture_histories": capture_cases, "session_submits_judged": session_verdicts,
    })
    ctx.samples += [{"case": h, "lines": [l[:200] for l in lines[:4]]} for h, lines in cases[:3]]


def replay(ctx, path):
    import json
    rp = json.load(open(path))
    ops = [o[2:] if o.startswith("> ") else o for o in rp.get("ops", [])]
    if ops and ops[0].split()[0] in ("new", "notify"):   # a job-capture history (validator harness)
        return L.generic_replay(ctx, path, HDIR, "TestVerifC19$", "c19", "c19.impl.txt")
    exe = L.build_harness(ctx, HDIR)
    if not exe or not L.build_driver(ctx):
        print("cannot build harness/driver: %s" % ctx.tie_failures)
        return 2
    import os
    d = ctx.out + "/shrink"
    os.makedirs(d, exist_ok=True)
    open(d + "/ops.txt", "w").write("\n".join(ops) + "\n")
    e = L.go_env({"VERIF_OUT": d, "VERIF_SEED": ctx.seed, "VERIF_REPLAY_OPS": d + "/ops.txt"})
    L.sh([exe, "-test.run", TEST], cwd=d, env=e, timeout=120)
    L.drv("monitor", "c01", d + "/" + TRANSCRIPT, d + "/mon.txt")
    print(open(d + "/" + TRANSCRIPT).read())
    mon = open(d + "/mon.txt").read()
    print(mon)
    hit = any(l.startswith("! PROP") for l in mon.split("\n"))
    print("REPLAY: the specification %s the implementation's answer" % ("rejects" if hit else "accepts"))
    return 1 if hit else 0
