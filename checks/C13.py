"""C13 — ending a session releases everything; resources stay bounded meanwhile."""
import lifelib as S
import prvlib as L
import C06


def run(ctx):
    ctx.trusted_base += [
        "tools/gofacts order.go: the calls of Scheduler.onDisconnect in source order, regenerated into Gen/C13.lean (source_disconnect_flag_first)",
        "Model/Life.lean + Model/Session.lean: release closes every pool connection the session holds; the destination cache never exceeds its maximum (eviction before every store)",
        "lifecycle harness harness/tcphandlers/verif_life_test.go (see C06; the real tcphandlers.NewTCPHandler is what runs the session): after every op the open pool connections as the fake pools see them, the number of Proxy.Run / Pipe.Run goroutines, scheduler status, miner list; when a history is over the synctest bubble reports goroutines that are still blocked (a leak)",
        "monitor Driver/LifeMon.lean: at most one Proxy.Run and one Pipe.Run; open pool connections within the configured maximum at every quiescence point; when the session has ended nothing is open, nothing runs, the miner is not listed and every queued task was told",
        "the handler's own clean-up (delete from the miner list, close the miner's connection) is executed from tcphandlers/tcp.go, not replayed",
    ]
    ctx.assumptions += ["idle time-outs are exercised by the 20 s setting of the generator; the 10 min default is not waited for", "the bound is observed at quiescence points (during a switch one more connection exists)"]
    L.regen(ctx, ["C13"])
    L.prove(ctx)
    if not L.build_driver(ctx):
        return
    exe = L.build_harness(ctx, S.HDIR)
    if not exe:
        return
    quick = ctx.tier == "quick"
    reg, rnd = S.run_life(ctx, "C13", exe, 200 if quick else 3000, 200 if quick else 3000)
    S.coverage(ctx, reg, rnd, C06.RULE + "; every history ends with the bubble's report on goroutines left behind")


def replay(ctx, path):
    return S.replay(ctx, path, "C13")
