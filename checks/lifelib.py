"""Shared by C06 and C13: the lifecycle harness (real Scheduler over a real Proxy with fault injection)."""
import os
import re
import prvlib as L

HDIR = "tcphandlers"


def sig_of(prop, clause):
    c = re.sub(r"\[[^\]]*\]", "X", clause)
    c = re.sub(r"\([^)]*\)", "", c)
    return prop.lower() + ":" + re.sub(r"-+", "-", re.sub(r"[^A-Za-z]+", "-", c)).strip("-")[:80]


def hang_violation(ctx, prop, transcript, out):
    """the bubble never quiesced: goroutines contending (non-durably) for a lock, e.g. two relay loops on one connection"""
    path = "%s/%s" % (ctx.out, transcript)
    if "test timed out" not in out or not os.path.exists(path):
        return False
    cases = L.parse_cases(path)
    if not cases:
        return False
    h, lines = cases[-1]
    # every op is announced before it is executed: the ops of the last case, including the one that hangs
    raw = open(path, errors="replace").read().split("\n")
    start = max(i for i, l in enumerate(raw) if l.startswith("# case"))
    lines = ["> " + l[len("# doing "):] for l in raw[start:] if l.startswith("# doing ")]
    two_readers = "StratumConnection).Read" in out and "sync.Mutex.Lock" in out
    what = ("the session never quiesced: two goroutines contend for the read lock of one connection (more than one relay loop)"
            if two_readers else "the session never quiesced (a goroutine spins or contends for a lock)")
    L.violation(ctx, prop.lower() + ":the-session-never-quiesced" + ("-two-readers" if two_readers else ""), what,
                {"clause": what, "case": h, "ops": [l for l in lines if l.startswith("> ")], "how_to_replay": "bin/check %s --replay <this file>" % ctx.pid})
    return True


def run_life(ctx, prop, exe, n_random, n_regular):
    """returns (regular cases, random cases)"""
    # 1. the regular fragment against the model
    rc, out = L.run_harness(ctx, exe, "TestVerifLifeRegular$", env={"VERIF_N": n_regular, "VERIF_FLUSH": 1}, timeout=900)
    reg = []
    if rc != 0:
        if not hang_violation(ctx, prop, "lifereg.impl.txt", out) and not L.crash_violation(ctx, "lifereg.impl.txt", out, prop.lower()):
            ctx.tie_failures.append("harness run failed (rc=%d): %s" % (rc, out[-400:]))
    else:
        impl = ctx.out + "/lifereg.impl.txt"
        model = impl + ".model.txt"
        rc2, err = L.drv("model", "life", impl, model)
        if rc2 != 0:
            ctx.tie_failures.append("driver model life failed: " + err[-200:])
        else:
            reg = L.parse_cases(impl)
            done = set()
            for d in L.diff_cases(impl, model):
                op = L.last_op_before(d["lines"], d["first"])
                canon = lambda l: re.sub(r"[0-9]+", "N", " ".join(l.split()[1:4])) if l.startswith("<") else "nothing"
                sig = prop.lower() + ":" + re.sub(r"-+", "-", re.sub(r"[^A-Za-z]+", "-", "%s-impl-%s-model-%s" % (op.split()[1], canon(d["impl"]), canon(d["other"])))).strip("-")[:90]
                if sig in done:
                    continue
                done.add(sig)
                ops = [l for l in d["lines"][:d["first"] + 1] if l.startswith("> ")]
                what = "after %s: implementation %r, model %r" % (op[2:], d["impl"][:160], d["other"][:160])
                # the model's outputs are the specification of the regular fragment (one replacement or release, nothing left open)
                L.violation(ctx, sig, what, {"clause": what, "case": d["header"], "ops": ops, "how_to_replay": "bin/check %s --replay <this file>" % ctx.pid})
    # 2. the random stream judged by the monitor
    rc, out = L.run_harness(ctx, exe, "TestVerifLife$", env={"VERIF_N": n_random, "VERIF_FLUSH": 1}, timeout=900)
    rnd = []
    path = ctx.out + "/life.impl.txt"
    if rc != 0:
        if not hang_violation(ctx, prop, "life.impl.txt", out) and not L.crash_violation(ctx, "life.impl.txt", out, prop.lower()):
            ctx.tie_failures.append("harness run failed (rc=%d): %s" % (rc, out[-400:]))
    if os.path.exists(path):
        rnd = L.parse_cases(path)
        bycase = dict(rnd)
        seen = set()
        for case, c in L.run_monitor(ctx, "life", "life.impl.txt"):
            body, _, op = c.partition(" @ ")
            if not body.startswith(prop + " "):
                continue
            sig = sig_of(prop, body[len(prop) + 1:])
            if sig in seen:
                continue
            seen.add(sig)
            ops = []
            for l in bycase.get(case, []):
                if l.startswith("> "):
                    ops.append(l)
                    if l[2:] == op:
                        break
            L.violation(ctx, sig, body[len(prop) + 1:] + " @ " + op, {"clause": body, "case": case, "ops": ops, "how_to_replay": "bin/check %s --replay <this file>" % ctx.pid})
        # goroutines left behind (the bubble reports them when the history is over)
        if prop == "C13":
            cur, leaks = None, []
            for line in open(path, errors="replace"):
                if line.startswith("# case"):
                    cur = line.rstrip("\n")
                elif line.startswith("# end leak"):
                    leaks.append(cur)
            for line in open(ctx.out + "/lifereg.impl.txt", errors="replace") if os.path.exists(ctx.out + "/lifereg.impl.txt") else []:
                pass
            if leaks:
                h = leaks[0]
                L.violation(ctx, "c13:goroutines-remain-blocked-after-the-session-ended", "goroutines remain blocked after the session ended (%d of %d histories)" % (len(leaks), len(rnd)),
                            {"clause": "background activity stops", "case": h, "ops": [l for l in bycase.get(h, []) if l.startswith("> ")], "how_to_replay": "bin/check C13 --replay <this file>"})
    return reg, rnd


def coverage(ctx, reg, rnd, rule):
    ops = {}
    for h, lines in reg + rnd:
        for l in lines:
            if l.startswith("> "):
                ops[l.split()[1]] = ops.get(l.split()[1], 0) + 1
    outcomes = {}
    for h, lines in reg + rnd:
        last = [l for l in lines if l.startswith("< state")]
        if last:
            k = last[-1].split()[5]
            outcomes[k] = outcomes.get(k, 0) + 1
    ctx.coverage.update({"evaluations": sum(ops.values()), "distinct_nontrivial": L.distinct_count(reg + rnd, lambda h, ls: any(l.startswith("> poolclose") for l in ls)),
                         "rule": rule, "op_distribution": ops, "final_states": outcomes, "traces_validated_against_impl": len(reg), "histories_monitored": len(rnd)})
    ctx.samples += [{"case": h, "lines": [l[:140] for l in lines if not l.startswith("< tominer set_")][:26]} for h, lines in reg[1:2]]


def replay(ctx, path, prop):
    import json
    rp = json.load(open(path))
    ops = [o[2:] if o.startswith("> ") else o for o in rp.get("ops", [])]
    exe = L.build_harness(ctx, HDIR)
    if not exe or not L.build_driver(ctx):
        print("cannot build harness/driver: %s" % ctx.tie_failures)
        return 2
    d = ctx.out + "/shrink"
    os.makedirs(d, exist_ok=True)
    open(d + "/ops.txt", "w").write("\n".join(ops) + "\n")
    e = L.go_env({"VERIF_OUT": d, "VERIF_SEED": ctx.seed, "VERIF_REPLAY_OPS": d + "/ops.txt", "VERIF_FLUSH": "1"})
    rc, out = L.sh([exe, "-test.run", "TestVerifLife$", "-test.timeout", "60s"], cwd=d, env=e, timeout=120)
    t = d + "/life.impl.txt"
    print(open(t).read() if os.path.exists(t) else out[-2000:])
    if rc != 0:
        print(out[-1500:])
        print("REPLAY: the harness did not finish (hang or crash)")
        return 1
    L.drv("monitor", "life", t, d + "/mon.txt")
    L.drv("model", "life", t, d + "/model.txt")
    mon = open(d + "/mon.txt").read()
    print(mon)
    hit = any(l.startswith("! " + prop) for l in mon.split("\n")) or "# end leak" in open(t).read() or bool(L.diff_cases(t, d + "/model.txt")) and "task" not in " ".join(ops)
    print("REPLAY: %s" % ("the violation reproduces" if hit else "no violation"))
    return 1 if hit else 0
