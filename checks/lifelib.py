"""Shared by C06 and C13: the lifecycle harness (real Scheduler over a real Proxy with fault injection)."""
import os
import re
import prvlib as L

HDIR = "tcphandlers"


def sig_of(prop, clause):
    c = re.sub(r"\[[^\]]*\]", "X", clause)
    c = re.sub(r"\([^)]*\)", "", c)
    return prop.lower() + ":" + re.sub(r"-+", "-", re.sub(r"[^A-Za-z]+", "-", c)).strip("-")[:80]


def hang_violation(ctx, prop, transcript, out):
    """the bubble never quiesced: goroutines contending (non-durably) for a lock, e.g. two relay loops on one connection"""
    path = "%s/%s" % (ctx.out, transcript)
    if "test timed out" not in out or not os.path.exists(path):
        return False
    cases = L.parse_cases(path)
    if not cases:
        return False
    h, lines = cases[-1]
    # every op is announced before it is executed: the ops of the last case, including the one that hangs
    raw = open(path, errors="replace").read().split("\n")
    start = max(i for i, l in enumerate(raw) if l.startswith("# case"))
    lines = ["> " + l[len("# doing "):] for l in raw[start:] if l.startswith("# doing ")]
    two_readers = "StratumConnection).Read" in out and "sync.Mutex.Lock" in out
    what = ("the session never quiesced: two goroutines contend for the read lock of one connection (more than one relay loop)"
            if two_readers else "the session never quiesced (a goroutine spins or contends for a lock)")
    L.violation(ctx, prop.lower() + ":the-session-never-quiesced" + ("-two-readers" if two_readers else ""), what,
                {"clause": what, "case": h, "ops": [l for l in lines if l.startswith("> ")], "how_to_replay": "bin/check %s --replay <this file>" % ctx.pid})
    return True


def frozen_kind(out):
    """classify a frozen bubble from the goroutine dump behind the VERIF-FROZEN line: which lock is waited for (non-durably)"""
    waiting = []
    for g in out.split("\n\n"):
        head = g.split("\n", 1)[0]
        if "synctest bubble" in head and ("sync.Mutex.Lock" in head or "sync.RWMutex" in head):
            frames = [l.rsplit("(", 1)[0] for l in g.split("\n")[1:] if l.startswith("github.com/Lumerin-protocol")]
            waiting.append(frames[0] if frames else "?")
    # the read lock is held by a loop that waits for the peer without a bound: a second goroutine wanting it is a second relay loop
    if any("StratumConnection).Read" in w for w in waiting):
        return "two-readers", waiting
    # the destination-change lock and the write lock are held across operations that end by a deadline of their own (a pool
    # answer awaited for RESPONSE_TIMEOUT, a write with its idle deadline): in real time the waiter gets the lock; the bubble
    # cannot show it, because a goroutine waiting on a sync.Mutex keeps the virtual clock from advancing
    if waiting and all(any(k in w for k in ("Proxy).replacedMeanwhile", "Proxy).ConnectDest", "Proxy).setDest", "Proxy).SetDest", "StratumConnection).Write")) for w in waiting):
        return "dest-lock", waiting
    return "other", waiting


def run_resumable(ctx, prop, exe, test, transcript, n):
    """run the harness; a case whose bubble freezes because a goroutine waits (non-durably, on a sync.Mutex) for the
    destination-change lock while its holder waits for a pool answer cannot be continued in virtual time — in real time
    the holder's deadline resolves it. Such a case is left out (and counted) and the run continues behind it; any other
    frozen bubble is a violation."""
    start, first, left_out = 0, True, []
    while True:
        env = {"VERIF_N": n, "VERIF_FLUSH": 1, "VERIF_FROM": start}
        if not first:
            env["VERIF_APPEND"] = 1
        rc, out = L.run_harness(ctx, exe, test, env=env, timeout=1700)
        first = False
        if rc == 0:
            break
        m = re.search(r"VERIF-FROZEN case=(\d+)", out)
        if not m:
            if not hang_violation(ctx, prop, transcript, out) and not L.crash_violation(ctx, transcript, out, prop.lower()):
                ctx.tie_failures.append("harness run failed (rc=%d): %s" % (rc, out[-400:]))
            break
        c = int(m.group(1))
        kind, waiting = frozen_kind(out)
        path = "%s/%s" % (ctx.out, transcript)
        raw = open(path, errors="replace").read().split("\n")
        st = max(i for i, l in enumerate(raw) if l.startswith("# case"))
        ops = ["> " + l[len("# doing "):] for l in raw[st:] if l.startswith("# doing ")]
        if kind == "dest-lock":
            left_out.append(c)
            # mark the case in the transcript so that neither the model comparison nor the monitor judges its tail
            with open(path, "a") as f:
                f.write("# frozen: virtual clock stopped by a wait for a lock held across a time-bounded operation; case not judged\n# case %d skipped-tail\n" % c)
            ctx.note("%s case %d: bubble frozen by a wait for a lock whose holder is in a time-bounded operation (%s); left out" % (test, c, ", ".join(waiting)[:200]))
        else:
            what = ("the session never quiesced: two goroutines contend for the read lock of one connection (more than one relay loop)"
                    if kind == "two-readers" else "the session never quiesced: a goroutine spins or contends for a lock (%s)" % ", ".join(waiting)[:160])
            L.violation(ctx, prop.lower() + ":the-session-never-quiesced" + ("-two-readers" if kind == "two-readers" else ""), what,
                        {"clause": what, "case": "# case %d" % c, "ops": ops, "waiting": waiting, "how_to_replay": "bin/check %s --replay <this file>" % ctx.pid})
        start = c + 1
        if start >= n or len(left_out) > 20:
            break
    ctx.coverage["frozen_histories_left_out"] = ctx.coverage.get("frozen_histories_left_out", 0) + len(left_out)
    return left_out


def run_life(ctx, prop, exe, n_random, n_regular):
    """returns (regular cases, random cases)"""
    # 1. the regular fragment against the model
    frozen_reg = run_resumable(ctx, prop, exe, "TestVerifLifeRegular$", "lifereg.impl.txt", n_regular)
    reg = []
    if os.path.exists(ctx.out + "/lifereg.impl.txt"):
        # the `relay` line (goroutines per direction) is judged by the monitor; the model of the regular fragment does not print it
        full = ctx.out + "/lifereg.impl.txt"
        os.replace(full, full + ".full")
        with open(full, "w") as f:
            for l in open(full + ".full", errors="replace"):
                if not l.startswith("< relay "):
                    f.write(l)
        impl = ctx.out + "/lifereg.impl.txt"
        model = impl + ".model.txt"
        rc2, err = L.drv("model", "life", impl, model)
        if rc2 != 0:
            ctx.tie_failures.append("driver model life failed: " + err[-200:])
        else:
            reg = L.parse_cases(impl)
            L.monitor_accepts_model(ctx, "life", model)
            done = set()
            for d in L.diff_cases(impl, model):
                if any(d["header"].startswith("# case %d " % c) for c in frozen_reg) or "skipped-tail" in d["header"]:
                    continue
                op = L.last_op_before(d["lines"], d["first"])
                canon = lambda l: re.sub(r"[0-9]+", "N", " ".join(l.split()[1:4])) if l.startswith("<") else "nothing"
                sig = prop.lower() + ":" + re.sub(r"-+", "-", re.sub(r"[^A-Za-z]+", "-", "%s-impl-%s-model-%s" % (op.split()[1], canon(d["impl"]), canon(d["other"])))).strip("-")[:90]
                if sig in done:
                    continue
                done.add(sig)
                ops = [l for l in d["lines"][:d["first"] + 1] if l.startswith("> ")]
                what = "after %s: implementation %r, model %r" % (op[2:], d["impl"][:160], d["other"][:160])
                # the model's outputs are the specification of the regular fragment (one replacement or release, nothing left open)
                L.violation(ctx, sig, what, {"clause": what, "case": d["header"], "ops": ops, "how_to_replay": "bin/check %s --replay <this file>" % ctx.pid})
    # 2. the random stream judged by the monitor
    frozen_rnd = run_resumable(ctx, prop, exe, "TestVerifLife$", "life.impl.txt", n_random)
    rnd = []
    path = ctx.out + "/life.impl.txt"
    if os.path.exists(path):
        rnd = L.parse_cases(path)
        bycase = dict(rnd)
        seen = set()
        for case, c in L.run_monitor(ctx, "life", "life.impl.txt"):
            body, _, op = c.partition(" @ ")
            if not body.startswith(prop + " "):
                continue
            if any(case.startswith("# case %d " % fc) for fc in frozen_rnd) or "skipped-tail" in case:
                continue
            sig = sig_of(prop, body[len(prop) + 1:])
            if sig in seen:
                continue
            seen.add(sig)
            ops = []
            for l in bycase.get(case, []):
                if l.startswith("> "):
                    ops.append(l)
                    if l[2:] == op:
                        break
            L.violation(ctx, sig, body[len(prop) + 1:] + " @ " + op, {"clause": body, "case": case, "ops": ops, "how_to_replay": "bin/check %s --replay <this file>" % ctx.pid})
        # goroutines left behind (the bubble reports them when the history is over)
        if prop == "C13":
            cur, leaks = None, []
            for line in open(path, errors="replace"):
                if line.startswith("# case"):
                    cur = line.rstrip("\n")
                elif line.startswith("# end leak"):
                    leaks.append(cur)
            for line in open(ctx.out + "/lifereg.impl.txt", errors="replace") if os.path.exists(ctx.out + "/lifereg.impl.txt") else []:
                pass
            if leaks:
                h = leaks[0]
                L.violation(ctx, "c13:goroutines-remain-blocked-after-the-session-ended", "goroutines remain blocked after the session ended (%d of %d histories)" % (len(leaks), len(rnd)),
                            {"clause": "background activity stops", "case": h, "ops": [l for l in bycase.get(h, []) if l.startswith("> ")], "how_to_replay": "bin/check C13 --replay <this file>"})
    return reg, rnd


def coverage(ctx, reg, rnd, rule):
    ops = {}
    for h, lines in reg + rnd:
        for l in lines:
            if l.startswith("> "):
                ops[l.split()[1]] = ops.get(l.split()[1], 0) + 1
    outcomes = {}
    for h, lines in reg + rnd:
        last = [l for l in lines if l.startswith("< state")]
        if last:
            k = last[-1].split()[5]
            outcomes[k] = outcomes.get(k, 0) + 1
    ctx.coverage.update({"evaluations": sum(ops.values()), "distinct_nontrivial": L.distinct_count(reg + rnd, lambda h, ls: any(l.startswith("> poolclose") for l in ls)),
                         "rule": rule, "op_distribution": ops, "final_states": outcomes, "traces_validated_against_impl": len(reg), "histories_monitored": len(rnd)})
    ctx.samples += [{"case": h, "lines": [l[:140] for l in lines if not l.startswith("< tominer set_")][:26]} for h, lines in reg[1:2]]


def replay(ctx, path, prop):
    import json
    rp = json.load(open(path))
    ops = [o[2:] if o.startswith("> ") else o for o in rp.get("ops", [])]
    exe = L.build_harness(ctx, HDIR)
    if not exe or not L.build_driver(ctx):
        print("cannot build harness/driver: %s" % ctx.tie_failures)
        return 2
    d = ctx.out + "/shrink"
    os.makedirs(d, exist_ok=True)
    open(d + "/ops.txt", "w").write("\n".join(ops) + "\n")
    e = L.go_env({"VERIF_OUT": d, "VERIF_SEED": ctx.seed, "VERIF_REPLAY_OPS": d + "/ops.txt", "VERIF_FLUSH": "1"})
    rc, out = L.sh([exe, "-test.run", "TestVerifLife$", "-test.timeout", "60s"], cwd=d, env=e, timeout=120)
    t = d + "/life.impl.txt"
    print(open(t).read() if os.path.exists(t) else out[-2000:])
    if rc != 0:
        if "VERIF-FROZEN" in out:
            kind, waiting = frozen_kind(out)
            print("the bubble froze; goroutines waiting on a sync.Mutex: %s" % waiting)
            if kind == "dest-lock":
                print("REPLAY: not judged — the virtual clock is stopped by a wait for the destination-change lock whose holder waits for a pool answer; in real time the holder's deadline resolves it")
                return 0
        print(out[-1500:])
        print("REPLAY: the harness did not finish (hang or crash)")
        return 1
    L.drv("monitor", "life", t, d + "/mon.txt")
    # the model does not print the `relay` line
    tm = t + ".norelay"
    with open(tm, "w") as f:
        f.writelines(l for l in open(t, errors="replace") if not l.startswith("< relay "))
    L.drv("model", "life", tm, d + "/model.txt")
    mon = open(d + "/mon.txt").read()
    print(mon)
    hit = any(l.startswith("! " + prop) for l in mon.split("\n")) or "# end leak" in open(t).read() or bool(L.diff_cases(tm, d + "/model.txt")) and "task" not in " ".join(ops)
    print("REPLAY: %s" % ("the violation reproduces" if hit else "no violation"))
    return 1 if hit else 0
