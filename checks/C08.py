"""C08 — seller contracts are fulfilled exactly while they run on chain, across restarts."""
import re
import prvlib as L

HDIR, TEST, TRANSCRIPT = "contract", "TestVerifSeller$", "seller.impl.txt"


def project(impl):
    """the controller lines only (what the model predicts)"""
    proj = impl + ".ctr.txt"
    with open(proj, "w") as f:
        for l in open(impl, errors="replace"):
            if l.startswith("< ") and not l.startswith("< ctr"):
                continue
            f.write(l)
    return proj


def picked_up_at_start(ctx):
    """'from every chain state the node may be (re)started in': which contracts the node engages at all is decided by the contract
    manager's start-up scan and its clone-factory events — the real ContractManager over the fake node (C16's harness: contracts of
    all roles, delisted ones, closes, re-purchases, restarts, refused calls) against Model/Manager.lean; a seller contract that is
    not picked up is never fulfilled"""
    exe = L.build_harness(ctx, "contractmanager")
    if not exe:
        return 0
    rc, out = L.run_harness(ctx, exe, "TestVerifC16$", env={"VERIF_N": 300 if ctx.tier == "quick" else 3000, "VERIF_FLUSH": 1}, timeout=900)
    if rc != 0:
        if not L.crash_violation(ctx, "c16.impl.txt", out, "c08"):
            ctx.tie_failures.append("contract-manager harness run failed (rc=%d): %s" % (rc, out[-300:]))
        return 0
    impl = ctx.out + "/c16.impl.txt"
    rc, err = L.drv("model", "c16", impl, impl + ".model.txt")
    if rc != 0:
        ctx.tie_failures.append("driver model c16 failed: " + err[-200:])
        return 0
    for d in L.diff_cases(impl, impl + ".model.txt")[:1]:
        L.violation(ctx, "c08:contract-not-picked-up-by-the-manager", "after %s the node watches %r, the model of the contract manager %r: a contract that runs on chain and is not watched is not fulfilled (one that is watched although it is not the node's is served for nobody)" % (
            L.last_op_before(d["lines"], d["first"])[2:], d["impl"][:160], d["other"][:160]),
            {"clause": "fulfilled exactly while running on chain, from every chain state the node may be (re)started in", "case": d["header"],
             "ops": [l for l in d["lines"][:d["first"] + 1] if l.startswith("> ")], "how_to_replay": "bin/check C16 --replay <this file>"})
    return len(L.parse_cases(impl))


def run(ctx):
    ctx.trusted_base += [
        "Model/Seller.lean (hand-written from controller_seller.go and the start / stop / expiry of contract_seller_v2.go): terms held, whether the watcher runs, the error flag; the chain is a parameter of every handler",
        "seller world harness harness/contract/verif_seller_test.go: the real ContractFactory -> ControllerSeller + ContractWatcherSellerV2 over the real HashrateEthereum store, the real Allocator and real Schedulers; faked: the Ethereum node (harness/vh/chain.go) and the miners (harness/vhs/miner.go); destinations are really encrypted for the seller's key (lib.EncryptString) and decrypted by the code under test",
        "correspondence: the controller lines (running?, destination, error, speed and length held) are compared op by op with the model; monitor Driver/C08.lean judges where the miners are directed against the chain truth reconstructed from the ops: only to a purchased, unexpired, decryptable contract's pool under the contract address as user name, never to a nil destination, engaged within the start-up delay plus a cycle when hashrate is available, and fulfilled at the speed and length of its purchase whatever terms updates arrive meanwhile",
        "assumed, not verified: the Solidity contracts' event vocabulary (contractPurchased, contractClosed, cipherTextUpdated, purchaseInfoUpdated) and that new terms of a running contract are held back until its close (futureTerms); ECIES itself (C18)",
    ]
    ctx.assumptions += ["events are handled one at a time with quiescence in between; an event at the very second a contract ends is not judged", "a node failure is a refused eth_call (the subscription itself stays up)"]
    L.regen(ctx, ["C08"])
    L.prove(ctx)
    if not L.build_driver(ctx):
        return
    exe = L.build_harness(ctx, HDIR)
    if not exe:
        return
    n = 300 if ctx.tier == "quick" else 3000
    rc, out = L.run_harness(ctx, exe, TEST, env={"VERIF_N": n, "VERIF_FLUSH": 1}, timeout=1700)
    if rc != 0:
        if not L.crash_violation(ctx, TRANSCRIPT, out, "c08"):
            ctx.tie_failures.append("harness run failed (rc=%d): %s" % (rc, out[-500:]))
        return
    impl = "%s/%s" % (ctx.out, TRANSCRIPT)
    cases = L.parse_cases(impl)
    bycase = dict(cases)
    proj = project(impl)
    model = proj + ".model.txt"
    rc, err = L.drv("model", "c08", proj, model)
    if rc != 0:
        ctx.tie_failures.append("driver model c08 failed: " + err[-200:])
        return
    diffs = []
    for d in L.diff_cases(proj, model):
        # an op at the second a contract ends: the model flags the step, what follows is not compared
        mlines = open(model, errors="replace").read()
        if "AMBIGUOUS" in d["other"]:
            continue
        diffs.append(d)
    # cases with an ambiguous step anywhere are left out of the comparison
    amb = set()
    cur = None
    for l in open(model, errors="replace"):
        if l.startswith("# case"):
            cur = l.rstrip("\n")
        elif "AMBIGUOUS" in l:
            amb.add(cur)
    diffs = [d for d in diffs if d["header"] not in amb]
    done = set()
    for d in diffs:
        op = L.last_op_before(d["lines"], d["first"])
        canon = lambda l: re.sub(r"c\d", "c", " ".join(l.split()[3:])) if l.startswith("< ctr") else "nothing"
        sig = "c08:" + re.sub(r"-+", "-", re.sub(r"[^A-Za-z0-9]+", "-", "%s-impl-%s-model-%s" % (op.split()[1], canon(d["impl"]), canon(d["other"])))).strip("-")[:90]
        if sig in done:
            continue
        done.add(sig)
        ops = [l for l in d["lines"][:d["first"] + 1] if l.startswith("> ")]
        what = "after %s: implementation %r, model %r" % (op[2:], d["impl"], d["other"])
        L.violation(ctx, sig, what, {"clause": what, "case": d["header"], "ops": ops, "how_to_replay": "bin/check C08 --replay <this file>"})
    seen = set()
    for case, c in L.run_monitor(ctx, "c08", TRANSCRIPT):
        body, _, op = c.partition(" @ ")
        if not body.startswith("PROP "):
            continue
        sig = "c08:" + re.sub(r"-+", "-", re.sub(r"[^A-Za-z]+", "-", re.sub(r"\b(m|c)\d\b", r"\1", re.sub(r"[0-9]+", "N", body[5:])))).strip("-")[:90]
        if sig in seen:
            continue
        seen.add(sig)
        ops = []
        for l in bycase.get(case, []):
            if l.startswith("> "):
                ops.append(l)
                if l[2:] == op:
                    break
        L.violation(ctx, sig, body[5:] + " @ " + op, {"clause": body[5:], "case": case, "ops": ops, "how_to_replay": "bin/check C08 --replay <this file>"})
    ops, engaged = {}, 0
    for h, lines in cases:
        for l in lines:
            if l.startswith("> "):
                ops[l.split()[1]] = ops.get(l.split()[1], 0) + 1
        engaged += any(re.search(r"=c\d@", l) for l in lines)
    ctx.coverage["contract_manager_histories"] = picked_up_at_start(ctx)
    ctx.coverage.update({
        "evaluations": sum(ops.values()), "distinct_nontrivial": L.distinct_count(cases, lambda h, ls: any(re.search(r"=c\d@", l) for l in ls)),
        "rule": "1..2 contracts sold by the node, each found at start-up available or purchased (5..400 s ago, 300 / 600 s long) with a payload that is a valid pool URL encrypted for the seller, empty, hex that does not decrypt, not hex, or a non-URL; then seeded purchases (120..600 s), closes, destination updates (all payload kinds), node failures (the next eth_call refused) under a purchase / close / destination update / terms update, events without a handler (fundsClaimed), terms updates (length 120..600 s, speed 500..2000 GH/s; applied at once to an available contract, at the close of a running one), restarts and time advances of 1 s..310 s around the 10 s start delay, the 60 s cycle and the contract ends; 3..5 miners of 1000 GH/s. Non-trivial: a history in which a miner was directed to a contract; distinct by op list",
        "op_distribution": ops, "histories_with_engaged_miners": engaged, "ambiguous_histories_left_out": len(amb), "traces_validated_against_impl": len(cases) - len(amb),
    })
    ctx.samples += [{"case": h, "lines": lines[:20]} for h, lines in cases[:2]]


def replay(ctx, path):
    import json as _j
    if _j.load(open(path)).get("signature", "").startswith("c08:contract-not-picked-up"):
        import importlib.util
        spec = importlib.util.spec_from_file_location("chk_C16", "%s/checks/C16.py" % L.VERIF)
        mod = importlib.util.module_from_spec(spec)
        spec.loader.exec_module(mod)
        return mod.replay(ctx, path)
    import json, os
    rp = json.load(open(path))
    ops = [o[2:] if o.startswith("> ") else o for o in rp.get("ops", [])]
    exe = L.build_harness(ctx, HDIR)
    if not exe or not L.build_driver(ctx):
        print("cannot build harness/driver: %s" % ctx.tie_failures)
        return 2
    d = ctx.out + "/shrink"
    os.makedirs(d, exist_ok=True)
    open(d + "/ops.txt", "w").write("\n".join(ops) + "\n")
    e = L.go_env({"VERIF_OUT": d, "VERIF_SEED": ctx.seed, "VERIF_REPLAY_OPS": d + "/ops.txt", "VERIF_FLUSH": "1"})
    rc, out = L.sh([exe, "-test.run", TEST, "-test.timeout", "120s"], cwd=d, env=e, timeout=200)
    t = d + "/" + TRANSCRIPT
    print(open(t).read() if os.path.exists(t) else "")
    if rc != 0:
        print(out[-1500:])
        print("REPLAY: the process died")
        return 1
    L.drv("monitor", "c08", t, d + "/mon.txt")
    proj = project(t)
    L.drv("model", "c08", proj, proj + ".model.txt")
    mon = open(d + "/mon.txt").read()
    print(mon)
    hit = any(l.startswith("! PROP") for l in mon.split("\n")) or bool(L.diff_cases(proj, proj + ".model.txt"))
    print("REPLAY: %s" % ("the violation reproduces" if hit else "no violation"))
    return 1 if hit else 0
