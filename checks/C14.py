"""C14 — Stratum lines are delivered whole, once and in order despite cancellation."""
import re
import prvlib as L

HDIR = "proxy"


def sig_of(clause, op=""):
    return "c14:" + re.sub(r"-+", "-", re.sub(r"[^A-Za-z]+", "-", clause)).strip("-")[:80]


def write_holds_mutex():
    """tie A: StratumConnection.Write takes writeSync first and releases it by defer (writes are atomic w.r.t. each other)"""
    src = open(L.REPO + "/internal/resources/hashrate/proxy/conn.go").read()
    m = re.search(r"func \(c \*StratumConnection\) Write\([^)]*\)[^{]*\{\s*c\.writeSync\.Lock\(\)\s*defer c\.writeSync\.Unlock\(\)", src)
    r = re.search(r"func \(c \*StratumConnection\) Read\([^)]*\)[^{]*\{\s*c\.readSync\.Lock\(\)\s*defer c\.readSync\.Unlock\(\)", src)
    return bool(m), bool(r)


def run(ctx):
    ctx.trusted_base += [
        "Model/Conn.lean (hand-written from conn.go Read/Write): pending / stash byte lists, one Read = take complete lines until a known or invalid one, cancellation moves what ReadBytes collected to the stash; Write atomic under the write mutex, a cut write with bytes on the wire closes the connection",
        "correspondence harness harness/proxy/verif_c14_test.go: a real StratumConnection over net.Pipe in a synctest bubble (seeded segmentations of seeded streams incl. lines beyond bufio's 4096 bytes, Read calls and cancellations at quiescence points; writes cut after the peer took k bytes), compared op by op with the model; concurrent writers (bubble and real goroutines) judged by the monitor on the wire",
        "source fact: Write begins with writeSync.Lock(); defer Unlock() and Read with readSync.Lock(); defer Unlock() (checked on every run)",
        "modelled, not verified: bufio.Reader.ReadBytes returning the collected fragment with the error; net.Conn deadlines; the classification of a line (known / unknown / invalid) is a parameter of the theorems and a naming convention in the driver",
    ]
    ctx.assumptions += ["cancellation takes effect at quiescence points (the bubble cannot park a goroutine inside ReadBytes between two bytes; the theorem covers every k, the harness observes k = everything received)",
                        "kernel TCP segmentation is represented by net.Pipe segment boundaries"]
    L.prove(ctx)
    w, r = write_holds_mutex()
    if not w:
        ctx.tie_failures.append("source fact broken: StratumConnection.Write no longer holds writeSync for its whole body")
    if not r:
        ctx.tie_failures.append("source fact broken: StratumConnection.Read no longer holds readSync for its whole body")
    if not L.build_driver(ctx):
        return
    exe = L.build_harness(ctx, HDIR)
    if not exe:
        return
    n = 300 if ctx.tier == "quick" else 6000
    rc, out = L.run_harness(ctx, exe, "TestVerifC14$", env={"VERIF_N": n})
    if rc != 0:
        ctx.tie_failures.append("harness run failed (rc=%d): %s" % (rc, out[-500:]))
        return
    impl = ctx.out + "/c14.impl.txt"
    model = impl + ".model.txt"
    rc, err = L.drv("model", "c14", impl, model)
    if rc != 0:
        ctx.tie_failures.append("driver model c14 failed: " + err[-200:])
        return
    cases = L.parse_cases(impl)
    done = set()
    for d in L.diff_cases(impl, model):
        kind = d["header"].split()[-1]
        ops = [l for l in d["lines"][:d["first"] + 1] if l.startswith("> ")]
        what = "%s side: implementation %r, model %r" % (kind, d["impl"], d["other"])
        # a divergence from the model is a property violation here: the model's outputs *are* the specification
        # (the exact lines of the stream in order; nothing after a cut write)
        if kind == "write":
            sig = "c14:write-" + ("a-write-after-a-cut-write-succeeded" if d["other"] == "< closed" else "wire-differs")
        else:
            sig = "c14:read-" + re.sub(r"[^a-z]+", "-", (d["impl"].split()[1] if len(d["impl"].split()) > 1 else "none") + "-instead-of-" + (d["other"].split()[1] if len(d["other"].split()) > 1 else "none"))
        if sig in done:
            continue
        done.add(sig)
        try:
            shr = L.shrink_ops([o[2:] for o in ops], lambda c: L.replay_differs(ctx, exe, "TestVerifC14$", "c14", c, "c14.impl.txt"), budget=60)
            ops = ["> " + o for o in shr]
        except Exception as e:
            ctx.note("shrink failed: %r" % (e,))
        L.violation(ctx, sig, what, {"clause": what, "case": d["header"], "ops": ops, "how_to_replay": "bin/check C14 --replay <this file>"})
    # concurrent writers
    comps = L.run_monitor(ctx, "c14", "c14c.impl.txt")
    rc, out = L.run_harness(ctx, exe, "TestVerifC14Real$", env={"VERIF_N": n})
    if rc != 0:
        ctx.tie_failures.append("real-time harness run failed (rc=%d): %s" % (rc, out[-500:]))
    else:
        comps += L.run_monitor(ctx, "c14", "c14r.impl.txt")
    L.handle_complaints(ctx, comps, sig_of)
    ccases = L.parse_cases(ctx.out + "/c14c.impl.txt") + (L.parse_cases(ctx.out + "/c14r.impl.txt") if rc == 0 else [])
    outs, nops = {}, 0
    for h, lines in cases:
        for l in lines:
            if l.startswith("> "):
                nops += 1
            elif l.startswith("< "):
                k = l.split()[1]
                outs[k] = outs.get(k, 0) + 1
    ctx.coverage.update({
        "evaluations": nops, "distinct_nontrivial": L.distinct_count(cases, lambda h, ls: any(l.startswith("< cancelled") for l in ls)),
        "rule": "read cases: streams of 2..9 lines (known set_difficulty / notify of 4..7 kB, unknown-method, invalid, empty) plus an optional unterminated tail, cut into segments of 1..40 or 1..6000 bytes, with Read calls before / after arrivals and cancellations of blocked Reads (also cancel-read-cancel bursts); write cases: 2..8 writes, 30% cut after the peer took k in 0..len+1 bytes; concurrent cases: 2..8 writers at once with the peer reading in chunks of 1..50 bytes (bubble) and 2..8 writers x 20 messages on real goroutines. Non-trivial: a case with at least one cancellation; distinct by op list",
        "outputs": outs, "traces_validated_against_impl": len(cases), "concurrent_cases_monitored": len(ccases),
    })
    ctx.samples += [{"case": h, "lines": [l[:160] for l in lines[:10]]} for h, lines in cases[:2]]


def replay(ctx, path):
    return L.generic_replay(ctx, path, HDIR, "TestVerifC14$", "c14", "c14.impl.txt")
