"""C04 — every accepted share is credited exactly once, to the right parties."""
import sesslib as S


def nontrivial(h, lines):
    return any(l.startswith("< cb ") for l in lines) and any("result id=" in l and " ok" in l for l in lines)


def run(ctx):
    cases = S.run_session_check(ctx, "C04")
    ctx.coverage["submits_after_reconnects_compared"] = S.after_reconnect(ctx, "C04")
    S.session_coverage(ctx, cases, nontrivial, S.GEN_RULE + " Non-trivial: a session in which a task callback fired and a share was accepted; distinct by op list")


def replay(ctx, path):
    return S.session_replay(ctx, path, "C04")
