"""C04 — every accepted share is credited exactly once, to the right parties."""
import prvlib as L
import sesslib as S


def nontrivial(h, lines):
    return any(l.startswith("< cb ") for l in lines) and any("result id=" in l and " ok" in l for l in lines)


def task_credit_in_the_scheduler(ctx):
    """the task's side of the credit: which task's callback the scheduler has installed while tasks end, follow one another, are
    removed, their destination fails or the destination change takes time (C07's scheduler harness: the real Scheduler over a
    proxy double that keeps the previous callback until SetDest returns) against Model/Sched.lean and Model/SchedSlow.lean; a
    difference in a credit (`onsubmit`), in what a task had left when it ended (`onend`), or a crash is reported here"""
    exe = L.build_harness(ctx, "allocator")
    if not exe:
        return 0
    rc, out = L.run_harness(ctx, exe, "TestVerifC07$", env={"VERIF_N": 300 if ctx.tier == "quick" else 4000, "VERIF_MAXOPS": 40, "VERIF_FLUSH": 1}, timeout=1200)
    if rc != 0:
        if not L.crash_violation(ctx, "c07.impl.txt", out, "c04"):
            ctx.tie_failures.append("scheduler harness run failed (rc=%d): %s" % (rc, out[-300:]))
        return 0
    impl = ctx.out + "/c07.impl.txt"
    rc, err = L.drv("model", "c07", impl, impl + ".model.txt")
    if rc != 0:
        ctx.tie_failures.append("driver model c07 failed: " + err[-200:])
        return 0
    for d in L.diff_cases(impl, impl + ".model.txt"):
        both = d["impl"] + " " + d["other"]
        if "AMBIG" in both or not any(k in both for k in ("onsubmit", "onend", "ondisconnect")):
            continue
        L.violation(ctx, "c04:task-credit-in-the-scheduler", "after %s: the scheduler reports %r, the model %r — a share is credited to a task that is not the one whose destination it went to, or a task goes on being credited / served after its end was reported" % (
            L.last_op_before(d["lines"], d["first"])[2:], d["impl"][:120], d["other"][:120]),
            {"clause": "the task is credited only for shares forwarded to its own destination; nothing is credited after its end", "case": d["header"],
             "ops": [l for l in d["lines"][:d["first"] + 1] if l.startswith("> ")], "how_to_replay": "bin/check C07 --replay <this file>"})
        break
    return len(L.parse_cases(impl))


def worker_total_across_connections(ctx):
    """'exactly once to the worker-name total': the record kept per worker name outlives a connection — a rig that reconnects, a
    second rig under the same name, another miner serving the same contract all add to one total.  The real GlobalHashrate
    (OnConnect / OnSubmit / Initialize / Reset, several connections under one name) against Model/WorkerBook.lean, op by op;
    Props.C04.worker_total_history is the statement for every history of connections and shares"""
    exe = L.build_harness(ctx, "hashrate")
    if not exe:
        return 0
    rc, out = L.run_harness(ctx, exe, "TestVerifBook$", env={"VERIF_N": 300 if ctx.tier == "quick" else 6000}, timeout=600)
    if rc != 0:
        ctx.tie_failures.append("worker-record harness run failed (rc=%d): %s" % (rc, out[-300:]))
        return 0
    impl = ctx.out + "/book.impl.txt"
    rc, err = L.drv("model", "book", impl, impl + ".model.txt")
    if rc != 0:
        ctx.tie_failures.append("driver model book failed: " + err[-200:])
        return 0
    for d in L.diff_cases(impl, impl + ".model.txt")[:1]:
        L.violation(ctx, "c04:worker-total-across-connections", "after %s the worker-name record reads %r, the model %r (per worker name: last share second, total work): a credited share is no longer in the worker-name total, or is in it more than once" % (
            L.last_op_before(d["lines"], d["first"])[2:], d["impl"][:120], d["other"][:120]),
            {"clause": "every accepted share adds its difficulty exactly once to the worker-name total", "case": d["header"],
             "ops": [l for l in d["lines"][:d["first"] + 1] if l.startswith("> ")], "how_to_replay": "bin/check C04 --replay <this file>"})
    return sum(1 for h, ls in L.parse_cases(impl) for l in ls if l.startswith("> "))


def run(ctx):
    cases = S.run_session_check(ctx, "C04")
    ctx.coverage["scheduler_histories"] = task_credit_in_the_scheduler(ctx)
    ctx.coverage["submits_after_reconnects_compared"] = S.after_reconnect(ctx, "C04")
    ctx.coverage["worker_record_ops_compared"] = worker_total_across_connections(ctx)
    S.session_coverage(ctx, cases, nontrivial, S.GEN_RULE + " Non-trivial: a session in which a task callback fired and a share was accepted; distinct by op list")


def replay(ctx, path):
    import json
    if "worker-total" in json.load(open(path)).get("signature", ""):
        return L.generic_replay(ctx, path, "hashrate", "TestVerifBook$", "book", "book.impl.txt", mode="model")
    if "scheduler" in json.load(open(path)).get("signature", ""):
        import importlib.util
        spec = importlib.util.spec_from_file_location("chk_C07", "%s/checks/C07.py" % L.VERIF)
        mod = importlib.util.module_from_spec(spec)
        spec.loader.exec_module(mod)
        return mod.replay(ctx, path)
    return S.session_replay(ctx, path, "C04")
