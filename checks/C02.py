"""C02 — each share reaches only the pool that issued its job, under that pool's name."""
import prvlib as L
import sesslib as S


def nontrivial(h, lines):
    # a share of a previously assigned pool accepted after a switch, or a refused share
    return any(l.startswith("< topool") and " submit " in l for l in lines) and any(l.startswith("> setdest") for l in lines)


def known_unexpired_not_repeat(ctx):
    """'accepted exactly when the share named a known, unexpired job ... and was not a repeat': the job memory and the repeat
    check behind the session's verdicts — the real Validator on histories of announcements, time and submits (among them the
    same share spelled with capital hex digits) against Spec/C19.lean"""
    exe = L.build_harness(ctx, "validator")
    if not exe:
        return 0
    rc, out = L.run_harness(ctx, exe, "TestVerifC19$", env={"VERIF_N": 150 if ctx.tier == "quick" else 2000, "VERIF_MAXOPS": 40, "VERIF_BSM": 0})
    if rc != 0:
        ctx.tie_failures.append("validator run failed (rc=%d): %s" % (rc, out[-300:]))
        return 0

    def classify(d):
        op = L.last_op_before(d["lines"], d["first"]).split()
        return ("c02-memory:%s:impl=%s:spec=%s" % (op[1] if len(op) > 1 else "?", " ".join(d["impl"].split()[1:2]), " ".join(d["other"].split()[1:2])),
                "after %s the validator answered %r where the job-memory specification says %r: a share is accepted although its job is unknown / expired or it is a repeat, or refused although it is neither" % (" ".join(op[1:3]), d["impl"], d["other"]))
    L.compare_transcript(ctx, "c19", "c19.impl.txt", classify, exe, "TestVerifC19$")
    return sum(1 for h, _ in L.parse_cases("%s/c19.impl.txt" % ctx.out) if h.endswith("validator"))


def run(ctx):
    cases = S.run_session_check(ctx, "C02")
    ctx.coverage["job_memory_histories"] = known_unexpired_not_repeat(ctx)
    ctx.coverage["submits_after_reconnects_compared"] = S.after_reconnect(ctx, "C02")
    S.session_coverage(ctx, cases, nontrivial, S.GEN_RULE + " Non-trivial: a session with at least one switch and one forwarded share; distinct by op list")


def replay(ctx, path):
    import json
    if json.load(open(path)).get("signature", "").startswith("c02-memory:"):
        return L.generic_replay(ctx, path, "validator", "TestVerifC19$", "c19", "c19.impl.txt")
    return S.session_replay(ctx, path, "C02")
