"""C02 — each share reaches only the pool that issued its job, under that pool's name."""
import sesslib as S


def nontrivial(h, lines):
    # a share of a previously assigned pool accepted after a switch, or a refused share
    return any(l.startswith("< topool") and " submit " in l for l in lines) and any(l.startswith("> setdest") for l in lines)


def run(ctx):
    cases = S.run_session_check(ctx, "C02")
    ctx.coverage["submits_after_reconnects_compared"] = S.after_reconnect(ctx, "C02")
    S.session_coverage(ctx, cases, nontrivial, S.GEN_RULE + " Non-trivial: a session with at least one switch and one forwarded share; distinct by op list")


def replay(ctx, path):
    return S.session_replay(ctx, path, "C02")
