"""C12 — start/stop of a background task is linearizable (internal/lib/task.go)."""
import re
import prvlib as L

HDIR, TEST, TRANSCRIPT = "lib", "TestVerifC12$", "c12.impl.txt"


def sig_of(clause, op):
    return "c12:" + re.sub(r"-+", "-", re.sub(r"[^A-Za-z]+", "-", clause.split(":")[0].split("(")[0])).strip("-")[:70]


def run(ctx):
    ctx.trusted_base += [
        "the pipe directions' function: harness/proxy/verif_c14_test.go `readx` (a connection wrapper places the cancellation between the start of a Read and the clearing of its deadline), run here too",
        "hooks: verif points at the atomic steps of lib.Task (build tag verif, /repo commit 7817c1b); the controller parks every goroutine at each point and releases one at a time (synctest.Wait gives exact quiescence)",
        "correspondence: every released step is replayed through Model/Task.lean (exec) and the observable state (running flag, done flag, done channel, active invocations, channel returned by Stop) compared after each step",
        "modelled, not verified: Model/Task.lean (hand-written transition system whose labels are the verif points)",
    ]
    ctx.assumptions += ["sync/atomic operations are sequentially consistent", "the task function honours its context (returns a context error once cancelled) or returns an error of its own",
                        "each goroutine closes the stop channel of its own taskRun exactly once (program order, not modelled as a possible double close)"]
    L.prove(ctx)
    if not L.build_driver(ctx):
        return
    exe = L.build_harness(ctx, HDIR)
    if not exe:
        return
    n = 500 if ctx.tier == "quick" else 8000
    seeds = [ctx.seed] if ctx.tier == "quick" else [str(int(ctx.seed) * 1000 + k) for k in range(3)]
    allcases = []
    for sd in seeds:
        rc, out = L.run_harness(ctx, exe, TEST, env={"VERIF_N": n, "VERIF_SEED": sd, "VERIF_FLUSH": 1})
        if rc != 0:
            m = re.search(r"panic: ([^\n]*)", out)
            cases = L.parse_cases("%s/%s" % (ctx.out, TRANSCRIPT))
            if m and cases:
                # a goroutine of the task panicked: the process died; the schedule so far is the replay
                h, lines = cases[-1]
                L.violation(ctx, "c12:panic", "the task panicked: %s (%s)" % (m.group(1), h),
                            {"clause": "no interleaving panics", "case": h, "ops": [l for l in lines if l.startswith("> ")], "panic": m.group(1),
                             "how_to_replay": "bin/check C12 --replay <this file>"})
            else:
                ctx.tie_failures.append("harness run failed (rc=%d): %s" % (rc, out[-600:]))
            return
        impl = "%s/%s" % (ctx.out, TRANSCRIPT)
        cases = L.parse_cases(impl)
        bycase = {h: lines for h, lines in cases}
        # property: the monitor judges the implementation's own trace
        for case, c in L.run_monitor(ctx, "c12", TRANSCRIPT):
            body, _, op = c.partition(" @ ")
            if body.startswith("PROP "):
                ops = []
                for l in bycase.get(case, []):
                    if l.startswith("> "):
                        ops.append(l)
                        if l[2:] == op:
                            break
                L.violation(ctx, sig_of(body[5:], op), body[5:] + " @ " + op,
                            {"clause": body[5:], "case": case, "ops": ops, "how_to_replay": "bin/check C12 --replay <this file> (the schedule is replayed step by step through the verif points)"})
        # correspondence with the model
        model = impl + ".model.txt"
        rc, err = L.drv("model", "c12", impl, model)
        if rc != 0:
            ctx.tie_failures.append("driver model c12 failed: " + err[-200:])
            return
        L.monitor_accepts_model(ctx, "c12", model)
        diffs = L.diff_cases(impl, model)
        if diffs:
            d = diffs[0]
            ctx.tie_failures.append("correspondence broken: model and implementation differ in %d schedules; first: %s after %s: impl %r model %r"
                                    % (len(diffs), d["header"], L.last_op_before(d["lines"], d["first"]), d["impl"], d["other"]))
        allcases += cases
    # the tasks that matter most are the two directions of a pipe, whose function is a loop around StratumConnection.Read: a
    # stop that arrives while the direction is entering Read (after the read has started, before its deadline is cleared)
    # must still end it — otherwise the waiter of Stop() blocks for ever.  The `readx` histories of C14's harness place the
    # cancellation exactly there.
    pexe = L.build_harness(ctx, "proxy")
    readx = 0
    if pexe:
        rc, out = L.run_harness(ctx, pexe, "TestVerifC14$", env={"VERIF_N": 200 if ctx.tier == "quick" else 3000}, timeout=900)
        if rc != 0:
            ctx.tie_failures.append("connection harness run failed (rc=%d): %s" % (rc, out[-300:]))
        else:
            cimpl = ctx.out + "/c14.impl.txt"
            cmodel = cimpl + ".model.txt"
            rc, err = L.drv("model", "c14", cimpl, cmodel)
            if rc != 0:
                ctx.tie_failures.append("driver model c14 failed: " + err[-200:])
            else:
                readx = sum(1 for h, ls in L.parse_cases(cimpl) for l in ls if l == "> readx")
                for d in L.diff_cases(cimpl, cmodel):
                    op = L.last_op_before(d["lines"], d["first"])
                    if op.strip() != "> readx":
                        continue
                    L.violation(ctx, "c12:stop-while-entering-read-leaves-the-waiter-blocked",
                                "a cancellation that lands while a relay direction enters Read (after the read started, before its deadline is cleared) does not end the read: implementation %r, model %r — the direction never returns and the waiter of Stop() stays blocked" % (d["impl"], d["other"]),
                                {"clause": "no interleaving of start, stop and cancellation leaves a waiter blocked", "case": d["header"],
                                 "ops": [l for l in d["lines"][:d["first"] + 1] if l.startswith("> ")], "how_to_replay": "bin/check C14 --replay <this file>"})
                    break
    ctx.coverage["read_cancelled_while_entering"] = readx
    # the same clauses where the tasks are used: each direction of a Pipe stopped in Read / in Write / inside its interceptor and
    # started again; the handshake's pipeSync ended by a failing handler, a Stop and its parent, with and without a queued message
    if pexe:
        rc, out = L.run_harness(ctx, pexe, "TestVerifC12Pipe$", env={}, timeout=300)
        if rc != 0:
            ctx.tie_failures.append("pipe harness run failed (rc=%d): %s" % (rc, out[-300:]))
        else:
            pcases = dict(L.parse_cases(ctx.out + "/c12pipe.impl.txt"))
            seenp = set()
            for case, c in L.run_monitor(ctx, "c12pipe", "c12pipe.impl.txt"):
                body, _, op = c.partition(" @ ")
                if not body.startswith("PROP "):
                    continue
                sig = sig_of(body[5:], op)
                if sig in seenp:
                    continue
                seenp.add(sig)
                L.violation(ctx, sig, body[5:] + " @ " + op, {"clause": body[5:], "case": case, "ops": [l for l in pcases.get(case, []) if l.startswith("> ")],
                                                             "how_to_replay": "bin/check C12 --tier quick (the pipe histories are a fixed list; the op names the one that fails)"})
            ctx.coverage["pipe_level_histories"] = len(pcases)
    # uncontrolled stress (no hooks involved)
    rc, out = L.run_harness(ctx, exe, "TestVerifC12Stress$", env={"VERIF_N": 5000 if ctx.tier == "quick" else 100000}, timeout=900)
    stress = {}
    if rc == 0:
        for h, lines in L.parse_cases("%s/c12.stress.txt" % ctx.out):
            for l in lines:
                if l.startswith("< dropped"):
                    f = l.split()
                    stress["GOMAXPROCS=" + h.split()[2]] = l[2:]
                    if int(f[2]) > 0:
                        L.violation(ctx, "c12:stress-dropped-start", "uncontrolled stress: %s Start calls after a completed wait on Stop() did not run the function (%s)" % (f[2], h),
                                    {"clause": "a subsequent start always runs it again", "case": h, "ops": lines})
                    if int(f[4]) > 0 or int(f[6]) > 0:
                        L.violation(ctx, "c12:stress-still-running", "uncontrolled stress: function still running after wait on Stop() / overlapping runs: " + l,
                                    {"clause": "function no longer running / never twice concurrently", "case": h, "ops": lines})
    else:
        ctx.tie_failures.append("stress run failed: " + out[-300:])
    steps = sum(1 for h, ls in allcases for l in ls if l.startswith("> step"))
    points = {}
    for h, ls in allcases:
        for l in ls:
            if l.startswith("> step"):
                p = l.split()[3]
                points[p] = points.get(p, 0) + 1

    def nontrivial(h, lines):
        return any("stop.cancel" in l for l in lines) and sum(1 for l in lines if "go.begin" in l) >= 1
    ctx.coverage.update({
        "evaluations": len(allcases), "distinct_nontrivial": L.distinct_count(allcases, nontrivial),
        "rule": "seeded schedules: 1..3 caller threads with programs over start/stop/wait/parent-cancel (common shapes Start;Stop;wait;Start(...) plus random ones), interleaved step by step with the task goroutine(s) through the verif points; the function returns on its own with 12% probability per opportunity; three scheduling biases (uniform, callers first, goroutines first). Non-trivial: a schedule in which a Stop cancels a generation whose function has begun; distinct by the full step list",
        "states": steps, "transitions": steps, "traces_validated_against_impl": len(allcases),
        "steps_by_point": points, "stress": stress,
    })
    ctx.samples += [{"case": h, "lines": lines[:30]} for h, lines in allcases[1:2]]


def replay(ctx, path):
    import json
    rp = json.load(open(path))
    ops = [o[2:] if o.startswith("> ") else o for o in rp.get("ops", [])]
    if ops and ops[0].split()[0] in ("dir", "sync"):
        # a pipe-level history: the list is fixed, the op names the history
        pexe = L.build_harness(ctx, "proxy")
        if not pexe or not L.build_driver(ctx):
            print("cannot build harness/driver: %s" % ctx.tie_failures)
            return 2
        L.run_harness(ctx, pexe, "TestVerifC12Pipe$", env={}, timeout=300)
        hit = [(c, x) for c, x in L.run_monitor(ctx, "c12pipe", "c12pipe.impl.txt") if x.endswith(" @ " + ops[0])]
        for c, x in hit:
            print(x)
        print("REPLAY: %s" % ("the violation reproduces" if hit else "no violation"))
        return 1 if hit else 0
    exe = L.build_harness(ctx, HDIR)
    if not exe or not L.build_driver(ctx):
        print("cannot build harness/driver: %s" % ctx.tie_failures)
        return 2
    L.replay_differs(ctx, exe, TEST, "c12", ops, TRANSCRIPT, "model")
    d = ctx.out + "/shrink"
    print(open(d + "/" + TRANSCRIPT).read())
    import shutil
    shutil.copy(d + "/" + TRANSCRIPT, ctx.out + "/" + TRANSCRIPT)
    comp = L.run_monitor(ctx, "c12", TRANSCRIPT)
    for case, c in comp:
        print("MONITOR:", c)
    print("REPLAY: %d property complaints" % len([c for _, c in comp if c.startswith("PROP")]))
    return 1 if comp else 0
