"""C07 — task queue served in order; a removed contract stops receiving hashrate."""
import prvlib as L

HDIR, TEST, TRANSCRIPT = "allocator", "TestVerifC07$", "c07.impl.txt"


def classify(d):
    kind = d["header"].split()[-1] if d["index"] >= 0 else "transcript"
    op = L.last_op_before(d["lines"], d["first"]).split()
    opn = op[1] if len(op) > 1 else "?"
    iv = " ".join(d["impl"].split()[1:2])
    sv = " ".join(d["other"].split()[1:2])
    sig = "%s:%s:impl=%s:model=%s" % (kind, opn, iv, sv)
    return sig, "%s after %s: implementation %r, model (proved to serve in order / drop removed contracts / end in a quiescent state) %r" % (
        kind, " ".join(op[1:]), d["impl"], d["other"])


def no_task_for_an_ended_session(ctx, exe):
    """a miner whose session is over counts as disconnecting at once, with or without tasks in its queue: the allocator (real
    Allocator over real Schedulers, C11's harness with `gone` ops) must not park a task on it between the end of the session and
    its removal from the list — such a task would never be served, ended or signalled"""
    rc, out = L.run_harness(ctx, exe, "TestVerifC11$", env={"VERIF_N": 400 if ctx.tier == "quick" else 4000}, timeout=900)
    if rc != 0:
        ctx.tie_failures.append("allocator harness run failed (rc=%d): %s" % (rc, out[-300:]))
        return 0
    cases = dict(L.parse_cases(ctx.out + "/c11.impl.txt"))
    for case, c in L.run_monitor(ctx, "c11", "c11.impl.txt"):
        body, _, op = c.partition(" @ ")
        if body.startswith("PROP ") and "ineligible miner" in body and any(l.startswith("> gone") for l in cases.get(case, [])):
            L.violation(ctx, "c07:task-parked-on-a-miner-whose-session-is-over", body[5:] + " @ " + op + " — after the miner's session had ended (`gone`): the task is never served nor ended",
                        {"clause": "when the miner disconnects every queued task is told; nothing is queued on a session that is over", "case": case,
                         "ops": [l for l in cases.get(case, []) if l.startswith("> ")], "how_to_replay": "bin/check C11 --replay <this file>"})
            break
    return sum(1 for ls in cases.values() for l in ls if l.startswith("> gone"))


def run(ctx):
    ctx.trusted_base += [
        "correspondence harness harness/allocator/verif_c07_test.go: real Scheduler.Run/mainLoop/taskLoop + TaskList over a fake StratumProxyInterface under synctest virtual time, quiescence (synctest.Wait) after every event; raw TaskList op sequences (thorough: all sequences of length <= 6 over 6 ops)",
        "tools/gofacts order.go: the calls of every select case of Scheduler.taskLoop in source order, regenerated into Gen/C07.lean (source_onEnd_before_unlock)",
        "slow destination changes: the same real Scheduler over a proxy whose SetDest blocks until released (harness/allocator/verif_fake_test.go slowGate), so that add / remove / share / time land while the scheduler goroutine is inside SetDest; compared op by op with Model/SchedSlow.lean (goroutine position explicit, newTaskSignal as a one-token channel); a task found both cancelled and expired is ended with either reason by Go's select: those histories are flagged by the model and left out",
        "modelled, not verified: Model/Sched.lean (hand-written from scheduler.go and tasklist.go); the theorems are about this model, the harness compares it op by op with the code",
    ]
    ctx.assumptions += ["events are handled one at a time (the scheduler reaches quiescence between two events — in the slow histories quiescence includes being blocked inside SetDest); races between removal and completion are explored by the concurrent stress in the thorough tier only as far as the outcome is order-independent",
                        "Go >= 1.23 timer semantics inside synctest (a deadline already in the past is seen by the first select)"]
    L.regen(ctx, ["C07", "C13"])
    L.prove(ctx)
    if not L.build_driver(ctx):
        return
    exe = L.build_harness(ctx, HDIR)
    if not exe:
        return
    n = 600 if ctx.tier == "quick" else 5000
    seeds = [ctx.seed] if ctx.tier == "quick" else [str(int(ctx.seed) * 1000 + k) for k in range(3)]
    allcases = []
    ambiguous = 0
    for sd in seeds:
        rc, out = L.run_harness(ctx, exe, TEST, env={"VERIF_N": n, "VERIF_MAXOPS": 40 if ctx.tier == "quick" else 80, "VERIF_SEED": sd, "VERIF_FLUSH": 1})
        if rc != 0:
            # a panic in the scheduler's goroutine (or in a callback it handed to the proxy) ends the process: the history so far is the replay
            if not L.crash_violation(ctx, TRANSCRIPT, out, "c07"):
                ctx.tie_failures.append("harness run failed (rc=%d): %s" % (rc, out[-600:]))
            return
        impl = "%s/%s" % (ctx.out, TRANSCRIPT)
        model = impl + ".model.txt"
        rc, err = L.drv("model", "c07", impl, model)
        if rc != 0:
            ctx.tie_failures.append("driver model c07 failed: " + err[-200:])
            return
        # the model is the executable specification (Props/C07 are theorems about it): a difference is
        # a violation with the case as replay
        done = set()
        # a task found both removed / finished and past its deadline: Go's select picks either reason; the slow model flags the
        # history from there on and it is left out of the comparison
        amb, cur = set(), None
        for l in open(model, errors="replace"):
            if l.startswith("# case"):
                cur = l.rstrip("\n")
            elif l.startswith("< AMBIGUOUS"):
                amb.add(cur)
        ambiguous += len(amb)
        for d in L.diff_cases(impl, model):
            if d["header"] in amb:
                continue
            sig, what = classify(d)
            if sig in done:
                continue
            done.add(sig)
            ops = [o[2:] for o in L.case_ops(d["lines"], d["first"] + 1)]
            slow = bool(ops) and ops[0] == "sinit"

            def differs(c):
                if slow and not (c and c[0] == "sinit"):
                    return False
                if not L.replay_differs(ctx, exe, TEST, "c07", c, TRANSCRIPT, "model"):
                    return False
                return "AMBIGUOUS" not in open(ctx.out + "/shrink/other.txt", errors="replace").read()
            try:
                if differs(ops):
                    ops = L.shrink_ops(ops, differs)
            except Exception as e:
                ctx.note("shrink failed: %r" % (e,))
            L.violation(ctx, sig, what, {"clause": sig, "case": d["header"], "ops": ["> " + o for o in ops],
                                         "implementation_says": d["impl"], "model_says": d["other"]})
        allcases += L.parse_cases(impl)
    kinds, outs = {}, {}
    for h, lines in allcases:
        k = h.split()[-1]
        kinds[k] = kinds.get(k, 0) + 1
        for l in lines:
            if l.startswith("< "):
                outs[l.split()[1]] = outs.get(l.split()[1], 0) + 1

    def nontrivial(h, lines):
        if h.endswith("scheduler"):
            return sum(1 for l in lines if l.startswith("< onend")) >= 1 and any(l.startswith("< setdest") and l.endswith(" 1") for l in lines)
        return any(l.startswith("> tlcancel") for l in lines) or any(l.startswith("> tllock") for l in lines)
    ctx.coverage["ended_sessions_in_allocator_histories"] = no_task_for_an_ended_session(ctx, exe)
    ctx.coverage.update({
        "evaluations": len(allcases), "distinct_nontrivial": L.distinct_count(allcases, nontrivial),
        "rule": "seeded event histories (add incl. bursts of adjacent tasks of one contract and already expired deadlines, remove-by-contract, shares summing exactly to / overshooting the work amount, time advances onto deadlines +-1ns, proxy exit with destination error / other error) on the real Scheduler under virtual time; raw TaskList sequences. Non-trivial scheduler case: at least one task put in service and one ended; distinct by op list",
        "case_kinds": kinds, "output_distribution": outs, "traces_validated_against_impl": len(allcases),
        "exhaustive": False, "ambiguous_slow_histories_left_out": ambiguous,
    })
    ctx.samples += [{"case": h, "lines": lines[:20]} for h, lines in allcases[:2]]


def replay(ctx, path):
    import json, os
    rp = json.load(open(path))
    ops = [o[2:] if o.startswith("> ") else o for o in rp.get("ops", [])]
    exe = L.build_harness(ctx, HDIR)
    if not exe or not L.build_driver(ctx):
        print("cannot build harness/driver: %s" % ctx.tie_failures)
        return 2
    differs = L.replay_differs(ctx, exe, TEST, "c07", ops, TRANSCRIPT, "model")
    d = ctx.out + "/shrink"
    print(open(d + "/" + TRANSCRIPT).read())
    print("---- model ----")
    print(open(d + "/other.txt").read())
    print("REPLAY: implementation %s the model" % ("DIFFERS from" if differs else "agrees with"))
    return 1 if differs else 0
