"""C06 — after a pool connection fails, relaying resumes once or the miner is released."""
import lifelib as S
import prvlib as L

RULE = ("regular fragment (compared with the model op by op): steady-state traffic (pool jobs, miner shares), failures of the active connection and of "
        "absent connections, time advances around the 3 s reconnect delay, the pool unreachable or not authorising at the reconnect, the miner hanging up "
        "or the node shutting down while relaying or during the wait; random stream (judged by the monitor): the same plus contract tasks switching to "
        "reachable / unreachable / not authorising pools, failures of parked connections, in any order. Non-trivial: a history with at least one pool failure")


def run(ctx):
    ctx.trusted_base += [
        "Model/Life.lean (hand-written from Proxy.Run's reconnect branch, Proxy.ConnectDest, Scheduler.Run's destination-error handling) on top of Model/Session.lean",
        "lifecycle harness harness/tcphandlers/verif_life_test.go: the real TCP handler (tcphandlers.NewTCPHandler: StratumConnection, ConnSource, Proxy, Scheduler, the allocator's miner list) serving a fake miner over net.Pipe, with fake pools behind the DestConnFactory seam, in a synctest bubble; pool-side close, unreachable / not authorising pools, handshake faults, miner hang-up, shutdown, idle time; after every op the open pool connections, the number of Proxy.Run / Pipe.Run goroutines (from runtime.Stack), whether the scheduler runs and whether the miner is listed",
        "monitor Driver/LifeMon.lean on the random stream: dials per pool within one per failure / task / initial connection (no reconnect storm), a pool connection is closed by the proxy only with a reason, a failed change of destination keeps the miner on its pool",
        "real-time histories harness/tcphandlers/verif_lifert_test.go (the same real TCP handler against the wall clock, four timings in parallel): the active pool breaks, a task's destination change starts during the 3 s reconnect wait and is still in its handshake when the wait ends; judged by Driver/LifeMon.lean monitorRT (one connection to the task's pool, relayed in both directions with it only, the broken pool not dialled on top)",
        "modelled, not verified: timing inside one quiescence step; which error wins after a shutdown",
    ]
    ctx.assumptions += ["faults are pool-side closes (resets and stalls are represented by closes and by unanswered requests)", "events are separated by quiescence; nothing happens exactly at the instant the reconnect is due"]
    L.prove(ctx)
    if not L.build_driver(ctx):
        return
    exe = L.build_harness(ctx, S.HDIR)
    if not exe:
        return
    quick = ctx.tier == "quick"
    reg, rnd = S.run_life(ctx, "C06", exe, 200 if quick else 3000, 200 if quick else 3000)
    S.coverage(ctx, reg, rnd, RULE)
    # "the replacement goes to the same destination": two sessions at the same time through one real TCP handler, the pool connection
    # of the earlier one breaks — its replacement is authorised as Model/Cred says for the configured destination and *that* miner
    rc, out = L.run_harness(ctx, exe, "TestVerifC17Handler$", env={"VERIF_N": 60 if quick else 1200}, timeout=600)
    himpl = ctx.out + "/c17h.impl.txt"
    if rc != 0:
        ctx.tie_failures.append("handler harness run failed (rc=%d): %s" % (rc, out[-300:]))
    elif L.drv("model", "c17", himpl, himpl + ".model.txt")[0] == 0:
        for d in L.diff_cases(himpl, himpl + ".model.txt")[:1]:
            L.violation(ctx, "c06:replacement-authorised-for-another-destination-account", "one TCP handler, sessions side by side: a pool connection (first one of a session, or the one that replaces a broken one) was authorised as %r; for the configured destination and that session's miner it is %r (hex user, hex password)" % (d["impl"], d["other"]),
                        {"clause": "relaying resumes through one replacement connection to the same destination", "case": d["header"],
                         "ops": [l for l in d["lines"][:d["first"] + 1] if l.startswith("> ")], "seed": ctx.seed,
                         "how_to_replay": "VERIF_SEED=<seed> bin/check C06 --tier quick (the handler harness is seeded; the case header names the case)"})
        ctx.coverage["handler_sessions_compared"] = sum(1 for h, ls in L.parse_cases(himpl) for l in ls if l.startswith("> "))
    # real time: a destination change still in its dial / handshake when the reconnect wait ends (Proxy.Run then waits on a
    # sync.Mutex, which freezes a synctest clock); four variants run in parallel against the wall clock (about 10 s)
    def rt_run():
        rc, out = L.run_harness(ctx, exe, "TestVerifLifeRealtime$", env={}, timeout=180)
        if rc != 0:
            ctx.tie_failures.append("real-time lifecycle run failed (rc=%d): %s" % (rc, out[-300:]))
            return None
        found = {}
        for case, c in L.run_monitor(ctx, "lifert", "lifert.impl.txt"):
            body, _, op = c.partition(" @ ")
            if body.startswith("C06 "):
                found[op] = (case, body)
        return found
    first = rt_run()
    if first is None:
        return
    rt = L.parse_cases(ctx.out + "/lifert.impl.txt")
    if first:
        # wall-clock runs can be disturbed by load: a complaint counts only if the same timing complains again
        second = rt_run() or {}
        first = {op: v for op, v in first.items() if op in second}
    seen = set()
    for op, (case, body) in sorted(first.items()):
        sig = "c06:rt-" + ("change-under-way-at-reconnect" if "in service" in body else "failed-change-not-served-by-default")
        if sig in seen:
            continue
        seen.add(sig)
        L.violation(ctx, sig, body[4:] + " @ " + op, {"clause": body[4:], "case": case, "ops": ["> " + op],
                                                      "how_to_replay": "bin/check C06 --tier quick (the four real-time variants are run every time; the op names the timing)"})
    ctx.coverage["realtime_histories"] = len(rt)


def replay(ctx, path):
    return S.replay(ctx, path, "C06")
