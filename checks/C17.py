"""C17 — pool credentials: account kept, worker suffix propagated only when allowed."""
import prvlib as L


def classify(d, what):
    op = L.last_op_before(d["lines"], d["first"]).split()
    opn = op[1] if len(op) > 1 else "?"
    return "c17:%s" % opn, "%s %s: implementation %r, model %r" % (what, opn, d["impl"], d["other"])


def one(ctx, hdir, test, transcript, n, what):
    exe = L.build_harness(ctx, hdir)
    if not exe:
        return []
    rc, out = L.run_harness(ctx, exe, test, env={"VERIF_N": n})
    if rc != 0:
        ctx.tie_failures.append("harness run failed (rc=%d): %s" % (rc, out[-500:]))
        return []
    impl = "%s/%s" % (ctx.out, transcript)
    model = impl + ".model.txt"
    rc, err = L.drv("model", "c17", impl, model)
    if rc != 0:
        ctx.tie_failures.append("driver model c17 failed: " + err[-200:])
        return []
    done = set()
    for d in L.diff_cases(impl, model):
        sig, w = classify(d, what)
        if sig in done:
            continue
        done.add(sig)
        op = L.last_op_before(d["lines"], d["first"])
        L.violation(ctx, sig, w, {"clause": sig, "case": d["header"], "ops": [op], "implementation_says": d["impl"], "model_says": d["other"],
                                  "note": "tokens are: hasUser user(hex) hasPassword password(hex) host(hex) rest(hex)"})
    return L.parse_cases(impl)


def names_on_the_wire(ctx):
    """the names the pools actually see: (a) shares forwarded in the mining phase (session harness, judged by the
    session monitor's name clause), (b) the authorize sent to the pool in the handshake incl. contract
    connections (C15 harness, compared with Model/Handshake.lean whose credentials are Model/Cred.lean's)"""
    exe = L.build_harness(ctx, "proxy")
    if not exe:
        return 0
    quick = ctx.tier == "quick"
    n_sess = 0
    # (a)
    rc, out = L.run_harness(ctx, exe, "TestVerifSession$", env={"VERIF_N": 200 if quick else 3000, "VERIF_MAXOPS": 30 if quick else 60}, timeout=1500)
    if rc != 0:
        ctx.tie_failures.append("session harness run failed (rc=%d): %s" % (rc, out[-400:]))
    else:
        cases = L.parse_cases(ctx.out + "/sess.impl.txt")
        n_sess += len(cases)
        bycase = dict(cases)
        for case, c in L.run_monitor(ctx, "sess", "sess.impl.txt"):
            body, _, op = c.partition(" @ ")
            if "under the name" not in body:
                continue
            ops = []
            for l in bycase.get(case, []):
                if l.startswith("> "):
                    ops.append(l)
                    if l[2:] == op:
                        break
            L.violation(ctx, "c17:share-forwarded-under-a-name-the-connection-was-not-authorised-with", body[4:] + " @ " + op,
                        {"clause": body[4:], "case": case, "ops": ops, "how_to_replay": "bin/check C02 --replay <this file> (same session harness)"})
            break
    # (b)
    rc, out = L.run_harness(ctx, exe, "TestVerifC15$", env={"VERIF_N": 300 if quick else 6000, "VERIF_FLUSH": 1})
    if rc != 0:
        ctx.tie_failures.append("handshake harness run failed (rc=%d): %s" % (rc, out[-400:]))
    else:
        impl = ctx.out + "/c15.impl.txt"
        model = impl + ".model.txt"
        rc, err = L.drv("model", "c15", impl, model)
        if rc != 0:
            ctx.tie_failures.append("driver model c15 failed: " + err[-200:])
        else:
            n_sess += len(L.parse_cases(impl))
            for d in L.diff_cases(impl, model):
                if " authorize " in d["impl"] and " authorize " in d["other"] and "user=" in d["impl"]:
                    op = L.last_op_before(d["lines"], d["first"])
                    ops = [l for l in d["lines"][:d["first"] + 1] if l.startswith("> ")]
                    what = "after %s: the pool was sent %r, the credentials of its destination are %r" % (op[2:], d["impl"], d["other"])
                    L.violation(ctx, "c17:authorize-sent-to-the-pool-with-other-credentials-than-its-destinations", what,
                                {"clause": what, "case": d["header"], "ops": ops, "how_to_replay": "bin/check C15 --replay <this file> (same handshake harness)"})
                    break
    return n_sess


def run(ctx):
    ctx.trusted_base += [
        "names on the wire: the session harness (C02-C04) and the handshake harness (C15) are run as well; a share forwarded under a name the pool connection was not authorised with (session monitor) and an authorize whose user / password differ from Model/Cred.lean's for that destination (handshake correspondence) are violations of this property",
        "correspondence harnesses harness/proxy/verif_c17_test.go (lib.CopyURL/SetUserName/SetWorkerName/SplitUsername, getDestUserName, shouldPropagateWorkerName, isContractAddress) and harness/contract/verif_c17_test.go (getAdjustedDest of a real seller watcher)",
        "modelled, not verified: Model/Cred.lean; net/url parsing and escaping (the harness hands the model the parsed components)",
    ]
    ctx.assumptions += ["ASCII host names (strings.ToLower modelled for ASCII)", "the user name and password the authorize handler sends are those of the URL it adjusted (checked end to end by the session harness of C15)"]
    L.prove(ctx)
    if not L.build_driver(ctx):
        return
    n = 3000 if ctx.tier == "quick" else 200000
    cases = one(ctx, "proxy", "TestVerifC17$", "c17.impl.txt", n, "credential function")
    cases += one(ctx, "contract", "TestVerifC17Adjusted$", "c17adj.impl.txt", n // 5, "contract destination")
    # several miners, one after the other, through ONE real TCP handler (one configured destination): what the pool is presented with
    cases += one(ctx, "tcphandlers", "TestVerifC17Handler$", "c17h.impl.txt", 60 if ctx.tier == "quick" else 1500, "name presented by the TCP handler's session")
    n_wire = names_on_the_wire(ctx)
    # … and on connections that replace a failed one (lifecycle harness: the real TCP handler, a contract task, pool failures)
    import sesslib
    ctx.coverage["submits_after_reconnects_compared"] = sesslib.after_reconnect(ctx, "C17")
    ops = {}
    distinct = set()
    for h, lines in cases:
        for l in lines:
            if l.startswith("> "):
                ops[l.split()[1]] = ops.get(l.split()[1], 0) + 1
                distinct.add(l)
    ctx.coverage.update({
        "evaluations": sum(ops.values()), "distinct_nontrivial": len(distinct),
        "rule": "miner names (no dot, empty parts, several dots, 40-hex with/without 0x/0X, 39-hex, non-hex, '@') x destination URLs (no user-info, empty user, user with/without password, empty password, escapes, '@' in user, pplp hosts in different positions and cases, paths/queries/fragments) x both flag values; every op compares one real function with the model. Distinct = distinct op lines; every op is non-trivial",
        "ops": ops, "traces_validated_against_impl": len(cases), "sessions_and_handshakes_checked_for_names_on_the_wire": n_wire,
    })
    ctx.samples += [{"case": h, "lines": lines[:4]} for h, lines in cases[:2]]


def replay(ctx, path):
    import json, os
    rp = json.load(open(path))
    sig = rp.get("signature", "")
    if sig.startswith("c17:authorize-sent"):
        return L.generic_replay(ctx, path, "proxy", "TestVerifC15$", "c15", "c15.impl.txt")
    if sig.startswith("c17:share-forwarded"):
        ops = [o[2:] if o.startswith("> ") else o for o in rp.get("ops", [])]
        exe = L.build_harness(ctx, "proxy")
        if not exe or not L.build_driver(ctx):
            print("cannot build harness/driver: %s" % ctx.tie_failures)
            return 2
        d = ctx.out + "/shrink"
        os.makedirs(d, exist_ok=True)
        open(d + "/ops.txt", "w").write("\n".join(ops) + "\n")
        e = L.go_env({"VERIF_OUT": d, "VERIF_SEED": ctx.seed, "VERIF_REPLAY_OPS": d + "/ops.txt"})
        L.sh([exe, "-test.run", "TestVerifSession$", "-test.timeout", "60s"], cwd=d, env=e, timeout=90)
        t = d + "/sess.impl.txt"
        print(open(t).read() if os.path.exists(t) else "")
        L.drv("monitor", "sess", t, d + "/mon.txt")
        mon = open(d + "/mon.txt").read()
        hit = [l for l in mon.split("\n") if "under the name" in l]
        print("\n".join(hit))
        print("REPLAY: %s" % ("the violation reproduces" if hit else "no violation"))
        return 1 if hit else 0
    print("this C17 op is a pure function call: the failing op, the implementation's and the model's answers are in the replay file; rerun bin/check C17 with the same VERIF_SEED")
    return 0
