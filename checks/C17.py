"""C17 — pool credentials: account kept, worker suffix propagated only when allowed."""
import prvlib as L


def classify(d, what):
    op = L.last_op_before(d["lines"], d["first"]).split()
    opn = op[1] if len(op) > 1 else "?"
    return "c17:%s" % opn, "%s %s: implementation %r, model %r" % (what, opn, d["impl"], d["other"])


def one(ctx, hdir, test, transcript, n, what):
    exe = L.build_harness(ctx, hdir)
    if not exe:
        return []
    rc, out = L.run_harness(ctx, exe, test, env={"VERIF_N": n})
    if rc != 0:
        ctx.tie_failures.append("harness run failed (rc=%d): %s" % (rc, out[-500:]))
        return []
    impl = "%s/%s" % (ctx.out, transcript)
    model = impl + ".model.txt"
    rc, err = L.drv("model", "c17", impl, model)
    if rc != 0:
        ctx.tie_failures.append("driver model c17 failed: " + err[-200:])
        return []
    done = set()
    for d in L.diff_cases(impl, model):
        sig, w = classify(d, what)
        if sig in done:
            continue
        done.add(sig)
        op = L.last_op_before(d["lines"], d["first"])
        L.violation(ctx, sig, w, {"clause": sig, "case": d["header"], "ops": [op], "implementation_says": d["impl"], "model_says": d["other"],
                                  "note": "tokens are: hasUser user(hex) hasPassword password(hex) host(hex) rest(hex)"})
    return L.parse_cases(impl)


def run(ctx):
    ctx.trusted_base += [
        "correspondence harnesses harness/proxy/verif_c17_test.go (lib.CopyURL/SetUserName/SetWorkerName/SplitUsername, getDestUserName, shouldPropagateWorkerName, isContractAddress) and harness/contract/verif_c17_test.go (getAdjustedDest of a real seller watcher)",
        "modelled, not verified: Model/Cred.lean; net/url parsing and escaping (the harness hands the model the parsed components)",
    ]
    ctx.assumptions += ["ASCII host names (strings.ToLower modelled for ASCII)", "the user name and password the authorize handler sends are those of the URL it adjusted (checked end to end by the session harness of C15)"]
    L.prove(ctx)
    if not L.build_driver(ctx):
        return
    n = 3000 if ctx.tier == "quick" else 200000
    cases = one(ctx, "proxy", "TestVerifC17$", "c17.impl.txt", n, "credential function")
    cases += one(ctx, "contract", "TestVerifC17Adjusted$", "c17adj.impl.txt", n // 5, "contract destination")
    ops = {}
    distinct = set()
    for h, lines in cases:
        for l in lines:
            if l.startswith("> "):
                ops[l.split()[1]] = ops.get(l.split()[1], 0) + 1
                distinct.add(l)
    ctx.coverage.update({
        "evaluations": sum(ops.values()), "distinct_nontrivial": len(distinct),
        "rule": "miner names (no dot, empty parts, several dots, 40-hex with/without 0x/0X, 39-hex, non-hex, '@') x destination URLs (no user-info, empty user, user with/without password, empty password, escapes, '@' in user, pplp hosts in different positions and cases, paths/queries/fragments) x both flag values; every op compares one real function with the model. Distinct = distinct op lines; every op is non-trivial",
        "ops": ops, "traces_validated_against_impl": len(cases),
    })
    ctx.samples += [{"case": h, "lines": lines[:4]} for h, lines in cases[:2]]


def replay(ctx, path):
    print("C17 ops are pure function calls: rerun bin/check C17 with the same VERIF_SEED; the failing op is in the replay file")
    return 0
