"""C03 — the miner always hashes work that is valid for the pool it is assigned to."""
import prvlib as L
import sesslib as S


def nontrivial(h, lines):
    # a pool changed something while parked and the miner was later switched (back) to a cached destination
    sw = sum(1 for l in lines if l.startswith("< session setdest-ret nil"))
    return sw >= 2 and any(l.startswith("> diff") or l.startswith("> xn") for l in lines)


def relay_reads(ctx):
    """what the relay and the parked-pool reader are built on: a stratum Read that is stopped (every destination change stops the
    relay directions and the autoread of the parked pool this way) must not lose a pool message that arrives at that instant —
    the read side of C14's connection harness (real StratumConnection, hooked net.Conn) against Model/Conn.lean"""
    exe = L.build_harness(ctx, "proxy")
    if not exe:
        return 0
    rc, out = L.run_harness(ctx, exe, "TestVerifC14$", env={"VERIF_N": 240 if ctx.tier == "quick" else 3000}, timeout=900)
    if rc != 0:
        ctx.tie_failures.append("connection harness run failed (rc=%d): %s" % (rc, out[-300:]))
        return 0
    impl = ctx.out + "/c14.impl.txt"
    rc, err = L.drv("model", "c14", impl, impl + ".model.txt")
    if rc != 0:
        ctx.tie_failures.append("driver model c14 failed: " + err[-200:])
        return 0
    for d in L.diff_cases(impl, impl + ".model.txt"):
        if d["header"].split()[-1] != "read":
            continue
        ops = [l for l in d["lines"][:d["first"] + 1] if l.startswith("> ")]
        L.violation(ctx, "c03:relay-read-loses-or-alters-a-pool-message",
                    "a stratum Read that is being stopped: implementation %r, model %r — a notification of the pool that arrives while a relay direction (or the reader of a parked pool) is stopped for a destination change does not reach the miner / the pool's recorded view" % (d["impl"], d["other"]),
                    {"clause": "notifications are relayed in order and unaltered; the parked pool's view is kept up to date", "case": d["header"], "ops": ops,
                     "how_to_replay": "bin/check C03 --replay <this file>"})
        break
    return sum(1 for h, ls in L.parse_cases(impl) if h.endswith("read") for l in ls if l.startswith("> "))


def run(ctx):
    cases = S.run_session_check(ctx, "C03")
    ctx.coverage["relay_read_ops_compared"] = relay_reads(ctx)
    S.session_coverage(ctx, cases, nontrivial, S.GEN_RULE + " Non-trivial: at least two successful switches and a difficulty or extranonce change; distinct by op list")


def replay(ctx, path):
    import json
    if json.load(open(path)).get("signature", "").startswith("c03:relay-read"):
        return L.generic_replay(ctx, path, "proxy", "TestVerifC14$", "c14", "c14.impl.txt")
    return S.session_replay(ctx, path, "C03")
