"""C03 — the miner always hashes work that is valid for the pool it is assigned to."""
import sesslib as S


def nontrivial(h, lines):
    # a pool changed something while parked and the miner was later switched (back) to a cached destination
    sw = sum(1 for l in lines if l.startswith("< session setdest-ret nil"))
    return sw >= 2 and any(l.startswith("> diff") or l.startswith("> xn") for l in lines)


def run(ctx):
    cases = S.run_session_check(ctx, "C03")
    S.session_coverage(ctx, cases, nontrivial, S.GEN_RULE + " Non-trivial: at least two successful switches and a difficulty or extranonce change; distinct by op list")


def replay(ctx, path):
    return S.session_replay(ctx, path, "C03")
