"""C03 — the miner always hashes work that is valid for the pool it is assigned to."""
import prvlib as L
import sesslib as S


def nontrivial(h, lines):
    # a pool changed something while parked and the miner was later switched (back) to a cached destination
    sw = sum(1 for l in lines if l.startswith("< session setdest-ret nil"))
    return sw >= 2 and any(l.startswith("> diff") or l.startswith("> xn") for l in lines)


def relay_reads(ctx):
    return L.conn_reads(ctx, "c03:relay-read-loses-or-alters-a-pool-message",
                        "a notification of the pool that arrives while a relay direction (or the reader of a parked pool) is stopped for a destination change does not reach the miner / the pool's recorded view",
                        "notifications are relayed in order and unaltered; the parked pool's view is kept up to date", "C03")


def run(ctx):
    cases = S.run_session_check(ctx, "C03")
    ctx.coverage["relay_read_ops_compared"] = relay_reads(ctx)
    S.session_coverage(ctx, cases, nontrivial, S.GEN_RULE + " Non-trivial: at least two successful switches and a difficulty or extranonce change; distinct by op list")


def replay(ctx, path):
    import json
    if json.load(open(path)).get("signature", "").startswith("c03:relay-read"):
        return L.generic_replay(ctx, path, "proxy", "TestVerifC14$", "c14", "c14.impl.txt")
    return S.session_replay(ctx, path, "C03")
