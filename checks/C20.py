"""C20 — hashrate arithmetic is consistent."""
import re
import prvlib as L

HDIR, TEST, TRANSCRIPT = "hashrate", "TestVerifC20$", "c20.impl.txt"


def sig_of(clause, op):
    return "c20:" + re.sub(r"-+", "-", re.sub(r"[^A-Za-z]+", "-", clause.split(":")[0]))[:70]


def worker_record(ctx):
    """'the mean reports total work over elapsed time' for the record a buyer / validator reads: the real GlobalHashrate (several
    connections under one worker name, shares, resets) against Model/WorkerBook.lean, op by op"""
    exe = L.build_harness(ctx, "hashrate")
    if not exe:
        return 0
    rc, out = L.run_harness(ctx, exe, "TestVerifBook$", env={"VERIF_N": 300 if ctx.tier == "quick" else 6000}, timeout=600)
    if rc != 0:
        ctx.tie_failures.append("worker-record harness run failed (rc=%d): %s" % (rc, out[-300:]))
        return 0
    impl = ctx.out + "/book.impl.txt"
    rc, err = L.drv("model", "book", impl, impl + ".model.txt")
    if rc != 0:
        ctx.tie_failures.append("driver model book failed: " + err[-200:])
        return 0
    for d in L.diff_cases(impl, impl + ".model.txt")[:1]:
        L.violation(ctx, "c20:work-credited-to-a-worker-is-not-what-is-reported", "after %s the record reads %r, the model %r (per worker name: last share second, total work): work that was credited is no longer reported, or work is reported that was not credited" % (
            L.last_op_before(d["lines"], d["first"])[2:], d["impl"][:120], d["other"][:120]),
            {"clause": "the mean estimator reports total work over elapsed time", "case": d["header"],
             "ops": [l for l in d["lines"][:d["first"] + 1] if l.startswith("> ")], "how_to_replay": "bin/check C20 --replay <this file>"})
    return sum(1 for h, ls in L.parse_cases(impl) for l in ls if l.startswith("> "))


def run(ctx):
    ctx.trusted_base += [
        "tools/gofacts: the eight conversions of hashrate.go translated to Gen.C20 over Rat, exact and with an explicit rounding function after every float operation",
        "correspondence harness harness/hashrate/verif_c20_test.go: real conversions vs Gen (8*2^-53 relative), real Mean/Ema/Sma under virtual time vs Model/Estimators.lean (Ema decay = exact value of Float.exp)",
        "the mean where it is used: the delivery harness of C09 (real seller watcher, allocator, schedulers over fake miners under virtual time) runs here too; the mean hashrate the contract reports is judged against the work that reached its destination over the time since it started delivering (Driver/C09.lean, clause C20)",
        "modelled, not verified: Model/Estimators.lean (hand-written from mean.go, ema.go, sma.go)",
    ]
    ctx.assumptions += ["IEEE-754 binary64 correctly rounded, no overflow/underflow in the magnitudes used (hypothesis `Rounding u fl`, u = 2^-53)",
                        "share work amounts are integers (credited difficulty is a uint64)", "half-life and window > 0, time monotone"]
    L.regen(ctx, ["C20"])
    L.prove(ctx)
    if not L.build_driver(ctx):
        return
    exe = L.build_harness(ctx, HDIR)
    if not exe:
        return
    n = 300 if ctx.tier == "quick" else 5000
    rc, out = L.run_harness(ctx, exe, TEST, env={"VERIF_N": n, "VERIF_MAXOPS": 40 if ctx.tier == "quick" else 120})
    if rc != 0:
        ctx.tie_failures.append("harness run failed (rc=%d): %s" % (rc, out[-500:]))
        return
    complaints = L.run_monitor(ctx, "c20", TRANSCRIPT)
    ctx.coverage["worker_record_ops_compared"] = worker_record(ctx)
    L.handle_complaints(ctx, complaints, sig_of)
    # the mean estimator where it is used: the hashrate a running seller contract reports (closed loop of C09: real watcher,
    # allocator and schedulers over fake miners in virtual time) against the work that reached its destination
    cexe = L.build_harness(ctx, "contract")
    est_lines = 0
    if cexe:
        rc, out = L.run_harness(ctx, cexe, "TestVerifDelivery$", env={"VERIF_N": 30 if ctx.tier == "quick" else 600, "VERIF_FLUSH": 1}, timeout=1700)
        if rc != 0:
            ctx.tie_failures.append("delivery harness run failed (rc=%d): %s" % (rc, out[-300:]))
        else:
            dcases = dict(L.parse_cases(ctx.out + "/delivery.impl.txt"))
            est_lines = sum(1 for ls in dcases.values() for l in ls if l.startswith("< est"))
            seen_e = set()
            for case, c in L.run_monitor(ctx, "c09", "delivery.impl.txt"):
                body, _, op = c.partition(" @ ")
                if not body.startswith("C20 "):
                    continue
                sig = "c20:contract-mean-is-not-work-over-elapsed-time"
                if sig in seen_e:
                    continue
                seen_e.add(sig)
                ops = []
                for l in dcases.get(case, []):
                    if l.startswith("> "):
                        ops.append(l)
                        if l[2:] == op:
                            break
                L.violation(ctx, sig, body[4:] + " @ " + op, {"clause": body[4:], "case": case, "ops": ops, "how_to_replay": "bin/check C09 --replay <this file>"})
    ctx.coverage["contract_mean_observations"] = est_lines
    cases = L.parse_cases("%s/%s" % (ctx.out, TRANSCRIPT))
    kinds, nops, distinct = {}, 0, set()
    for h, lines in cases:
        k = h.split()[-1]
        for l in lines:
            if l.startswith("> "):
                nops += 1
                kinds[l.split()[1]] = kinds.get(l.split()[1], 0) + 1
                if l.split()[1] in ("conv", "rt"):
                    distinct.add(l)
        if k.startswith("estimator") and any(l.startswith("< ") for l in lines):
            distinct.add("\n".join(l for l in lines if l.startswith("> ")))
    ctx.coverage.update({
        "evaluations": nops, "distinct_nontrivial": len(distinct),
        "rule": "conversions and round trips on the grid 1 GH/s..10 EH/s x 1s..4 weeks plus seeded magnitudes (incl. sub-second durations); estimator cases: seeded add/advance/read patterns (same-second reads, hour gaps, resets, half-life/window 1ns..30min) on the real Mean/Ema/Sma under virtual time. Non-trivial: every conversion op; an estimator case with at least one read. Distinct by op text / op list",
        "op_distribution": kinds, "traces_validated_against_impl": len(cases),
    })
    ctx.samples += [{"case": h, "lines": lines[:6]} for h, lines in cases[1:4]]


def replay(ctx, path):
    import json as _j
    if _j.load(open(path)).get("signature", "").startswith("c20:work-credited"):
        return L.generic_replay(ctx, path, "hashrate", "TestVerifBook$", "book", "book.impl.txt", mode="model")
    return L.generic_replay(ctx, path, HDIR, TEST, "c20", TRANSCRIPT)
