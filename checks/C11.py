"""C11 — allocation never over-commits and only uses eligible miners."""
import re
import prvlib as L

HDIR, TEST, TRANSCRIPT = "allocator", "TestVerifC11$", "c11.impl.txt"


def sig_of(clause, op):
    c = re.sub(r"\{[^}]*\}|\[[^\]]*\]|[0-9/]+", "", clause)
    return "c11:" + re.sub(r"-+", "-", re.sub(r"[^A-Za-z]+", "-", c)).strip("-")[:70]


def run(ctx):
    ctx.trusted_base += [
        "wiring harness harness/tcphandlers/verif_c11_test.go: the real TCP handler built with a vetting threshold different from the cache size; the scheduler's IsVetting after each accepted share",
        "tools/gofacts: AllocationMinJob/MinDuration/HashratePredictionAdjustment (Gen.C11) and the conversions (Gen.C20) regenerated each run",
        "correspondence harness harness/allocator/verif_c11_test.go: real Allocator over real Schedulers with fake proxies; the handed-out tasks are read back from the queues",
        "modelled, not verified: Model/Alloc.lean (hand-written from allocator.go and the status predicates of scheduler.go)",
    ]
    ctx.assumptions += ["sequential calls (one snapshot per call); concurrent AddTask between snapshot and hand-out is outside this property's quantifier",
                        "float64 arithmetic compared with exact rationals up to 1e-9 relative; integer GH/s, whole-second durations in the generator",
                        "a float division by zero in durationToDoJobWithMiner converts to a negative Duration (amd64) => miner skipped"]
    L.regen(ctx, ["C11", "C20", "Wiring"])
    L.prove(ctx)
    if not L.build_driver(ctx):
        return
    exe = L.build_harness(ctx, HDIR)
    if not exe:
        return
    n = 800 if ctx.tier == "quick" else 8000
    rc, out = L.run_harness(ctx, exe, TEST, env={"VERIF_N": n})
    if rc != 0:
        ctx.tie_failures.append("harness run failed (rc=%d): %s" % (rc, out[-500:]))
        return
    complaints = L.run_monitor(ctx, "c11", TRANSCRIPT)
    # replay needs the whole case (population + calls)
    cases = L.parse_cases("%s/%s" % (ctx.out, TRANSCRIPT))
    bycase = {h: lines for h, lines in cases}
    for case, c in complaints:
        body, _, op = c.partition(" @ ")
        if body.startswith("PROP "):
            ops = []
            for l in bycase.get(case, []):
                if l.startswith("> "):
                    ops.append(l)
                    if l[2:] == op:
                        break
            L.violation(ctx, sig_of(body[5:], op), body[5:] + " @ " + op, {"clause": body[5:], "case": case, "ops": ops})
        elif body.startswith("CORR ") and not any("correspondence" in t for t in ctx.tie_failures):
            ctx.tie_failures.append("correspondence broken: %s @ %s (%s)" % (body[5:], op, case))
    # wiring: the vetting threshold the allocator's eligibility test relies on reaches the proxy as configured (real TCP handler
    # with MINER_VETTING_SHARES = V, PROXY_MAX_CACHED_DESTS = M; after each accepted share: still vetting iff fewer than V shares)
    wexe = L.build_harness(ctx, "tcphandlers")
    wiring_rows = 0
    if wexe:
        rc, out = L.run_harness(ctx, wexe, "TestVerifC11Wiring$", env={}, timeout=300)
        if rc != 0:
            ctx.tie_failures.append("wiring harness run failed (rc=%d): %s" % (rc, out[-300:]))
        else:
            seen_w = set()
            for h, lines in L.parse_cases(ctx.out + "/c11w.impl.txt"):
                v = None
                for l in lines:
                    if l.startswith("> wiring"):
                        v = int(dict(t.split("=") for t in l.split()[2:])["vetting"])
                        opl = l
                    elif l.startswith("< shares=") and v is not None:
                        wiring_rows += 1
                        kv = dict(t.split("=") for t in l.split()[1:])
                        k, vet = int(kv["shares"]), kv["vetting"] == "1"
                        if vet != (k < v) and "c11:wiring" not in seen_w:
                            seen_w.add("c11:wiring")
                            L.violation(ctx, "c11:vetting-threshold-not-the-configured-one",
                                        "with MINER_VETTING_SHARES=%d the miner counts as %s after %d accepted shares: the eligibility test of the allocator lets a miner that is not past vetting receive tasks (or keeps a vetted one out)" % (v, "vetting" if vet else "vetted", k),
                                        {"clause": "only miners past vetting receive tasks", "case": h, "ops": [opl]})
    ctx.coverage["wiring_observations"] = wiring_rows
    nalloc = sum(1 for h, ls in cases for l in ls if l.startswith("< alloc"))
    calls = {}
    nontrivial = set()
    for h, lines in cases:
        for l in lines:
            if l.startswith("> full") or l.startswith("> partial"):
                calls[l.split()[1]] = calls.get(l.split()[1], 0) + 1
        if any(l.startswith("< alloc") for l in lines):
            nontrivial.add("\n".join(l for l in lines if l.startswith("> ")))
    ctx.coverage.update({
        "evaluations": sum(calls.values()), "distinct_nontrivial": len(nontrivial),
        "rule": "seeded populations of 1..8 miners (distinct integer rates 0..4096 GH/s; vetting, disconnecting, free, pre-loaded with 1..3 tasks around the minimum chunk) and 1..4 consecutive full/partial calls with requests around the thresholds (0, 4999, 5000, 5001, huge) and durations 0,1,4,5,30,60,300,600,4095 s. Non-trivial case: at least one task handed out; distinct by op list",
        "calls": calls, "tasks_handed_out": nalloc, "traces_validated_against_impl": len(cases),
    })
    ctx.samples += [{"case": h, "lines": lines[:14]} for h, lines in cases[1:3]]


def replay(ctx, path):
    return L.generic_replay(ctx, path, HDIR, TEST, "c11", TRANSCRIPT)
