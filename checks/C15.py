"""C15 — handshake correlated and ordered per connection; contract routing correct."""
import re
import prvlib as L

HDIR, TEST, TRANSCRIPT = "proxy", "TestVerifC15$", "c15.impl.txt"


def sig_of_diff(d):
    op = L.last_op_before(d["lines"], d["first"])
    opk = " ".join(x for i, x in enumerate(op.split()[1:4]) if i != 1)
    canon = lambda l: re.sub(r"[0-9]+", "N", " ".join(l.split()[2:5])) if l.startswith("<") else "nothing"
    return "c15:" + re.sub(r"-+", "-", re.sub(r"[^A-Za-z]+", "-", "%s-impl-%s-model-%s" % (opk, canon(d["impl"]), canon(d["other"])))).strip("-")[:90]


def run(ctx):
    ctx.trusted_base += [
        "Model/Handshake.lean (hand-written from handler_first_connect.go, pipe_sync.go, ConnDest.readInterceptor/onceResult): one connection = one state, no state shared between connections",
        "correspondence harness harness/proxy/verif_c15_test.go: 1..3 miner connections, each a real Proxy running Connect, in one process inside a synctest bubble; fake pools in manual mode so that every pool reply and every extra notification is an op of the history (any request order, any reply timing); compared op by op with the model",
        "the user name / password sent to the pool come from Model/Cred.lean (C17)",
        "modelled, not verified: JSON decoding of the handshake messages (C05), a second mining.configure on a connection that already has a destination and requests before any destination exists other than configure/subscribe/authorize (they crash the process: C05), error-array replies to configure/subscribe",
    ]
    ctx.assumptions += ["one message at a time (pipeDuplexSync) with quiescence between events", "request ids are not reused while a reply is pending"]
    L.regen(ctx, ["Wiring", "C15"])
    L.prove(ctx)
    if not L.build_driver(ctx):
        return
    exe = L.build_harness(ctx, HDIR)
    if not exe:
        return
    n = 600 if ctx.tier == "quick" else 6000
    rc, out = L.run_harness(ctx, exe, TEST, env={"VERIF_N": n, "VERIF_FLUSH": 1})
    if rc != 0:
        if not L.crash_violation(ctx, TRANSCRIPT, out, "c15"):
            ctx.tie_failures.append("harness run failed (rc=%d): %s" % (rc, out[-500:]))
        return
    impl = "%s/%s" % (ctx.out, TRANSCRIPT)
    model = impl + ".model.txt"
    rc, err = L.drv("model", "c15", impl, model)
    if rc != 0:
        ctx.tie_failures.append("driver model c15 failed: " + err[-200:])
        return
    cases = L.parse_cases(impl)
    done = set()
    for d in L.diff_cases(impl, model):
        op = L.last_op_before(d["lines"], d["first"])
        sig = sig_of_diff(d)
        if sig in done:
            continue
        done.add(sig)
        ops = [l for l in d["lines"][:d["first"] + 1] if l.startswith("> ")]
        def same(c, want=sig):
            if not L.replay_differs(ctx, exe, TEST, "c15", c, TRANSCRIPT):
                return False
            dd = L.diff_cases(ctx.out + "/shrink/" + TRANSCRIPT, ctx.out + "/shrink/other.txt")
            return bool(dd) and sig_of_diff(dd[0]) == want
        try:
            shr = L.shrink_ops([o[2:] for o in ops], same, budget=80)
            ops = ["> " + o for o in shr]
        except Exception as e:
            ctx.note("shrink failed: %r" % (e,))
        what = "after %s: implementation %r, specification %r" % (op[2:], d["impl"], d["other"])
        L.violation(ctx, sig, what, {"clause": what, "case": d["header"], "ops": ops, "how_to_replay": "bin/check C15 --replay <this file>"})
    # one process, ONE TCP handler, several connections one after the other: the account the pool is asked to authorise for a
    # connection is Model/Cred.lean's for the configured destination and that connection's miner name, whatever earlier
    # connections did (harness/tcphandlers/verif_c17_test.go, the real NewTCPHandler)
    hexe = L.build_harness(ctx, "tcphandlers")
    handler_rows = 0
    if hexe:
        rc, out = L.run_harness(ctx, hexe, "TestVerifC17Handler$", env={"VERIF_N": 60 if ctx.tier == "quick" else 1200}, timeout=600)
        himpl = ctx.out + "/c17h.impl.txt"
        if rc != 0:
            ctx.tie_failures.append("handler harness run failed (rc=%d): %s" % (rc, out[-300:]))
        else:
            rc, err = L.drv("model", "c17", himpl, himpl + ".model.txt")
            if rc != 0:
                ctx.tie_failures.append("driver model c17 failed: " + err[-200:])
            else:
                handler_rows = sum(1 for h, ls in L.parse_cases(himpl) for l in ls if l.startswith("> "))
                for d in L.diff_cases(himpl, himpl + ".model.txt")[:1]:
                    k = sum(1 for l in d["lines"][:d["first"]] if l.startswith("> "))
                    L.violation(ctx, "c15:account-presented-depends-on-earlier-connections",
                                "connection %d of one TCP handler: the pool was asked to authorise %r; for the configured destination and this miner's name it is %r (tokens: hex user, hex password)" % (k, d["impl"], d["other"]),
                                {"clause": "the session proceeds only if the pool authorises the destination account, per connection", "case": d["header"],
                                 "ops": [l for l in d["lines"][:d["first"]] if l.startswith("> ")], "seed": ctx.seed, "volume": 60 if ctx.tier == "quick" else 1200, "how_to_replay": "bin/check C15 --replay <this file>"})
    ctx.coverage["handler_connections_checked"] = handler_rows
    # contract routing starts at the contract's pool destination: what the real factory makes of a purchase held as buyer / validator
    L.buyer_world(ctx, "C15")
    outs, nops = {}, 0
    for h, lines in cases:
        for l in lines:
            if l.startswith("> "):
                nops += 1
            elif l.startswith("< ") and " session " in l:
                k = " ".join(l.split()[3:5])
                outs[k] = outs.get(k, 0) + 1
    ctx.coverage.update({
        "evaluations": nops, "distinct_nontrivial": L.distinct_count(cases, lambda h, ls: any(" session connected" in l for l in ls)),
        "rule": "1..3 connections per process; per connection a seeded interleaving of configure (optionally announcing a known contract, a contract whose validator is the contract itself, an unknown address, a non-address), subscribe, authorize (plain, dotted, contract-address and lightning-style names), an unexpected submit, with pool replies (configure / subscribe results with different masks and extranonces, authorize ok / false / error) at seeded later points, unsolicited results, and notify / set_difficulty / set_extranonce / set_version_mask interleaved with the replies; unreachable contract pool in 20% of cases. Non-trivial: a case in which at least one connection completed the handshake; distinct by op list",
        "handshake_outcomes": outs, "traces_validated_against_impl": len(cases),
    })
    ctx.samples += [{"case": h, "lines": lines[:24]} for h, lines in cases[1:3]]


def replay(ctx, path):
    r = L.buyer_world_replay(ctx, "C15", path)
    if r is not None:
        return r
    import json
    rp = json.load(open(path))
    if rp.get("signature", "").startswith("c15:account-presented"):
        # the handler harness is seeded: the same seed and volume reproduce the same connections
        ctx.seed = str(rp.get("seed", ctx.seed))
        hexe = L.build_harness(ctx, "tcphandlers")
        if not hexe or not L.build_driver(ctx):
            print("cannot build harness/driver: %s" % ctx.tie_failures)
            return 2
        L.run_harness(ctx, hexe, "TestVerifC17Handler$", env={"VERIF_N": rp.get("volume", 60)}, timeout=600)
        himpl = ctx.out + "/c17h.impl.txt"
        L.drv("model", "c17", himpl, himpl + ".model.txt")
        dd = L.diff_cases(himpl, himpl + ".model.txt")
        for d in dd[:1]:
            print("\n".join(d["lines"][:d["first"] + 1]))
            print("model: %s" % d["other"])
        print("REPLAY: %s" % ("the violation reproduces" if dd else "no violation"))
        return 1 if dd else 0
    return L.generic_replay(ctx, path, HDIR, TEST, "c15", TRANSCRIPT)
