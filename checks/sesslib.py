"""Shared by the session properties (C02, C03, C04, ...): run the session harness, compare the
implementation with Model/Session.lean op by op, and let the monitor judge the implementation's trace."""
import os
import re
import shutil
import prvlib as L

HDIR, TEST, TRANSCRIPT = "proxy", "TestVerifSession$", "sess.impl.txt"


def norm(clause):
    c = re.sub(r"\b(p[abc])-j\d+\b", "J", clause)
    c = re.sub(r"\bp[abc]\b", "P", c)
    c = re.sub(r"\bsubmit \d+", "submit N", c)
    c = re.sub(r"\b(job|submit) [A-Za-z0-9-]+", r"\1 X", c)
    c = re.sub(r"[0-9]+", "N", c)
    return re.sub(r"-+", "-", re.sub(r"[^A-Za-z]+", "-", c)).strip("-")[:90]


def monitor_ops(ctx, exe, ops, prop, want_sig):
    """replay ops, run the monitor, True when a complaint of `prop` with signature want_sig remains"""
    d = ctx.out + "/shrink"
    os.makedirs(d, exist_ok=True)
    opsf = d + "/ops.txt"
    open(opsf, "w").write("\n".join(ops) + "\n")
    e = L.go_env({"VERIF_OUT": d, "VERIF_SEED": ctx.seed, "VERIF_TIER": ctx.tier, "VERIF_REPLAY_OPS": opsf})
    L.sh([exe, "-test.run", TEST, "-test.timeout", "60s"], cwd=d, env=e, timeout=90)
    impl = d + "/" + TRANSCRIPT
    if not os.path.exists(impl):
        return False
    outp = d + "/mon.txt"
    L.drv("monitor", "sess", impl, outp)
    for line in open(outp, errors="replace"):
        if line.startswith("! " + prop + " "):
            body = line[2:].split(" @ ")[0]
            if prop.lower() + ":" + norm(body[len(prop) + 1:]) == want_sig:
                return True
    return False


def after_reconnect(ctx, prop):
    """sessions in which pool connections fail and are replaced (the session harness has no pool failures): the task
    histories of the lifecycle harness — the real TCP handler with its scheduler, one contract task, failures and reconnects
    of the active pool before and after the switch, late shares — compared with Model/Life.lean (on top of Model/Session.lean)
    op by op.  A difference at a submit is a violation of C02 when it concerns the reply or where the share went, of C04 when
    it concerns the task's credit."""
    exe = L.build_harness(ctx, "tcphandlers")
    if not exe:
        return 0
    rc, out = L.run_harness(ctx, exe, "TestVerifLifeRegular$", env={"VERIF_N": 150 if ctx.tier == "quick" else 3000}, timeout=1700)
    full = ctx.out + "/lifereg.impl.txt"
    if not os.path.exists(full):
        ctx.tie_failures.append("lifecycle harness run failed (rc=%d): %s" % (rc, out[-300:]))
        return 0
    os.replace(full, full + ".full")
    with open(full, "w") as f:
        for l in open(full + ".full", errors="replace"):
            if not l.startswith("< relay "):
                f.write(l)
    model = full + ".model.txt"
    rc2, err = L.drv("model", "life", full, model)
    if rc2 != 0:
        ctx.tie_failures.append("driver model life failed: " + err[-200:])
        return 0
    n, done = 0, set()
    for h, lines in L.parse_cases(full):
        n += sum(1 for l in lines if l.startswith("> msubmit")) if any(l.startswith("> task") for l in lines) else 0
    for d in L.diff_cases(full, model):
        op = L.last_op_before(d["lines"], d["first"])
        both = d["impl"] + " " + d["other"]
        if prop == "C17":
            # the name a (re)connected pool connection is authorised under
            if " authorize " not in both or "skipped-tail" in d["header"] or "c17" in done:
                continue
            done.add("c17")
            L.violation(ctx, "c17:name-presented-on-a-replaced-pool-connection",
                        "in a session with a contract task and replaced pool connections, after %s: the pool was presented with %r, for that destination and this miner it is %r" % (op[2:], d["impl"][:160], d["other"][:160]),
                        {"clause": "the account of the destination is kept, the worker part only where it is propagated", "case": d["header"],
                         "ops": [l for l in d["lines"][:d["first"] + 1] if l.startswith("> ")], "how_to_replay": "bin/check C06 --replay <this file>"})
            continue
        if not op.startswith("> msubmit") or "skipped-tail" in d["header"]:
            continue
        credit = "< cb " in both
        routing = "tominer result" in both or " submit " in both
        if (prop == "C04" and not credit) or (prop == "C02" and not routing) or prop not in ("C02", "C04"):
            continue
        sig = prop.lower() + ":after-reconnect-" + ("task-credit" if credit else "reply-or-forwarding")
        if sig in done:
            continue
        done.add(sig)
        ops = [l for l in d["lines"][:d["first"] + 1] if l.startswith("> ")]
        L.violation(ctx, sig, "in a session with a contract task and replaced pool connections, after %s: implementation %r, model %r" % (op[2:], d["impl"][:160], d["other"][:160]),
                    {"clause": sig, "case": d["header"], "ops": ops, "how_to_replay": "bin/check C06 --replay <this file>"})
    return n


def run_session_check(ctx, prop, n_quick=200, n_thorough=3000, maxops=30):
    ctx.trusted_base += [
        "session harness harness/proxy/verif_session_test.go + verif_sess_ops_test.go: a real Proxy (Connect+Run, SetDest) between a fake miner and fake pools over net.Pipe inside a synctest bubble (virtual time, quiescence after every event); the fakes speak raw JSON and share no code with the repository",
        "correspondence: the implementation's transcript (messages seen by the miner and by every pool connection, task callbacks, ledgers) equals Model/Session.lean's, op by op",
        "monitor Driver/SessMon.lean judges the implementation's own trace against the specification reconstructed from what the harness made the pools and the miner do (job memory = Spec.C19 per pool connection)",
        "modelled, not verified: Model/Session.lean (hand-written from proxy.go, handler_mining.go, handler_change_dest.go, conn_dest.go); proof-of-work abstracted by an oracle (all generated shares have share difficulty 0: accepted iff the job's difficulty is 0) — the hash itself is C01",
    ]
    ctx.assumptions += ["events are separated by quiescence (one miner or pool event at a time; pools answer submits at once)",
                        "destination-map iteration order: cases whose outcome depends on it are recognised and judged by neither model nor monitor",
                        "Go >= 1.23 timer semantics inside synctest"]
    if prop == "C03":
        L.regen(ctx, ["C03"])
    L.prove(ctx)
    if not L.build_driver(ctx):
        return []
    exe = L.build_harness(ctx, HDIR)
    if not exe:
        return []
    n = n_quick if ctx.tier == "quick" else n_thorough
    seeds = [ctx.seed] if ctx.tier == "quick" else [str(int(ctx.seed) * 1000 + k) for k in range(3)]
    allcases = []
    known = L.load_known(ctx.pid)
    for sd in seeds:
        rc, out = L.run_harness(ctx, exe, TEST, env={"VERIF_N": n, "VERIF_MAXOPS": maxops if ctx.tier == "quick" else 2 * maxops, "VERIF_SEED": sd}, timeout=1500)
        if rc != 0:
            ctx.tie_failures.append("harness run failed (rc=%d): %s" % (rc, out[-600:]))
            return []
        impl = "%s/%s" % (ctx.out, TRANSCRIPT)
        cases = L.parse_cases(impl)
        bycase = {h: lines for h, lines in cases}
        seen = set()
        for case, c in L.run_monitor(ctx, "sess", TRANSCRIPT):
            body, _, op = c.partition(" @ ")
            if not body.startswith(prop + " "):
                continue
            sig = prop.lower() + ":" + norm(body[len(prop) + 1:])
            if sig in seen:
                continue
            seen.add(sig)
            ops = []
            for l in bycase.get(case, []):
                if l.startswith("> "):
                    ops.append(l[2:])
                    if l[2:] == op:
                        break
            if not any(e.get("kind") == "known" and e.get("signature") == sig for e in known):
                try:
                    if monitor_ops(ctx, exe, ops, prop, sig):
                        ops = L.shrink_ops(ops, lambda c: monitor_ops(ctx, exe, c, prop, sig), budget=120)
                except Exception as e:
                    ctx.note("shrink failed: %r" % (e,))
            L.violation(ctx, sig, body[len(prop) + 1:] + " @ " + op, {"clause": body, "case": case, "ops": ["> " + o for o in ops],
                                                                     "how_to_replay": "bin/check %s --replay <this file>" % ctx.pid})
        model = impl + ".model.txt"
        rc, err = L.drv("model", "sess", impl, model)
        if rc != 0:
            ctx.tie_failures.append("driver model sess failed: " + err[-200:])
            return []
        L.monitor_accepts_model(ctx, "sess", model)
        diffs = [d for d in L.diff_cases(impl, model) if "AMBIGUOUS" not in d["other"]]
        if diffs:
            d = diffs[0]
            ctx.tie_failures.append("correspondence broken: model and implementation differ in %d of %d sessions; first: %s after %s: impl %r model %r"
                                    % (len(diffs), len(cases), d["header"], L.last_op_before(d["lines"], d["first"]), d["impl"], d["other"]))
        allcases += cases
    return allcases


def session_coverage(ctx, cases, nontrivial, rule):
    ops, replies = {}, {}
    for h, lines in cases:
        for l in lines:
            if l.startswith("> "):
                ops[l.split()[1]] = ops.get(l.split()[1], 0) + 1
            elif l.startswith("< tominer result") and "value:" not in l:
                k = l.split()[4][:12]
                replies[k] = replies.get(k, 0) + 1
    ctx.coverage.update({
        "evaluations": len(cases), "distinct_nontrivial": L.distinct_count(cases, nontrivial),
        "rule": rule, "op_distribution": ops, "submit_replies": replies, "traces_validated_against_impl": len(cases),
        "callbacks_fired": sum(1 for h, ls in cases for l in ls if l.startswith("< cb ")),
        "switches": sum(1 for h, ls in cases for l in ls if l.startswith("< session setdest-ret nil")),
    })
    ctx.samples += [{"case": h, "lines": [l for l in lines if not l.startswith("< stats")][:30]} for h, lines in cases[1:2]]


def session_replay(ctx, path, prop):
    import json
    rp = json.load(open(path))
    ops = [o[2:] if o.startswith("> ") else o for o in rp.get("ops", [])]
    exe = L.build_harness(ctx, HDIR)
    if not exe or not L.build_driver(ctx):
        print("cannot build harness/driver: %s" % ctx.tie_failures)
        return 2
    hit = monitor_ops(ctx, exe, ops, prop, rp.get("signature", ""))
    d = ctx.out + "/shrink"
    print(open(d + "/" + TRANSCRIPT).read())
    print(open(d + "/mon.txt").read())
    print("REPLAY: the monitor %s the violation" % ("reproduces" if hit else "does not reproduce"))
    return 1 if hit else 0


GEN_RULE = ("seeded sessions: 2-3 fake pools (difficulty 0 / 1 / 5000 / fractional, different extranonces, accepting or rejecting shares with an "
            "error array or result:false), miner with or without version rolling, maxCachedDests 1..3; after the handshake a random "
            "interleaving of miner submits (current / cached / unknown jobs, small share pools for repeats, job ids colliding across "
            "pools), pool notifies (fresh and shared job ids, clean flag), difficulty / extranonce / mask changes from active and parked "
            "pools, destination switches to new, cached and the current destination with and without task callback, time advances "
            "around the clean-jobs timeout, changes of the pools' verdict.")
