"""C05 — no peer input can crash the node or disturb other miners."""
import os
import re
import prvlib as L

HDIR = "proxy"


def crash_loop(ctx, exe, n, stride, max_crashes=40):
    """run the session enumeration; every time the process dies, record the crash and restart after that case"""
    skip, crashes, total = 0, [], 0
    allpath = ctx.out + "/c05s.all.txt"
    open(allpath, "w").close()
    while True:
        rc, out = L.run_harness(ctx, exe, "TestVerifC05Session$", env={"VERIF_N": n, "VERIF_FLUSH": 1, "VERIF_SKIP": skip, "VERIF_STRIDE": stride}, timeout=2400)
        path = ctx.out + "/c05s.impl.txt"
        cases = L.parse_cases(path) if os.path.exists(path) else []
        with open(allpath, "a") as f:
            f.write(open(path).read() if os.path.exists(path) else "")
        total += len(cases)
        if rc == 0:
            break
        m = re.search(r"(panic: [^\n]*|fatal error: [^\n]*)", out)
        if not m or "test timed out" in m.group(1) or not cases:
            ctx.tie_failures.append("harness run failed (rc=%d): %s" % (rc, out[-500:]))
            break
        h, lines = cases[-1]
        where = re.search(r"\n(github.com/Lumerin-protocol/proxy-router/internal/[^\n(]*)\([^\n]*\n\t(/[^\s]*/internal/[^\s]*)", out[m.end():])
        site = where.group(2).replace(L.REPO + "/", "") if where else "?"
        crashes.append((site, m.group(1), h, [l for l in lines if l.startswith("> ")]))
        skip = int(h.split()[2])
        if len(crashes) >= max_crashes:
            ctx.note("stopped after %d crashes" % len(crashes))
            break
    return crashes, total


def run(ctx):
    ctx.trusted_base += [
        "tools/gofacts c05.go: the guard tables of the message validation (minimum parameter counts, required hex widths, required JSON kinds per notify slot) and the parameter index every getter reads, regenerated from stratumv1_message/*.go into Gen/C05.lean",
        "harness harness/proxy/verif_c05_test.go: (1) every hostile line through the real ParseStratumMessage with the decoded shape in the transcript; the Lean side recomputes the verdict from the shape (2) every hostile line in six phases, and every sequence of up to four well-formed requests (configure / subscribe / authorize / submit, a subscribe whose answer is late) in arbitrary protocol order, (first line, mid-handshake from miner / pool, mining from miner / active pool / parked pool) through the real Proxy next to a second connection; a panic in any goroutine kills the process and is the violation",
        "multi-step histories: the random sessions of the session harness (well-formed events only) run here too; a process crash in them is a C05 violation with the session as replay",
        "modelled, not verified: encoding/json decoding of a line into the message structs (the harness hands the Lean side the decoded shape); process liveness is observed, not proved",
    ]
    ctx.assumptions += ["Go runtime faults outside the modelled code (out of memory on a gigabyte line: bufio.ReadBytes is unbounded) are not exhibited"]
    L.regen(ctx, ["C05", "C01"])
    L.prove(ctx)
    if not L.build_driver(ctx):
        return
    exe = L.build_harness(ctx, HDIR)
    if not exe:
        return
    quick = ctx.tier == "quick"
    # 1. parser verdicts
    rc, out = L.run_harness(ctx, exe, "TestVerifC05Parse$", env={"VERIF_N": 2000 if quick else 100000})
    if rc != 0:
        ctx.tie_failures.append("parse harness failed (rc=%d): %s" % (rc, out[-400:]))
        return
    comps = L.run_monitor(ctx, "c05", "c05p.impl.txt")
    L.handle_complaints(ctx, comps, lambda clause, op: "c05:" + re.sub(r"-+", "-", re.sub(r"[^A-Za-z]+", "-", clause)).strip("-")[:80])
    pcases = L.parse_cases(ctx.out + "/c05p.impl.txt")
    verdicts = {}
    for h, lines in pcases:
        for l in lines:
            if l.startswith("< verdict"):
                k = " ".join(l.split()[2:4])
                verdicts[k] = verdicts.get(k, 0) + 1
    # 2. sessions
    crashes, total = crash_loop(ctx, exe, 200 if quick else 3000, 3 if quick else 1)
    seen = set()
    for site, what, h, ops in crashes:
        sig = "c05:process-crash-" + re.sub(r"[^A-Za-z0-9]+", "-", site)
        if sig in seen:
            continue
        seen.add(sig)
        L.violation(ctx, sig, "the process died: %s at %s" % (what, site), {"clause": "no input crashes the process", "case": h, "ops": ops, "panic": what, "site": site,
                                                                         "how_to_replay": "bin/check C05 --replay <this file>"})
    comps = L.run_monitor(ctx, "c05s", "c05s.all.txt")
    allcases = {h: ls for h, ls in L.parse_cases(ctx.out + "/c05s.all.txt")}
    for case, c in comps:
        body, _, op = c.partition(" @ ")
        if not body.startswith("PROP "):
            continue
        sig = "c05:" + re.sub(r"-+", "-", re.sub(r"[^A-Za-z]+", "-", re.sub(r"\[.*", "", body[5:]))).strip("-")[:80]
        if sig in seen:
            continue
        seen.add(sig)
        L.violation(ctx, sig, body[5:], {"clause": body[5:], "case": case, "ops": [l for l in allcases.get(case, []) if l.startswith("> ")],
                                        "how_to_replay": "bin/check C05 --replay <this file>"})
    # 3. histories of well-formed events (random sessions: pools repeating job ids, switches, mined and late shares, changes
    # from parked pools): no sequence of them may stop the process either — a crash here needs several steps (a pool
    # announcing a job id twice, then a switch back to it)
    sess_cases = 0
    rc, out = L.run_harness(ctx, exe, "TestVerifSession$", env={"VERIF_N": 200 if quick else 3000, "VERIF_MAXOPS": 30 if quick else 60, "VERIF_FLUSH": 1}, timeout=240 if quick else 1700)
    if rc != 0:
        if not L.crash_violation(ctx, "sess.impl.txt", out, "c05"):
            ctx.tie_failures.append("session harness run failed (rc=%d): %s" % (rc, out[-300:]))
    else:
        sess_cases = len(L.parse_cases(ctx.out + "/sess.impl.txt"))
    # … and whole lifecycles through the real TCP handler (contract tasks, pool failures, reconnects that fail, the scheduler taking the
    # miner back to the default pool and starting the relay again, shares afterwards): a crash there needs four or five steps
    life_cases = 0
    texe = L.build_harness(ctx, "tcphandlers")
    if texe:
        for test, transcript, n in (("TestVerifLifeRegular$", "lifereg.impl.txt", 150 if quick else 2000), ("TestVerifLife$", "life.impl.txt", 200 if quick else 2000)):
            rc, out = L.run_harness(ctx, texe, test, env={"VERIF_N": n, "VERIF_FLUSH": 1}, timeout=600 if quick else 1700)
            if rc != 0 and re.search(r"panic: |fatal error: ", out) and "test timed out" not in out:
                if L.crash_violation(ctx, transcript, out, "c05"):
                    break
            elif os.path.exists(ctx.out + "/" + transcript):
                life_cases += len(L.parse_cases(ctx.out + "/" + transcript))
    ctx.coverage["lifecycles_of_wellformed_events"] = life_cases
    ctx.coverage.update({
        "sessions_of_wellformed_events": sess_cases,
        "evaluations": sum(len([l for l in ls if l.startswith("> ")]) for h, ls in pcases) + total,
        "distinct_nontrivial": total,
        "rule": "hostile lines: every method x params in {absent, null, number, string, object, [], bool} and arrays of 1..arity+1 uniform elements from 13 element kinds; well-shaped submit / notify / set_version_mask / set_extranonce / configure with one field mutated over 15 hex mutations (empty, odd, short, long, non-hex, upper case, 62..130 digits) and JSON kind swaps; 10 id shapes; results with 17 result shapes x 6 error shapes under pending and unknown ids; non-JSON / truncated / duplicate-key / upper-case-key lines; plus seeded compositions. Each line through the parser, and (every third line x phase in the quick tier, all in the thorough tier) in six phases through a real Proxy with a second connection in the same process. Non-trivial: every session case",
        "parser_verdicts": verdicts, "session_cases": total, "crashes": len(crashes), "traces_validated_against_impl": total,
    })


def replay(ctx, path):
    import json
    rp = json.load(open(path))
    ops = [o[2:] if o.startswith("> ") else o for o in rp.get("ops", [])]
    if " life" in rp.get("case", "") or " lifereg" in rp.get("case", ""):
        import lifelib
        return lifelib.replay(ctx, path, "C05")
    exe = L.build_harness(ctx, HDIR)
    if not exe:
        print("cannot build harness: %s" % ctx.tie_failures)
        return 2
    d = ctx.out + "/shrink"
    os.makedirs(d, exist_ok=True)
    open(d + "/ops.txt", "w").write("\n".join(ops) + "\n")
    test = "TestVerifC05Parse$" if ops and ops[0].startswith("parse ") else "TestVerifC05Session$"
    e = L.go_env({"VERIF_OUT": d, "VERIF_SEED": ctx.seed, "VERIF_REPLAY_OPS": d + "/ops.txt", "VERIF_FLUSH": "1"})
    rc, out = L.sh([exe, "-test.run", test, "-test.timeout", "60s"], cwd=d, env=e, timeout=120)
    print(out[-3000:])
    print("REPLAY: the process %s" % ("DIED" if rc != 0 else "survived"))
    return 1 if rc != 0 else 0
