"""C10 — validator closes a contract early only for a real delivery fault."""
import re
import prvlib as L

HDIR, TEST, TRANSCRIPT = "contract", "TestVerifC10$", "c10.impl.txt"


def classify(d):
    op = L.last_op_before(d["lines"], d["first"]).split()
    opn = op[1] if len(op) > 1 else "?"
    iv = d["impl"].split()[1] if len(d["impl"].split()) > 1 else d["impl"]
    sv = d["other"].split()[1] if len(d["other"].split()) > 1 else d["other"]
    return "%s:impl=%s:model=%s" % (opn, iv, sv), "validation step %s: implementation %r, model/spec %r" % (opn, d["impl"], d["other"])


def sig_of(clause, op):
    return "tol:" + re.sub(r"[^a-z0-9]+", "-", clause.lower())[:60]


def run(ctx):
    ctx.trusted_base += [
        "tools/gofacts: GetMaxGlobalError, lib.RelativeError/Abs translated to Gen.C10 over Rat (float64 read as exact rationals); skip period, retry delay and the errors.Is->reason chain extracted from the AST",
        "correspondence harness harness/contract/verif_c10_test.go: real GetMaxGlobalError vs Gen (relative 1e-12), real checkIncomingHashrate under virtual time vs Model.Buyer.check on float-safe inputs",
        "modelled, not verified: Model/BuyerCheck.lean (check step; close/retry loop of ControllerBuyer.Run — the loop is tied by the regenerated reason chain/delay only until the fake-chain harness covers it)",
    ]
    ctx.assumptions += ["float64 division is correctly rounded (monotone)", "last-submit time is kept at one-second granularity by the code (Mean counter); the model uses that truncated instant",
                        "target hashrate > 0"]
    L.regen(ctx, ["C10"])
    L.prove(ctx)
    if not L.build_driver(ctx):
        return
    exe = L.build_harness(ctx, HDIR)
    if not exe:
        return
    n = 400 if ctx.tier == "quick" else 6000
    rc, out = L.run_harness(ctx, exe, TEST, env={"VERIF_N": n})
    if rc != 0:
        ctx.tie_failures.append("harness run failed (rc=%d): %s" % (rc, out[-500:]))
        return
    # the model is the executable specification of the step (verdict_iff etc. are proved about it):
    # a difference is a violation of the property with the op as replay
    rc, err = L.drv("model", "c10", "%s/%s" % (ctx.out, TRANSCRIPT), "%s/%s.model.txt" % (ctx.out, TRANSCRIPT))
    if rc != 0:
        ctx.tie_failures.append("driver model c10 failed: " + err[-200:])
        return
    res = L.diff_cases("%s/%s" % (ctx.out, TRANSCRIPT), "%s/%s.model.txt" % (ctx.out, TRANSCRIPT))
    for d in res:
        if d["header"].split()[-1].startswith("tol-"):
            continue  # float results: judged by the monitor below
        sig, what = classify(d)
        L.violation(ctx, "check:" + sig, what, {"clause": "validation step verdict", "case": d["header"],
                                                "ops": L.case_ops(d["lines"], d["first"] + 1),
                                                "implementation_says": d["impl"], "model_says": d["other"]})
    complaints = L.run_monitor(ctx, "c10", TRANSCRIPT)
    L.handle_complaints(ctx, complaints, sig_of)
    cases = L.parse_cases("%s/%s" % (ctx.out, TRANSCRIPT))
    verdicts = {}
    nops = 0
    distinct = set()
    for h, lines in cases:
        for i, l in enumerate(lines):
            if l.startswith("> "):
                nops += 1
                distinct.add(l)
            if l.startswith("< ") and h.endswith("check"):
                v = l.split()[1]
                verdicts[v] = verdicts.get(v, 0) + 1
    ctx.coverage.update({
        "evaluations": nops, "distinct_nontrivial": len(distinct),
        "rule": "tolerance: boundary grid (elapsed around skip, skip+flatness; flatness 0..1h incl. < skip; thresholds 0,5%,50%,100%) + seeded triples and monotonicity pairs, judged by the specification clauses and compared with the regenerated definition; validation step: seeded inputs placed around validator start / skip end / share-timeout boundary (second aligned) / contract end, executed on the real ContractWatcherBuyer under virtual time, float-safe only. Distinct = distinct op lines; every op is non-trivial (each exercises a comparison)",
        "verdict_distribution": verdicts, "traces_validated_against_impl": len(cases),
    })
    ctx.samples += [{"case": h, "lines": lines[:4]} for h, lines in cases[2:5]]


def replay(ctx, path):
    return L.generic_replay(ctx, path, HDIR, TEST, "c10", TRANSCRIPT)
