"""C10 — validator closes a contract early only for a real delivery fault."""
import re
import prvlib as L

HDIR, TEST, TRANSCRIPT = "contract", "TestVerifC10$", "c10.impl.txt"


def classify(d):
    op = L.last_op_before(d["lines"], d["first"]).split()
    opn = op[1] if len(op) > 1 else "?"
    iv = d["impl"].split()[1] if len(d["impl"].split()) > 1 else d["impl"]
    sv = d["other"].split()[1] if len(d["other"].split()) > 1 else d["other"]
    return "%s:impl=%s:model=%s" % (opn, iv, sv), "validation step %s: implementation %r, model/spec %r" % (opn, d["impl"], d["other"])


def sig_of(clause, op):
    return "tol:" + re.sub(r"[^a-z0-9]+", "-", clause.lower())[:60]


def run(ctx):
    ctx.trusted_base += [
        "Model/WorkerBook.lean (hand-written from hashrate/global_hashrate.go: Initialize = LoadOrStore, OnSubmit, Reset, GetLastSubmitTime) compared op by op with the real GlobalHashrate (harness/hashrate/verif_book_test.go); that ContractWatcherBuyer.run prepares the record with Reset then Initialize, and nothing else in contract_buyer.go writes it, is regenerated (Gen.C10.watcherStartCalls / recordWriters)",
        "tools/gofacts: GetMaxGlobalError, lib.RelativeError/Abs translated to Gen.C10 over Rat (float64 read as exact rationals); skip period, retry delay and the errors.Is->reason chain extracted from the AST",
        "correspondence harness harness/contract/verif_c10_test.go: real GetMaxGlobalError vs Gen (relative 1e-12), real checkIncomingHashrate under virtual time vs Model.Buyer.check on float-safe inputs",
        "buyer-controller harness harness/contract/verif_buyerctl_test.go: the real ControllerBuyer.Run with its real ContractWatcherBuyer over the real HashrateEthereum store; faked: the Ethereum node (harness/vh/chain.go + chaintx.go: takes transactions, refuses the next k, reverts a close of a contract that is not running, mines the rest at once and emits contractClosed) and the incoming shares; monitor Driver/C10ctl.lean judges the transactions the controller sent against Model.Buyer.closeLoop / reasonFor (regenerated reason chain and retry delay) and the property's clauses: nothing sent without a fault, the verdict's reason, one attempt every retry delay until one succeeds, none after a success, no giving up, the loop ends once somebody else has closed the contract",
        "modelled, not verified: Model/BuyerCheck.lean (check step; close/retry loop of ControllerBuyer.Run)",
    ]
    ctx.assumptions += ["float64 division is correctly rounded (monotone)", "last-submit time is kept at one-second granularity by the code (Mean counter); the model uses that truncated instant",
                        "target hashrate > 0"]
    L.regen(ctx, ["C10", "Wiring"])
    L.prove(ctx)
    if not L.build_driver(ctx):
        return
    exe = L.build_harness(ctx, HDIR)
    if not exe:
        return
    n = 400 if ctx.tier == "quick" else 6000
    rc, out = L.run_harness(ctx, exe, TEST, env={"VERIF_N": n})
    if rc != 0:
        ctx.tie_failures.append("harness run failed (rc=%d): %s" % (rc, out[-500:]))
        return
    # the model is the executable specification of the step (verdict_iff etc. are proved about it):
    # a difference is a violation of the property with the op as replay
    rc, err = L.drv("model", "c10", "%s/%s" % (ctx.out, TRANSCRIPT), "%s/%s.model.txt" % (ctx.out, TRANSCRIPT))
    if rc != 0:
        ctx.tie_failures.append("driver model c10 failed: " + err[-200:])
        return
    res = L.diff_cases("%s/%s" % (ctx.out, TRANSCRIPT), "%s/%s.model.txt" % (ctx.out, TRANSCRIPT))
    for d in res:
        if d["header"].split()[-1].startswith("tol-"):
            continue  # float results: judged by the monitor below
        sig, what = classify(d)
        L.violation(ctx, "check:" + sig, what, {"clause": "validation step verdict", "case": d["header"],
                                                "ops": L.case_ops(d["lines"], d["first"] + 1),
                                                "implementation_says": d["impl"], "model_says": d["other"]})
    complaints = L.run_monitor(ctx, "c10", TRANSCRIPT)
    L.monitor_accepts_model(ctx, "c10", "%s/%s.model.txt" % (ctx.out, TRANSCRIPT), complaints)
    L.handle_complaints(ctx, complaints, sig_of)
    ctl_cases = controller_loop(ctx, exe)
    cfg_rows = grace_as_configured(ctx)
    book_rows = share_record(ctx)
    cases = L.parse_cases("%s/%s" % (ctx.out, TRANSCRIPT))
    verdicts = {}
    nops = 0
    distinct = set()
    for h, lines in cases:
        for i, l in enumerate(lines):
            if l.startswith("> "):
                nops += 1
                distinct.add(l)
            if l.startswith("< ") and h.endswith("check"):
                v = l.split()[1]
                verdicts[v] = verdicts.get(v, 0) + 1
    ctx.coverage.update({
        "evaluations": nops, "distinct_nontrivial": len(distinct),
        "rule": "tolerance: boundary grid (elapsed around skip, skip+flatness; flatness 0..1h incl. < skip; thresholds 0,5%,50%,100%) + seeded triples and monotonicity pairs, judged by the specification clauses and compared with the regenerated definition; validation step: seeded inputs placed around validator start / skip end / share-timeout boundary (second aligned) / contract end, executed on the real ContractWatcherBuyer under virtual time, float-safe only. Distinct = distinct op lines; every op is non-trivial (each exercises a comparison)",
        "verdict_distribution": verdicts, "traces_validated_against_impl": len(cases) + len(ctl_cases),
        "controller_histories": len(ctl_cases),
        "controller_rule": "buyer contract of 600 / 900 / 1500 s, share timeout 60 / 120 s, cycle 30 / 60 s: a healthy stretch of shares, then shares stop / the measured rate drops / somebody else closes / nothing; the node refuses 0..5 transactions, or all of them while somebody else closes the contract 5..50 s into the retry loop; 15% end with a shutdown",
        "grace_period_configurations": cfg_rows, "share_record_ops_compared": book_rows,
        "controller_outcomes": {k: sum(1 for h, ls in ctl_cases if any(k in l for l in ls)) for k in ("werr=sharetimeout", "werr=underdelivery", "werr=closed", "werr=ended", "ok=0", "ok=1", "closedevent")},
    })
    ctx.samples += [{"case": h, "lines": lines[:4]} for h, lines in cases[2:5]]


def grace_as_configured(ctx):
    """the default start-up grace period covers one delivery cycle, whatever cycle is configured"""
    exe = L.build_harness(ctx, "config")
    if not exe:
        return 0
    rc, out = L.run_harness(ctx, exe, "TestVerifC10Defaults$", env={}, timeout=120)
    if rc != 0:
        ctx.tie_failures.append("config harness run failed (rc=%d): %s" % (rc, out[-300:]))
        return 0
    n, op = 0, ""
    for h, lines in L.parse_cases(ctx.out + "/c10cfg.impl.txt"):
        for l in lines:
            if l.startswith("> defaults"):
                op = l
                asked = dict(t.split("=") for t in l.split()[2:])
            elif l.startswith("< cycle="):
                n += 1
                got = dict(t.split("=") for t in l.split()[1:])
                if int(asked["grace"]) == 0 and int(got["grace"]) < int(got["cycle"]):
                    L.violation(ctx, "c10:default-grace-shorter-than-a-cycle",
                                "with a delivery cycle of %d s and the start-up grace period left unset, the grace period is %d s: a seller that reconnects at its next cycle after a validator restart is closed for the start-up gap alone" % (int(got["cycle"]) // 10**9, int(got["grace"]) // 10**9),
                                {"clause": "the grace period never causes a close", "case": h, "ops": [op]})
                    return n
                if int(asked["grace"]) != 0 and got["grace"] != asked["grace"]:
                    L.violation(ctx, "c10:configured-grace-not-kept", "a configured start-up grace period of %s ns became %s ns" % (asked["grace"], got["grace"]),
                                {"clause": "the grace period never causes a close", "case": h, "ops": [op]})
                    return n
    return n


def share_record(ctx):
    """the process-wide per-worker share record (the real GlobalHashrate) against Model/WorkerBook.lean, op by op"""
    exe = L.build_harness(ctx, "hashrate")
    if not exe:
        return 0
    rc, out = L.run_harness(ctx, exe, "TestVerifBook$", env={"VERIF_N": 300 if ctx.tier == "quick" else 6000}, timeout=600)
    if rc != 0:
        ctx.tie_failures.append("share-record harness run failed (rc=%d): %s" % (rc, out[-300:]))
        return 0
    impl = ctx.out + "/book.impl.txt"
    rc, err = L.drv("model", "book", impl, impl + ".model.txt")
    if rc != 0:
        ctx.tie_failures.append("driver model book failed: " + err[-200:])
        return 0
    for d in L.diff_cases(impl, impl + ".model.txt")[:1]:
        ctx.tie_failures.append("correspondence broken (share record): after %s the implementation has %r, Model/WorkerBook %r (%s)" % (
            L.last_op_before(d["lines"], d["first"]), d["impl"], d["other"], d["header"]))
        ctx.notes.append("share-record replay ops: " + " ; ".join(l[2:] for l in d["lines"][:d["first"]] if l.startswith("> ")))
    return sum(1 for h, ls in L.parse_cases(impl) for l in ls if l.startswith("> "))


CTL_TEST, CTL_TRANSCRIPT = "TestVerifBuyerCtl$", "buyerctl.impl.txt"


def controller_loop(ctx, exe):
    """the close / retry loop of the real ControllerBuyer against the fake node, judged by Driver/C10ctl.lean"""
    n = 150 if ctx.tier == "quick" else 3000
    rc, out = L.run_harness(ctx, exe, CTL_TEST, env={"VERIF_N": n, "VERIF_FLUSH": 1}, timeout=1700)
    if rc != 0:
        if not L.crash_violation(ctx, CTL_TRANSCRIPT, out, "c10"):
            ctx.tie_failures.append("controller harness run failed (rc=%d): %s" % (rc, out[-500:]))
        return []
    cases = L.parse_cases("%s/%s" % (ctx.out, CTL_TRANSCRIPT))
    bycase = dict(cases)
    seen = set()
    for case, c in L.run_monitor(ctx, "c10ctl", CTL_TRANSCRIPT):
        body, _, op = c.partition(" @ ")
        if not body.startswith("PROP "):
            continue
        sig = "c10ctl:" + re.sub(r"-+", "-", re.sub(r"[^a-z]+", "-", re.sub(r"[0-9]+", "N", body[5:].lower()))).strip("-")[:80]
        if sig in seen:
            continue
        seen.add(sig)
        # the whole history is the replay (op texts repeat within a history, so it is not cut at the complaint)
        ops = [l for l in bycase.get(case, []) if l.startswith("> ")]
        L.violation(ctx, sig, body[5:] + " @ " + op, {"clause": body[5:], "case": case, "ops": ops, "how_to_replay": "bin/check C10 --replay <this file>"})
    return cases


def replay(ctx, path):
    import json, os
    rp = json.load(open(path))
    if not rp.get("signature", "").startswith("c10ctl:"):
        return L.generic_replay(ctx, path, HDIR, TEST, "c10", TRANSCRIPT)
    ops = [o[2:] if o.startswith("> ") else o for o in rp.get("ops", [])]
    exe = L.build_harness(ctx, HDIR)
    if not exe or not L.build_driver(ctx):
        print("cannot build harness/driver: %s" % ctx.tie_failures)
        return 2
    d = ctx.out + "/shrink"
    os.makedirs(d, exist_ok=True)
    open(d + "/ops.txt", "w").write("\n".join(ops) + "\n")
    e = L.go_env({"VERIF_OUT": d, "VERIF_SEED": ctx.seed, "VERIF_REPLAY_OPS": d + "/ops.txt", "VERIF_FLUSH": "1"})
    rc, out = L.sh([exe, "-test.run", CTL_TEST, "-test.timeout", "120s"], cwd=d, env=e, timeout=200)
    t = d + "/" + CTL_TRANSCRIPT
    print(open(t).read() if os.path.exists(t) else "")
    L.drv("monitor", "c10ctl", t, d + "/mon.txt")
    mon = open(d + "/mon.txt").read()
    hit = [l for l in mon.split("\n") if l.startswith("! PROP")]
    print("\n".join(hit))
    print("REPLAY: %s" % ("the violation reproduces" if hit else "no violation"))
    return 1 if hit else 0
