"""C09 — delivery to a contract tracks the contracted rate."""
import re
import prvlib as L

HDIR, TEST, TRANSCRIPT = "contract", "TestVerifDelivery$", "delivery.impl.txt"
MIN_JOB = 5000.0        # allocator.AllocationMinJob (Gen.C11.allocationMinJob)


def world_of(lines, upto=None):
    """cycle length and the hashrates of every miner connected at some point up to op `upto`"""
    cycle, hrs = 60, []
    for l in lines:
        if not l.startswith("> "):
            continue
        t = l[2:].split()
        if t[0] == "world":
            for kv in t[1:]:
                k, _, v = kv.partition("=")
                if k == "cycle":
                    cycle = int(v)
                elif k == "hrs":
                    hrs = [int(x) for x in v.split(",") if x]
        elif t[0] == "minerup":
            hrs.append(int(t[2].split("=")[1]))
        if upto is not None and l[2:] == upto:
            break
    return cycle, hrs


def too_small_for_a_cycle_job(cycle, hrs):
    """no miner can hold the allocator's minimum job within one cycle: GHSToJobSubmittedV2(hr, cycle) <= AllocationMinJob"""
    return bool(hrs) and all(h * 1e9 * cycle / 2 ** 32 <= MIN_JOB for h in hrs)


def classify(body, lines, op):
    cycle, hrs = world_of(lines, op)
    rate = 0
    for l in lines:
        if l.startswith("> purchased"):
            m = re.search(r"hr=(\d+)", l)
            rate = int(m.group(1)) if m else 0
    if too_small_for_a_cycle_job(cycle, hrs) and rate <= 1000:
        return "c09:no-miner-can-hold-a-minimum-job-in-one-cycle-and-the-rate-is-below-the-full-miner-threshold"
    if "runs ahead" in body and 0 < rate <= 1000:
        # whole miners kept on a contract below the whole-miner threshold while the surplus they build up is under that threshold
        # (ops repeat: the complaint's place in the history is its elapsed time)
        m = re.search(r"after (\d+) s", body)
        upto, el, started = int(m.group(1)) if m else 10 ** 9, 0, False
        for l in lines:
            if l.startswith("> purchased"):
                started = True
            elif l.startswith("> advance") and started:
                if el >= upto:
                    break
                el += int(l.split()[2])
            if l.startswith("< cyclelog"):
                kv = dict(t.split("=") for t in l.split()[3:] if "=" in t)
                if int(kv.get("full", 0)) >= 1 and -1000 <= int(kv.get("next", 0)) < -100:
                    return "c09:whole-miners-overstay-on-a-contract-below-the-whole-miner-threshold"
    kind = "ahead" if "runs ahead" in body else "behind" if "falls behind" in body else "other"
    return "c09:delivery-" + kind


def delivered_to_the_current_destination(ctx, exe):
    """the work must reach the destination the running contract has *now*: the seller world's histories with destination
    updates, closes and re-purchases under other destinations (C08's harness), judged by the C08 monitor's placement clauses —
    a miner working for a contract is directed to the destination on chain, and a live contract gets work"""
    rc, out = L.run_harness(ctx, exe, "TestVerifSeller$", env={"VERIF_N": 200 if ctx.tier == "quick" else 2000, "VERIF_FLUSH": 1}, timeout=1500)
    if rc != 0:
        if not L.crash_violation(ctx, "seller.impl.txt", out, "c09"):
            ctx.tie_failures.append("seller harness run failed (rc=%d): %s" % (rc, out[-300:]))
        return 0
    cases = dict(L.parse_cases(ctx.out + "/seller.impl.txt"))
    for case, c in L.run_monitor(ctx, "c08", "seller.impl.txt"):
        body, _, op = c.partition(" @ ")
        if not body.startswith("PROP ") or "is directed to" not in body and "no miner is directed" not in body:
            continue
        ops = []
        for l in cases.get(case, []):
            if l.startswith("> "):
                ops.append(l)
        L.violation(ctx, "c09:work-goes-to-another-destination-than-the-contracts", body[5:] + " @ " + op,
                    {"clause": "delivery is work that reaches the running contract's destination", "case": case, "ops": ops, "how_to_replay": "bin/check C08 --replay <this file>"})
        break
    return len(cases)


def both_replaced(ctx, exe):
    """two serving miners of a contract leave at the same instant while free miners of the same size are connected: both are
    replaced (harness TestVerifTwoDown: 12 fixed histories; the second disconnect event must reach the watcher although it is busy
    with the first)"""
    rc, out = L.run_harness(ctx, exe, "TestVerifTwoDown$", env={"VERIF_FLUSH": 1}, timeout=600)
    if rc != 0:
        ctx.tie_failures.append("two-down harness run failed (rc=%d): %s" % (rc, out[-300:]))
        return 0
    n = 0
    for h, lines in L.parse_cases(ctx.out + "/twodown.impl.txt"):
        accts = [(i, dict(t.split("=", 1) for t in l.split()[3:] if "=" in t)) for i, l in enumerate(lines) if l.startswith("< acct")]
        downs = [i for i, l in enumerate(lines) if l.startswith("< down2") and len(l.split()) > 2 and "," in l.split()[2]]
        if not downs or not accts:
            continue
        n += 1
        before = [a for i, a in accts if i < downs[0]]
        last = accts[-1][1]
        serving = len([x for x in last.get("full", "").split(",") if x]) + len([x for x in last.get("partial", "").split(",") if x])
        if before and int(last.get("added", 0)) < int(before[-1].get("added", 0)) + 2 and serving < 3:
            L.violation(ctx, "c09:one-of-two-miners-that-left-together-is-not-replaced",
                        "two whole miners of a 3000 GH/s contract left at the same instant with free 1000 GH/s miners connected; 40 s later %d miners work for it and %d tasks were handed out since (%s)" % (
                            serving, int(last.get("added", 0)) - int(before[-1].get("added", 0)), lines[downs[0]][2:]),
                        {"clause": "a miner that disconnects is replaced; delivery does not fall behind while enough hashrate is connected", "case": h,
                         "ops": [l for l in lines if l.startswith("> ")], "how_to_replay": "bin/check C09 --tier quick (the two-down histories are a fixed list; the case names the one)"})
            break
    return n


def run(ctx):
    ctx.trusted_base += [
        "tools/gofacts c09: the three thresholds of adjustHashrate, its statement skeleton, the booking statements of onCycleEnd and the delivery log fields are re-extracted from contract_seller_v2.go on every run (Gen/C09.lean) and compared with what Model/Delivery.lean was written from (theorems thresholds, cycleEnd_source, adjust_source, log_source)",
        "Model/Delivery.lean (hand-written): the cycle accounting in whole GH/s — cycleEnd books rate − actual into the cumulative shortfall and sets the next request; adjust sheds / adds whole miners / adds one-cycle jobs by the thresholds; the allocator is a parameter (what it can arrange for a request)",
        "seller world harness harness/contract/verif_seller_test.go (TestVerifDelivery): the real ContractFactory -> ControllerSeller + ContractWatcherSellerV2, real Allocator and Schedulers over fake miners (harness/vhs/miner.go, which credit their hashrate's work every second to the destination they are pointed at) in virtual time (testing/synctest)",
        "correspondence: every delivery log entry the watcher writes is checked against Model.Delivery.cycleEnd (under = rate − actual ±1 for float truncation; cumulative shortfall exactly; next request exactly when there are no full miners, within the measured full-miner rate otherwise); monitor Driver/C09.lean judges the work that actually reached the destination against rate × elapsed, ± one cycle's worth",
        "modelled rather than proved: what the real allocator can arrange for a given population (observed by the harness; theorem only for the ideal allocator and for the small-miner counterexample); float arithmetic of the accounting is read as integer GH/s",
    ]
    ctx.assumptions += ["one contract at a time in the delivery histories (competing contracts are exercised by the C08 histories, judged there for direction only)",
                        "the fake miners submit work uniformly at their nominal hashrate; share-level jitter is not generated",
                        "'enough eligible hashrate' is read as: connected hashrate at least 1.2 × the contracted rate ever since the purchase"]
    L.regen(ctx, ["C09", "C11", "C07", "C09b"])
    L.prove(ctx)
    if not L.build_driver(ctx):
        return
    exe = L.build_harness(ctx, HDIR)
    if not exe:
        return
    n = 60 if ctx.tier == "quick" else 3000
    rc, out = L.run_harness(ctx, exe, TEST, env={"VERIF_N": n, "VERIF_FLUSH": 1}, timeout=3000)
    if rc != 0:
        if not L.crash_violation(ctx, TRANSCRIPT, out, "c09"):
            ctx.tie_failures.append("harness run failed (rc=%d): %s" % (rc, out[-500:]))
        return
    impl = "%s/%s" % (ctx.out, TRANSCRIPT)
    cases = L.parse_cases(impl)
    bycase = dict(cases)
    seen = set()
    first = {}      # case -> classification of its first complaint
    for case, c in L.run_monitor(ctx, "c09", TRANSCRIPT):
        body, _, op = c.partition(" @ ")
        lines = bycase.get(case, [])
        if body.startswith("CORR "):
            if not any("correspondence" in t for t in ctx.tie_failures):
                ctx.tie_failures.append("correspondence broken: %s @ %s (%s)" % (body[5:], op, case))
                ops = []
                for l in lines:
                    if l.startswith("> "):
                        ops.append(l)
                        if l[2:] == op:
                            break
                ctx.notes.append("correspondence replay ops: " + " ; ".join(o[2:] for o in ops))
            continue
        if not body.startswith("PROP "):
            continue
        sig = classify(body, lines, op)
        # a history that starts with the known starve-then-flood population stays out of balance for the
        # rest of the contract: later complaints of the same history are that finding, not a new one
        first.setdefault(case, sig)
        if first[case].startswith("c09:no-miner-can-hold"):
            sig = first[case]
        if sig in seen:
            continue
        seen.add(sig)
        ops = []
        for l in lines:
            if l.startswith("> "):
                ops.append(l)
                if l[2:] == op:
                    break
        L.violation(ctx, sig, body[5:] + " @ " + op, {"clause": body[5:], "case": case, "ops": ops, "how_to_replay": "bin/check C09 --replay <this file>"})
    ops, pops, logs = {}, {"too-small": 0, "other": 0}, 0
    for h, lines in cases:
        for l in lines:
            if l.startswith("> "):
                ops[l.split()[1]] = ops.get(l.split()[1], 0) + 1
            logs += l.startswith("< cyclelog")
        cyc, hrs = world_of(lines)
        pops["too-small" if too_small_for_a_cycle_job(cyc, hrs) else "other"] += 1
    ctx.coverage["two_miners_leaving_together"] = both_replaced(ctx, exe)
    ctx.coverage["seller_world_histories_with_destination_changes"] = delivered_to_the_current_destination(ctx, exe)
    ctx.coverage.update({
        "evaluations": sum(ops.values()), "distinct_nontrivial": L.distinct_count(cases, lambda h, ls: any(l.startswith("< cyclelog") for l in ls)),
        "rule": "one contract of 4..11 cycles (cycle 60 / 120 / 300 s) at 300 / 800 / 1500 / 2600 GH/s or 1/4, 1/2, 3/4 of the fleet, on a population of 20..49 miners of 90..149 GH/s, 3..5 miners of 4000..11000 GH/s, or 5..14 mixed (120..6000); every half cycle a miner may leave (10%) or join (6%); delivery-window histories (a whole miner leaves mid-cycle, slow end callbacks); late fleets (the contract is bought with too little hashrate connected, 1..3 large miners join half a cycle to four cycles later and stay for ten cycles or more: rates 150..1800 GH/s, the carried shortfall made up by partial or by whole miners); two corpus histories (the known findings). Non-trivial: a history with at least one cycle log entry; distinct by op list",
        "op_distribution": ops, "populations": pops, "cycle_log_entries_checked_against_model": logs, "traces_validated_against_impl": len(cases),
    })
    ctx.samples += [{"case": h, "lines": [l for l in lines if not l.startswith("< miners")][:24]} for h, lines in cases[:2]]


def replay(ctx, path):
    import json, os
    rp = json.load(open(path))
    ops = [o[2:] if o.startswith("> ") else o for o in rp.get("ops", [])]
    exe = L.build_harness(ctx, HDIR)
    if not exe or not L.build_driver(ctx):
        print("cannot build harness/driver: %s" % ctx.tie_failures)
        return 2
    d = ctx.out + "/shrink"
    os.makedirs(d, exist_ok=True)
    open(d + "/ops.txt", "w").write("\n".join(ops) + "\n")
    e = L.go_env({"VERIF_OUT": d, "VERIF_SEED": ctx.seed, "VERIF_REPLAY_OPS": d + "/ops.txt", "VERIF_FLUSH": "1"})
    rc, out = L.sh([exe, "-test.run", TEST, "-test.timeout", "120s"], cwd=d, env=e, timeout=200)
    t = d + "/" + TRANSCRIPT
    print("\n".join(l for l in (open(t).read() if os.path.exists(t) else "").split("\n") if not l.startswith("< miners")))
    if rc != 0:
        print(out[-1500:])
        print("REPLAY: the process died")
        return 1
    L.drv("monitor", "c09", t, d + "/mon.txt")
    mon = open(d + "/mon.txt").read()
    print("\n".join(l for l in mon.split("\n") if l.startswith("! ")))
    hit = any(l.startswith("! PROP") or l.startswith("! CORR") for l in mon.split("\n"))
    print("REPLAY: %s" % ("the violation reproduces" if hit else "no violation"))
    return 1 if hit else 0
