"""C16 — the node watches exactly its own contracts."""
import re
import prvlib as L

HDIR, TEST, TRANSCRIPT = "contractmanager", "TestVerifC16$", "c16.impl.txt"


def controllers_return(ctx):
    """"a buyer / validator contract that ended is released": the manager releases a contract when its controller returns, so the
    real ControllerBuyer (C10's harness: real controller + watcher + store over the fake node) must return once the contract was
    closed — by itself or by somebody else — and must not stay in its close / retry loop"""
    exe = L.build_harness(ctx, "contract")
    if not exe:
        return 0
    rc, out = L.run_harness(ctx, exe, "TestVerifBuyerCtl$", env={"VERIF_N": 100 if ctx.tier == "quick" else 2000, "VERIF_FLUSH": 1}, timeout=1700)
    if rc != 0:
        ctx.tie_failures.append("buyer-controller harness run failed (rc=%d): %s" % (rc, out[-300:]))
        return 0
    cases = L.parse_cases("%s/buyerctl.impl.txt" % ctx.out)
    bycase = dict(cases)
    seen = set()
    for case, c in L.run_monitor(ctx, "c10ctl", "buyerctl.impl.txt"):
        body, _, op = c.partition(" @ ")
        if not body.startswith("PROP "):
            continue
        if "is still running" in body or "is still trying to close it" in body:
            sig = "c16:ended-contract-controller-does-not-return"
            if sig in seen:
                continue
            seen.add(sig)
            ops = [l for l in bycase.get(case, []) if l.startswith("> ")]
            L.violation(ctx, sig, "the controller of an ended buyer / validator contract does not return, so the manager keeps watching it: " + body[5:],
                        {"clause": body[5:], "case": case, "ops": ops, "signature_c10": "c10ctl:", "how_to_replay": "bin/check C10 --replay <this file> (set \"signature\" to \"c10ctl:\")"})
    return len(cases)


def run(ctx):
    ctx.trusted_base += [
        "the assumption that a buyer / validator controller returns when its purchase has ended is checked against the real ControllerBuyer: C10's buyer-controller harness is run here too and the monitor's clauses 'closed ... and the controller is still running / still trying to close it' are C16 violations",
        "Model/Manager.lean (hand-written from contract_manager.go): chain table + watched set, clone-factory events handled one at a time",
        "correspondence harness harness/contractmanager/verif_c16_test.go: the real ContractManager over the real HashrateEthereum store, the Ethereum node behind it faked (harness/vh/chain.go answers eth_call from a table by ABI method and delivers logs to the store's subscriptions); controllers are fake contracts whose Run returns when the history says so; compared op by op with the model, and the settled state with the specification by the monitor",
        "assumed, not verified: the event vocabulary of the Solidity contracts (contractCreated on creation, clonefactoryContractPurchased on every purchase, contractDeleteUpdated on the delete flag; a close raises no clone-factory event), which are not in this repository; that a buyer / validator controller returns when its purchase has ended (C10's controller model)",
    ]
    ctx.assumptions += ["events are handled one at a time with quiescence in between (the manager's select loop)", "eth_call answers are instantaneous (a purchase event is never handled while the answer for an older state is in flight)"]
    L.regen(ctx, ["C16"])
    L.prove(ctx)
    if not L.build_driver(ctx):
        return
    exe = L.build_harness(ctx, HDIR)
    if not exe:
        return
    n = 600 if ctx.tier == "quick" else 6000
    rc, out = L.run_harness(ctx, exe, TEST, env={"VERIF_N": n, "VERIF_FLUSH": 1})
    if rc != 0:
        if not L.crash_violation(ctx, TRANSCRIPT, out, "c16"):
            ctx.tie_failures.append("harness run failed (rc=%d): %s" % (rc, out[-500:]))
        return
    impl = "%s/%s" % (ctx.out, TRANSCRIPT)
    model = impl + ".model.txt"
    rc, err = L.drv("model", "c16", impl, model)
    if rc != 0:
        ctx.tie_failures.append("driver model c16 failed: " + err[-200:])
        return
    cases = L.parse_cases(impl)
    bycase = dict(cases)
    diffs = L.diff_cases(impl, model)
    if diffs:
        d = diffs[0]
        ctx.tie_failures.append("correspondence broken: model and implementation differ in %d of %d histories; first: %s after %s: impl %r model %r"
                                % (len(diffs), len(cases), d["header"], L.last_op_before(d["lines"], d["first"]), d["impl"], d["other"]))
    known = L.load_known(ctx.pid)
    seen = set()
    impl_complaints = L.run_monitor(ctx, "c16", TRANSCRIPT)
    # the model exhibits the known finding too (repurchase_before_exit_is_lost): complaints it shares with the implementation are judged below
    L.monitor_accepts_model(ctx, "c16", model, impl_complaints)
    for case, c in impl_complaints:
        body, _, op = c.partition(" @ ")
        if not body.startswith("PROP "):
            continue
        ops = [l for l in bycase.get(case, []) if l.startswith("> ")]
        # which shape of history: a re-purchase handled while the ended purchase's controller is still there
        racy = any(l.startswith("> purchased") for l in ops)
        sig = "c16:settled-watched-differs" + ("-racy" if "racy" in case else "-orderly")
        m = re.search(r"watches \[(.*?)\], its own contracts are \[(.*?)\]", body)
        if m:
            got = set(x.strip() for x in m.group(1).split(",") if x.strip())
            want = set(x.strip() for x in m.group(2).split(",") if x.strip())
            lost = want - got
            def repurchase_race(c):
                # closed c ; purchased c (again) ; ctlexit c  — with no restart and no earlier exit in between
                state = 0
                for o in ops:
                    f = o[2:].split()
                    if f[0] == "restart":
                        state = 0
                    elif f[0] == "closed" and f[1] == c:
                        state = 1
                    elif f[0] == "ctlexit" and f[1] == c:
                        if state == 2:
                            return True
                        state = 0
                    elif f[0] == "purchased" and f[1] == c and state == 1:
                        state = 2
                return False
            if lost and not (got - want) and all(repurchase_race(c) for c in lost):
                sig = "c16:repurchase-before-the-ended-purchases-controller-returned-is-lost"
        if sig in seen:
            continue
        seen.add(sig)
        L.violation(ctx, sig, body[5:], {"clause": body[5:], "case": case, "ops": ops, "how_to_replay": "bin/check C16 --replay <this file>"})
    kinds, nops = {}, 0
    for h, lines in cases:
        kinds[h.split()[-1]] = kinds.get(h.split()[-1], 0) + 1
        nops += sum(1 for l in lines if l.startswith("> "))
    ctl_histories = controllers_return(ctx)
    L.buyer_world(ctx, "C16")
    ctx.coverage.update({
        "buyer_controller_histories": ctl_histories,
        "evaluations": nops, "distinct_nontrivial": L.distinct_count(cases, lambda h, ls: any(l.startswith("> purchased") for l in ls)),
        "rule": "chain states of 2..4 contracts (seller me / others, purchased or not, buyer / validator me or others) at start-up; then seeded create / purchase (any buyer, any validator) / close / controller exit / delete flag / duplicate purchase events / restarts; two thirds of the histories orderly (the controller of an ended buyer / validator purchase exits before anything else happens to that contract), one third racy (exits delivered at arbitrary later points); every history ends settled. Non-trivial: at least one purchase; distinct by op list",
        "history_kinds": kinds, "traces_validated_against_impl": len(cases),
    })
    ctx.samples += [{"case": h, "lines": lines[:24]} for h, lines in cases[1:3]]


def replay(ctx, path):
    r = L.buyer_world_replay(ctx, "C16", path)
    if r is not None:
        return r
    import json, os
    rp = json.load(open(path))
    if rp.get("signature", "").startswith("c16:ended-contract-controller"):   # a buyer-controller history: C10's replay
        import importlib.util
        spec = importlib.util.spec_from_file_location("chk_C10", "%s/checks/C10.py" % L.VERIF)
        mod = importlib.util.module_from_spec(spec)
        spec.loader.exec_module(mod)
        rp["signature"] = "c10ctl:" + rp["signature"]
        os.makedirs(ctx.out, exist_ok=True)
        tmp = ctx.out + "/replay-as-c10.json"
        json.dump(rp, open(tmp, "w"))
        return mod.replay(ctx, tmp)
    ops = [o[2:] if o.startswith("> ") else o for o in rp.get("ops", [])]
    exe = L.build_harness(ctx, HDIR)
    if not exe or not L.build_driver(ctx):
        print("cannot build harness/driver: %s" % ctx.tie_failures)
        return 2
    L.replay_differs(ctx, exe, TEST, "c16", ops, TRANSCRIPT, mode="model")
    d = ctx.out + "/shrink"
    L.drv("monitor", "c16", d + "/" + TRANSCRIPT, d + "/mon.txt")
    print(open(d + "/" + TRANSCRIPT).read())
    mon = open(d + "/mon.txt").read()
    print(mon)
    hit = any(l.startswith("! PROP") for l in mon.split("\n"))
    print("REPLAY: %s" % ("the settled state differs from the specification" if hit else "the settled state is the specified one"))
    return 1 if hit else 0
