"""C19 — job memory (validator.go, mining_job.go, bstackmap.go)."""
import prvlib as L

HDIR, TEST, TRANSCRIPT = "validator", "TestVerifC19$", "c19.impl.txt"


def classify(d):
    kind = d["header"].split()[-1] if d["index"] >= 0 else "transcript"
    op = L.last_op_before(d["lines"], d["first"]).split()
    opn = op[1] if len(op) > 1 else "?"
    iv = d["impl"].split()[1] if len(d["impl"].split()) > 1 else d["impl"]
    sv = d["other"].split()[1] if len(d["other"].split()) > 1 else d["other"]
    if kind in ("bsm", "bsm-exhaustive"):
        sig = "bsm:%s:impl=%s:spec=%s" % (opn, "none" if iv == "none" else "value", "none" if sv == "none" else "value")
        return sig, "BoundStackMap %s returns %s where the last-cap-pushes specification says %s" % (opn, iv, sv)
    sig = "%s:%s:impl=%s:spec=%s" % (kind, opn, iv, sv)
    return sig, "validator %s answered %r, the job-memory specification says %r" % (opn, d["impl"], d["other"])


def nontrivial(header, lines):
    outs = [l for l in lines if l.startswith("< ")]
    if header.endswith("validator"):
        return any(o.startswith("< checked") for o in outs) and any(o in ("< notfound", "< dup") for o in outs)
    return len(outs) > 0


def run(ctx):
    ctx.trusted_base += [
        "tools/gofacts (JOB_CACHE_SIZE regenerated into Gen.C19 each run)",
        "correspondence harness harness/validator/verif_c19_test.go (real Validator, BoundStackMap, SerializeShare under synctest virtual time, go1.26.8)",
        "modelled, not verified: Model/BSM.lean, Model/Validator.lean, Model/Share.lean (hand-written from bstackmap.go, validator.go, mining_job.go); ValidateDiff abstracted as 'checked against announcement n' (C01)",
    ]
    ctx.assumptions += ["hex.DecodeString prefix semantics", "submits well-formed (extranonce2 of the job's size <= 8 bytes, 4-byte fields); malformed ones are C05",
                        "timer/time semantics of Go >= 1.23 inside synctest"]
    L.regen(ctx, ["C19"])
    L.prove(ctx)
    if not L.build_driver(ctx):
        return
    exe = L.build_harness(ctx, HDIR)
    if not exe:
        return
    n = 600 if ctx.tier == "quick" else 4000
    total_cases = 0
    seeds = [ctx.seed] if ctx.tier == "quick" else [str(int(ctx.seed) * 1000 + k) for k in range(4)]
    allcases = []
    for s in seeds:
        ctx.seed_run = s
        rc, out = L.run_harness(ctx, exe, TEST, env={"VERIF_N": n, "VERIF_MAXOPS": 40 if ctx.tier == "quick" else 80, "VERIF_SEED": s})
        if rc != 0:
            ctx.tie_failures.append("harness run failed (rc=%d): %s" % (rc, out[-500:]))
            return
        L.compare_transcript(ctx, "c19", TRANSCRIPT, classify, exe, TEST)
        cases = L.parse_cases("%s/%s" % (ctx.out, TRANSCRIPT))
        allcases += cases
    kinds = {}
    outs = {}
    for h, lines in allcases:
        k = h.split()[-1]
        kinds[k] = kinds.get(k, 0) + 1
        for l in lines:
            if l.startswith("< "):
                key = l.split()[1] if k == "validator" else k
                outs[key] = outs.get(key, 0) + 1
    # an announcement can only be remembered if it reaches the job memory: the reader of a pool connection (the relay direction, or
    # the autoread of a parked pool) is stopped and started at every destination change, and a notify that arrives at that instant
    # must not be consumed and dropped
    conn_ops = L.conn_reads(ctx, "c19:announcement-lost-while-its-read-was-being-stopped",
                            "a job announcement taken off the pool connection by a Read that was being stopped never reaches the job memory: it is not known when a share names it and is not the job re-announced after a switch",
                            "an announced job is known until it is displaced or expires", "C19")
    ctx.coverage["connection_read_ops_compared"] = conn_ops
    ctx.coverage.update({
        "evaluations": len(allcases),
        "distinct_nontrivial": L.distinct_count(allcases, nontrivial),
        "rule": "seeded histories (notify fresh/repeated ids, clean flag, time advances landing on expiry instants +-1ns, submits from small share pools, HasJob, GetLatestJob) executed on the real Validator under virtual time and on the Lean model/spec; raw BoundStackMap push histories (thorough: all histories of length <=8 over 3 keys at capacity 3); SerializeShare samples. Non-trivial validator case: at least one share checked and at least one refused (unknown/expired/duplicate); distinct by hash of the op list",
        "traces_validated_against_impl": len(allcases),
        "case_kinds": kinds, "output_distribution": outs,
        "exhaustive": False,
    })
    for h, lines in allcases[:2]:
        ctx.samples.append({"case": h, "lines": lines[:25]})


def replay(ctx, path):
    import json
    if json.load(open(path)).get("signature", "").startswith("c19:announcement-lost"):
        return L.generic_replay(ctx, path, "proxy", "TestVerifC14$", "c14", "c14.impl.txt")
    return L.generic_replay(ctx, path, HDIR, TEST, "c19", TRANSCRIPT)
