import PRV.Proofs.Session
import PRV.Gen.C03
/-
C03 — The miner always hashes work that is valid for the pool it is assigned to.
Theorems about the pool-notification handlers and the destination switch of `Model/Session.lean`,
for every session state (hence every history leading to it).
-/
namespace PRV.Props.C03
open PRV.Model PRV.Model.Session PRV.Proofs.Session

def isToMiner : Out → Bool | .toMiner _ => true | _ => false

/-! ### relaying while active, silence while parked -/

/-- **A parked pool never reaches the miner.**  Whatever a pool connection that is not the active
destination sends — job, difficulty, extranonce, mask — nothing is written to the miner. -/
theorem parked_is_silent (s : Sess) (pool : String) (d : Dest)
    (hd : lastConnOf s pool = some d) (hp : isActive s d = false) :
    (∀ job tmpl clean, (onNotify s pool job tmpl clean).2 = []) ∧
    (∀ txt n, (onDiff s pool txt n).2 = []) ∧
    (∀ x sz, (onExtranonce s pool x sz).2 = []) ∧
    (∀ mk, (onMask s pool mk).2 = []) := by
  refine ⟨?_, ?_, ?_, ?_⟩
  · intro job tmpl clean; unfold onNotify; simp [hd, hp]
  · intro txt n; unfold onDiff; simp [hd, hp]
  · intro x sz; unfold onExtranonce; simp [hd, hp]
  · intro mk; unfold onMask; simp [hd, hp]

/-- **The active pool is relayed unaltered.**  Each notification of the active destination reaches
the miner as exactly one message carrying exactly what the pool sent. -/
theorem active_is_relayed (s : Sess) (pool : String) (d : Dest)
    (hd : lastConnOf s pool = some d) (hp : isActive s d = true) :
    (∀ job tmpl clean, (onNotify s pool job tmpl clean).2 = [.toMiner s!"notify job={job} clean={clean} ntime=64c25820"]) ∧
    (∀ txt n, (onDiff s pool txt n).2 = [.toMiner s!"set_difficulty [{txt}]"]) ∧
    (∀ x sz, (onExtranonce s pool x sz).2 = [.toMiner s!"set_extranonce [\"{x}\",{sz}]"]) ∧
    (∀ mk, (onMask s pool mk).2 = [.toMiner s!"set_version_mask [\"{mk}\"]"]) := by
  refine ⟨?_, ?_, ?_, ?_⟩
  · intro job tmpl clean; unfold onNotify; simp [hd, hp]
  · intro txt n; unfold onDiff; simp [hd, hp]
  · intro x sz; unfold onExtranonce; simp [hd, hp]
  · intro mk; unfold onMask; simp [hd, hp]

/-- **A job is captured with what the pool associated with it.**  A notify — relayed or not —
records the job with the difficulty and extranonce the destination holds at that moment, at the
serial the job memory gives it; later difficulty / extranonce changes do not touch recorded jobs. -/
theorem job_captures_current_values (s : Sess) (pool job tmpl : String) (clean : Bool) (d : Dest)
    (hd : lastConnOf s pool = some d) :
    ∃ d', (onNotify s pool job tmpl clean).1 = setDest' s d' ∧
      d'.jobs = d.jobs ++ [{ jobId := job, tmpl := tmpl, diff := d.diff, diffTxt := d.diffTxt, xn1 := d.xn1, xn2size := d.xn2size }] ∧
      d'.diff = d.diff ∧ d'.xn1 = d.xn1 ∧ d'.mask = d.mask := by
  unfold onNotify
  simp only [hd]
  exact ⟨_, rfl, rfl, rfl, rfl, rfl⟩

theorem changes_keep_recorded_jobs (s : Sess) (pool : String) (d : Dest) (hd : lastConnOf s pool = some d) :
    (∀ txt n, ∃ d', (onDiff s pool txt n).1 = setDest' s d' ∧ d'.jobs = d.jobs ∧ d'.v = d.v ∧ d'.diff = n ∧ d'.diffTxt = txt) ∧
    (∀ x sz, ∃ d', (onExtranonce s pool x sz).1 = setDest' s d' ∧ d'.jobs = d.jobs ∧ d'.v = d.v ∧ d'.xn1 = x ∧ d'.xn2size = sz) ∧
    (∀ mk, ∃ d', (onMask s pool mk).1 = setDest' s d' ∧ d'.jobs = d.jobs ∧ d'.v = d.v ∧ d'.mask = mk) := by
  refine ⟨?_, ?_, ?_⟩
  · intro txt n; unfold onDiff; simp only [hd]; exact ⟨_, rfl, rfl, rfl, rfl, rfl⟩
  · intro x sz; unfold onExtranonce; simp only [hd]; exact ⟨_, rfl, rfl, rfl, rfl, rfl⟩
  · intro mk; unfold onMask; simp only [hd]; exact ⟨_, rfl, rfl, rfl, rfl⟩

/-! ### the destination change -/

/-- **What a switch tells the miner.**  The messages start with the version mask, then the
extranonce and the difficulty captured with the destination's latest job, then that job flagged
clean-jobs; they continue with the destination's current extranonce and difficulty exactly when
these differ from the job's — so that after the last message the values last delivered to the
miner are the destination's current ones. -/
theorem resend_shape (d : Dest) (msgs : List Out) (h : resend d = some msgs) :
    ∃ n j, d.v.getLatestJob = some n ∧ d.jobs[n]? = some j ∧
      msgs = [ .toMiner s!"set_version_mask [\"{d.mask}\"]",
               .toMiner s!"set_extranonce [\"{j.xn1}\",{j.xn2size}]",
               .toMiner s!"set_difficulty [{j.diffTxt}]",
               .toMiner s!"notify job={j.jobId} clean=true ntime=64c25820" ]
        ++ (if d.xn1 ≠ j.xn1 ∨ d.xn2size ≠ j.xn2size then [.toMiner s!"set_extranonce [\"{d.xn1}\",{d.xn2size}]"] else [])
        ++ (if d.diff ≠ j.diff then [.toMiner s!"set_difficulty [{d.diffTxt}]"] else []) := by
  unfold resend at h
  cases hn : d.v.getLatestJob with
  | none => rw [hn] at h; cases h
  | some n =>
    rw [hn] at h
    simp only at h
    cases hj : d.jobs[n]? with
    | none => rw [hj] at h; cases h
    | some j =>
      rw [hj] at h
      simp only [Option.some.injEq] at h
      exact ⟨n, j, rfl, hj, h.symm⟩

/-- **A switch reaches the miner as exactly that, and nothing else.**  Everything a successful
switch to another destination writes to the miner is the `resend` list of the destination switched
to; a switch to the current destination, and a failed switch, write nothing to the miner. -/
theorem switch_miner_messages (s : Sess) (pool : String) (cb : Option Nat) (cbN : Nat) :
    (switchWith s pool cb cbN).2.filter isToMiner = [] ∨
    ∃ p, findPool s pool = some p ∧
      resend (acquire s pool p ("acct" ++ pool ++ ".w" ++ pool)).2.1 = some ((switchWith s pool cb cbN).2.filter isToMiner) ∧
      (switchWith s pool cb cbN).1.active = some (pool, "acct" ++ pool ++ ".w" ++ pool) := by
  have hacq : ∀ (p : PoolCfg) (user : String), (acquire s pool p user).2.2.filter isToMiner = [] := by
    intro p user
    unfold acquire
    simp only
    split
    · rfl
    · by_cases hv : s.vr = true <;> simp [hv, isToMiner, List.filter]
  have hev : ∀ (t : Sess) (k : String × String), (evict t k).2.filter isToMiner = [] := by
    intro t k
    unfold evict
    split
    · split <;> simp [isToMiner, List.filter]
    · rfl
  unfold switchWith
  simp only
  by_cases h1 : s.active = some (pool, "acct" ++ pool ++ ".w" ++ pool)
  · left; simp [h1, isToMiner, List.filter]
  · simp only [h1, if_false]
    cases hp : findPool s pool with
    | none => left; simp [isToMiner, List.filter]
    | some p =>
      simp only
      by_cases hmm : (findDest s (pool, "acct" ++ pool ++ ".w" ++ pool)).isNone ∧ s.vr ∧ p.mask ≠ s.negMask
      · left; simp [hmm, isToMiner, List.filter]
      simp only [hmm, if_false]
      cases hr : resend (acquire s pool p ("acct" ++ pool ++ ".w" ++ pool)).2.1 with
      | none => left; simp [hacq, isToMiner, List.filter]
      | some msgs =>
        right
        refine ⟨p, rfl, ?_, ?_⟩
        · simp only [List.filter_append, hacq, hev, List.nil_append, List.append_nil]
          obtain ⟨n, j, _, _, hm⟩ := resend_shape _ _ hr
          have : msgs.filter isToMiner = msgs := by
            rw [hm]
            by_cases c1 : (acquire s pool p ("acct" ++ pool ++ ".w" ++ pool)).2.1.xn1 ≠ j.xn1 ∨ (acquire s pool p ("acct" ++ pool ++ ".w" ++ pool)).2.1.xn2size ≠ j.xn2size <;>
            by_cases c2 : (acquire s pool p ("acct" ++ pool ++ ".w" ++ pool)).2.1.diff ≠ j.diff <;>
            simp [c1, c2, isToMiner, List.filter]
          simp [this, isToMiner, List.filter]
          exact hr
        · simp only [install]
          -- the destination acquired carries the key asked for
          unfold acquire
          simp only
          split
          · rename_i d hd
            have := List.find?_some hd
            simp only [decide_eq_true_eq] at this
            simp [Dest.key] at this ⊢
            exact ⟨this.1, this.2⟩
          · simp [Dest.key]


/-! ### facts about `Proxy.setDest`, regenerated on every run -/

/-- a change of destination is skipped as "the same" only when the whole url is the same (scheme, host, account *and*
password: pools carry options in the password), and the parked connection's reader is stopped before anything is re-sent to
the miner: what it would read meanwhile would be recorded and never relayed -/
theorem source_setDest_shape :
    PRV.Gen.C03.sameDestCond = "p.destURL.String() == newDestURL.String()" ∧
    PRV.Gen.C03.setDestCalls = ["AutoReadStop", "connectNewDest", "StopDestToSource", "StopSourceToDest", "AutoReadStart",
      "resendRelevantNotifications", "closeOldestConn", "SetDest", "StartSourceToDest", "StartDestToSource"] := by decide

/-- in particular: both readers of the new destination are quiet (stopped, not yet started) while the miner is told about
the switch, and the relay starts only afterwards — "before anything else from that pool" -/
theorem resend_happens_with_readers_stopped :
    (PRV.Gen.C03.setDestCalls.idxOf "AutoReadStop" < PRV.Gen.C03.setDestCalls.idxOf "resendRelevantNotifications") ∧
    (PRV.Gen.C03.setDestCalls.idxOf "StopDestToSource" < PRV.Gen.C03.setDestCalls.idxOf "resendRelevantNotifications") ∧
    (PRV.Gen.C03.setDestCalls.idxOf "resendRelevantNotifications" < PRV.Gen.C03.setDestCalls.idxOf "StartDestToSource") := by decide

/-! ### whole histories of pool events -/

/-- what a pool connection can send on its own -/
inductive PoolEv where
  | notify (pool job tmpl : String) (clean : Bool)
  | diff (pool txt : String) (n : Nat)
  | extranonce (pool x : String) (sz : Nat)
  | mask (pool mk : String)

def PoolEv.pool : PoolEv → String
  | .notify p _ _ _ => p | .diff p _ _ => p | .extranonce p _ _ => p | .mask p _ => p

def poolStep (s : Sess) : PoolEv → Sess × List Out
  | .notify p j t c => onNotify s p j t c
  | .diff p t n => onDiff s p t n
  | .extranonce p x z => onExtranonce s p x z
  | .mask p m => onMask s p m

def poolRun : Sess → List PoolEv → Sess × List Out
  | s, [] => (s, [])
  | s, e :: es => let r := poolStep s e; let rr := poolRun r.1 es; (rr.1, r.2 ++ rr.2)

theorem lastConnOf_pool_aux (pool : String) (l : List Dest) (acc : Option Dest) (d : Dest)
    (hl : ∀ x ∈ l, x.pool = pool) (hacc : ∀ a, acc = some a → a.pool = pool)
    (h : l.foldl (fun acc d => match acc with
      | none => some d
      | some a => if a.conn < d.conn then some d else some a) acc = some d) : d.pool = pool := by
  induction l generalizing acc with
  | nil => exact hacc d h
  | cons x xs ih =>
    rw [List.foldl_cons] at h
    refine ih _ (fun y hy => hl y (List.mem_cons_of_mem _ hy)) ?_ h
    intro a ha
    cases acc with
    | none => simp only [Option.some.injEq] at ha; rw [← ha]; exact hl x (by simp)
    | some a0 =>
      simp only at ha
      split at ha
      · simp only [Option.some.injEq] at ha; rw [← ha]; exact hl x (by simp)
      · simp only [Option.some.injEq] at ha; rw [← ha]; exact hacc a0 rfl

/-- the connection a pool writes to is one of that pool's -/
theorem lastConnOf_pool (s : Sess) (pool : String) (d : Dest) (h : lastConnOf s pool = some d) : d.pool = pool := by
  unfold lastConnOf at h
  exact lastConnOf_pool_aux pool _ none d (fun x hx => by simpa using (List.mem_filter.mp hx).2) (fun a ha => by cases ha) h

/-- no pool event changes which destination the miner is assigned to -/
theorem poolStep_active (s : Sess) (e : PoolEv) : (poolStep s e).1.active = s.active := by
  cases e <;> simp only [poolStep, onNotify, onDiff, onExtranonce, onMask] <;> split <;> rfl

/-- **Pools the miner is not assigned to never reach it, whatever they send and for however long**:
over every history of pool events that all come from pools other than the one the miner is assigned
to, nothing at all is written to the miner (or to anyone). -/
theorem other_pools_silent_history (s : Sess) (es : List PoolEv)
    (h : ∀ e ∈ es, ∀ k, s.active = some k → e.pool ≠ k.1) :
    (poolRun s es).2 = [] ∧ (poolRun s es).1.active = s.active := by
  induction es generalizing s with
  | nil => exact ⟨rfl, rfl⟩
  | cons e es ih =>
    have hstep : (poolStep s e).2 = [] := by
      have he := h e (by simp)
      have key : ∀ d, lastConnOf s e.pool = some d → isActive s d = false := by
        intro d hd
        have hp := lastConnOf_pool s e.pool d hd
        unfold isActive
        cases ha : s.active with
        | none => simp
        | some k =>
          have := he k ha
          simp only [decide_eq_false_iff_not, Option.some.injEq]
          intro e'; apply this; rw [e']; exact hp.symm
      cases e with
      | notify p j t c =>
        show (onNotify s p j t c).2 = []
        unfold onNotify
        cases hd : lastConnOf s p with
        | none => rfl
        | some d => simp [key d hd]
      | diff p t n =>
        show (onDiff s p t n).2 = []
        unfold onDiff
        cases hd : lastConnOf s p with
        | none => rfl
        | some d => simp [key d hd]
      | extranonce p x z =>
        show (onExtranonce s p x z).2 = []
        unfold onExtranonce
        cases hd : lastConnOf s p with
        | none => rfl
        | some d => simp [key d hd]
      | mask p m =>
        show (onMask s p m).2 = []
        unfold onMask
        cases hd : lastConnOf s p with
        | none => rfl
        | some d => simp [key d hd]
    have hact := poolStep_active s e
    have i := ih (poolStep s e).1 (by
      intro e' he' k hk
      rw [hact] at hk
      exact h e' (List.mem_cons_of_mem _ he') k hk)
    unfold poolRun
    simp only
    rw [hstep, i.1]
    exact ⟨rfl, i.2.trans hact⟩

end PRV.Props.C03
