import PRV.Model.Parse
import PRV.Props.C01
/-
C05 — No peer input can crash the node or disturb other miners.

What is proved: a message that passes the shape validation (whose tables are regenerated from
validate.go) cannot make any of its consumers fault —
 * every getter reads a parameter that exists,
 * the fixed-width slices of the duplicate-detection key (`SerializeShare`) are in range,
 * the header assembly of `ValidateDiffFloat` (operation-by-operation model of C01, with its index,
   word-swap and 32-bit read faults explicit) does not fault,
 * pointer-typed `Params` are never dereferenced when nil, the set_extranonce / subscribe-result type
   assertions hold —
and `ParseStratumMessage` returns no typed message that did not pass it.  Together with the
correspondence check (which runs every hostile line through the real parser and, in six phases,
through a real proxy next to a second connection) this is the "no modelled code path panics" claim.
-/
namespace PRV.Props.C05
open PRV.Base PRV.Gen PRV.Model.Parse PRV.Model.Pow

/-! ### facts about the source, regenerated on every run -/

/-- where and how the validation is applied -/
theorem source_facts :
    C05.parserValidates = true ∧ C05.configureNilBeforeIndex = true ∧ C05.subscribeResultChecked = true ∧
    C05.extranonceChecked = true ∧ C05.notifyPrevHash = true ∧ C05.notifyCoinbase = true ∧
    C05.notifyBranches = true ∧ C05.notifyBranchHex = true ∧ C05.notifyCleanFlag = true := by decide

/-- **nil parameters are never dereferenced**: every message type whose `Params` is a pointer is
refused by its `Validate` when that pointer is nil -/
theorem pointer_params_guarded : ∀ t ∈ C05.pointerParams, t ∈ C05.nilGuarded := by decide

/-! ### mining.submit -/

theorem submit_len (ps : List String) (h : submitValid ps = true) : C05.submitMinParams ≤ ps.length := by
  have : ("minlen", C05.submitMinParams, 0) ∈ C05.submitRules := by decide
  have := List.all_eq_true.mp h _ this
  simpa [ruleHolds] using this

/-- **every getter reads a parameter that exists**: the unguarded getters of `MiningSubmit` index
below the validated minimum length; the one getter above it checks the length itself -/
theorem submit_getters_in_range (ps : List String) (h : submitValid ps = true) :
    ∀ g ∈ C05.getters, g.1 = "MiningSubmit" → (g.2.2.2 = false → g.2.2.1 < ps.length) := by
  have hl := submit_len ps h
  have tab : ∀ g ∈ C05.getters, g.1 = "MiningSubmit" → g.2.2.2 = false → g.2.2.1 < C05.submitMinParams := by decide
  intro g hg ht hu
  exact Nat.lt_of_lt_of_le (tab g hg ht hu) hl

/-- fixed arrays: a getter of a fixed-size parameter array reads inside the array -/
theorem fixed_getters_in_range :
    ∀ g ∈ C05.getters,
      (g.1 = "MiningAuthorize" ∨ g.1 = "MiningSubscribe" ∨ g.1 = "MiningSetExtranonce" → g.2.2.1 < 2) ∧
      (g.1 = "MiningSetDifficulty" ∨ g.1 = "MiningSetVersionMask" ∨ g.1 = "MiningMultiVersion" → g.2.2.1 < 1) ∧
      (g.1 = "MiningNotify" → g.2.2.1 < 9) := by decide

theorem hexDigits_bytes (d : Nat) (s : String) (h : hexDigits d s = true) :
    2 * (hexDecode s).length = d ∧ isHex s = true := by
  unfold hexDigits at h
  simp only [Bool.and_eq_true, beq_iff_eq] at h
  have := PRV.Proofs.C01.hexDecodeChars_length s.toList h.1
  exact ⟨by unfold hexDecode; omega, h.1⟩

/-- the submit fields of a validated message, with their decoded widths -/
theorem submit_fields (ps : List String) (h : submitValid ps = true) :
    ∃ w id en2 nt no rest, ps = w :: id :: en2 :: nt :: no :: rest ∧ isHex en2 = true ∧
      (hexDecode nt).length = 4 ∧ isHex nt = true ∧ (hexDecode no).length = 4 ∧ isHex no = true ∧
      (∀ b more, rest = b :: more → (hexDecode b).length = 4 ∧ isHex b = true) := by
  have hl := submit_len ps h
  have r2 : ("hex", 2, 0) ∈ C05.submitRules := by decide
  have r3 : ("hexN", 3, 8) ∈ C05.submitRules := by decide
  have r4 : ("hexN", 4, 8) ∈ C05.submitRules := by decide
  have r5 : ("opthexN", 5, 8) ∈ C05.submitRules := by decide
  have a2 := List.all_eq_true.mp h _ r2
  have a3 := List.all_eq_true.mp h _ r3
  have a4 := List.all_eq_true.mp h _ r4
  have a5 := List.all_eq_true.mp h _ r5
  match ps, hl with
  | w :: id :: en2 :: nt :: no :: rest, _ =>
    simp only [ruleHolds, List.getElem?_cons_succ, List.getElem?_cons_zero] at a2 a3 a4 a5
    have b3 := hexDigits_bytes _ _ a3
    have b4 := hexDigits_bytes _ _ a4
    refine ⟨w, id, en2, nt, no, rest, rfl, a2, by omega, b3.2, by omega, b4.2, ?_⟩
    intro b more hr
    subst hr
    simp only [List.getElem?_cons_zero] at a5
    have b5 := hexDigits_bytes _ _ a5
    exact ⟨by omega, b5.2⟩

/-- **the duplicate-detection key**: `SerializeShare` slices `[:4]` out of the decoded ntime, nonce
and version bits; for a validated submit each of them decodes to exactly four bytes -/
theorem serializeShare_slices_in_range (ps : List String) (h : submitValid ps = true) :
    (∀ nt, ps[3]? = some nt → 4 ≤ (hexDecode nt).length) ∧
    (∀ no, ps[4]? = some no → 4 ≤ (hexDecode no).length) ∧
    (∀ b, ps[5]? = some b → 4 ≤ (hexDecode b).length) := by
  obtain ⟨w, id, en2, nt, no, rest, rfl, _, h3, _, h4, _, h5⟩ := submit_fields ps h
  refine ⟨?_, ?_, ?_⟩
  · intro x hx; simp at hx; subst hx; omega
  · intro x hx; simp at hx; subst hx; omega
  · intro x hx
    cases rest with
    | nil => simp at hx
    | cons b more =>
      simp at hx; subst hx
      have := (h5 b more rfl).1; omega

/-! ### mining.notify and the share validator -/

def slotJVal : Slot → JVal
  | .str s => .str s
  | .strs l => .arr l
  | _ => .other

/-- **`ValidateDiffFloat` does not fault on validated messages**: for a validated job announcement, a
validated submit, a hex extranonce1 (validated where the pool announces it) and a 32-bit mask (the
validator substitutes the zero mask for an absent one), the header assembly of the
operation-by-operation model — every parameter index, the 4-byte word swap of the previous hash,
the 32-bit reads of version, version bits and mask — succeeds, for every hash function -/
theorem validateDiff_header_does_not_fault (H : List Nat → List Nat) (slots : List Slot) (ps : List String)
    (en1 mask : String) (hlen : slots.length = 9) (hn : notifyValid slots = true) (hs : submitValid ps = true)
    (he : isHex en1 = true) (hm : hexDigits C05.hexWordDigits mask = true) :
    ∃ hd, Model.Pow.header H { en1 := en1, mask := mask, job := slots.map slotJVal, submit := ps } = some hd := by
  obtain ⟨w, id, en2, nt, no, rest, rfl, hen2, h3, x3, h4, x4, h5⟩ := submit_fields ps hs
  -- the nine slots
  match slots, hlen with
  | [s0, s1, s2, s3, s4, s5, s6, s7, s8], _ =>
    unfold notifyValid at hn
    simp only [Bool.and_eq_true] at hn
    obtain ⟨⟨⟨⟨⟨hstr, hprev⟩, hcb⟩, hword⟩, hbr⟩, _⟩ := hn
    have str_of : ∀ (i : Nat), i ∈ C05.notifyStringSlots → ∃ s, slotStr [s0, s1, s2, s3, s4, s5, s6, s7, s8] i = some s := by
      intro i hi
      have := List.all_eq_true.mp hstr i hi
      exact Option.isSome_iff_exists.mp this
    obtain ⟨jid, h0⟩ := str_of 0 (by decide)
    obtain ⟨prev, h1⟩ := str_of 1 (by decide)
    obtain ⟨g1, h2⟩ := str_of 2 (by decide)
    obtain ⟨g2, h3'⟩ := str_of 3 (by decide)
    obtain ⟨ver, h5'⟩ := str_of 5 (by decide)
    obtain ⟨nb, h6⟩ := str_of 6 (by decide)
    obtain ⟨jnt, h7⟩ := str_of 7 (by decide)
    have e0 : s0 = .str jid := by
      simp only [slotStr, List.getElem?_cons_zero] at h0; split at h0 <;> simp_all
    have e1 : s1 = .str prev := by
      simp only [slotStr, List.getElem?_cons_succ, List.getElem?_cons_zero] at h1; split at h1 <;> simp_all
    have e2 : s2 = .str g1 := by
      simp only [slotStr, List.getElem?_cons_succ, List.getElem?_cons_zero] at h2; split at h2 <;> simp_all
    have e3 : s3 = .str g2 := by
      simp only [slotStr, List.getElem?_cons_succ, List.getElem?_cons_zero] at h3'; split at h3' <;> simp_all
    have e5 : s5 = .str ver := by
      simp only [slotStr, List.getElem?_cons_succ, List.getElem?_cons_zero] at h5'; split at h5' <;> simp_all
    have e6 : s6 = .str nb := by
      simp only [slotStr, List.getElem?_cons_succ, List.getElem?_cons_zero] at h6; split at h6 <;> simp_all
    have e7 : s7 = .str jnt := by
      simp only [slotStr, List.getElem?_cons_succ, List.getElem?_cons_zero] at h7; split at h7 <;> simp_all
    subst e0 e1 e2 e3 e5 e6 e7
    -- branches
    obtain ⟨brs, e4, hbrs⟩ : ∃ l, s4 = Slot.strs l ∧ l.all (hexDigits C05.hashDigits) = true := by
      simp only [List.getElem?_cons_succ, List.getElem?_cons_zero] at hbr
      split at hbr
      · rename_i l hl; simp only [Option.some.injEq] at hl; exact ⟨l, hl, hbr⟩
      · cases hbr
    subst e4
    -- widths
    simp only [slotStr, List.getElem?_cons_succ, List.getElem?_cons_zero] at hprev hcb
    have wver := List.all_eq_true.mp hword 5 (by decide)
    have wnb := List.all_eq_true.mp hword 6 (by decide)
    simp only [slotStr, List.getElem?_cons_succ, List.getElem?_cons_zero] at wver wnb
    simp only [Bool.and_eq_true] at hcb
    have toN : ∀ (n : Nat) (s : String), hexDigits (2 * n) s = true → Spec.C01.hexN n s = true := by
      intro n s hh
      unfold hexDigits at hh; unfold Spec.C01.hexN
      simpa using hh
    have hd8 : C05.hexWordDigits = 2 * 4 := rfl
    have hd64 : C05.hashDigits = 2 * 32 := rfl
    have hx8 : ∀ s, isHex s = true → (hexDecode s).length = 4 → Spec.C01.hexN 4 s = true := by
      intro s hi hl
      unfold Spec.C01.hexN
      have := PRV.Proofs.C01.hexDecodeChars_length s.toList hi
      unfold hexDecode at hl
      simp [hi]; omega
    let j : Spec.C01.Job := { prevHash := prev, gen1 := g1, gen2 := g2, branches := brs, version := ver, nbits := nb }
    cases rest with
    | nil =>
      let s : Spec.C01.Share := { en2 := en2, ntime := nt, nonce := no, bits := none }
      have hwf : Spec.C01.wellFormed en1 mask j s = true := by
        simp only [Spec.C01.wellFormed, Bool.and_eq_true]
        refine ⟨⟨⟨⟨⟨⟨⟨⟨⟨⟨toN 32 _ (hd64 ▸ hprev), toN 4 _ (hd8 ▸ wver)⟩, toN 4 _ (hd8 ▸ wnb)⟩, hx8 _ x3 h3⟩, hx8 _ x4 h4⟩, hcb.1⟩, he⟩, hen2⟩, hcb.2⟩, ?_⟩, rfl⟩
        rw [List.all_eq_true] at hbrs ⊢
        intro b hb; exact toN 32 _ (hd64 ▸ hbrs b hb)
      exact ⟨_, PRV.Props.C01.header_eq_spec H en1 mask j s w id jnt (slotJVal s8) [] hwf⟩
    | cons b more =>
      let s : Spec.C01.Share := { en2 := en2, ntime := nt, nonce := no, bits := some b }
      have hb := h5 b more rfl
      have hwf : Spec.C01.wellFormed en1 mask j s = true := by
        simp only [Spec.C01.wellFormed, Bool.and_eq_true]
        refine ⟨⟨⟨⟨⟨⟨⟨⟨⟨⟨toN 32 _ (hd64 ▸ hprev), toN 4 _ (hd8 ▸ wver)⟩, toN 4 _ (hd8 ▸ wnb)⟩, hx8 _ x3 h3⟩, hx8 _ x4 h4⟩, hcb.1⟩, he⟩, hen2⟩, hcb.2⟩, ?_⟩, ?_⟩
        · rw [List.all_eq_true] at hbrs ⊢
          intro b hb; exact toN 32 _ (hd64 ▸ hbrs b hb)
        · show (match (some b : Option String) with | none => true | some b => Spec.C01.hexN 4 b && Spec.C01.hexN 4 mask) = true
          simp [hx8 _ hb.2 hb.1, toN 4 _ (hd8 ▸ hm)]
      exact ⟨_, PRV.Props.C01.header_eq_spec H en1 mask j s w id jnt (slotJVal s8) more hwf⟩

/-! ### set_extranonce / subscribe result -/

/-- **the type assertions hold**: what passes `validExtranonce` is a string and a non-negative
integer (`GetExtranonce` asserts `.(string)` and `.(float64)`) -/
theorem extranonce_assertions_hold (xn size : JV) (h : extranonceValid xn size = true) :
    (∃ s, xn = .str s ∧ isHex s = true) ∧ (∃ v, size = .int v ∧ 0 ≤ v) := by
  unfold extranonceValid at h
  simp only [Bool.and_eq_true] at h
  constructor
  · cases xn <;> simp_all
  · cases size <;> simp_all

/-! ### only validated messages leave the parser -/

/-- a typed message leaves the (model of the) parser only if it passed its validation -/
theorem typed_ok_validated (params : JV) :
    (typed "mining.submit" params = .ok "submit" → ∃ ps, strSlice params = some ps ∧ submitValid ps = true) ∧
    (typed "mining.notify" params = .ok "notify" → ∃ l, params = .arr l ∧ notifyValid (nine l) = true) := by
  constructor
  · intro h
    unfold typed at h
    cases hp : strSlice params with
    | none => simp [hp] at h
    | some ps =>
      simp only [hp] at h
      by_cases hv : submitValid ps = true
      · exact ⟨ps, rfl, hv⟩
      · simp [hv] at h
  · intro h
    unfold typed at h
    cases params <;> simp at h
    rename_i l
    by_cases hv : notifyValid (nine l) = true
    · exact ⟨l, rfl, hv⟩
    · simp [hv] at h

/-- the nine notify slots are always nine -/
theorem nine_length (l : List JV) : (nine l).length = 9 := by
  unfold nine
  simp only [List.length_append, List.length_map, List.length_replicate, List.length_take]
  omega

/-! ### non-vacuity -/

example : submitValid ["w.k", "job", "00000001", "64c25820", "00000002", "00004000"] = true := by decide
example : submitValid ["w.k", "job", "00000001", "64c25820", "0000002"] = false := by decide
example : submitValid ["w.k", "job", "00000001", "64c25820"] = false := by decide

end PRV.Props.C05
