import PRV.Model.BuyerCheck
import Mathlib.Tactic.Linarith
import Mathlib.Tactic.SplitIfs
import Mathlib.Tactic.Push
import Mathlib.Algebra.Order.Field.Basic
import Mathlib.Data.Rat.Cast.Order
/-
C10 — A validator closes a contract early only for a real delivery fault.
`PRV.Gen.C10.*` is regenerated from buyer_validation.go / controller_buyer.go / contract_buyer.go /
number.go on every run, so the tolerance theorems are about the current source text.
-/
namespace PRV.Props.C10
open PRV.Gen.C10 PRV.Model.Buyer

/-! ### tolerance: 100% in the skip period, ≥ threshold, ≤ 100%, never increasing -/

theorem tol_skip (e : Int) (m : Rat) (f s : Int) (h : e ≤ s) : getMaxGlobalError e m f s = 1 := by
  unfold getMaxGlobalError; simp [h]

theorem tol_le_one (e : Int) (m : Rat) (f s : Int) (hm : m ≤ 1) : getMaxGlobalError e m f s ≤ 1 := by
  unfold getMaxGlobalError; dsimp only; split_ifs <;> linarith

theorem tol_ge_min (e : Int) (m : Rat) (f s : Int) (hm : m ≤ 1) : m ≤ getMaxGlobalError e m f s := by
  unfold getMaxGlobalError; dsimp only; split_ifs <;> linarith

def clamp (m x : Rat) : Rat := if x > 1 then 1 else if x < m then m else x

theorem clamp_mono (m x y : Rat) (hm : m ≤ 1) (h : x ≤ y) : clamp m x ≤ clamp m y := by
  unfold clamp; split_ifs <;> linarith

theorem tol_after_skip (e : Int) (m : Rat) (f s : Int) (h : s < e) :
    getMaxGlobalError e m f s = clamp m ((f : Rat) / ((e + f - s : Int) : Rat)) := by
  unfold getMaxGlobalError clamp; simp [not_le.mpr h]

theorem tol_antitone (e1 e2 : Int) (m : Rat) (f s : Int) (hm : m ≤ 1) (hf : 0 ≤ f) (h : e1 ≤ e2) :
    getMaxGlobalError e2 m f s ≤ getMaxGlobalError e1 m f s := by
  by_cases h1 : e1 ≤ s
  · rw [tol_skip e1 m f s h1]; exact tol_le_one e2 m f s hm
  · have h1' : s < e1 := not_le.mp h1
    have h2' : s < e2 := lt_of_lt_of_le h1' h
    rw [tol_after_skip e1 m f s h1', tol_after_skip e2 m f s h2']
    apply clamp_mono m _ _ hm
    have hd1 : (0 : Rat) < ((e1 + f - s : Int) : Rat) := by
      have : (0 : Int) < e1 + f - s := by omega
      exact_mod_cast this
    have hd : ((e1 + f - s : Int) : Rat) ≤ ((e2 + f - s : Int) : Rat) := by
      have : e1 + f - s ≤ e2 + f - s := by omega
      exact_mod_cast this
    have hf' : (0 : Rat) ≤ (f : Rat) := by exact_mod_cast hf
    exact div_le_div_of_nonneg_left hf' hd1 hd

/-! ### the verdict of one validation step -/

/-- A non-ok verdict is given exactly when validation has started and the contract is over, or no
share arrived for longer than the share timeout, or the hashrate is below target by more than the
tolerance. -/
theorem verdict_iff (i : CheckIn) :
    (check i).1 ≠ .ok ↔
      started i = true ∧ ((i.finishedBefore || expired i) = true ∨ silence i > i.shareTimeout ∨
        (¬ relativeError i.target i.actual ≤ tolerance i ∧ ¬ i.actual > i.target)) := by
  unfold check hashrateOK
  by_cases hs : started i = true <;> by_cases hf : (i.finishedBefore || expired i) = true <;>
    by_cases ht : silence i > i.shareTimeout <;>
    by_cases h1 : relativeError i.target i.actual ≤ tolerance i <;>
    by_cases h2 : i.actual > i.target <;> simp [hs, hf, ht, h1, h2]

/-- the reason named by the verdict matches the cause -/
theorem verdict_cause (i : CheckIn) :
    ((check i).1 = .shareTimeout → silence i > i.shareTimeout) ∧
    ((check i).1 = .underdelivery →
        i.actual ≤ i.target ∧ ¬ relativeError i.target i.actual ≤ tolerance i ∧
        ¬ silence i > i.shareTimeout) ∧
    ((check i).1 = .finished → (i.finishedBefore || expired i) = true) := by
  unfold check hashrateOK
  by_cases hs : started i = true <;> by_cases hf : (i.finishedBefore || expired i) = true <;>
    by_cases ht : silence i > i.shareTimeout <;>
    by_cases h1 : relativeError i.target i.actual ≤ tolerance i <;>
    by_cases h2 : i.actual > i.target <;> simp [hs, hf, ht, h1, h2] <;> linarith

/-- over-delivery never counts as under-delivery -/
theorem overdelivery_ok (i : CheckIn) (h : i.actual > i.target) : (check i).1 ≠ .underdelivery := by
  intro hc; have := (verdict_cause i).2.1 hc; linarith [this.1]

/-- nothing is reported before validation starts (start-up grace) -/
theorem grace_ok (i : CheckIn) (h : i.now ≤ i.validatorStart) : (check i).1 = .ok := by
  unfold check started; simp [not_lt.mpr h]

/-- inside the skip period a contract delivering anything between 0 and its target is never
reported as under-delivering -/
theorem skip_period_no_underdelivery (i : CheckIn) (hskip : i.now - i.fulfilStart ≤ skipPeriod)
    (ht : 0 < i.target) (ha : 0 ≤ i.actual) : (check i).1 ≠ .underdelivery := by
  intro hc
  obtain ⟨hle, hrel, _⟩ := (verdict_cause i).2.1 hc
  apply hrel
  unfold tolerance
  rw [tol_skip _ _ _ _ hskip]
  unfold relativeError PRV.Gen.C10.abs
  have h1 : ¬ (i.target < 0) := by linarith
  have h2 : i.actual - i.target ≤ 0 := by linarith
  simp only [h1, if_false]
  split_ifs
  · rw [div_le_one ht]; linarith
  · have : i.actual - i.target = 0 := by linarith
    rw [this]; simp

/-- a contract that reached its end is reported as finished, never as a delivery fault -/
theorem end_is_not_a_fault (i : CheckIn) (h : expired i = true) :
    (check i).1 = .ok ∨ (check i).1 = .finished := by
  unfold check
  by_cases hs : started i = true <;> simp [hs, h]

/-! ### the close reason and the retry loop -/

theorem reason_dest : reasonFor (· = "ErrContractDest") = closeReasonDestinationUnavailable := by decide
theorem reason_share_timeout : reasonFor (· = "ErrShareTimeout") = closeReasonShareTimeout := by decide
theorem reason_underdelivery : reasonFor (· = "ErrUnderdelivery") = closeReasonUnderdelivery := by decide
theorem reason_other : reasonFor (fun _ => false) = closeReasonUnspecified := by decide
theorem reasons_distinct :
    [closeReasonUnspecified, closeReasonUnderdelivery, closeReasonDestinationUnavailable,
      closeReasonShareTimeout].Nodup := by decide

/-- `k` failing close transactions followed by a successful one: exactly `k+1` transactions, all
with the same reason, `retryDelay` apart, and then nothing more. -/
theorem retry_until_success (reason : Nat) (k : Nat) :
    closeLoop reason (List.replicate k (false, false) ++ [(false, true)]) =
      (List.replicate k [Action.closeEarly reason, Action.sleep retryDelay]).flatten ++
        [Action.closeEarly reason] := by
  induction k with
  | zero => simp [closeLoop]
  | succ k ih => simp [List.replicate_succ, closeLoop, ih]

/-- while every transaction fails the controller keeps trying (no give-up) -/
theorem retry_never_gives_up (reason : Nat) (k : Nat) :
    (closeLoop reason (List.replicate k (false, false))).count (Action.closeEarly reason) = k := by
  induction k with
  | zero => simp [closeLoop]
  | succ k ih => simp [List.replicate_succ, closeLoop, ih]

/-- a contract already closed by someone else (closed event processed first) is not closed again -/
theorem closed_first_no_tx (err : Option ErrKind) (txOk : Bool) (rest : List (Bool × Bool)) :
    onWatcherDone err ((true, txOk) :: rest) = [] := by
  unfold onWatcherDone
  cases err with
  | none => rfl
  | some e => by_cases h : e.isClosed = true <;> simp [h, closeLoop]

/-- a watcher that ended normally or was cancelled by a closed event sends nothing -/
theorem normal_end_no_tx (rounds : List (Bool × Bool)) :
    onWatcherDone none rounds = [] ∧
    onWatcherDone (some { isClosed := true }) rounds = [] := by
  constructor <;> simp [onWatcherDone]

/-- **a contract closed by somebody else while the controller is retrying is not closed again**: after k failed
transactions, the pass through the loop that finds the contract available sends nothing and ends the loop,
whatever would have come next -/
theorem closed_meanwhile_stops (reason : Nat) (k : Nat) (txOk : Bool) (rest : List (Bool × Bool)) :
    closeLoop reason (List.replicate k (false, false) ++ (true, txOk) :: rest) =
      (List.replicate k [Action.closeEarly reason, Action.sleep retryDelay]).flatten := by
  induction k with
  | zero => simp [closeLoop]
  | succ k ih => simp [List.replicate_succ, closeLoop, ih]

/-- the number of transactions is the number of passes up to and including the first success or up to the pass that
finds the contract closed: never more -/
theorem tx_count_le_rounds (reason : Nat) (rounds : List (Bool × Bool)) :
    ((closeLoop reason rounds).filter fun a => match a with | .closeEarly _ => true | _ => false).length ≤ rounds.length := by
  induction rounds with
  | nil => simp [closeLoop]
  | cons r rest ih =>
    obtain ⟨avail, ok⟩ := r
    cases avail <;> cases ok <;> simp [closeLoop] <;> omega


/-! ### non-vacuity -/
example : getMaxGlobalError (10 * 60000000000) (5 / 100) (20 * 60000000000) skipPeriod = 4 / 5 := by
  unfold getMaxGlobalError skipPeriod; norm_num
def exampleIn : CheckIn where
  now := 100
  validatorStart := 10
  endTime := some 1000
  finishedBefore := false
  lastShare := some 90
  fulfilStart := 0
  shareTimeout := 50
  target := 100
  actual := 10
  threshold := 5 / 100
  flatness := 0

example : (check exampleIn).1 = .ok := by
  unfold check started expired silence hashrateOK tolerance getMaxGlobalError skipPeriod
    relativeError PRV.Gen.C10.abs exampleIn
  norm_num

end PRV.Props.C10
