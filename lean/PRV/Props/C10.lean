import PRV.Model.BuyerCheck
import PRV.Model.WorkerBook
import PRV.Gen.Wiring
import Mathlib.Tactic.Linarith
import Mathlib.Tactic.SplitIfs
import Mathlib.Tactic.Push
import Mathlib.Algebra.Order.Field.Basic
import Mathlib.Data.Rat.Cast.Order
/-
C10 — A validator closes a contract early only for a real delivery fault.
`PRV.Gen.C10.*` is regenerated from buyer_validation.go / controller_buyer.go / contract_buyer.go /
number.go on every run, so the tolerance theorems are about the current source text.
-/
namespace PRV.Props.C10
open PRV.Gen.C10 PRV.Model.Buyer

/-! ### tolerance: 100% in the skip period, ≥ threshold, ≤ 100%, never increasing -/

theorem tol_skip (e : Int) (m : Rat) (f s : Int) (h : e ≤ s) : getMaxGlobalError e m f s = 1 := by
  unfold getMaxGlobalError; simp [h]

theorem tol_le_one (e : Int) (m : Rat) (f s : Int) (hm : m ≤ 1) : getMaxGlobalError e m f s ≤ 1 := by
  unfold getMaxGlobalError; dsimp only; split_ifs <;> linarith

theorem tol_ge_min (e : Int) (m : Rat) (f s : Int) (hm : m ≤ 1) : m ≤ getMaxGlobalError e m f s := by
  unfold getMaxGlobalError; dsimp only; split_ifs <;> linarith

def clamp (m x : Rat) : Rat := if x > 1 then 1 else if x < m then m else x

theorem clamp_mono (m x y : Rat) (hm : m ≤ 1) (h : x ≤ y) : clamp m x ≤ clamp m y := by
  unfold clamp; split_ifs <;> linarith

theorem tol_after_skip (e : Int) (m : Rat) (f s : Int) (h : s < e) :
    getMaxGlobalError e m f s = clamp m ((f : Rat) / ((e + f - s : Int) : Rat)) := by
  unfold getMaxGlobalError clamp; simp [not_le.mpr h]

theorem tol_antitone (e1 e2 : Int) (m : Rat) (f s : Int) (hm : m ≤ 1) (hf : 0 ≤ f) (h : e1 ≤ e2) :
    getMaxGlobalError e2 m f s ≤ getMaxGlobalError e1 m f s := by
  by_cases h1 : e1 ≤ s
  · rw [tol_skip e1 m f s h1]; exact tol_le_one e2 m f s hm
  · have h1' : s < e1 := not_le.mp h1
    have h2' : s < e2 := lt_of_lt_of_le h1' h
    rw [tol_after_skip e1 m f s h1', tol_after_skip e2 m f s h2']
    apply clamp_mono m _ _ hm
    have hd1 : (0 : Rat) < ((e1 + f - s : Int) : Rat) := by
      have : (0 : Int) < e1 + f - s := by omega
      exact_mod_cast this
    have hd : ((e1 + f - s : Int) : Rat) ≤ ((e2 + f - s : Int) : Rat) := by
      have : e1 + f - s ≤ e2 + f - s := by omega
      exact_mod_cast this
    have hf' : (0 : Rat) ≤ (f : Rat) := by exact_mod_cast hf
    exact div_le_div_of_nonneg_left hf' hd1 hd

/-! ### the verdict of one validation step -/

/-- A non-ok verdict is given exactly when validation has started and the contract is over, or no
share arrived for longer than the share timeout, or the hashrate is below target by more than the
tolerance. -/
theorem verdict_iff (i : CheckIn) :
    (check i).1 ≠ .ok ↔
      started i = true ∧ ((i.finishedBefore || expired i) = true ∨ silence i > i.shareTimeout ∨
        (¬ relativeError i.target i.actual ≤ tolerance i ∧ ¬ i.actual > i.target)) := by
  unfold check hashrateOK
  by_cases hs : started i = true <;> by_cases hf : (i.finishedBefore || expired i) = true <;>
    by_cases ht : silence i > i.shareTimeout <;>
    by_cases h1 : relativeError i.target i.actual ≤ tolerance i <;>
    by_cases h2 : i.actual > i.target <;> simp [hs, hf, ht, h1, h2]

/-- the reason named by the verdict matches the cause -/
theorem verdict_cause (i : CheckIn) :
    ((check i).1 = .shareTimeout → silence i > i.shareTimeout) ∧
    ((check i).1 = .underdelivery →
        i.actual ≤ i.target ∧ ¬ relativeError i.target i.actual ≤ tolerance i ∧
        ¬ silence i > i.shareTimeout) ∧
    ((check i).1 = .finished → (i.finishedBefore || expired i) = true) := by
  unfold check hashrateOK
  by_cases hs : started i = true <;> by_cases hf : (i.finishedBefore || expired i) = true <;>
    by_cases ht : silence i > i.shareTimeout <;>
    by_cases h1 : relativeError i.target i.actual ≤ tolerance i <;>
    by_cases h2 : i.actual > i.target <;> simp [hs, hf, ht, h1, h2] <;> linarith

/-- over-delivery never counts as under-delivery -/
theorem overdelivery_ok (i : CheckIn) (h : i.actual > i.target) : (check i).1 ≠ .underdelivery := by
  intro hc; have := (verdict_cause i).2.1 hc; linarith [this.1]

/-- nothing is reported before validation starts (start-up grace) -/
theorem grace_ok (i : CheckIn) (h : i.now ≤ i.validatorStart) : (check i).1 = .ok := by
  unfold check started; simp [not_lt.mpr h]

/-- inside the skip period a contract delivering anything between 0 and its target is never
reported as under-delivering -/
theorem skip_period_no_underdelivery (i : CheckIn) (hskip : i.now - i.fulfilStart ≤ skipPeriod)
    (ht : 0 < i.target) (ha : 0 ≤ i.actual) : (check i).1 ≠ .underdelivery := by
  intro hc
  obtain ⟨hle, hrel, _⟩ := (verdict_cause i).2.1 hc
  apply hrel
  unfold tolerance
  rw [tol_skip _ _ _ _ hskip]
  unfold relativeError PRV.Gen.C10.abs
  have h1 : ¬ (i.target < 0) := by linarith
  have h2 : i.actual - i.target ≤ 0 := by linarith
  simp only [h1, if_false]
  split_ifs
  · rw [div_le_one ht]; linarith
  · have : i.actual - i.target = 0 := by linarith
    rw [this]; simp

/-- a contract that reached its end is reported as finished, never as a delivery fault -/
theorem end_is_not_a_fault (i : CheckIn) (h : expired i = true) :
    (check i).1 = .ok ∨ (check i).1 = .finished := by
  unfold check
  by_cases hs : started i = true <;> simp [hs, h]

/-! ### the close reason and the retry loop -/

theorem reason_dest : reasonFor (· = "ErrContractDest") = closeReasonDestinationUnavailable := by decide
theorem reason_share_timeout : reasonFor (· = "ErrShareTimeout") = closeReasonShareTimeout := by decide
theorem reason_underdelivery : reasonFor (· = "ErrUnderdelivery") = closeReasonUnderdelivery := by decide
theorem reason_other : reasonFor (fun _ => false) = closeReasonUnspecified := by decide
theorem reasons_distinct :
    [closeReasonUnspecified, closeReasonUnderdelivery, closeReasonDestinationUnavailable,
      closeReasonShareTimeout].Nodup := by decide

/-- `k` failing close transactions followed by a successful one: exactly `k+1` transactions, all
with the same reason, `retryDelay` apart, and then nothing more. -/
theorem retry_until_success (reason : Nat) (k : Nat) :
    closeLoop reason (List.replicate k (false, false) ++ [(false, true)]) =
      (List.replicate k [Action.closeEarly reason, Action.sleep retryDelay]).flatten ++
        [Action.closeEarly reason] := by
  induction k with
  | zero => simp [closeLoop]
  | succ k ih => simp [List.replicate_succ, closeLoop, ih]

/-- while every transaction fails the controller keeps trying (no give-up) -/
theorem retry_never_gives_up (reason : Nat) (k : Nat) :
    (closeLoop reason (List.replicate k (false, false))).count (Action.closeEarly reason) = k := by
  induction k with
  | zero => simp [closeLoop]
  | succ k ih => simp [List.replicate_succ, closeLoop, ih]

/-- a contract already closed by someone else (closed event processed first) is not closed again -/
theorem closed_first_no_tx (err : Option ErrKind) (txOk : Bool) (rest : List (Bool × Bool)) :
    onWatcherDone err ((true, txOk) :: rest) = [] := by
  unfold onWatcherDone
  cases err with
  | none => rfl
  | some e => by_cases h : e.isClosed = true <;> simp [h, closeLoop]

/-- a watcher that ended normally or was cancelled by a closed event sends nothing -/
theorem normal_end_no_tx (rounds : List (Bool × Bool)) :
    onWatcherDone none rounds = [] ∧
    onWatcherDone (some { isClosed := true }) rounds = [] := by
  constructor <;> simp [onWatcherDone]

/-- **a contract closed by somebody else while the controller is retrying is not closed again**: after k failed
transactions, the pass through the loop that finds the contract available sends nothing and ends the loop,
whatever would have come next -/
theorem closed_meanwhile_stops (reason : Nat) (k : Nat) (txOk : Bool) (rest : List (Bool × Bool)) :
    closeLoop reason (List.replicate k (false, false) ++ (true, txOk) :: rest) =
      (List.replicate k [Action.closeEarly reason, Action.sleep retryDelay]).flatten := by
  induction k with
  | zero => simp [closeLoop]
  | succ k ih => simp [List.replicate_succ, closeLoop, ih]

/-- the number of transactions is the number of passes up to and including the first success or up to the pass that
finds the contract closed: never more -/
theorem tx_count_le_rounds (reason : Nat) (rounds : List (Bool × Bool)) :
    ((closeLoop reason rounds).filter fun a => match a with | .closeEarly _ => true | _ => false).length ≤ rounds.length := by
  induction rounds with
  | nil => simp [closeLoop]
  | cons r rest ih =>
    obtain ⟨avail, ok⟩ := r
    cases avail <;> cases ok <;> simp [closeLoop] <;> omega


/-! ### the share record a purchase reads its "last share" from (`GlobalHashrate`) -/

section book
open PRV.Model.WorkerBook

/-- at the start of a purchase the watcher deletes the record of its contract and creates a fresh one — in that order, and
nowhere else -/
theorem source_record_prepared : PRV.Gen.C10.watcherStartCalls = ["Reset", "Initialize"] ∧
    PRV.Gen.C10.recordWriters = ["run:Reset", "run:Initialize"] := by decide

theorem load_cons (e : String × Rec) (rest : Book) (w : String) :
    load (e :: rest) w = if e.1 = w then some e.2 else load rest w := by
  unfold load
  by_cases h : e.1 = w <;> simp [List.find?, h]

theorem reset_cons (e : String × Rec) (rest : Book) (id : String) :
    reset (e :: rest) id = if e.1 = id then reset rest id else e :: reset rest id := by
  unfold reset
  by_cases h : e.1 = id <;> simp [List.filter, h]

theorem load_reset_self (b : Book) (id : String) : load (reset b id) id = none := by
  induction b with
  | nil => rfl
  | cons e rest ih =>
    rw [reset_cons]
    by_cases h : e.1 = id
    · simpa [h] using ih
    · simp only [h, if_false]; rw [load_cons]; simpa [h] using ih

theorem load_reset_other (b : Book) (id w : String) (h : w ≠ id) : load (reset b id) w = load b w := by
  induction b with
  | nil => rfl
  | cons e rest ih =>
    rw [reset_cons, load_cons]
    by_cases he : e.1 = id
    · have hw : ¬ id = w := fun x => h x.symm
      simpa [he, hw] using ih
    · simp only [he, if_false]; rw [load_cons]
      by_cases hw : e.1 = w <;> simp [hw, ih]

theorem load_append (b : Book) (id w : String) (r : Rec) :
    load (b ++ [(id, r)]) w = match load b w with | some x => some x | none => if id = w then some r else none := by
  induction b with
  | nil => by_cases h : id = w <;> simp [load, List.find?, h]
  | cons e rest ih =>
    rw [List.cons_append, load_cons, load_cons]
    by_cases he : e.1 = w
    · simp [he]
    · simpa [he] using ih

/-- **a purchase starts from a clean record, whatever happened to it before** (shares of an earlier purchase, late shares
after that purchase's watcher had gone, other contracts): no last share, no work -/
theorem fresh_purchase_starts_clean (b : Book) (id : String) :
    load (startPurchase b id) id = some {} ∧ lastSubmit (startPurchase b id) id = none ∧
    totalWork (startPurchase b id) id = some 0 := by
  have h0 := load_reset_self b id
  have h1 : load (startPurchase b id) id = some {} := by
    unfold startPurchase initRec
    simp only [h0, Option.isSome_none, Bool.false_eq_true, if_false]
    rw [load_append, h0]; simp
  refine ⟨h1, ?_, ?_⟩
  · simp [lastSubmit, h1]
  · simp [totalWork, h1]

/-- so the silence of a new purchase is measured from its own start -/
theorem fresh_purchase_reference (b : Book) (id : String) (startedAt : Int) :
    reference (startPurchase b id) id startedAt = startedAt := by
  simp [reference, (fresh_purchase_starts_clean b id).2.1]

theorem load_map_self (b : Book) (id : String) (f : Rec → Rec) (r : Rec) (h : load b id = some r) :
    load (b.map fun e => if e.1 = id then (e.1, f e.2) else e) id = some (f r) := by
  induction b with
  | nil => simp [load] at h
  | cons e rest ih =>
    rw [load_cons] at h
    rw [List.map_cons, load_cons]
    by_cases he : e.1 = id
    · simp only [he, if_true, Option.some.injEq] at h ⊢
      simp [h]
    · simp only [he, if_false] at h ⊢
      exact ih h

theorem initRec_load (b : Book) (id : String) : ∃ r, load (initRec b id) id = some r := by
  unfold initRec
  cases h : load b id with
  | none => exact ⟨{}, by simp only [Option.isSome_none, Bool.false_eq_true, if_false]; rw [load_append, h]; simp⟩
  | some r => exact ⟨r, by simp [h]⟩

/-- after a share the record's last-share instant is that share's -/
theorem lastSubmit_onSubmit (b : Book) (id : String) (diff now : Int) (hnow : now ≠ 0) :
    lastSubmit (onSubmit b id diff now) id = some now := by
  obtain ⟨r, hr⟩ := initRec_load b id
  have := load_map_self (initRec b id) id (fun x => { last := now, work := x.work + diff, shares := x.shares + 1 }) r hr
  unfold onSubmit lastSubmit
  rw [this]; simp [hnow]

/-- **the instant the silence is measured from is the start of this purchase or one of its own shares**: for every record
left behind by earlier history and every sequence of shares of this purchase, it is the last of them, or the start when
there was none — a share-timeout verdict therefore needs a silence longer than the timeout *within the purchase* -/
theorem purchase_reference (b : Book) (id : String) (startedAt : Int) (shares : List (Int × Int))
    (hpos : ∀ s ∈ shares, s.2 ≠ 0) :
    reference (submits (startPurchase b id) id shares) id startedAt = ((shares.getLast?).map (·.2)).getD startedAt := by
  suffices ∀ (b0 : Book) (d : Int), reference b0 id startedAt = d →
      reference (submits b0 id shares) id startedAt = ((shares.getLast?).map (·.2)).getD d from
    this _ _ (fresh_purchase_reference b id startedAt)
  induction shares with
  | nil => intro b0 d h; simpa [submits] using h
  | cons s rest ih =>
    intro b0 d _
    obtain ⟨diff, now⟩ := s
    have hnow : now ≠ 0 := hpos (diff, now) List.mem_cons_self
    have h1 : reference (onSubmit b0 id diff now) id startedAt = now := by
      simp [reference, lastSubmit_onSubmit b0 id diff now hnow]
    have := ih (fun x hx => hpos x (List.mem_cons_of_mem _ hx)) (onSubmit b0 id diff now) now h1
    simp only [submits]
    rw [this]
    cases rest with
    | nil => simp
    | cons r rs =>
      rw [List.getLast?_cons_cons]
      cases hl : (r :: rs).getLast? with
      | none => simp at hl
      | some x => simp

/-- one more connection under the same worker name (a rig reconnecting, a second rig of the worker, another seller miner pointed
at the contract) leaves what was measured untouched: the last share and the work credited so far are still reported -/
theorem connect_keeps_the_record (b : Book) (w v : String) : load (onConnect b w) v = load b v ∨ (load b v = none ∧ v = w) := by
  unfold onConnect initRec
  cases h : load b w with
  | some r => simp
  | none =>
    simp only [Option.isSome_none, Bool.false_eq_true, if_false]
    rw [load_append]
    cases hv : load b v with
    | some x => simp
    | none =>
      by_cases hw : w = v
      · right; exact ⟨rfl, hw.symm⟩
      · left; simp [hw]

/-- without the `Reset` a record left behind survives `Initialize` (it is a `LoadOrStore`): a share that arrived after the
previous purchase's watcher had gone would date the new purchase's silence -/
theorem stale_record_survives_without_reset :
    ∃ b : Book, lastSubmit (initRec b "c") "c" = some 5 ∧ lastSubmit (startPurchase b "c") "c" = none :=
  ⟨[("c", { last := 5, work := 1, shares := 1 })], by decide, by decide⟩

/-- other contracts' records are not touched by the start of a purchase -/
theorem other_records_untouched (b : Book) (id w : String) (h : w ≠ id) : load (startPurchase b id) w = load b w := by
  have hr := load_reset_other b id w h
  unfold startPurchase initRec
  split
  · exact hr
  · rw [load_append, hr]
    cases load b w with
    | none => have hw : ¬ id = w := fun x => h x.symm
              simp [hw]
    | some x => rfl

-- non-vacuity: a record with history, a purchase with two shares
example : reference (submits (startPurchase [("c", { last := 5, work := 9, shares := 2 })] "c") "c" [(1, 100), (1, 130)]) "c" 90 = 130 := by decide

end book


/-! ### the start-up grace period's default (regenerated from `Config.SetDefaults`) -/

/-- left unset, the grace period is one and a half delivery cycles *of the configured length* -/
theorem source_grace_default : PRV.Gen.Wiring.graceDefault =
    ("cfg.Hashrate.ValidationTimeoutAppStart == 0", "time.Duration(1.5 * float64(cfg.Hashrate.CycleDuration))") := by decide

/-- the destination-failure signal always ends the validation with `ErrContractDest`, whatever the stored description of the
failure has become meanwhile (the controller clears it after every event it handles): the signal is the closed channel -/
theorem source_dest_failure_always_ends_validation : PRV.Gen.C10.destFailureBranch =
    ["err := p.contractErr.Load()", "p.contractErrCh = make(chan struct{})", "return lib.WrapError(ErrContractDest, err)"] := by decide

/-- which covers a whole cycle for every cycle length (in ns, truncation included): a seller that reconnects at its next
cycle after a validator restart is inside the grace period -/
theorem grace_default_covers_cycle (cycle : Int) (h : 0 ≤ cycle) : cycle ≤ (3 * cycle) / 2 := by omega

/-! ### non-vacuity -/
example : getMaxGlobalError (10 * 60000000000) (5 / 100) (20 * 60000000000) skipPeriod = 4 / 5 := by
  unfold getMaxGlobalError skipPeriod; norm_num
def exampleIn : CheckIn where
  now := 100
  validatorStart := 10
  endTime := some 1000
  finishedBefore := false
  lastShare := some 90
  fulfilStart := 0
  shareTimeout := 50
  target := 100
  actual := 10
  threshold := 5 / 100
  flatness := 0

example : (check exampleIn).1 = .ok := by
  unfold check started expired silence hashrateOK tolerance getMaxGlobalError skipPeriod
    relativeError PRV.Gen.C10.abs exampleIn
  norm_num

end PRV.Props.C10
