import PRV.Model.Conn
/-
C14 — Stratum lines are delivered whole, once and in order despite cancellation.
Theorems about `Model/Conn.lean`, for every byte stream, every segmentation of it, every
interleaving of arrivals, `Read` calls and cancellations (at any point the real `ReadBytes` can be
interrupted at), every line classifier, and every sequence of writes cut at any byte.
-/
namespace PRV.Props.C14
open PRV.Model.Conn

/-! ### lines of a byte stream (specification) -/

/-- the complete lines of a stream (newline included) and the unterminated rest -/
def splitAux : List Nat → List Nat → List (List Nat) × List Nat
  | cur, [] => ([], cur)
  | cur, b :: rest =>
    if b = 10 then ((cur ++ [10]) :: (splitAux [] rest).1, (splitAux [] rest).2)
    else splitAux (cur ++ [b]) rest

def splitLines (p : List Nat) : List (List Nat) × List Nat := splitAux [] p

def IsLine (l : List Nat) : Prop := ∃ body, l = body ++ [10] ∧ 10 ∉ body

theorem splitAux_line (body rest cur : List Nat) (h : 10 ∉ body) :
    splitAux cur (body ++ [10] ++ rest) = ((cur ++ body ++ [10]) :: (splitAux [] rest).1, (splitAux [] rest).2) := by
  induction body generalizing cur with
  | nil => simp [splitAux]
  | cons b bs ih =>
    have hb : b ≠ 10 := fun e => h (by simp [e])
    have hbs : 10 ∉ bs := fun m => h (by simp [m])
    simp only [List.cons_append, splitAux, hb, if_false]
    rw [show bs ++ [10] ++ rest = bs ++ [10] ++ rest from rfl] at *
    have := ih (cur ++ [b]) hbs
    simp only [List.append_assoc, List.cons_append, List.nil_append] at this ⊢
    exact this

theorem splitAux_noline (p cur : List Nat) (h : 10 ∉ p) : splitAux cur p = ([], cur ++ p) := by
  induction p generalizing cur with
  | nil => simp [splitAux]
  | cons b bs ih =>
    have hb : b ≠ 10 := fun e => h (by simp [e])
    have hbs : 10 ∉ bs := fun m => h (by simp [m])
    simp [splitAux, hb, ih _ hbs]

/-- the lines of `l₁ ‖ l₂ ‖ … ‖ rest` are `l₁, l₂, …` followed by the lines of `rest` -/
theorem splitLines_flatten (ls : List (List Nat)) (rest : List Nat) (h : ∀ l ∈ ls, IsLine l) :
    (splitLines (ls.flatten ++ rest)).1 = ls ++ (splitLines rest).1 := by
  induction ls with
  | nil => simp
  | cons l more ih =>
    obtain ⟨body, hl, hb⟩ := h l (by simp)
    have := splitAux_line body (more.flatten ++ rest) [] hb
    unfold splitLines at ih ⊢
    simp only [List.flatten_cons, List.append_assoc, hl] at this ⊢
    rw [this]
    simp only [List.nil_append, List.cons_append, List.cons.injEq, true_and]
    exact ih (fun x hx => h x (by simp [hx]))

/-! ### read side -/

theorem takeLine_some (p l r : List Nat) (h : takeLine p = some (l, r)) : l ++ r = p ∧ IsLine l := by
  induction p generalizing l r with
  | nil => simp [takeLine] at h
  | cons b rest ih =>
    unfold takeLine at h
    by_cases hb : b = 10
    · simp only [hb, if_true, Option.some.injEq, Prod.mk.injEq] at h
      obtain ⟨rfl, rfl⟩ := h
      exact ⟨by simp [hb], ⟨[], by simp, by simp⟩⟩
    · simp only [hb, if_false] at h
      cases ht : takeLine rest with
      | none => simp [ht] at h
      | some lr =>
        obtain ⟨l', r'⟩ := lr
        simp only [ht, Option.some.injEq, Prod.mk.injEq] at h
        obtain ⟨rfl, rfl⟩ := h
        obtain ⟨e, body, hl, hn⟩ := ih l' r' ht
        refine ⟨by simp [e], ⟨b :: body, by simp [hl], ?_⟩⟩
        intro m
        simp only [List.mem_cons] at m
        rcases m with m | m
        · exact hb m.symm
        · exact hn m

theorem takeLine_none (p : List Nat) (h : takeLine p = none) : 10 ∉ p := by
  induction p with
  | nil => simp
  | cons b rest ih =>
    unfold takeLine at h
    by_cases hb : b = 10
    · simp [hb] at h
    · simp only [hb, if_false] at h
      cases ht : takeLine rest with
      | none =>
        intro m
        simp only [List.mem_cons] at m
        rcases m with m | m
        · exact hb m.symm
        · exact ih ht m
      | some lr => simp [ht] at h

/-- what holds in every reachable state of the read side -/
structure RInv (cls : List Nat → Kind) (s : RSt) : Prop where
  bytes : s.taken.flatten ++ s.stash ++ s.pending = s.sent
  lines : ∀ l ∈ s.taken, IsLine l
  stash : 10 ∉ s.stash
  ret   : s.returned = s.taken.filter (fun l => cls l = .known)

theorem inv_init (cls : List Nat → Kind) : RInv cls {} := ⟨rfl, by simp, by simp, rfl⟩

theorem inv_recv (cls : List Nat → Kind) (s : RSt) (seg : List Nat) (h : RInv cls s) : RInv cls (recv s seg) :=
  ⟨by simp [recv, ← h.bytes], h.lines, h.stash, h.ret⟩

theorem inv_cancel (cls : List Nat → Kind) (s : RSt) (k : Nat) (h : RInv cls s) (hk : 10 ∉ s.pending.take k) :
    RInv cls (cancel s k) := by
  refine ⟨?_, h.lines, ?_, h.ret⟩
  · simp only [cancel, List.append_assoc, List.take_append_drop]
    simpa [List.append_assoc] using h.bytes
  · simp only [cancel, List.mem_append, not_or]
    exact ⟨h.stash, hk⟩

theorem inv_read (cls : List Nat → Kind) (fuel : Nat) (s : RSt) (h : RInv cls s) : RInv cls (read cls fuel s).1 := by
  induction fuel generalizing s with
  | zero => exact h
  | succ n ih =>
    unfold Model.Conn.read
    cases ht : takeLine s.pending with
    | none => exact h
    | some lr =>
      obtain ⟨l, rest⟩ := lr
      obtain ⟨e, body, hl, hn⟩ := takeLine_some _ _ _ ht
      simp only
      have hline : IsLine (s.stash ++ l) := ⟨s.stash ++ body, by simp [hl], by
        simp only [List.mem_append, not_or]; exact ⟨h.stash, hn⟩⟩
      have base : RInv cls { s with pending := rest, stash := [], taken := s.taken ++ [s.stash ++ l],
                                     returned := s.returned ++ (if cls (s.stash ++ l) = .known then [s.stash ++ l] else []) } := by
        refine ⟨?_, ?_, by simp, ?_⟩
        · simp only [List.flatten_append, List.flatten_cons, List.flatten_nil, List.append_nil, List.append_assoc]
          rw [e]; simpa [List.append_assoc] using h.bytes
        · intro x hx
          simp only [List.mem_append, List.mem_singleton] at hx
          rcases hx with hx | hx
          · exact h.lines x hx
          · rw [hx]; exact hline
        · simp only [List.filter_append, h.ret]
          by_cases hk : cls (s.stash ++ l) = .known <;> simp [hk, List.filter]
      cases hc : cls (s.stash ++ l) with
      | unknown =>
        simp only [hc] at base
        simp only [reduceCtorEq, if_false, List.append_nil] at base
        exact ih _ base
      | invalid =>
        simp only [hc] at base
        simpa using base
      | known =>
        simp only [hc] at base
        simpa using base

/-- events of the read side; a cancellation that would move a newline into the stash cannot happen
(`ReadBytes` returns a complete line instead of an error) and is a no-op here -/
inductive ROp where
  | recv (seg : List Nat)
  | read
  | cancel (k : Nat)
  | recvCancel (seg : List Nat)      -- bytes arrive and the pending read's context is cancelled at that instant

def rstep (cls : List Nat → Kind) (s : RSt) : ROp → RSt
  | .recv seg => recv s seg
  | .read => (readCall cls s).1
  | .cancel k => if 10 ∈ s.pending.take k then s else cancel s k
  | .recvCancel seg => (readCancelled cls (recv s seg)).1

theorem inv_readCancelled (cls : List Nat → Kind) (s : RSt) (h : RInv cls s) : RInv cls (readCancelled cls s).1 := by
  unfold readCancelled
  cases ht : takeLine s.pending with
  | none =>
    simp only
    apply inv_cancel cls s _ h
    intro hm
    exact takeLine_none _ ht (List.mem_of_mem_take hm)
  | some lr => simpa using inv_read cls 1 s h

theorem inv_reachable (cls : List Nat → Kind) (ops : List ROp) : RInv cls (ops.foldl (rstep cls) {}) := by
  have : ∀ (s : RSt), RInv cls s → RInv cls (ops.foldl (rstep cls) s) := by
    induction ops with
    | nil => intro s h; exact h
    | cons op rest ih =>
      intro s h
      apply ih
      cases op with
      | recv seg => exact inv_recv cls s seg h
      | read => exact inv_read cls _ s h
      | cancel k =>
        simp only [rstep]
        by_cases hk : 10 ∈ s.pending.take k
        · simp [hk]; exact h
        · simp [hk]; exact inv_cancel cls s k h hk
      | recvCancel seg => exact inv_readCancelled cls _ (inv_recv cls s seg h)
  exact this _ (inv_init cls)

/-- **No byte is lost, duplicated or reordered.**  Whatever the segmentation, the reads and the
cancellations: the lines consumed so far, the saved fragment and the unread bytes are, concatenated,
exactly what the peer sent. -/
theorem read_prefix_invariant (cls : List Nat → Kind) (ops : List ROp) :
    let s := ops.foldl (rstep cls) {}
    s.taken.flatten ++ s.stash ++ s.pending = s.sent := (inv_reachable cls ops).bytes

/-- **Every message exactly once, unmodified, in order; unknown ones skipped without losing their
neighbours.**  The lines consumed are exactly the first lines of the stream the peer sent, and the
messages returned are exactly the known-method ones among them, in order. -/
theorem read_lines_exact (cls : List Nat → Kind) (ops : List ROp) :
    let s := ops.foldl (rstep cls) {}
    (∃ more, (splitLines s.sent).1 = s.taken ++ more) ∧
    s.returned = s.taken.filter (fun l => cls l = .known) := by
  intro s
  have h := inv_reachable cls ops
  refine ⟨⟨(splitLines (s.stash ++ s.pending)).1, ?_⟩, h.ret⟩
  rw [← h.bytes, List.append_assoc]
  exact splitLines_flatten _ _ h.lines

/-- **a line that arrives while its read is being cancelled is not thrown away**: when the bytes that came in completed a
known-method line, the cancelled call still returns that line (it has been taken out of the socket), and only that one -/
theorem cancelled_read_keeps_completed_line (cls : List Nat → Kind) (s : RSt) (l rest : List Nat)
    (ht : takeLine s.pending = some (l, rest)) (hk : cls (s.stash ++ l) = .known) :
    (readCancelled cls s).2 = some (.msg (s.stash ++ l)) ∧ (readCancelled cls s).1.pending = rest ∧
    (readCancelled cls s).1.taken = s.taken ++ [s.stash ++ l] := by
  simp [readCancelled, ht, Model.Conn.read, hk]

/-- and when no line is complete the cancelled call takes nothing: the bytes stay (stash ++ pending unchanged) -/
theorem cancelled_read_takes_nothing (cls : List Nat → Kind) (s : RSt) (ht : takeLine s.pending = none) :
    (readCancelled cls s).2 = none ∧ (readCancelled cls s).1.taken = s.taken ∧
    (readCancelled cls s).1.stash ++ (readCancelled cls s).1.pending = s.stash ++ s.pending := by
  simp [readCancelled, ht, cancel]

/-- a `Read` call only blocks when no complete line is left: every complete line that has arrived
is consumed by the reads that follow it -/
theorem read_blocks_only_when_no_line (cls : List Nat → Kind) (fuel : Nat) (s : RSt) (hf : s.pending.length < fuel)
    (hb : (read cls fuel s).2 = .blocked) : takeLine (read cls fuel s).1.pending = none := by
  induction fuel generalizing s with
  | zero => omega
  | succ n ih =>
    unfold Model.Conn.read at hb ⊢
    cases ht : takeLine s.pending with
    | none => simp [ht]
    | some lr =>
      obtain ⟨l, rest⟩ := lr
      obtain ⟨e, body, hl, _⟩ := takeLine_some _ _ _ ht
      simp only [ht] at hb ⊢
      have hlen : rest.length < n := by
        have : s.pending.length = l.length + rest.length := by rw [← e]; simp
        have : 0 < l.length := by rw [hl]; simp
        omega
      cases hc : cls (s.stash ++ l) with
      | unknown =>
        simp only [hc] at hb ⊢
        exact ih _ hlen hb
      | invalid => simp [hc] at hb
      | known => simp [hc] at hb

/-! ### write side -/

def tailOf : Option (List Nat × Nat) → List Nat
  | none => []
  | some (m, k) => (m ++ [10]).take k

structure WInv (s : WSt) : Prop where
  wire : s.wire = (s.done.map (· ++ [10])).flatten ++ tailOf s.cutAt
  closed : s.cutAt.isSome → s.closed = true
  cut : ∀ m k, s.cutAt = some (m, k) → 0 < k ∧ k < (m ++ [10]).length

theorem winv_write (s : WSt) (msg : List Nat) (cut : Option Nat) (h : WInv s) : WInv (write s msg cut).1 := by
  obtain ⟨wire, closed, done, cutAt⟩ := s
  cases closed with
  | true => simpa [write] using h
  | false =>
    have hnone : cutAt = none := by
      cases hca : cutAt with
      | none => rfl
      | some x => have := h.closed (by simp [hca]); simp at this
    subst hnone
    have hw : wire = (done.map (· ++ [10])).flatten := by simpa [tailOf] using h.wire
    have full : WInv { wire := wire ++ (msg ++ [10]), closed := false, done := done ++ [msg], cutAt := none } :=
      ⟨by simp [hw, tailOf], by simp, by simp⟩
    cases cut with
    | none => simpa [write] using full
    | some k =>
      by_cases h1 : msg.length + 1 ≤ k
      · simpa [write, h1] using full
      · by_cases h0 : k = 0
        · simpa [write, h1, h0] using h
        · have : WInv { wire := wire ++ (msg ++ [10]).take k, closed := true, done := done, cutAt := some (msg, k) } :=
            ⟨by simp [hw, tailOf], by simp, by
              intro m k' e
              simp only [Option.some.injEq, Prod.mk.injEq] at e
              obtain ⟨rfl, rfl⟩ := e
              simp only [List.length_append, List.length_cons, List.length_nil]
              omega⟩
          simpa [write, h1, h0] using this

/-- **Writers never interleave and a cut write is never followed by anything.**  For every sequence
of writes, each cut at any byte or not at all: the bytes on the wire are the complete lines of the
writes that succeeded, in order, followed by at most one fragment — and then the connection is
closed, so that no later write adds a byte. -/
theorem write_cancel_clean (ws : List (List Nat × Option Nat)) :
    let s := ws.foldl (fun s w => (write s w.1 w.2).1) {}
    s.wire = (s.done.map (· ++ [10])).flatten ++ tailOf s.cutAt ∧
    (tailOf s.cutAt ≠ [] → s.closed = true) ∧
    (∀ msg cut, s.closed = true → (write s msg cut).1.wire = s.wire ∧ (write s msg cut).2 = .closedErr) := by
  intro s
  have h : WInv s := by
    have : ∀ (s0 : WSt), WInv s0 → WInv (ws.foldl (fun s w => (write s w.1 w.2).1) s0) := by
      induction ws with
      | nil => intro s0 h0; exact h0
      | cons w rest ih => intro s0 h0; exact ih _ (winv_write s0 w.1 w.2 h0)
    exact this {} ⟨rfl, by simp, by simp⟩
  refine ⟨h.wire, ?_, ?_⟩
  · intro ht
    apply h.closed
    cases hc : s.cutAt with
    | none => simp [hc, tailOf] at ht
    | some x => rfl
  · intro msg cut hc
    simp [write, hc]

/-- a write that succeeded put exactly its line on the wire -/
theorem write_ok_appends_line (s : WSt) (msg : List Nat) (cut : Option Nat) (h : (write s msg cut).2 = .ok) :
    (write s msg cut).1.wire = s.wire ++ msg ++ [10] := by
  obtain ⟨wire, closed, done, cutAt⟩ := s
  cases closed with
  | true => simp [write] at h
  | false =>
    cases cut with
    | none => simp [write]
    | some k =>
      by_cases h1 : msg.length + 1 ≤ k
      · simp [write, h1]
      · by_cases h0 : k = 0
        · simp [write, h1, h0] at h
        · simp [write, h1, h0] at h

/-! ### non-vacuity: a stream cut inside a line, with a cancelled read in between -/

example :
    let cls : List Nat → Kind := fun l => if l.length = 3 then .known else .unknown
    let s := [ROp.recv [65], .read, .cancel 1, .recv [66, 10, 67, 68, 69, 10, 70], .read, .read].foldl (rstep cls) {}
    s.returned = [[65, 66, 10]] ∧ s.taken = [[65, 66, 10], [67, 68, 69, 10]] ∧ s.pending = [70] := by decide

end PRV.Props.C14
