import PRV.Model.Alloc
import PRV.Gen.Wiring
import Mathlib.Tactic.Linarith
import Mathlib.Tactic.SplitIfs
import Mathlib.Tactic.Ring
import Mathlib.Data.List.Perm.Basic
import Mathlib.Data.List.Nodup
/-
C11 — Allocation never over-commits and only uses eligible miners.
The loops are proved for *any* item list (so independent of the sort order), then lifted to the
snapshot of a population.
-/
namespace PRV.Props.C11
open PRV.Model.Alloc PRV.Gen.C11 PRV.Gen.C20

/-! ### whole-miner allocation -/

/-- the remainder reported is exactly the request minus the rates handed out -/
theorem full_remainder_eq (items : List Item) (r : Rat) :
    (fullLoop items r).2 = r - total (fullLoop items r).1 := by
  induction items generalizing r with
  | nil => simp [fullLoop, total]
  | cons it rest ih =>
    unfold fullLoop
    split_ifs with h
    · simp only [total, List.map_cons, List.sum_cons] at ih ⊢
      rw [ih]; ring
    · exact ih r

/-- never exceeds the request: the remainder stays non-negative -/
theorem full_remainder_nonneg (items : List Item) (r : Rat) (h0 : 0 ≤ r) : 0 ≤ (fullLoop items r).2 := by
  induction items generalizing r with
  | nil => simpa [fullLoop]
  | cons it rest ih =>
    unfold fullLoop
    split_ifs with h
    · exact ih _ (by linarith [h.1])
    · exact ih r h0

theorem full_sum_le (items : List Item) (r : Rat) (h0 : 0 ≤ r) : total (fullLoop items r).1 ≤ r := by
  have h1 := full_remainder_eq items r
  have h2 := full_remainder_nonneg items r h0
  linarith

/-- every chosen miner's rate fits into what was still missing when it was chosen -/
def FitsSeq : Allocs → Rat → Prop
  | [], _ => True
  | (_, x) :: rest, r => 0 < x ∧ x ≤ r ∧ FitsSeq rest (r - x)

theorem full_each_fits (items : List Item) (r : Rat) : FitsSeq (fullLoop items r).1 r := by
  induction items generalizing r with
  | nil => simp [fullLoop, FitsSeq]
  | cons it rest ih =>
    unfold fullLoop
    split_ifs with h
    · exact ⟨h.2, h.1, ih _⟩
    · exact ih r

/-- chosen (id, rate) pairs come from the item list, in order, each item at most once -/
theorem full_sublist (items : List Item) (r : Rat) :
    List.Sublist (fullLoop items r).1 (items.map (fun it => (it.id, it.hr))) := by
  induction items generalizing r with
  | nil => simp [fullLoop]
  | cons it rest ih =>
    unfold fullLoop
    split_ifs with h
    · exact List.Sublist.cons_cons _ (ih _)
    · exact List.Sublist.cons _ (ih r)

/-- the items offered to the whole-miner loop are exactly the eligible free miners -/
theorem freeItems_perm (pop : List Miner) (rem : Int) :
    List.Perm (freeItems pop rem) ((pop.filter (fun m => eligible m && isFree m)).map (freeItem · rem)) :=
  List.mergeSort_perm _ _

/-- only connected, vetted, not disconnecting, free miners receive whole-miner tasks, at their own rate -/
theorem full_eligible (pop : List Miner) (req : Rat) (a : String × Rat)
    (ha : a ∈ (allocateFull pop req).1) :
    ∃ m ∈ pop, m.id = a.1 ∧ m.vetting = false ∧ m.disconnecting = false ∧ m.tasks = 0 ∧
      a.2 = m.hr * hashratePredictionAdjustment := by
  unfold allocateFull at ha
  have h1 := (full_sublist (freeItems pop 0) req).subset ha
  obtain ⟨it, hit, rfl⟩ := List.mem_map.mp h1
  have h2 := (freeItems_perm pop 0).subset hit
  obtain ⟨m, hm, rfl⟩ := List.mem_map.mp h2
  obtain ⟨hmp, hcond⟩ := List.mem_filter.mp hm
  simp only [eligible, isFree, Bool.and_eq_true, Bool.not_eq_true', beq_iff_eq] at hcond
  exact ⟨m, hmp, rfl, hcond.1.1, hcond.1.2, hcond.2, rfl⟩

/-- no miner receives more than one whole-miner task per call (miner ids are unique) -/
theorem full_no_miner_twice (pop : List Miner) (req : Rat) (hn : (pop.map (·.id)).Nodup) :
    ((allocateFull pop req).1.map (·.1)).Nodup := by
  unfold allocateFull
  have h1 := (full_sublist (freeItems pop 0) req).map (·.1)
  apply List.Nodup.sublist h1
  have hp : List.Perm ((freeItems pop 0).map (fun it => (it.id, it.hr))) _ :=
    (freeItems_perm pop 0).map _
  rw [List.map_map]
  have hp2 := (freeItems_perm pop 0).map (fun it => it.id)
  have e : (List.map (fun it : Item => (it.id, it.hr)) (freeItems pop 0)).map (·.1)
      = (freeItems pop 0).map (fun it => it.id) := by simp [List.map_map, Function.comp_def]
  show ((freeItems pop 0).map ((·.1) ∘ fun it => (it.id, it.hr))).Nodup
  have e2 : ((·.1) ∘ fun it : Item => (it.id, it.hr)) = fun it => it.id := rfl
  rw [e2]
  apply (hp2.nodup_iff).mpr
  rw [List.map_map]
  have e3 : ((fun it : Item => it.id) ∘ fun m => freeItem m 0) = fun m : Miner => m.id := rfl
  rw [e3]
  exact List.Nodup.sublist ((List.filter_sublist).map _) hn

theorem full_never_overcommits (pop : List Miner) (req : Rat) (h0 : 0 ≤ req) :
    total (allocateFull pop req).1 ≤ req ∧
    (allocateFull pop req).2 = req - total (allocateFull pop req).1 ∧
    FitsSeq (allocateFull pop req).1 req :=
  ⟨full_sum_le _ _ h0, full_remainder_eq _ _, full_each_fits _ _⟩

/-! ### partial allocation -/

theorem minJob_pos : 0 < allocationMinJob := by unfold allocationMinJob; norm_num

/-- partial loop: chunks ≥ minimum, each within the miner's spare capacity, sum + what is still
needed = request -/
theorem partialLoop_spec (items : List Item) (need : Rat) :
    (∀ a ∈ (partialLoop items need).1, allocationMinJob ≤ a.2) ∧
    (∀ a ∈ (partialLoop items need).1, ∃ it ∈ items, it.id = a.1 ∧ a.2 ≤ it.jobRemaining) ∧
    ((partialLoop items need).2.2 = false →
        total (partialLoop items need).1 + (partialLoop items need).2.1 = need) ∧
    (0 ≤ need → total (partialLoop items need).1 ≤ need) ∧
    List.Sublist ((partialLoop items need).1.map (·.1)) (items.map (·.id)) := by
  induction items generalizing need with
  | nil => simp [partialLoop, total]
  | cons it rest ih =>
    unfold partialLoop
    have lift : ∀ n, (∀ a ∈ (partialLoop rest n).1, ∃ it' ∈ rest, it'.id = a.1 ∧ a.2 ≤ it'.jobRemaining) →
        (∀ a ∈ (partialLoop rest n).1, ∃ it' ∈ it :: rest, it'.id = a.1 ∧ a.2 ≤ it'.jobRemaining) := by
      intro n h a ha
      obtain ⟨i, hi, hh⟩ := h a ha
      exact ⟨i, List.mem_cons_of_mem _ hi, hh⟩
    split_ifs with h1 h2 h3 h4 h5 h6
    · simp [total]
    · obtain ⟨a, b, c, d, e⟩ := ih need
      exact ⟨a, lift _ b, c, d, List.Sublist.cons _ e⟩
    · obtain ⟨a, b, c, d, e⟩ := ih need
      exact ⟨a, lift _ b, c, d, List.Sublist.cons _ e⟩
    · obtain ⟨a, b, c, d, e⟩ := ih need
      exact ⟨a, lift _ b, c, d, List.Sublist.cons _ e⟩
    · obtain ⟨a, b, c, d, e⟩ := ih need
      exact ⟨a, lift _ b, c, d, List.Sublist.cons _ e⟩
    · refine ⟨?_, ?_, ?_, ?_, ?_⟩
      · intro a ha; simp at ha; subst ha; simpa using not_lt.mp h1
      · intro a ha; simp at ha; subst ha
        exact ⟨it, List.mem_cons_self, rfl, h6⟩
      · simp
      · intro _; simp [total]
      · simp
    · obtain ⟨a, b, c, d, e⟩ := ih (need - it.jobRemaining)
      have hjr : allocationMinJob ≤ it.jobRemaining := not_lt.mp h2
      have hlt : it.jobRemaining < need := not_le.mp h6
      refine ⟨?_, ?_, ?_, ?_, ?_⟩
      · intro x hx
        simp only [List.mem_cons] at hx
        rcases hx with rfl | hx
        · exact hjr
        · exact a x hx
      · intro x hx
        simp only [List.mem_cons] at hx
        rcases hx with rfl | hx
        · exact ⟨it, List.mem_cons_self, rfl, le_refl _⟩
        · exact lift _ b x hx
      · intro hf
        have := c hf
        simp only [total, List.map_cons, List.sum_cons] at this ⊢
        linarith
      · intro _
        have := d (by linarith)
        simp only [total, List.map_cons, List.sum_cons] at this ⊢
        linarith
      · simpa using List.Sublist.cons_cons it.id e

/-- free loop: chunks ≥ minimum, each within what the miner can do in the remaining time, total ≤ need -/
theorem freeLoop_spec (rem : Int) (items : List Item) (need : Rat) (h0 : 0 ≤ need) :
    (∀ a ∈ (freeLoop rem items need).1, allocationMinJob ≤ a.2) ∧
    (∀ a ∈ (freeLoop rem items need).1, ∃ it ∈ items, it.id = a.1 ∧ a.2 ≤ ghsToJobSubmittedV2 it.hr rem) ∧
    total (freeLoop rem items need).1 ≤ need ∧ 0 ≤ (freeLoop rem items need).2 ∧
    total (freeLoop rem items need).1 + (freeLoop rem items need).2 ≤ need ∧
    List.Sublist ((freeLoop rem items need).1.map (·.1)) (items.map (·.id)) := by
  induction items generalizing need with
  | nil => simp [freeLoop, total, h0]
  | cons it rest ih =>
    unfold freeLoop
    dsimp only
    have lift : ∀ n, (∀ a ∈ (freeLoop rem rest n).1, ∃ it' ∈ rest, it'.id = a.1 ∧ a.2 ≤ ghsToJobSubmittedV2 it'.hr rem) →
        (∀ a ∈ (freeLoop rem rest n).1, ∃ it' ∈ it :: rest, it'.id = a.1 ∧ a.2 ≤ ghsToJobSubmittedV2 it'.hr rem) := by
      intro n h a ha
      obtain ⟨i, hi, hh⟩ := h a ha
      exact ⟨i, List.mem_cons_of_mem _ hi, hh⟩
    split_ifs with h1 h2 h3
    · simp [total, h0]
    · obtain ⟨a, b, c, d, e, f⟩ := ih need h0
      exact ⟨a, lift _ b, c, d, e, List.Sublist.cons _ f⟩
    · -- whole capacity of this miner
      have hcap : allocationMinJob ≤ ghsToJobSubmittedV2 it.hr rem := le_of_lt (not_le.mp h2)
      obtain ⟨a, b, c, d, e, f⟩ := ih (need - ghsToJobSubmittedV2 it.hr rem) (by linarith)
      refine ⟨?_, ?_, ?_, d, ?_, ?_⟩
      · intro x hx; simp only [List.mem_cons] at hx
        rcases hx with rfl | hx
        · exact hcap
        · exact a x hx
      · intro x hx; simp only [List.mem_cons] at hx
        rcases hx with rfl | hx
        · exact ⟨it, List.mem_cons_self, rfl, le_refl _⟩
        · exact lift _ b x hx
      · simp only [total, List.map_cons, List.sum_cons] at c ⊢; linarith
      · simp only [total, List.map_cons, List.sum_cons] at e ⊢; linarith
      · simpa using List.Sublist.cons_cons it.id f
    · -- the rest of the request
      have hneed : allocationMinJob ≤ need := not_lt.mp h1
      have hle : need ≤ ghsToJobSubmittedV2 it.hr rem := le_of_lt (not_le.mp h3)
      obtain ⟨a, b, c, d, e, f⟩ := ih (need - need) (by linarith)
      refine ⟨?_, ?_, ?_, d, ?_, ?_⟩
      · intro x hx; simp only [List.mem_cons] at hx
        rcases hx with rfl | hx
        · exact hneed
        · exact a x hx
      · intro x hx; simp only [List.mem_cons] at hx
        rcases hx with rfl | hx
        · exact ⟨it, List.mem_cons_self, rfl, hle⟩
        · exact lift _ b x hx
      · simp only [total, List.map_cons, List.sum_cons] at c ⊢; linarith
      · simp only [total, List.map_cons, List.sum_cons] at e ⊢; linarith
      · simpa using List.Sublist.cons_cons it.id f

theorem partialItems_subset (pop : List Miner) (rem : Int) (it : Item) (h : it ∈ partialItems pop rem) :
    ∃ m ∈ pop, it = partialItem m rem ∧ eligible m = true ∧ isPartialBusy m rem = true := by
  unfold partialItems at h
  split_ifs at h with h0
  · simp at h
  · have := (List.mergeSort_perm _ _).subset h
    obtain ⟨m, hm, rfl⟩ := List.mem_map.mp this
    obtain ⟨hmp, hc⟩ := List.mem_filter.mp hm
    simp only [Bool.and_eq_true] at hc
    exact ⟨m, hmp, rfl, hc.1, hc.2⟩

theorem freeItems_subset (pop : List Miner) (rem : Int) (it : Item) (h : it ∈ freeItems pop rem) :
    ∃ m ∈ pop, it = freeItem m rem ∧ eligible m = true ∧ isFree m = true := by
  have := (freeItems_perm pop rem).subset h
  obtain ⟨m, hm, rfl⟩ := List.mem_map.mp this
  obtain ⟨hmp, hc⟩ := List.mem_filter.mp hm
  simp only [Bool.and_eq_true] at hc
  exact ⟨m, hmp, rfl, hc.1, hc.2⟩

/-- **Partial allocation.** For every population, request ≥ 0 and remaining time: every task is
at least the minimum chunk; goes to an eligible miner; is no more than that miner can do in the
remaining time on top of what it already holds; and the tasks together never exceed the request. -/
theorem partial_spec (pop : List Miner) (need : Rat) (rem : Int) (h0 : 0 ≤ need)
    (hwf : ∀ m ∈ pop, m.tasks = 0 → m.scheduled = 0) :
    (∀ a ∈ (allocatePartial pop need rem).1, allocationMinJob ≤ a.2) ∧
    (∀ a ∈ (allocatePartial pop need rem).1, ∃ m ∈ pop, m.id = a.1 ∧ m.vetting = false ∧
        m.disconnecting = false ∧ a.2 ≤ expectedJob m rem - m.scheduled) ∧
    total (allocatePartial pop need rem).1 ≤ need ∧
    0 ≤ (allocatePartial pop need rem).2 := by
  obtain ⟨p1, p2, p3, p4, _⟩ := partialLoop_spec (partialItems pop rem) need
  have elig : ∀ m : Miner, eligible m = true → m.vetting = false ∧ m.disconnecting = false := by
    intro m h; simpa [eligible] using h
  have pcap : ∀ a ∈ (partialLoop (partialItems pop rem) need).1, ∃ m ∈ pop, m.id = a.1 ∧
      m.vetting = false ∧ m.disconnecting = false ∧ a.2 ≤ expectedJob m rem - m.scheduled := by
    intro a ha
    obtain ⟨it, hit, hid, hle⟩ := p2 a ha
    obtain ⟨m, hm, rfl, he, _⟩ := partialItems_subset pop rem it hit
    exact ⟨m, hm, hid, (elig m he).1, (elig m he).2, hle⟩
  unfold allocatePartial
  simp only
  split_ifs with hdone
  · exact ⟨p1, pcap, p4 h0, le_refl _⟩
  · have hf : (partialLoop (partialItems pop rem) need).2.2 = false := by simpa using hdone
    have hsum := p3 hf
    have hneed' : 0 ≤ (partialLoop (partialItems pop rem) need).2.1 := by
      have := p4 h0; linarith
    obtain ⟨f1, f2, f3, f4, _, _⟩ := freeLoop_spec rem (freeItems pop rem) _ hneed'
    refine ⟨?_, ?_, ?_, f4⟩
    · intro a ha
      rcases List.mem_append.mp ha with h | h
      · exact p1 a h
      · exact f1 a h
    · intro a ha
      rcases List.mem_append.mp ha with h | h
      · exact pcap a h
      · obtain ⟨it, hit, hid, hle⟩ := f2 a h
        obtain ⟨m, hm, rfl, he, hfree⟩ := freeItems_subset pop rem it hit
        refine ⟨m, hm, hid, (elig m he).1, (elig m he).2, ?_⟩
        -- a free miner holds nothing (`hwf`), so its spare capacity is its cycle capacity
        have : (freeItem m rem).hr = m.hr := by
          unfold freeItem hashratePredictionAdjustment; norm_num
        rw [this] at hle
        have hz : m.scheduled = 0 := hwf m hm (by simpa [isFree] using hfree)
        rw [hz]; unfold expectedJob; simpa using hle
    · simp only [total, List.map_append, List.sum_append]
      have := f3
      simp only [total] at this hsum ⊢
      linarith

/-- no miner receives more than one task per partial-allocation call: the partially busy and the
free miners of one snapshot are disjoint, and each loop visits a miner at most once -/
theorem partial_no_miner_twice (pop : List Miner) (need : Rat) (rem : Int)
    (hn : (pop.map (·.id)).Nodup) : ((allocatePartial pop need rem).1.map (·.1)).Nodup := by
  have hp := (partialLoop_spec (partialItems pop rem) need).2.2.2.2
  have idsP : ∀ x ∈ (partialItems pop rem).map (·.id), ∃ m ∈ pop, m.id = x ∧ m.tasks > 0 := by
    intro x hx
    obtain ⟨it, hit, rfl⟩ := List.mem_map.mp hx
    obtain ⟨m, hm, rfl, _, hb⟩ := partialItems_subset pop rem it hit
    refine ⟨m, hm, rfl, ?_⟩
    simp only [isPartialBusy, Bool.and_eq_true, decide_eq_true_eq] at hb
    exact hb.1
  have idsF : ∀ x ∈ (freeItems pop rem).map (·.id), ∃ m ∈ pop, m.id = x ∧ m.tasks = 0 := by
    intro x hx
    obtain ⟨it, hit, rfl⟩ := List.mem_map.mp hx
    obtain ⟨m, hm, rfl, _, hb⟩ := freeItems_subset pop rem it hit
    exact ⟨m, hm, rfl, by simpa [isFree] using hb⟩
  have ndP : ((partialItems pop rem).map (·.id)).Nodup := by
    unfold partialItems
    split_ifs
    · simp
    · have hperm := (List.mergeSort_perm
        ((pop.filter (fun m => eligible m && isPartialBusy m rem)).map (partialItem · rem))
        (fun a b => decide (a.jobRemaining ≤ b.jobRemaining))).map (·.id)
      apply hperm.nodup_iff.mpr
      rw [List.map_map]
      have e3 : ((fun it : Item => it.id) ∘ fun m => partialItem m rem) = fun m : Miner => m.id := rfl
      rw [e3]
      exact List.Nodup.sublist ((List.filter_sublist).map _) hn
  have ndF : ((freeItems pop rem).map (·.id)).Nodup := by
    have hperm := (freeItems_perm pop rem).map (·.id)
    apply hperm.nodup_iff.mpr
    rw [List.map_map]
    have e3 : ((fun it : Item => it.id) ∘ fun m => freeItem m rem) = fun m : Miner => m.id := rfl
    rw [e3]
    exact List.Nodup.sublist ((List.filter_sublist).map _) hn
  have uniq : ∀ m1 ∈ pop, ∀ m2 ∈ pop, m1.id = m2.id → m1 = m2 := by
    intro m1 h1 m2 h2 he
    exact List.inj_on_of_nodup_map hn h1 h2 he
  unfold allocatePartial
  simp only
  split_ifs
  · exact List.Nodup.sublist hp ndP
  · rw [List.map_append]
    obtain ⟨_, _, _, _, _, hf⟩ := freeLoop_spec rem (freeItems pop rem)
      (max 0 (partialLoop (partialItems pop rem) need).2.1) (le_max_left _ _)
    have hfsub : ∀ n, List.Sublist ((freeLoop rem (freeItems pop rem) n).1.map (·.1))
        ((freeItems pop rem).map (·.id)) := by
      intro n
      -- the sublist fact does not depend on the sign of the request
      induction (freeItems pop rem) generalizing n with
      | nil => simp [freeLoop]
      | cons it rest ih =>
        unfold freeLoop; dsimp only
        split_ifs
        · simp
        · exact List.Sublist.cons _ (ih _)
        · simpa using List.Sublist.cons_cons it.id (ih _)
        · simpa using List.Sublist.cons_cons it.id (ih _)
    apply List.Nodup.append (List.Nodup.sublist hp ndP) (List.Nodup.sublist (hfsub _) ndF)
    intro x hx1 hx2
    obtain ⟨m1, hm1, e1, t1⟩ := idsP x (hp.subset hx1)
    obtain ⟨m2, hm2, e2, t2⟩ := idsF x ((hfsub _).subset hx2)
    have := uniq m1 hm1 m2 hm2 (by rw [e1, e2])
    subst this; omega

/-- with no time left nothing is allocated partially -/
theorem partial_zero_duration (pop : List Miner) (need : Rat) :
    (allocatePartial pop need 0).1 = [] := by
  have hcap : ∀ hr : Rat, ghsToJobSubmittedV2 hr 0 = 0 := by
    intro hr; unfold ghsToJobSubmittedV2; simp
  have hfree : ∀ (items : List Item) (n : Rat), (freeLoop 0 items n).1 = [] := by
    intro items
    induction items with
    | nil => intro n; simp [freeLoop]
    | cons it rest ih =>
      intro n
      unfold freeLoop; dsimp only
      have : ghsToJobSubmittedV2 it.hr 0 ≤ allocationMinJob := by
        rw [hcap]; exact le_of_lt minJob_pos
      split_ifs
      · rfl
      · exact ih n
  unfold allocatePartial partialItems
  simp [partialLoop, hfree]


/-! ### the vetting threshold the eligibility test relies on (regenerated wiring) -/

def lookupW (l : List (String × String)) (k : String) : Option String := (l.find? (·.1 = k)).map (·.2)

/-- "only miners past vetting receive tasks": the threshold the proxy counts accepted shares against and the one the
scheduler reports are both the configured `minerVettingShares`, and the destination-cache size is a different
parameter that goes only to `maxCachedDests` -/
theorem source_vetting_threshold_wired :
    lookupW PRV.Gen.Wiring.handlerProxyArgs "vettingShares" = some "minerVettingShares" ∧
    lookupW PRV.Gen.Wiring.handlerProxyArgs "maxCachedDests" = some "maxCachedDests" ∧
    lookupW PRV.Gen.Wiring.handlerSchedulerArgs "minerVettingShares" = some "minerVettingShares" ∧
    lookupW PRV.Gen.Wiring.proxyFields "vettingShares" = some "vettingShares" ∧
    lookupW PRV.Gen.Wiring.proxyFields "maxCachedDests" = some "maxCachedDests" ∧
    lookupW PRV.Gen.Wiring.schedulerFields "minerVettingShares" = some "minerVettingShares" := by decide

/-! ### non-vacuity -/
example : fullLoop [⟨"a", 100, 0, 0⟩, ⟨"b", 60, 0, 0⟩, ⟨"d", 30, 0, 0⟩] 140 = ([("a", 100), ("d", 30)], 10) := by
  norm_num [fullLoop]

end PRV.Props.C11
