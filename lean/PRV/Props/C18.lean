import PRV.Model.Secrets
import PRV.Model.BuyerDest
import PRV.Gen.BuyerDest
/-
C18 — Secrets stay secret; encrypted destinations fail closed.
`Gen.C18` is regenerated from config.go, cmd/main.go and httphandlers/http.go on every run.
-/
namespace PRV.Props.C18
open PRV.Model.Secrets PRV.Gen.C18

theorem evalRev_find (cfg : Cfg) (rev : List (String × String)) (p : String) :
    evalRev cfg rev p = match rev.find? (·.1 = p) with
      | none => ""
      | some a => valueOf cfg a := by
  induction rev with
  | nil => rfl
  | cons a older ih =>
    simp only [evalRev, List.find?_cons]
    by_cases h : a.1 = p
    · simp [h]
    · simp [h, ih]

/-- checked on the regenerated statements: no final source is a secret; every target is a field -/
theorem no_field_from_secret : noSecretSource = true := by decide
theorem stmts_target_fields : stmtsTargetFields = true := by decide

/-- **Non-interference.** Two configurations that differ only in the wallet key, the mnemonic and
the Ethereum node URL have the same sanitized form: whatever is exposed over HTTP or printed at
start-up is independent of the secrets. -/
theorem sanitize_noninterference (c1 c2 : Cfg) (h : ∀ p, p ∉ secrets → c1 p = c2 p) :
    sanitize c1 = sanitize c2 := by
  funext p
  unfold sanitize
  rw [evalRev_find, evalRev_find]
  cases hf : sanitizeStmts.reverse.find? (·.1 = p) with
  | none => rfl
  | some a =>
    simp only [valueOf]
    by_cases h2 : a.2 = ""
    · simp [h2]
    · simp only [h2, if_false]
      apply h
      -- a.1 = p is a declared field, so the decided table applies
      have hmem : a ∈ sanitizeStmts.reverse := List.mem_of_find?_eq_some hf
      have hp : a.1 = p := by simpa using List.find?_some hf
      have hfield : p ∈ fields := by
        have := stmts_target_fields
        unfold stmtsTargetFields at this
        have := List.all_eq_true.mp this a (by simpa using hmem)
        rw [← hp]; simpa using this
      have := no_field_from_secret
      unfold noSecretSource at this
      have := List.all_eq_true.mp this p hfield
      unfold finalStmt at this
      rw [hf] at this
      simpa using this

/-- the secrets themselves come out empty -/
theorem secrets_blank (c : Cfg) : ∀ p ∈ secrets, sanitize c p = "" := by
  intro p hp
  unfold sanitize
  rw [evalRev_find]
  simp only [secrets, List.mem_cons, List.not_mem_nil, or_false] at hp
  rcases hp with rfl | rfl | rfl <;> rfl

/-- the whole configuration value leaves `main` only towards the loader and, behind the
`Sanitizable` interface whose only method is `GetSanitized`, the HTTP handler; everything printed
goes through `GetSanitized` -/
theorem whole_config_only_to :
    (∀ f ∈ wholeConfigReceivers, f ∈ ["config.LoadConfig", "httphandlers.NewHTTPHandler"]) ∧
    httpConfigMethods = ["GetSanitized"] ∧ httpConfigFieldType = "Sanitizable" := by decide

/-! ### encrypted destinations fail closed -/

/-- A destination is returned only if decryption and URL parsing both succeeded, and then it is
exactly the parsed plaintext; whenever an error is reported no destination is returned. -/
theorem decrypt_fail_closed {Url : Type} (enc : String) (dec : String → Option String)
    (parse : String → Option Url) (u : Url) :
    ((decryptDest enc dec parse).1 = some u ↔ (enc ≠ "" ∧ ∃ plain, dec enc = some plain ∧ parse plain = some u)) ∧
    ((decryptDest enc dec parse).2 ≠ none → (decryptDest enc dec parse).1 = none) := by
  unfold decryptDest
  by_cases he : enc = ""
  · simp [he]
  · simp only [he, if_false]
    cases hd : dec enc with
    | none => simp
    | some plain =>
      cases hp : parse plain with
      | none => simp [hp]
      | some v => simp [hp, he]

/-- with a primitive that inverts encryption, the round trip yields the identical URL -/
theorem decrypt_roundtrip {Url : Type} (encf : String → String) (dec : String → Option String)
    (parse : String → Option Url) (plain : String) (u : Url)
    (hinv : dec (encf plain) = some plain) (hne : encf plain ≠ "") (hp : parse plain = some u) :
    decryptDest (encf plain) dec parse = (some u, none) := by
  unfold decryptDest; simp [hne, hinv, hp]

/-- a ciphertext the primitive rejects (corrupted, truncated, foreign key) yields an error and no
destination -/
theorem decrypt_rejected {Url : Type} (enc : String) (dec : String → Option String)
    (parse : String → Option Url) (hne : enc ≠ "") (hrej : dec enc = none) :
    decryptDest enc dec parse = (none, some .cannotDecrypt) := by
  unfold decryptDest; simp [hne, hrej]

example : finalStmt "Pool.Address" = some ("Pool.Address", "Pool.Address") := by decide
example : finalStmt "Marketplace.Mnemonic" = none := by decide


/-! ### the encrypted pool destination of a contract held as buyer or validator: fail closed (regenerated + model) -/

section buyerDest
open PRV.Model.BuyerDest

/-- a refused read of the destination fails the whole read (it is not taken for "no destination"); the factory decrypts whenever a
destination is given — for buyers and validators alike —, records a decryption or parse error on the contract and still returns
the contract (it stays watched) -/
theorem source_buyer_destination_handling :
    PRV.Gen.BuyerDest.afterEncrDestRead = ["if err != nil { return nil, err }", "if destUrl != \"\" { encryptedDestURL = destUrl }"] ∧
    PRV.Gen.BuyerDest.decryptGuard = "contractData.DestEncrypted != \"\"" ∧
    PRV.Gen.BuyerDest.onDecryptError = "watcher.contractErr.Store(destErr)" ∧
    PRV.Gen.BuyerDest.buyerReturn = "return NewControllerBuyer(watcher, c.store, c.privateKey, false), nil" := by decide

/-- **fail closed**: whenever the chain entry carries a destination, a contract that is picked up either sends the hashrate to
exactly that destination or carries an error — it is never silently served with the node's default pool -/
theorem encrypted_destination_fails_closed (r : Role) (p : Payload) (refused : Bool) (c : Contract) (default : String)
    (hp : p ≠ .none) (h : pickedUp r p refused = some c) :
    c.err = true ∨ (∃ host, p = .ok host ∧ poolDest c default = host) := by
  unfold pickedUp readDest at h
  cases refused <;> simp at h
  subst h
  cases p <;> simp_all [create, poolDest]

/-- a destination that decrypts is used as it is, for a buyer as for a validator (contract routing, C15) -/
theorem decryptable_destination_is_used (r : Role) (host default : String) :
    pickedUp r (.ok host) false = some { dest := some host, err := false } ∧
    poolDest (create r (.ok host)) default = host := by
  cases r <;> simp [pickedUp, readDest, create, poolDest]

/-- a purchase is picked up whatever its destination turns out to be (C16): only a refused call keeps the manager from it, and
then the manager ends and is restarted (`run_returns_on_every_exit`) -/
theorem picked_up_whatever_the_destination (r : Role) (p : Payload) : (pickedUp r p false).isSome = true := by
  simp [pickedUp, readDest]

/-- the default pool is used only when no destination was given -/
theorem default_pool_only_without_destination (r : Role) (p : Payload) (default : String)
    (h : poolDest (create r p) default = default) (herr : (create r p).err = false) (hd : ∀ host, p = .ok host → host ≠ default) :
    p = .none := by
  cases p <;> simp_all [create, poolDest]

example : pickedUp .buyer .undecryptable false = some { dest := none, err := true } := by decide

end buyerDest

end PRV.Props.C18
