import PRV.Model.Delivery
import PRV.Model.Tracking
import PRV.Props.C11
import PRV.Gen.C07
import PRV.Gen.C09b
/-
C09 — Delivery to a contract tracks the contracted rate.
Theorems about the cycle accounting of `Model/Delivery.lean`.  Partial: the accounting is proved
to track the rate when the allocator can arrange what is asked; what the real allocator can arrange
for a given population is observed (harness + monitor), and the population for which it cannot is a
theorem too (`small_miners_starve_then_flood`) and a known finding.
-/
namespace PRV.Props.C09
open PRV.Model.Delivery
open PRV.Gen

/-! ### facts about the source, regenerated on every run -/

/-- the thresholds the model's `adjust` uses are the ones in `adjustHashrate` -/
theorem thresholds : C09.thresholdAdjust = 100 ∧ C09.thresholdFull = 1000 ∧ C09.thresholdPartial = 100 := by decide

def expectedCycleEnd : List String :=
  ["thisCycleActualGHS := hr.JobSubmittedToGHSV2(p.stats.totalJob(), cycleDuration)",
   "thisCycleUnderDeliveryGHS := p.HashrateGHS() - thisCycleActualGHS",
   "p.stats.globalUnderDeliveryGHS.Add(int64(thisCycleUnderDeliveryGHS))",
   "p.stats.deliveryTargetGHS = p.HashrateGHS() - p.getFullMinersHR() + float64(p.stats.globalUnderDeliveryGHS.Load())"]

/-- `onCycleEnd` books the cycle the way `cycleEnd` does: shortfall = rate − actual, added to the
cumulative shortfall; next request = rate − full miners + cumulative shortfall -/
theorem cycleEnd_source : C09.cycleEndStmts = expectedCycleEnd := by decide

def expectedAdjust : List String :=
  ["expectedAdjustmentGHS := hashrateGHS",
   "adjustmentRequired := math.Abs(hashrateGHS) > AdjustmentThresholdGHS",
   "if !adjustmentRequired { p.starvingGHS.Store(0); return 0 }",
   "if hashrateGHS < -fullMinerThresholdGHS { hashrateGHS += p.removeFullMiners(hashrateGHS) }",
   "if hashrateGHS > fullMinerThresholdGHS { hashrateGHS -= p.addFullMiners(hashrateGHS) }",
   "remainingCycleDuration := p.remainingCycleDuration()",
   "if hashrateGHS > partialMinersThresholdGHS { job := hr.GHSToJobSubmittedV2(hashrateGHS, remainingCycleDuration); addedJob := p.addPartialMiners(job, remainingCycleDuration); addedGHS := hr.JobSubmittedToGHSV2(addedJob, remainingCycleDuration); hashrateGHS -= addedGHS }",
   "if hashrateGHS > 0 { p.starvingGHS.Store(uint64(hashrateGHS)) } else { p.starvingGHS.Store(0) }",
   "deltaGHS := expectedAdjustmentGHS - hashrateGHS",
   "return deltaGHS"]

/-- `adjustHashrate` has the shape `adjust` models: no adjustment inside the threshold; shed, then
whole miners, then one-cycle jobs; the caller subtracts what was arranged -/
theorem adjust_source : C09.adjustSkeleton = expectedAdjust := by decide +kernel

/-- the delivery log reports the booked quantities (the correspondence check reads these) -/
theorem log_source : C09.logFields =
    ["ActualGHS: int(thisCycleActualGHS)", "UnderDeliveryGHS: int(thisCycleUnderDeliveryGHS)",
     "GlobalUnderDeliveryGHS: int(p.stats.globalUnderDeliveryGHS.Load())",
     "NextCyclePartialDeliveryTargetGHS: int(p.stats.deliveryTargetGHS)"] := by decide

/-- the share callback of partial miners calls the one-cycle jobs off when the cycle's average rate has reached the
contracted rate *plus the shortfall carried so far* — what `Model.Delivery.cutoff` is written from -/
theorem cutoff_source : C09.cutoffStmts =
    ["p.stats.onPartialMinerShare(diff, ID)",
     "actualCycleGHS := hr.JobSubmittedToGHSV2(p.stats.totalJob(), p.contractCycleDuration)",
     "expectedCycleGHS := p.HashrateGHS() + float64(p.stats.globalUnderDeliveryGHS.Load())",
     "if actualCycleGHS >= expectedCycleGHS { p.removeAllPartialMiners() }"] := by decide +kernel

/-! ### the accounting -/

theorem tA : thresholdAdjust = 100 := by decide
theorem tF : thresholdFull = 1000 := by decide
theorem tP : thresholdPartial = 100 := by decide

/-- the book-keeping identity of `onCycleEnd`: the cumulative shortfall grows by this cycle's
shortfall, and the next request is the rate not covered by full miners plus the shortfall so far -/
theorem cycleEnd_books (a : Acc) (actual : Int) :
    (cycleEnd a actual).gU = a.gU + (a.H - actual) ∧
    (cycleEnd a actual).target = a.H - a.full + (cycleEnd a actual).gU ∧
    (cycleEnd a actual).full = a.full ∧ (cycleEnd a actual).H = a.H := ⟨rfl, rfl, rfl, rfl⟩

/-- the steady state: nothing owed, the request is the contracted rate -/
def Steady (a : Acc) : Prop := a.full = 0 ∧ a.gU = 0 ∧ a.target = a.H

/-- **tracks the rate**: with an allocator that can arrange what is asked, an undisturbed cycle
delivers exactly the contracted rate and leaves the account steady -/
theorem ideal_cycle_delivers_rate (a : Acc) (hH : thresholdAdjust < a.H) (hs : Steady a) :
    (cycle ideal a 0).2 = a.H ∧ Steady (cycle ideal a 0).1 := by
  obtain ⟨hf, hg, ht⟩ := hs
  have hna : ¬ (a.target.natAbs ≤ thresholdAdjust.natAbs) := by
    rw [ht]; simp only [tA, tF, tP] at *; omega
  unfold cycle adjust
  simp only [hna, if_false, ideal]
  have h1 : ¬ (a.target < -thresholdFull) := by rw [ht]; simp only [tA, tF, tP] at *; omega
  simp only [h1, if_false, Int.add_zero, Int.sub_zero]
  have h3 : a.target > thresholdPartial := by rw [ht]; simp only [tA, tF, tP] at *; omega
  by_cases h2 : a.target > thresholdFull
  · simp only [h2, if_true, Int.sub_zero, h3, cycleEnd, hf, hg, ht, Steady]
    refine ⟨by omega, by omega, by omega, by omega⟩
  · simp only [h2, if_false, Int.sub_zero, h3, if_true, cycleEnd, hf, hg, ht, Steady]
    refine ⟨by omega, by omega, by omega, by omega⟩

/-- **what one cycle fell short is made up in the next**: a cycle that loses `lost` (at most the rate)
leaves exactly that owed; the following undisturbed cycle delivers rate + lost and the account is
steady again — so the delivery never lags by more than what one cycle lost, nor runs ahead -/
theorem shortfall_made_up_next_cycle (a : Acc) (lost : Int) (hH : thresholdAdjust < a.H) (hs : Steady a)
    (hl : 0 ≤ lost) :
    let c1 := cycle ideal a lost
    let c2 := cycle ideal c1.1 0
    c1.2 = a.H - lost ∧ c1.1.gU = lost ∧ c2.2 = a.H + lost ∧ Steady c2.1 := by
  obtain ⟨hf, hg, ht⟩ := hs
  have hna : ¬ (a.target.natAbs ≤ thresholdAdjust.natAbs) := by
    rw [ht]; simp only [tA, tF, tP] at *; omega
  have h1 : ¬ (a.target < -thresholdFull) := by rw [ht]; simp only [tA, tF, tP] at *; omega
  have h3 : a.target > thresholdPartial := by rw [ht]; simp only [tA, tF, tP] at *; omega
  -- first cycle
  have e1 : cycle ideal a lost = ({ a with gU := lost, target := a.H + lost }, a.H - lost) := by
    unfold cycle adjust
    simp only [hna, if_false, ideal, h1, Int.add_zero, Int.sub_zero, h3, if_true]
    by_cases h2 : a.target > thresholdFull <;>
      simp only [h2, if_true, if_false, Int.sub_zero, h3, cycleEnd, hf, hg, ht] <;>
      (congr 1 <;> first | omega | (congr 1 <;> omega))
  simp only [e1]
  -- second cycle: the request is rate + lost
  have hna2 : ¬ ((a.H + lost).natAbs ≤ thresholdAdjust.natAbs) := by simp only [tA, tF, tP] at *; omega
  have h12 : ¬ (a.H + lost < -thresholdFull) := by simp only [tA, tF, tP] at *; omega
  have h32 : a.H + lost > thresholdPartial := by simp only [tA, tF, tP] at *; omega
  refine ⟨trivial, trivial, ?_, ?_⟩
  · unfold cycle adjust
    simp only [hna2, if_false, ideal, h12, Int.add_zero, Int.sub_zero, h32, if_true]
    by_cases h2 : a.H + lost > thresholdFull <;> simp [h2, h32, hf]
  · unfold cycle adjust
    simp only [hna2, if_false, ideal, h12, Int.add_zero, Int.sub_zero, h32, if_true]
    by_cases h2 : a.H + lost > thresholdFull <;>
      simp only [h2, if_true, if_false, Int.sub_zero, h32, cycleEnd, hf, Steady] <;>
      refine ⟨by omega, by omega, by omega⟩

/-- the cumulative shortfall is exactly rate × cycles − what was delivered, whatever the cycles did:
the books never lose or invent hashrate -/
theorem books_are_exact (a : Acc) (actuals : List Int) :
    (actuals.foldl cycleEnd a).gU = a.gU + (a.H * actuals.length - actuals.sum) ∧
    (actuals.foldl cycleEnd a).H = a.H := by
  induction actuals generalizing a with
  | nil => simp
  | cons x xs ih =>
    obtain ⟨h1, h2⟩ := ih (cycleEnd a x)
    have e1 : (cycleEnd a x).gU = a.gU + (a.H - x) := rfl
    have e2 : (cycleEnd a x).H = a.H := rfl
    rw [List.foldl_cons, h1, h2, e1, e2, List.length_cons, List.sum_cons, Int.natCast_succ, Int.mul_add]
    exact ⟨by omega, rfl⟩

/-- so the request after any history asks for exactly what is owed beyond the full miners: the
delivery is steered back to rate × elapsed cycles -/
theorem request_is_what_is_owed (a : Acc) (actuals : List Int) (x : Int) :
    (cycleEnd (actuals.foldl cycleEnd a) x).target =
      a.H - (actuals.foldl cycleEnd a).full + (a.gU + (a.H * (actuals.length + 1) - (actuals.sum + x))) := by
  obtain ⟨h1, h2⟩ := books_are_exact a actuals
  simp only [cycleEnd, h1, h2]
  rw [Int.mul_add]; omega

/-! ### a miner that disconnects is replaced -/

/-- an allocator never claims more than it was asked for, nor a negative amount -/
def Sane (al : Alloc) : Prop :=
  (∀ r, 0 ≤ r → 0 ≤ al.addFull r ∧ al.addFull r ≤ r) ∧ (∀ r, 0 ≤ r → 0 ≤ al.addPartial r ∧ al.addPartial r ≤ r)

/-- `adjust` moves the request by exactly what was arranged: whole miners added less whole miners shed,
plus the one-cycle jobs placed — nothing is lost in between -/
theorem adjust_books (al : Alloc) (a : Acc) :
    (adjust al a).1.target + ((adjust al a).1.full - a.full) + (adjust al a).2 = a.target ∧
    (adjust al a).1.gU = a.gU ∧ (adjust al a).1.H = a.H := by
  unfold adjust
  split
  · simp
  · simp only []
    refine ⟨by omega, trivial, trivial⟩

/-- **what a leaving miner was delivering is put back into the request**: after `replaceMiner` the request
plus what was arranged on the spot equals the request before plus what the miner owed -/
theorem replace_books_what_is_owed (al : Alloc) (a : Acc) (owed : Int) (wasFull : Bool) :
    let r := replace al a owed wasFull
    r.1.target + (r.1.full - (if wasFull then a.full - owed else a.full)) + r.2 = a.target + owed := by
  have h := (adjust_books al { a with target := a.target + owed, full := if wasFull then a.full - owed else a.full }).1
  simpa [replace] using h

/-- if nothing could be arranged on the spot and the amount is significant, it stays requested, and the
10 s tick tries again — the replacement is not forgotten -/
theorem unarranged_is_retried (al : Alloc) (a : Acc) (owed : Int) (wasFull : Bool)
    (hsig : thresholdAdjust < a.target + owed)
    (hnone : (replace al a owed wasFull).1.full = (if wasFull then a.full - owed else a.full) ∧ (replace al a owed wasFull).2 = 0) :
    (replace al a owed wasFull).1.target = a.target + owed ∧
    tick al (replace al a owed wasFull).1 = adjust al (replace al a owed wasFull).1 := by
  have h := replace_books_what_is_owed al a owed wasFull
  simp only [] at h
  obtain ⟨h1, h2⟩ := hnone
  have ht : (replace al a owed wasFull).1.target = a.target + owed := by omega
  refine ⟨ht, ?_⟩
  unfold tick
  have : (replace al a owed wasFull).1.target > 0 := by rw [ht]; simp only [tA] at hsig; omega
  simp [this]

/-- with an allocator that can arrange what is asked, a leaving miner is replaced at once: the request
returns to where it was -/
theorem ideal_replaces_at_once (a : Acc) (owed : Int) (h0 : a.target = 0) (hsig : thresholdAdjust < owed) :
    (replace ideal a owed false).1.target = 0 ∧ (replace ideal a owed false).2 = owed := by
  simp only [tA] at hsig
  have hna : ¬ ((0 + owed).natAbs ≤ thresholdAdjust.natAbs) := by simp only [tA]; omega
  have h1 : ¬ (0 + owed < -thresholdFull) := by simp only [tF]; omega
  have h3 : 0 + owed > thresholdPartial := by simp only [tP]; omega
  unfold replace adjust
  simp only [h0, hna, if_false, ideal, h1, Int.add_zero, Int.sub_zero, h3, if_true]
  have h3' : thresholdPartial < owed := by simp only [tP]; omega
  by_cases h2 : 0 + owed > thresholdFull <;> simp [h3'] <;> omega

example : (replace ideal { H := 3000, target := 0 } 2000 false).2 = 2000 := by decide

/-! ### never ahead, for every allocator that is sane — and the real one is -/

/-- with a sane allocator a significant positive request is never over-arranged: what stays requested lies
between nothing and the request, no full miner is shed, and request + arranged is conserved -/
theorem adjust_within (al : Alloc) (hs : Sane al) (a : Acc) (hpos : thresholdAdjust < a.target) :
    0 ≤ (adjust al a).1.target ∧ (adjust al a).1.target ≤ a.target ∧
    a.full ≤ (adjust al a).1.full ∧ 0 ≤ (adjust al a).2 ∧
    (adjust al a).1.target + ((adjust al a).1.full - a.full) + (adjust al a).2 = a.target := by
  obtain ⟨hf, hp⟩ := hs
  simp only [tA] at hpos
  have hna : ¬ (a.target.natAbs ≤ thresholdAdjust.natAbs) := by simp only [tA]; omega
  have h1 : ¬ (a.target < -thresholdFull) := by simp only [tF]; omega
  unfold adjust
  simp only [hna, if_false, h1, Int.add_zero, Int.sub_zero]
  by_cases h2 : a.target > thresholdFull
  · simp only [h2, if_true]
    obtain ⟨f0, f1⟩ := hf a.target (by omega)
    by_cases h3 : a.target - al.addFull a.target > thresholdPartial
    · simp only [h3, if_true]
      obtain ⟨p0, p1⟩ := hp (a.target - al.addFull a.target) (by omega)
      refine ⟨by omega, by omega, by omega, by omega, by omega⟩
    · simp only [h3, if_false]
      refine ⟨by omega, by omega, by omega, by omega, by omega⟩
  · simp only [h2, if_false, Int.sub_zero]
    have h3 : a.target > thresholdPartial := by simp only [tP]; omega
    simp only [h3, if_true]
    obtain ⟨p0, p1⟩ := hp a.target (by omega)
    refine ⟨by omega, by omega, by omega, by omega, by omega⟩

/-- **never ahead, whatever the allocator can arrange**: in a cycle that starts with a significant request which is
what the books say is owed, a sane allocator — the real one is (C11) — never lets the cycle deliver more than the
rate plus the shortfall carried so far, so the account never goes into surplus -/
theorem sane_cycle_not_ahead (al : Alloc) (hs : Sane al) (a : Acc) (lost : Int) (hl : 0 ≤ lost)
    (hreq : a.target = a.H - a.full + a.gU) (hpos : thresholdAdjust < a.target) :
    (cycle al a lost).2 ≤ a.H + a.gU ∧ 0 ≤ (cycle al a lost).1.gU := by
  obtain ⟨h0, _, _, _, hsum⟩ := adjust_within al hs a hpos
  have hg : (adjust al a).1.gU = a.gU ∧ (adjust al a).1.H = a.H := by
    unfold adjust; split <;> simp
  unfold cycle cycleEnd
  simp only []
  constructor
  · omega
  · rw [hg.1, hg.2]; omega


theorem fits_total_nonneg (a : PRV.Model.Alloc.Allocs) (r : Rat) (h : PRV.Props.C11.FitsSeq a r) : 0 ≤ PRV.Model.Alloc.total a := by
  induction a generalizing r with
  | nil => simp [PRV.Model.Alloc.total]
  | cons x rest ih =>
    obtain ⟨id, v⟩ := x
    obtain ⟨h1, _, h3⟩ := h
    have := ih _ h3
    simp only [PRV.Model.Alloc.total, List.map_cons, List.sum_cons] at this ⊢
    linarith

/-- **the allocator of C11, as the seller watcher uses it, is sane**: what `addFullMiners` books as arranged
(`request − remainder` of `AllocateFullMinersForHR`) lies between nothing and the request, and so does what
`addPartialMiners` books (`job − remainder` of `AllocatePartialForJob`) — for every fleet and every request -/
theorem real_allocator_claims_are_sane (pop : List PRV.Model.Alloc.Miner) (r : Rat) (rem : Int) (h0 : 0 ≤ r)
    (hwf : ∀ m ∈ pop, m.tasks = 0 → m.scheduled = 0) :
    (0 ≤ r - (PRV.Model.Alloc.allocateFull pop r).2 ∧ r - (PRV.Model.Alloc.allocateFull pop r).2 ≤ r) ∧
    (r - (PRV.Model.Alloc.allocatePartial pop r rem).2 ≤ r) := by
  obtain ⟨_, h2, h3⟩ := PRV.Props.C11.full_never_overcommits pop r h0
  have h4 := fits_total_nonneg _ _ h3
  have h5 := PRV.Props.C11.full_remainder_nonneg (PRV.Model.Alloc.freeItems pop 0) r h0
  have h6 := (PRV.Props.C11.partial_spec pop r rem h0 hwf).2.2.2
  refine ⟨⟨?_, ?_⟩, ?_⟩
  · rw [h2]; linarith
  · unfold PRV.Model.Alloc.allocateFull; linarith
  · linarith


/-- a contract at or under the adjustment threshold is not served in a steady account (the request is
not "significant"); it is served every other cycle once the shortfall has doubled the request -/
theorem small_contract_alternates :
    ∃ al : Alloc, al = ideal ∧
      let c1 := cycle al { H := 80, target := 80 } 0
      let c2 := cycle al c1.1 0
      let c3 := cycle al c2.1 0
      (c1.2, c2.2, c3.2) = (0, 160, 0) := ⟨ideal, rfl, by decide⟩

-- the premises are satisfiable
example : Steady { H := 300, target := 300 } ∧ thresholdAdjust < (300 : Int) := ⟨⟨rfl, rfl, rfl⟩, by decide⟩
example : (cycle ideal { H := 300, target := 300 } 120).2 = 180 := by decide
example : (cycle ideal (cycle ideal { H := 300, target := 300 } 120).1 0).2 = 420 := by decide

/-! ### the cut-off leaves room for the make-up -/

/-- **a cycle that runs up to the cut-off has made up everything that was owed**: delivering the contracted rate plus the
carried shortfall brings the cumulative shortfall to zero -/
theorem cutoff_makes_up (a : Acc) (offered : Int) (hfull : a.full ≤ a.H + a.gU) (henough : a.H + a.gU ≤ offered) :
    (cycleEnd a (cutoff a offered)).gU = 0 := by
  simp only [cycleEnd, cutoff]; omega

/-- the cut-off never stops the partial miners short of the plain rate while something is owed -/
theorem cutoff_not_below_rate (a : Acc) (offered : Int) (howed : 0 ≤ a.gU) (h : a.H ≤ offered) : a.H ≤ cutoff a offered := by
  simp only [cutoff]; omega

/-- and never lets a cycle run ahead of what is owed by partial miners: the cumulative account does not go negative through
them (only whole miners, which the callback does not touch, can take it there) -/
theorem cutoff_not_ahead (a : Acc) (offered : Int) (hfull : a.full ≤ a.H + a.gU) : 0 ≤ (cycleEnd a (cutoff a offered)).gU := by
  simp only [cycleEnd, cutoff]; omega

/-- a cut-off at the plain rate (the shortfall term dropped) would never repay anything: the cumulative shortfall cannot
decrease in any cycle — the clause "what one cycle fell short is made up in the following ones" depends on that term -/
theorem plain_cutoff_never_makes_up (a : Acc) (offered : Int) :
    a.gU ≤ (cycleEnd a (min offered (max a.H a.full))).gU ∨ a.H < a.full := by
  simp only [cycleEnd]; omega

-- the premises are satisfiable: 300 GH/s owed on a 400 GH/s contract, 900 on offer
example : (cycleEnd { H := 400, gU := 300, target := 700 } (cutoff { H := 400, gU := 300, target := 700 } 900)).gU = 0 := by decide

/-! ### the population the allocator cannot serve (known finding) -/

/-- miners of 120 GH/s each and no usable one-cycle jobs: nothing below a whole miner can be arranged,
and whole miners only for requests above the full-miner threshold -/
def smallMiners : Alloc :=
  { addFull := fun r => (r / 120) * 120, addPartial := fun _ => 0, shed := fun x => ((x + 119) / 120) * 120 }

def runCycles (al : Alloc) : Nat → Acc → List Int
  | 0, _ => []
  | n + 1, a => let c := cycle al a 0; c.2 :: runCycles al n c.1

/-- **a population of small miners is starved, then flooded**: a 300 GH/s contract on 120 GH/s miners
gets nothing for three cycles and then four times its rate — neither "does not fall behind by more
than one cycle's worth" nor "never runs ahead by more than one cycle's worth" holds -/
theorem small_miners_starve_then_flood :
    runCycles smallMiners 5 { H := 300, target := 300 } = [0, 0, 0, 1200, 1200] := by decide

/-! ### whole miners on a contract below the whole-miner threshold (known finding) -/

def accAfter (al : Alloc) : Nat → Acc → Acc
  | 0, a => a
  | n + 1, a => accAfter al n (cycle al a 0).1

/-- one 200 GH/s miner, taken for one-cycle jobs -/
def oneSmall : Alloc := { addFull := fun _ => 0, addPartial := fun r => min r 200, shed := fun _ => 0 }
/-- two miners of 750 GH/s have joined -/
def twoJoined : Alloc :=
  { addFull := fun r => min (r / 750) 2 * 750, addPartial := fun r => min r 200, shed := fun x => min ((x + 749) / 750) 2 * 750 }

/-- **whole miners taken on to make up a shortfall overstay on a small contract**: a 400 GH/s contract served by 200 GH/s for
six cycles owes 1200; the two 750 GH/s miners that join are taken whole (the request, 1600, is above the 1000 GH/s
threshold), the shortfall is gone after one cycle, and they stay for another one because the surplus (1000) is not *above*
the threshold: the contract is then 1000 GH/s·cycles ahead, two and a half cycles' worth — "never leads by more than one
cycle's worth" does not hold -/
theorem whole_miners_overstay :
    (runCycles oneSmall 6 { H := 400, target := 400 } = [200, 200, 200, 200, 200, 200]) ∧
    (runCycles twoJoined 4 (accAfter oneSmall 6 { H := 400, target := 400 }) = [1500, 1500, 0, 0]) ∧
    (accAfter twoJoined 2 (accAfter oneSmall 6 { H := 400, target := 400 })).gU = -1000 := by decide

/-! ### "a miner that has done the work asked of it is taken off that contract": the watcher's books -/

section tracking
open PRV.Model.Tracking

theorem tracked_step (s : St) (e : Ev) (h : Tracked s) (hp : s.pending = .nothing) (hc : codeOrder e = true) :
    Tracked (step s e) ∧ (step s e).pending = .nothing := by
  obtain ⟨holds, inFull, inPart, pending⟩ := s
  simp only at hp; subst hp
  cases e <;> cases holds <;> cases inFull <;> cases inPart <;> simp_all [Tracked, step, told, codeOrder]

/-- **in the order the code has (owner told, then slot freed) the books always agree with the queue**, for every history
of allocation passes and task ends: a miner the watcher lists as full is held whole, one it does not list holds nothing —
so every miner working for the contract can be shed when delivery is ahead and is released when the contract stops -/
theorem books_track_the_queue (evs : List Ev) (hc : ∀ e ∈ evs, codeOrder e = true) : Tracked (run {} evs) := by
  suffices ∀ s, Tracked s → s.pending = .nothing → Tracked (run s evs) from this {} (by simp [Tracked]) rfl
  induction evs with
  | nil => intro s h _; exact h
  | cons e es ih =>
    intro s h hp
    have := tracked_step s e h hp (hc e List.mem_cons_self)
    exact ih (fun x hx => hc x (List.mem_cons_of_mem _ hx)) _ this.1 this.2

/-- … and the code does have that order: every `select` case of `taskLoop` that frees the slot tells the owner first
(regenerated from the source on every run) -/
theorem code_has_that_order :
    ((PRV.Gen.C07.taskLoopBranches.filter (·.contains "UnlockAndRemove")).all
        fun b => decide (b.idxOf "OnEnd" < b.idxOf "UnlockAndRemove")) = true := by decide

/-- **with the two statements swapped a whole miner is lost**: the partial job's slot is freed, an allocation pass takes
the miner whole, and the late end notification of the partial job strikes it from the list of full miners — it holds a
whole-contract task the watcher does not know of -/
theorem swapped_order_loses_a_miner :
    (run {} [.allocPartial, .freeSlot, .allocFull, .notifyEnd]).holds = .wholeMiner ∧
    (run {} [.allocPartial, .freeSlot, .allocFull, .notifyEnd]).inFull = false ∧
    ¬ Tracked (run {} [.allocPartial, .freeSlot, .allocFull, .notifyEnd]) := by
  refine ⟨by decide, by decide, ?_⟩
  intro h
  have := h.1.2 (by decide)
  revert this; decide

end tracking


/-! ### miner-disconnect events reach the watcher (regenerated) -/

/-- `ChanRecvStop.Send` blocks until the watcher takes the event (or the channel is stopped): it has no `default` arm, so a
disconnect that arrives while the watcher is busy with another one is delivered afterwards, not dropped — every leaving
miner's owed amount goes back into the request (`replace_books_what_is_owed`) -/
theorem source_disconnect_events_are_not_dropped : PRV.Gen.C09b.sendArms = ["<-c.StopCh", "c.DataCh <- data"] := by decide

end PRV.Props.C09
