import PRV.Proofs.C07
import PRV.Gen.C13
import PRV.Proofs.C07Slow
import PRV.Gen.C07
/-
C07 — Task queue served in order; a removed contract stops receiving hashrate.
The model (`Model/Sched.lean`) is run against the real Scheduler/TaskList on every check; these are
the property theorems about it, for every event sequence.
-/
namespace PRV.Props.C07
open PRV.Model.Sched PRV.Proofs.C07

theorem fuel_ok (s : Sched) : s.tl.tasks.length < fuelFor s := by unfold fuelFor; omega

/-! ### well-formedness is kept by every event, and every event ends in a quiescent state -/

theorem wf_add (s : Sched) (t : Task) (h : WF s) :
    WF { s with tl := (s.tl.add t).1, serial := s.serial + 1 } := by
  obtain ⟨⟨tasks, taken, size⟩, now, primary, cur, cb, idle, exited, serial⟩ := s
  refine ⟨?_, ?_, ?_⟩
  · have := h.size; simp only [TaskList.add, List.length_append, List.length_singleton] at this ⊢
    push_cast; omega
  · intro ht
    obtain ⟨t0, rest, e, a, b, c⟩ := h.taken ht
    simp only at e
    exact ⟨t0, rest ++ [t], by simp [TaskList.add, e], a, b, c⟩
  · intro hi; exact h.idle hi

theorem wf_cancel (s : Sched) (cid : String) (h : WF s) : WF { s with tl := s.tl.cancel cid } := by
  refine ⟨cancel_size _ _ h.size, ?_, ?_⟩
  · intro ht
    simp only [cancel_taken] at ht
    obtain ⟨t0, rest, e, a, b, c⟩ := h.taken ht
    simp only
    rw [cancel_tasks _ _ t0 rest e]
    by_cases hc : t0.cid = cid
    · simp only [ht, hc, and_self, if_true]
      exact ⟨_, _, rfl, a, b, c⟩
    · simp only [hc, and_false, if_false]
      have hd : other cid t0 = true := by simp [other, hc]
      rw [List.filter_cons_of_pos hd]
      exact ⟨_, _, rfl, a, b, c⟩
  · intro hi
    obtain ⟨a, b, c⟩ := h.idle hi
    exact ⟨a, b, by simp only [cancel_taken]; exact c⟩

theorem advance_spec (fuel : Nat) : ∀ (s : Sched) (target : Int), WF s →
    WF (advance fuel s target).1 ∧ Quiescent (advance fuel s target).1 := by
  induction fuel with
  | zero =>
    intro s target h
    unfold advance
    have hw : WF { s with now := max s.now target } := ⟨h.size, h.taken, h.idle⟩
    have := settle_spec _ _ hw (fuel_ok _)
    exact ⟨this.wf, this.quiescent⟩
  | succ fuel ih =>
    intro s target h
    have hw : ∀ n, WF { s with now := n } := fun n => ⟨h.size, h.taken, h.idle⟩
    have base : WF (settle (fuelFor s) { s with now := max s.now target }).1 ∧
        Quiescent (settle (fuelFor s) { s with now := max s.now target }).1 := by
      have := settle_spec _ _ (hw (max s.now target)) (fuel_ok _)
      exact ⟨this.wf, this.quiescent⟩
    unfold advance
    split
    · rename_i t tl _ _
      split_ifs
      · have := settle_spec _ _ (hw t.deadline) (fuel_ok { s with now := t.deadline })
        exact ih _ target this.wf
      · exact base
    · exact base

/-- **Every event leaves the scheduler well-formed and blocked in a quiescent state**: parked on
the primary destination with an empty queue, or serving the head of the queue with its callback
installed — the head being neither finished, removed nor past its deadline. -/
theorem step_wf_quiescent (s : Sched) (ev : Ev) (h : WF s) (hq : Quiescent s) :
    WF (step s ev).1 ∧ Quiescent (step s ev).1 := by
  unfold step
  by_cases hex : s.exited = true
  · rw [if_pos hex]; exact ⟨h, Or.inl hex⟩
  · rw [if_neg hex]
    cases ev with
    | add cid dest job deadline =>
      simp only
      exact ⟨(settle_spec _ _ (wf_add s _ h) (fuel_ok _)).wf,
        (settle_spec _ _ (wf_add s _ h) (fuel_ok _)).quiescent⟩
    | remove cid =>
      simp only
      exact ⟨(settle_spec _ _ (wf_cancel s cid h) (fuel_ok _)).wf,
        (settle_spec _ _ (wf_cancel s cid h) (fuel_ok _)).quiescent⟩
    | tick now => exact advance_spec _ _ _ h
    | share diff =>
      simp only
      split
      · rename_i tid t rest hcb htasks
        split_ifs with hc
        · simp only
          have hw : WF { s with tl := { s.tl with tasks :=
              { t with remaining := t.remaining - diff,
                       cancelled := t.cancelled || decide (t.remaining - diff ≤ 0) } :: rest } } := by
            refine ⟨?_, ?_, h.idle⟩
            · have := h.size; rw [htasks] at this; simpa using this
            · intro ht
              obtain ⟨t0, r0, e, a, b, c⟩ := h.taken ht
              rw [htasks] at e
              simp only [List.cons.injEq] at e
              exact ⟨_, rest, rfl, by rw [a, ← e.1], by rw [b, ← e.1], c⟩
          exact ⟨(settle_spec _ _ hw (fuel_ok _)).wf, (settle_spec _ _ hw (fuel_ok _)).quiescent⟩
        · exact ⟨h, hq⟩
      · exact ⟨h, hq⟩
    | proxyExit destErr =>
      have hdrop : (dropInService s.tl).size = (dropInService s.tl).tasks.length ∧
          (dropInService s.tl).taken = false := by
        unfold dropInService
        by_cases ht : s.tl.taken = true
        · obtain ⟨t0, r0, e, _⟩ := h.taken ht
          have hsz := h.size
          rw [e] at hsz
          simp only [ht, if_true, TaskList.unlockAndRemove, e, Bool.not_true, Bool.false_eq_true, if_false]
          simp only [List.length_cons] at hsz
          exact ⟨by push_cast at hsz; omega, trivial⟩
        · have htf : s.tl.taken = false := by simpa using ht
          simp only [htf, Bool.false_eq_true, if_false]
          exact ⟨h.size, trivial⟩
      cases destErr with
      | true =>
        simp only [if_true]
        by_cases hc : s.cur = s.primary
        · simp only [hc, if_true]
          refine ⟨⟨hdrop.1, (by intro x; rw [hdrop.2] at x; cases x), ?_⟩, Or.inl rfl⟩
          intro x
          exact ⟨rfl, rfl, hdrop.2⟩
        · simp only [hc, if_false]
          have hw : WF { s with tl := dropInService s.tl, cur := s.primary, cb := none, idle := false } :=
            ⟨hdrop.1, (by intro x; rw [hdrop.2] at x; cases x), (by intro x; cases x)⟩
          exact ⟨(settle_spec _ _ hw (fuel_ok _)).wf, (settle_spec _ _ hw (fuel_ok _)).quiescent⟩
      | false =>
        simp only [Bool.false_eq_true, if_false]
        refine ⟨⟨hdrop.1, (by intro x; rw [hdrop.2] at x; cases x), ?_⟩, Or.inl rfl⟩
        intro x
        obtain ⟨a, b, c⟩ := h.idle x
        exact ⟨a, b, hdrop.2⟩

theorem init_wf_quiescent (primary : String) : WF (init primary).1 ∧ Quiescent (init primary).1 := by
  unfold init
  have hw : WF { primary := primary, cur := primary } :=
    ⟨rfl, (by intro h; cases h), (by intro h; cases h)⟩
  have := settle_spec 3 _ hw (by simp)
  exact ⟨this.wf, this.quiescent⟩

/-- Reachable states: from `init` by any event sequence. -/
def runState (s : Sched) : List Ev → Sched
  | [] => s
  | e :: es => runState (step s e).1 es

/-- for every event history the scheduler ends well-formed and quiescent -/
theorem reachable_wf_quiescent (primary : String) (evs : List Ev) :
    WF (runState (init primary).1 evs) ∧ Quiescent (runState (init primary).1 evs) := by
  have key : ∀ (evs : List Ev) (s : Sched), WF s → Quiescent s →
      WF (runState s evs) ∧ Quiescent (runState s evs) := by
    intro evs
    induction evs with
    | nil => intro s a b; exact ⟨a, b⟩
    | cons e es ih =>
      intro s a b
      obtain ⟨a', b'⟩ := step_wf_quiescent s e a b
      exact ih _ a' b'
  exact key evs _ (init_wf_quiescent primary).1 (init_wf_quiescent primary).2

/-- "when the queue is empty the miner returns to its default destination"; "once activity
settles, the reported queue length equals the number of tasks neither ended nor removed" -/
theorem settled_state (primary : String) (evs : List Ev) :
    let s := runState (init primary).1 evs
    s.tl.size = s.tl.tasks.length ∧
    (s.exited = false → s.tl.tasks = [] → s.cur = s.primary ∧ s.cb = none) ∧
    (s.exited = false → ∀ t rest, s.tl.tasks = t :: rest →
        s.cur = t.dest ∧ s.cb = some t.tid ∧ t.cancelled = false ∧ s.now < t.deadline) := by
  intro s
  obtain ⟨hw, hq⟩ := reachable_wf_quiescent primary evs
  refine ⟨hw.size, ?_, ?_⟩
  · intro hne hnil
    rcases hq with h | h | ⟨t, rest, e, _⟩
    · rw [hne] at h; cases h
    · exact ⟨h.2.2.2.1, h.2.2.2.2⟩
    · rw [hnil] at e; cases e
  · intro hne t rest ht
    rcases hq with h | h | ⟨t', rest', e, _, c, d, a, b⟩
    · rw [hne] at h; cases h
    · rw [h.1] at ht; cases ht
    · rw [ht] at e; simp only [List.cons.injEq] at e
      rw [e.1]; exact ⟨a, b, c, d⟩

/-! ### a removed contract stops receiving hashrate -/

theorem remove_core (s : Sched) (cid : String) (h : WF s) (hne : s.exited = false) :
    (∀ t ∈ (settle (fuelFor { s with tl := s.tl.cancel cid }) { s with tl := s.tl.cancel cid }).1.tl.tasks,
        t.cid ≠ cid) ∧
    (∀ d, Out.setDest d true ∈
        (settle (fuelFor { s with tl := s.tl.cancel cid }) { s with tl := s.tl.cancel cid }).2 →
        ∃ t ∈ s.tl.tasks, t.dest = d ∧ t.cid ≠ cid) := by
  have hw := wf_cancel s cid h
  have sp := settle_spec _ _ hw (fuel_ok _)
  have hfil : ∀ (l : List Task) (t : Task), t ∈ l.filter (other cid) → t ∈ l ∧ t.cid ≠ cid := by
    intro l t ht
    obtain ⟨a, b⟩ := List.mem_filter.mp ht
    exact ⟨a, by simpa [other] using b⟩
  cases hl : s.tl.tasks with
  | nil =>
    have e : s.tl.cancel cid = s.tl := cancel_nil _ _ hl
    constructor
    · intro t ht
      have := sp.suffix.subset ht
      simp only [e, hl] at this; cases this
    · intro d hd
      obtain ⟨t, ht, _⟩ := sp.setdest d hd
      simp only [e, hl] at ht
      split_ifs at ht <;> simp at ht
  | cons t0 rest =>
    have ht := cancel_tasks s.tl cid t0 rest hl
    by_cases hc : s.tl.taken = true ∧ t0.cid = cid
    · -- the task in service belongs to the contract: it is cancelled and retired by `settle`
      simp only [hc, and_self, if_true] at ht
      have htk : (s.tl.cancel cid).taken = true := by rw [cancel_taken]; exact hc.1
      obtain ⟨t', r', e', _, _, hidle⟩ := h.taken hc.1
      have hsuf : (settle (fuelFor { s with tl := s.tl.cancel cid }) { s with tl := s.tl.cancel cid }).1.tl.tasks
          <:+ rest.filter (other cid) := by
        have hf : fuelFor { s with tl := s.tl.cancel cid } =
            (2 * (rest.filter (other cid)).length + 4) + 1 := by
          unfold fuelFor; simp only [ht, List.length_cons]; omega
        rw [hf]
        have hw2 : WF { s with tl := ⟨rest.filter (other cid), false, (s.tl.cancel cid).size - 1⟩ } := by
          refine ⟨?_, (by intro x; simp at x), (by intro x; rw [hidle] at x; cases x)⟩
          have := hw.size
          simp only [ht, List.length_cons] at this
          simp only; push_cast at this; omega
        have hs2 := (settle_spec (2 * (rest.filter (other cid)).length + 4) _ hw2 (by simp only; omega)).suffix
        have hstep : (settle ((2 * (rest.filter (other cid)).length + 4) + 1) { s with tl := s.tl.cancel cid }).1
            = (settle (2 * (rest.filter (other cid)).length + 4)
                { s with tl := ⟨rest.filter (other cid), false, (s.tl.cancel cid).size - 1⟩ }).1 := by
          conv => lhs; unfold settle
          simp only [hne, Bool.false_eq_true, if_false, ht, htk, if_true, retire, TaskList.unlockAndRemove,
            Bool.not_true]
        rw [hstep]; exact hs2
      constructor
      · intro t htm
        exact (hfil rest t (hsuf.subset htm)).2
      · intro d hd
        obtain ⟨t, htm, hdd, _⟩ := sp.setdest d hd
        simp only [htk, if_true, ht, List.tail_cons] at htm
        obtain ⟨a, b⟩ := hfil rest t htm
        exact ⟨t, List.mem_cons_of_mem _ a, hdd, b⟩
    · simp only [hc, if_false] at ht
      constructor
      · intro t htm
        have := sp.suffix.subset htm
        simp only [ht] at this
        exact (hfil _ t this).2
      · intro d hd
        obtain ⟨t, htm, hdd, _⟩ := sp.setdest d hd
        have hmem : t ∈ (t0 :: rest).filter (other cid) := by
          split_ifs at htm
          · simp only [ht] at htm; exact List.mem_of_mem_tail htm
          · simpa only [ht] using htm
        obtain ⟨a, b⟩ := hfil _ t hmem
        exact ⟨t, a, hdd, b⟩

/-- After the tasks of a contract are removed, none is left once the scheduler is quiescent (the
one in service has been retired), and while handling the removal the miner is never pointed at a
task of that contract. -/
theorem remove_spec (s : Sched) (cid : String) (h : WF s) (hne : s.exited = false) :
    (∀ t ∈ (step s (.remove cid)).1.tl.tasks, t.cid ≠ cid) ∧
    (∀ d, Out.setDest d true ∈ (step s (.remove cid)).2 → ∃ t ∈ s.tl.tasks, t.dest = d ∧ t.cid ≠ cid) := by
  unfold step
  rw [if_neg (by simp [hne])]
  exact remove_core s cid h hne

/-! ### arrival order -/

def key (t : Task) : Nat × String := (t.tid, t.cid)

def newKeys (s : Sched) : Ev → List (Nat × String)
  | .add cid _ _ _ => [(s.serial, cid)]
  | _ => []

theorem advance_suffix (fuel : Nat) : ∀ (s : Sched) (target : Int), WF s →
    (advance fuel s target).1.tl.tasks <:+ s.tl.tasks ∧ (advance fuel s target).1.serial = s.serial := by
  induction fuel with
  | zero =>
    intro s target h
    unfold advance
    have hw : WF { s with now := max s.now target } := ⟨h.size, h.taken, h.idle⟩
    exact ⟨(settle_spec _ _ hw (fuel_ok _)).suffix, (settle_spec _ _ hw (fuel_ok _)).serial⟩
  | succ fuel ih =>
    intro s target h
    have hw : ∀ n, WF { s with now := n } := fun n => ⟨h.size, h.taken, h.idle⟩
    have base : (settle (fuelFor s) { s with now := max s.now target }).1.tl.tasks <:+ s.tl.tasks ∧
        (settle (fuelFor s) { s with now := max s.now target }).1.serial = s.serial :=
      ⟨(settle_spec _ _ (hw _) (fuel_ok _)).suffix, (settle_spec _ _ (hw _) (fuel_ok _)).serial⟩
    unfold advance
    split
    · rename_i t tl _ _
      split_ifs
      · have sp := settle_spec _ _ (hw t.deadline) (fuel_ok { s with now := t.deadline })
        obtain ⟨a, b⟩ := ih _ target sp.wf
        dsimp only
        exact ⟨List.IsSuffix.trans a sp.suffix, b.trans sp.serial⟩
      · exact base
    · exact base

theorem cancel_keys (l : TaskList) (cid : String) :
    List.Sublist ((l.cancel cid).tasks.map key) (l.tasks.map key) := by
  cases hl : l.tasks with
  | nil => rw [cancel_nil _ _ hl, hl]; exact List.Sublist.refl _
  | cons t0 rest =>
    rw [cancel_tasks _ _ t0 rest hl]
    split_ifs
    · simp only [List.map_cons]
      exact List.Sublist.cons_cons _ ((List.filter_sublist).map key)
    · exact (List.filter_sublist).map key

theorem dropInService_keys (l : TaskList) :
    List.Sublist ((dropInService l).tasks.map key) (l.tasks.map key) := by
  unfold dropInService TaskList.unlockAndRemove
  by_cases h : l.taken = true
  · cases hl : l.tasks with
    | nil => simp [h, hl]
    | cons t rest => simp [h, hl]
  · have hf : l.taken = false := by simpa using h
    simp [hf]

/-- The queue after an event is, in order, a sub-sequence of the queue before it plus the task the
event added (at the back): nothing is reordered, nothing enters except through `add`, and a task
keeps its contract. -/
theorem step_keys (s : Sched) (ev : Ev) (h : WF s) (hexf : s.exited = false) :
    List.Sublist ((step s ev).1.tl.tasks.map key) (s.tl.tasks.map key ++ newKeys s ev) ∧
    (step s ev).1.serial = s.serial + (newKeys s ev).length := by
  unfold step
  have hex : ¬ s.exited = true := by simp [hexf]
  · rw [if_neg hex]
    cases ev with
    | add cid dest job deadline =>
      simp only
      have sp := settle_spec _ _ (wf_add s
        { tid := s.serial, cid := cid, dest := dest, remaining := job, deadline := deadline } h) (fuel_ok _)
      refine ⟨?_, by rw [sp.serial]; simp [newKeys]⟩
      refine List.Sublist.trans (sp.suffix.sublist.map key) ?_
      simp [TaskList.add, newKeys, key]
    | remove cid =>
      simp only
      have sp := settle_spec _ _ (wf_cancel s cid h) (fuel_ok _)
      refine ⟨?_, by rw [sp.serial]; simp [newKeys]⟩
      refine List.Sublist.trans (sp.suffix.sublist.map key) ?_
      simpa [newKeys] using cancel_keys s.tl cid
    | tick now =>
      obtain ⟨a, b⟩ := advance_suffix (s.tl.tasks.length + 1) s now h
      exact ⟨by simpa [newKeys] using a.sublist.map key, by simpa [newKeys] using b⟩
    | share diff =>
      simp only
      split
      · rename_i tid t rest hcb htasks
        split_ifs with hc
        · simp only
          have hw : WF { s with tl := { s.tl with tasks :=
              { t with remaining := t.remaining - diff,
                       cancelled := t.cancelled || decide (t.remaining - diff ≤ 0) } :: rest } } := by
            refine ⟨?_, ?_, h.idle⟩
            · have := h.size; rw [htasks] at this; simpa using this
            · intro ht
              obtain ⟨t0, r0, e, a, b, c⟩ := h.taken ht
              rw [htasks] at e
              simp only [List.cons.injEq] at e
              exact ⟨_, rest, rfl, by rw [a, ← e.1], by rw [b, ← e.1], c⟩
          have sp := settle_spec _ _ hw (fuel_ok _)
          refine ⟨?_, by rw [sp.serial]; simp [newKeys]⟩
          refine List.Sublist.trans (sp.suffix.sublist.map key) ?_
          simp [newKeys, htasks, key]
        · exact ⟨by simp [newKeys], by simp [newKeys]⟩
      · exact ⟨by simp [newKeys], by simp [newKeys]⟩
    | proxyExit destErr =>
      have hdrop : (dropInService s.tl).size = (dropInService s.tl).tasks.length ∧
          (dropInService s.tl).taken = false := by
        unfold dropInService
        by_cases ht : s.tl.taken = true
        · obtain ⟨t0, r0, e, _⟩ := h.taken ht
          have hsz := h.size
          rw [e] at hsz
          simp only [ht, if_true, TaskList.unlockAndRemove, e, Bool.not_true, Bool.false_eq_true, if_false]
          simp only [List.length_cons] at hsz
          exact ⟨by push_cast at hsz; omega, trivial⟩
        · have htf : s.tl.taken = false := by simpa using ht
          simp only [htf, Bool.false_eq_true, if_false]
          exact ⟨h.size, trivial⟩
      cases destErr with
      | true =>
        simp only [if_true]
        by_cases hc : s.cur = s.primary
        · simp only [hc, if_true]
          exact ⟨by simpa [newKeys] using dropInService_keys s.tl, by simp [newKeys]⟩
        · simp only [hc, if_false]
          have hw : WF { s with tl := dropInService s.tl, cur := s.primary, cb := none, idle := false } :=
            ⟨hdrop.1, (by intro x; rw [hdrop.2] at x; cases x), (by intro x; cases x)⟩
          have sp := settle_spec _ _ hw (fuel_ok _)
          refine ⟨?_, by rw [sp.serial]; simp [newKeys]⟩
          refine List.Sublist.trans (sp.suffix.sublist.map key) ?_
          simpa [newKeys] using dropInService_keys s.tl
      | false =>
        simp only [Bool.false_eq_true, if_false]
        exact ⟨by simpa [newKeys] using dropInService_keys s.tl, by simp [newKeys]⟩

/-- strictly increasing serials, all below the next serial: the queue is in arrival order -/
def InOrder (s : Sched) : Prop :=
  (s.tl.tasks.map (·.tid)).Pairwise (· < ·) ∧ ∀ t ∈ s.tl.tasks, t.tid < s.serial

/-- **Arrival order.** The queue is always in arrival order (and the task in service is its head, see
`settled_state`), so tasks are served one at a time in the order they were added. -/
theorem step_in_order (s : Sched) (ev : Ev) (h : WF s) (hex : s.exited = false) (ho : InOrder s) :
    InOrder (step s ev).1 := by
  obtain ⟨hsub, hser⟩ := step_keys s ev h hex
  have hfst : ∀ l : List Task, (l.map key).map (·.1) = l.map (·.tid) := by
    intro l; simp [List.map_map, Function.comp_def, key]
  have hsub1 := hsub.map (·.1)
  rw [hfst, List.map_append, hfst] at hsub1
  have hbig : (s.tl.tasks.map (·.tid) ++ (newKeys s ev).map (·.1)).Pairwise (· < ·) ∧
      ∀ x ∈ s.tl.tasks.map (·.tid) ++ (newKeys s ev).map (·.1), x < s.serial + (newKeys s ev).length := by
    cases ev with
    | add cid dest job deadline =>
      simp only [newKeys, List.map_cons, List.map_nil, List.length_singleton]
      constructor
      · rw [List.pairwise_append]
        refine ⟨ho.1, by simp, ?_⟩
        intro a ha b hb
        simp only [List.mem_singleton] at hb
        obtain ⟨t, ht, rfl⟩ := List.mem_map.mp ha
        rw [hb]; exact ho.2 t ht
      · intro x hx
        simp only [List.mem_append, List.mem_singleton] at hx
        rcases hx with hx | hx
        · obtain ⟨t, ht, rfl⟩ := List.mem_map.mp hx
          have := ho.2 t ht; omega
        · omega
    | remove cid => simpa [newKeys, InOrder] using ho
    | share d => simpa [newKeys, InOrder] using ho
    | tick n => simpa [newKeys, InOrder] using ho
    | proxyExit d => simpa [newKeys, InOrder] using ho
  refine ⟨hbig.1.sublist hsub1, ?_⟩
  intro t ht
  rw [hser]
  exact hbig.2 _ (hsub1.subset (List.mem_map_of_mem ht))

/-- Events other than adding a task of the contract never bring the contract back into the queue
(so after a removal the miner is not pointed at its destination again unless a new task is added:
a destination is only ever set, with a callback, for a task that is in the queue). -/
theorem no_task_of_contract_preserved (s : Sched) (cid : String) (ev : Ev) (h : WF s)
    (hno : ∀ t ∈ s.tl.tasks, t.cid ≠ cid)
    (hev : ∀ d j dl, ev ≠ .add cid d j dl) :
    (∀ t ∈ (step s ev).1.tl.tasks, t.cid ≠ cid) := by
  intro t ht
  by_cases hexf : s.exited = false
  swap
  · have : (step s ev).1 = s := by unfold step; simp [hexf]
    rw [this] at ht; exact hno t ht
  obtain ⟨hsub, _⟩ := step_keys s ev h hexf
  have := hsub.subset (List.mem_map_of_mem ht)
  simp only [List.mem_append] at this
  rcases this with hm | hm
  · obtain ⟨t', ht', e⟩ := List.mem_map.mp hm
    simp only [key, Prod.mk.injEq] at e
    rw [← e.2]; exact hno t' ht'
  · cases ev with
    | add c d j dl =>
      simp only [newKeys, List.mem_singleton, key, Prod.mk.injEq] at hm
      intro e
      exact hev d j dl (by rw [← e, hm.2])
    | remove c => simp [newKeys] at hm
    | share d => simp [newKeys] at hm
    | tick n => simp [newKeys] at hm
    | proxyExit d => simp [newKeys] at hm

/-! ### disconnect -/

/-- when the miner disconnects (the proxy exits with anything but a destination error) every task
that is in service or still queued has its end callback invoked, and is told about the disconnect -/
theorem exit_notifies_all (s : Sched) (hex : s.exited = false) (t : Task) (ht : t ∈ s.tl.tasks) :
    Out.onEnd t.tid t.remaining .minerDisconnected ∈ (step s (.proxyExit false)).2 ∧
    Out.onDisconnect t.tid t.remaining ∈ (step s (.proxyExit false)).2 ∧
    (step s (.proxyExit false)).1.exited = true := by
  unfold step
  rw [if_neg (by simp [hex])]
  simp only [Bool.false_eq_true, if_false, List.mem_append, List.mem_singleton, disconnectOuts,
    List.mem_flatMap, List.mem_cons, List.not_mem_nil, or_false]
  exact ⟨Or.inl (Or.inr ⟨t, ht, Or.inr rfl⟩), Or.inl (Or.inr ⟨t, ht, Or.inl rfl⟩), trivial⟩

/-! ### why a task ends -/

/-- While time passes, shares arrive or contracts are removed, a task's end callback is invoked
with "done" only if its work amount has been submitted or it was removed (it is cancelled), and
with "deadline" only if its deadline has passed. -/
theorem end_cause (fuel : Nat) (s : Sched) (h : WF s) (hf : s.tl.tasks.length < fuel)
    (tid : Nat) (r : Int) (k : EndKind) (ho : Out.onEnd tid r k ∈ (settle fuel s).2) :
    ∃ t ∈ s.tl.tasks, t.tid = tid ∧ t.remaining = r ∧
      ((k = .done ∧ t.cancelled = true) ∨ (k = .deadline ∧ t.deadline ≤ s.now)) :=
  (settle_spec fuel s h hf).onend tid r k ho

/-! ### TaskList on its own -/

/-- `Cancel(contract)`: the task in service (if it belongs to the contract) is marked cancelled and
stays at the head; every other task of the contract is removed; all other tasks stay, in order. -/
theorem tasklist_cancel_spec (l : TaskList) (cid : String) (t0 : Task) (rest : List Task)
    (hl : l.tasks = t0 :: rest) :
    (l.cancel cid).tasks =
      if l.taken = true ∧ t0.cid = cid then { t0 with cancelled := true } :: rest.filter (other cid)
      else (t0 :: rest).filter (other cid) := cancel_tasks l cid t0 rest hl

theorem tasklist_size (l : TaskList) (cid : String) (h : l.size = l.tasks.length) :
    (l.cancel cid).size = (l.cancel cid).tasks.length := cancel_size l cid h

/-! ### the order in the source (regenerated from `Scheduler.taskLoop` on every run) -/

/-- **the owner is told before the slot is freed**: in every `select` case of `taskLoop` that retires a task, `OnEnd` is
called before `UnlockAndRemove` — the model's `retire` (report, then remove) in that order; a miner never looks free while
the end notification of its task is still to come.  (Four such cases: removed / finished and past the deadline, before and
after the destination change.) -/
theorem source_onEnd_before_unlock :
    ((PRV.Gen.C07.taskLoopBranches.filter (·.contains "UnlockAndRemove")).all
        fun b => decide (b.idxOf "OnEnd" < b.idxOf "UnlockAndRemove")) = true ∧
    (PRV.Gen.C07.taskLoopBranches.filter (·.contains "UnlockAndRemove")).length = 4 ∧
    (PRV.Gen.C07.taskLoopBranches.filter (·.contains "OnEnd")).length = 6 := by decide

/-! ### non-vacuity -/
example : (run (init "p").1 [.add "c0" "d0" 1000 50, .add "c0" "d0" 1000 50, .add "c1" "d1" 5 60,
      .remove "c0", .share 5]) =
    [[.setDest "d0" true], [], [], [.onEnd 0 1000 .done, .setDest "d1" true],
     [.onSubmit 2 5, .onEnd 2 0 .done, .setDest "p" false]] := by
  decide +kernel


/-- a miner whose session ends is marked as disconnecting *first*, whether or not it holds tasks: the allocator's eligibility
test reads that flag, and a task handed to a miner between the end of its session and its removal from the list would never
be served, ended or signalled -/
theorem source_disconnect_marks_first : (PRV.Gen.C13.onDisconnectCalls.head? = some "isDisconnecting.Store") := by decide

end PRV.Props.C07

/-! ## Destination changes that take time (`Model/SchedSlow.lean`)

The same scheduler with the goroutine's position explicit: events arrive while it is inside the proxy's
`SetDest`.  The harness runs the real `Scheduler` over a proxy whose `SetDest` blocks until released. -/
namespace PRV.Props.C07.Slow
open PRV.Model.SchedSlow PRV.Proofs.C07Slow
open PRV.Model.Sched (Task TaskList EndKind Out)

def addsTo (cid : String) : Ev → Prop
  | .add c _ _ _ => c = cid
  | _ => False

/-- one event from a well-formed state in which the contract's tasks are all removed / finished: the state stays
well-formed, stays clean unless the event adds a task for the contract, and no `SetDest` is entered towards it -/
theorem step_core (s : S) (cid : String) (ev : Ev) (hw : WFs s) :
    WFs (step s ev).1 ∧ (Clean cid s → ¬ addsTo cid ev → Clean cid (step s ev).1 ∧ NoBegin cid (step s ev).2) := by
  unfold step
  by_cases hex : s.pc = .exited
  · simp only [hex, if_true]; exact ⟨hw, fun hc _ => ⟨hc, noBegin_nil cid⟩⟩
  · simp only [hex, if_false]
    cases ev with
    | add c dest job deadline =>
      have hw1 := wfs_addTask s c dest job deadline hw
      refine ⟨(wake_spec _ hw1).wf, fun hc hev => ?_⟩
      exact (clean_wake _ cid hw1 (clean_addTask s cid c dest job deadline hc hev)).2
    | remove c =>
      have hw1 := wfs_cancel s c hw
      exact ⟨(wake_spec _ hw1).wf, fun hc _ => (clean_wake _ cid hw1 (clean_cancel s cid c hc)).2⟩
    | tick target =>
      simp only
      have hw1 : WFs (tickHead s target).1 := by
        unfold tickHead
        split
        · split
          · exact (wake_spec _ (wfs_now s _ hw)).wf
          · exact hw
        · exact hw
      refine ⟨(wake_spec _ (wfs_now _ _ hw1)).wf, fun hc _ => ?_⟩
      have h1 := tickHead_spec s cid target hw hc
      have h2 := clean_wake { (tickHead s target).1 with now := max (tickHead s target).1.now target } cid (wfs_now _ _ h1.1) h1.2.1
      exact ⟨h2.2.1, noBegin_append cid _ _ h1.2.2 h2.2.2⟩
    | share diff =>
      simp only
      cases hcb : s.cb with
      | none => exact ⟨hw, fun hc _ => ⟨hc, noBegin_nil cid⟩⟩
      | some tid =>
        simp only
        have hw1 := wfs_credit s tid diff hw
        refine ⟨(wake_spec _ hw1).wf, fun hc _ => ?_⟩
        have := clean_wake _ cid hw1 (clean_credit s cid tid diff hc)
        exact ⟨this.2.1, noBegin_base cid _ _ this.2.2⟩
    | release =>
      simp only
      have ha := arrive_spec s cid hw hex
      refine ⟨(wake_spec _ ha.1).wf, fun hc _ => ?_⟩
      have := clean_wake _ cid ha.1 (by intro t ht; rw [ha.2.1] at ht; exact hc t ht)
      exact ⟨this.2.1, noBegin_append cid _ _ ha.2.2 this.2.2⟩
    | proxyExit =>
      have hl := leave_spec s cid hw
      exact ⟨hl.1, fun hc _ => ⟨fun t ht => hc t (hl.2.1 t ht), hl.2.2⟩⟩

theorem wfs_step (s : S) (ev : Ev) (hw : WFs s) : WFs (step s ev).1 := (step_core s "" ev hw).1

theorem wfs_init (primary : String) : WFs (init primary).1 := by
  have h0 : WFs ({ primary := primary, cur := primary } : S) :=
    ⟨rfl, fun _ => rfl, fun h => (by cases h), fun tid d hp => (by cases hp)⟩
  exact loop_wf _ _ _ (runLoop_spec 3 _ rfl (by simp)) rfl

/-- **every reachable state is well-formed** — the reported queue length is the number of queued tasks, and the
goroutine holds the head of the queue exactly while it is inside that task's `SetDest` or serving it — for every
history of events and releases, however they interleave with the destination changes -/
theorem reachable_wfs (primary : String) (evs : List Ev) : WFs (PRV.Model.SchedSlow.runState (init primary).1 evs) := by
  suffices ∀ s, WFs s → WFs (PRV.Model.SchedSlow.runState s evs) from this _ (wfs_init primary)
  induction evs with
  | nil => intro s h; exact h
  | cons e es ih => intro s h; exact ih _ (wfs_step s e h)

/-- **a `SetDest` is entered only for a live task**: whenever the scheduler starts pointing the miner at a task's
destination, that task is queued, was neither removed nor finished, and is not past its deadline -/
theorem begin_is_live (s : S) (hw : WFs s) (d : String) (t : Task) (h : OutS.begin d (some t) ∈ (wake s).2) :
    t ∈ s.tl.tasks ∧ t.dest = d ∧ t.cancelled = false ∧ s.now < t.deadline :=
  (wake_spec s hw).begins d t h

/-- a task is ended with "done" only if it was removed or its work was submitted, with "deadline" only past its deadline -/
theorem end_cause (s : S) (hw : WFs s) (tid : Nat) (rm : Int) (k : EndKind) (h : OutS.base (.onEnd tid rm k) ∈ (wake s).2) :
    ∃ t ∈ s.tl.tasks, t.tid = tid ∧ ((k = .done ∧ t.cancelled = true) ∨ (k = .deadline ∧ t.deadline ≤ s.now)) :=
  (wake_spec s hw).ends_ok tid rm k h

/-- **removing a contract**: afterwards none of its tasks is queued un-cancelled, and the removal itself does not
point the miner at it — also when it arrives while the scheduler is inside a `SetDest` -/
theorem remove_cleans (s : S) (cid : String) (hw : WFs s) (hex : s.pc ≠ .exited) :
    Clean cid (step s (.remove cid)).1 ∧ NoBegin cid (step s (.remove cid)).2 := by
  unfold step
  simp only [hex, if_false]
  exact (clean_wake _ cid (wfs_cancel s cid hw) (cancel_cleans s cid)).2

/-- … and **it stays that way**: no later event other than a new task for that contract makes the scheduler enter a
`SetDest` towards it (a destination change that was already under way when the removal arrived completes, and the
task is dropped at once) -/
theorem step_clean (s : S) (cid : String) (ev : Ev) (hw : WFs s) (hc : Clean cid s) (hev : ¬ addsTo cid ev) :
    Clean cid (step s ev).1 ∧ NoBegin cid (step s ev).2 := (step_core s cid ev hw).2 hc hev

/-- **a removed contract is not pointed at again, for every later history** without a new task for it -/
theorem removed_contract_never_begun (s : S) (cid : String) (evs : List Ev) (hw : WFs s) (hex : s.pc ≠ .exited)
    (hevs : ∀ ev ∈ evs, ¬ addsTo cid ev) :
    ∀ outs ∈ PRV.Model.SchedSlow.run (step s (.remove cid)).1 evs, NoBegin cid outs := by
  have h0 := remove_cleans s cid hw hex
  have hw0 := wfs_step s (.remove cid) hw
  generalize (step s (.remove cid)).1 = s1 at h0 hw0
  have hc := h0.1
  clear h0
  induction evs generalizing s1 with
  | nil => intro outs ho; cases ho
  | cons e es ih =>
    intro outs ho
    unfold PRV.Model.SchedSlow.run at ho
    rcases List.mem_cons.mp ho with ho | ho
    · subst ho
      exact (step_clean s1 cid e hw0 hc (hevs e List.mem_cons_self)).2
    · exact ih (fun ev hev => hevs ev (List.mem_cons_of_mem _ hev)) _ (wfs_step s1 e hw0)
        (step_clean s1 cid e hw0 hc (hevs e List.mem_cons_self)).1 outs ho

/-- when the proxy answers, the destination and the callback installed are the ones of the `SetDest` that was entered -/
theorem release_installs (s : S) (tid : Nat) (dest : String) (hw : WFs s) (hpc : s.pc = .toTask tid dest) :
    (step s .release).1.cur = dest ∧ (step s .release).1.cb = some tid ∧
    OutS.base (.setDest dest true) ∈ (step s .release).2 := by
  have hex : s.pc ≠ .exited := by rw [hpc]; simp
  have ha := arrive_spec s "" hw hex
  have hav : arrive s = ({ s with cur := dest, cb := some tid, pc := .serving }, [.base (.setDest dest true)]) := by
    unfold arrive; rw [hpc]
  unfold step
  simp only [hex, if_false]
  have sp := wake_spec (arrive s).1 ha.1
  refine ⟨by rw [sp.cur, hav], by rw [sp.cb, hav], ?_⟩
  rw [hav]; exact List.mem_append_left _ List.mem_cons_self

/-! ### arrival order -/

/-- one event from an ordered state: every `SetDest` entered during it is for a task that arrived after the one a `SetDest`
was last entered for (`b`), and before or at the new last one (`b'`) -/
theorem step_ord (s : S) (b : Int) (ev : Ev) (h : OrdInv s b) :
    ∃ b', OrdInv (step s ev).1 b' ∧ b ≤ b' ∧
      ∀ d t, OutS.begin d (some t) ∈ (step s ev).2 → b < (t.tid : Int) ∧ (t.tid : Int) ≤ b' := by
  unfold step
  by_cases hex : s.pc = .exited
  · simp only [hex, if_true]; exact ⟨b, h, le_refl _, by intro d t hm; cases hm⟩
  · simp only [hex, if_false]
    -- an event that updates the queue and wakes the goroutine once
    have once : ∀ (s1 : S) (pre : List OutS), OrdInv s1 b → (∀ d t, OutS.begin d (some t) ∉ pre) →
        ∃ b', OrdInv (wake s1).1 b' ∧ b ≤ b' ∧
          ∀ d t, OutS.begin d (some t) ∈ pre ++ (wake s1).2 → b < (t.tid : Int) ∧ (t.tid : Int) ≤ b' := by
      intro s1 pre h1 hpre
      obtain ⟨b', hi, hle, hb⟩ := wake_ord s1 b h1
      refine ⟨b', hi, hle, ?_⟩
      intro d t hm
      rcases List.mem_append.mp hm with hm | hm
      · exact absurd hm (hpre d t)
      · obtain ⟨h1', h2'⟩ := hb d t hm; exact ⟨h1', le_of_eq h2'⟩
    cases ev with
    | add c dest job deadline => simpa using once _ [] (ord_addTask s b c dest job deadline h) (by intro d t hm; cases hm)
    | remove c => simpa using once _ [] (ord_cancel s b c h) (by intro d t hm; cases hm)
    | tick target =>
      simp only
      -- two wakes: at the deadline of the task in service, and at the end of the advance
      have h1 : ∃ b1, OrdInv (tickHead s target).1 b1 ∧ b ≤ b1 ∧
          ∀ d t, OutS.begin d (some t) ∈ (tickHead s target).2 → b < (t.tid : Int) ∧ (t.tid : Int) ≤ b1 := by
        unfold tickHead
        split
        · split
          · obtain ⟨b1, hi, hle, hb⟩ := wake_ord _ b (ord_now s b _ h)
            exact ⟨b1, hi, hle, fun d t hm => ⟨(hb d t hm).1, le_of_eq (hb d t hm).2⟩⟩
          · exact ⟨b, h, le_refl _, by intro d t hm; cases hm⟩
        · exact ⟨b, h, le_refl _, by intro d t hm; cases hm⟩
      obtain ⟨b1, hi1, hle1, hb1⟩ := h1
      obtain ⟨b2, hi2, hle2, hb2⟩ := wake_ord _ b1 (ord_now _ b1 (max (tickHead s target).1.now target) hi1)
      refine ⟨b2, hi2, le_trans hle1 hle2, ?_⟩
      intro d t hm
      rcases List.mem_append.mp hm with hm | hm
      · obtain ⟨x, y⟩ := hb1 d t hm; exact ⟨x, le_trans y hle2⟩
      · obtain ⟨x, y⟩ := hb2 d t hm; exact ⟨lt_of_le_of_lt hle1 x, le_of_eq y⟩
    | share diff =>
      simp only
      cases hcb : s.cb with
      | none => exact ⟨b, h, le_refl _, by intro d t hm; cases hm⟩
      | some tid =>
        simp only
        have := once _ [OutS.base (.onSubmit tid diff)] (ord_credit s b tid diff h) (by intro d t hm; simp at hm)
        simpa using this
    | release =>
      simp only
      exact once _ _ (ord_arrive s b h hex) (fun d t hm => (arrive_spec s t.cid h.wf hex).2.2 d t hm rfl)
    | proxyExit =>
      obtain ⟨hi, hno⟩ := ord_leave s b h
      exact ⟨b, hi, le_refl _, fun d t hm => absurd hm (hno d t)⟩

theorem ord_init (primary : String) : ∃ b, OrdInv (init primary).1 b := by
  have h0 : OrdInv ({ primary := primary, cur := primary } : S) (-1) :=
    ⟨⟨rfl, fun _ => rfl, fun h => (by cases h), fun tid d hp => (by cases hp)⟩, ⟨(by simp), (by intro t ht; cases ht)⟩,
     fun h => (by cases h), fun _ t ht => (by cases ht), (by simp)⟩
  have sp := runLoop_spec 3 ({ primary := primary, cur := primary } : S) rfl (by simp)
  -- nothing is queued at start-up: the goroutine goes to the primary destination
  refine ⟨-1, loop_wf _ _ _ sp rfl, ordered_suffix _ _ h0.ord sp.suffix (by rw [init, runLoop_serial]), ?_, ?_, ?_⟩
  · intro ht
    have := sp.suffix
    simp only [List.suffix_nil] at this
    have hne := (loop_wf _ _ _ sp rfl).head ht
    exact absurd this hne
  · intro _ t ht
    have := sp.suffix.subset ht
    cases this
  · rw [init, runLoop_serial]; simp

/-- **tasks are put in service in arrival order, each at most once**: in every history of events and releases, a `SetDest`
entered at a later step is for a task that arrived later than any task a `SetDest` was entered for at an earlier step -/
theorem begun_in_arrival_order (s : S) (b : Int) (evs : List Ev) (h : OrdInv s b) :
    (∀ outs ∈ PRV.Model.SchedSlow.run s evs, ∀ d t, OutS.begin d (some t) ∈ outs → b < (t.tid : Int)) ∧
    (PRV.Model.SchedSlow.run s evs).Pairwise fun o1 o2 =>
      ∀ d1 t1 d2 t2, OutS.begin d1 (some t1) ∈ o1 → OutS.begin d2 (some t2) ∈ o2 → t1.tid < t2.tid := by
  induction evs generalizing s b with
  | nil => exact ⟨(by intro outs ho; cases ho), List.Pairwise.nil⟩
  | cons e es ih =>
    obtain ⟨b', hi, hle, hb⟩ := step_ord s b e h
    obtain ⟨ih1, ih2⟩ := ih (step s e).1 b' hi
    unfold PRV.Model.SchedSlow.run
    refine ⟨?_, List.Pairwise.cons ?_ ih2⟩
    · intro outs ho d t hm
      rcases List.mem_cons.mp ho with ho | ho
      · subst ho; exact (hb d t hm).1
      · exact lt_of_le_of_lt hle (ih1 outs ho d t hm)
    · intro o2 ho2 d1 t1 d2 t2 hm1 hm2
      have x := (hb d1 t1 hm1).2
      have y := ih1 o2 ho2 d2 t2 hm2
      omega

/-- … from start-up, for every history -/
theorem served_in_arrival_order (primary : String) (evs : List Ev) :
    (PRV.Model.SchedSlow.run (init primary).1 evs).Pairwise fun o1 o2 =>
      ∀ d1 t1 d2 t2, OutS.begin d1 (some t1) ∈ o1 → OutS.begin d2 (some t2) ∈ o2 → t1.tid < t2.tid := by
  obtain ⟨b, h⟩ := ord_init primary
  exact (begun_in_arrival_order _ b evs h).2

-- the hypotheses are met: a task is added and removed while the scheduler is inside `SetDest(primary)`
example : (PRV.Model.SchedSlow.run (init "p").1 [.add "c0" "d0" 1000 50, .remove "c0", .release, .release]) =
    [[], [], [OutS.base (.setDest "p" false), OutS.begin "p" none], [OutS.base (.setDest "p" false)]] := by
  decide +kernel

-- … and a removal that arrives while the scheduler is inside the task's own `SetDest`: the change completes and the
-- task is dropped at once
example : (PRV.Model.SchedSlow.run (init "p").1 [.release, .add "c0" "d0" 1000 50, .remove "c0", .release]).getLast? =
    some [OutS.base (.setDest "d0" true), OutS.base (.onEnd 0 1000 .done), OutS.begin "p" none] := by
  decide +kernel

end PRV.Props.C07.Slow
