import PRV.Proofs.C19
import PRV.Model.Share
import PRV.Gen.C19
/-
C19 — Job memory: recent jobs honoured, expired ones not, repeats detected.
Only property theorems live here.  `Gen.C19.jobCacheSize` is regenerated from
`validator.go` on every run.
-/
namespace PRV.Props.C19
open PRV.Model PRV.Spec.C19 PRV.Proofs.C19

/-- operations of a connection's validator -/
inductive Op where
  | notify (id : String) (clean : Bool) (now : Int)
  | submit (id : String) (share : List Nat) (now : Int)
  | hasJob (id : String)
  | latest
deriving Repr

inductive Out where
  | unit | verdict (v : Verdict) | bool (b : Bool) | latest (serial : Option Nat)
deriving Repr, DecidableEq

def modelStep (v : Validator) : Op → Validator × Out
  | .notify id c t => (v.addNewJob id c t, .unit)
  | .submit id sh t => let r := v.validateAndAddShare id sh t; (r.1, .verdict r.2)
  | .hasJob id => (v, .bool (v.hasJob id))
  | .latest => (v, .latest v.getLatestJob)

def specStep (s : State) : Op → State × Out
  | .notify id c t => (notify s id c t, .unit)
  | .submit id sh t => let r := submit s id sh t; (r.1, .verdict r.2)
  | .hasJob id => (s, .bool (findLatest id (lastN s.window s.log)).isSome)
  | .latest => (s, .latest (latest s))

def runModel (v : Validator) : List Op → List Out
  | [] => []
  | op :: ops => (modelStep v op).2 :: runModel (modelStep v op).1 ops

def runSpec (s : State) : List Op → List Out
  | [] => []
  | op :: ops => (specStep s op).2 :: runSpec (specStep s op).1 ops

theorem step_refines {v : Validator} {s : State} (hc : 0 < v.jobs.cap) (h : R v s) (op : Op) :
    R (modelStep v op).1 (specStep s op).1 ∧ (modelStep v op).2 = (specStep s op).2 ∧
    0 < (modelStep v op).1.jobs.cap := by
  cases op with
  | notify id c t =>
    refine ⟨R_notify hc h id c t, rfl, ?_⟩
    have := (R_notify hc h id c t).window
    simp only [modelStep]; rw [← this]; simp only [notify]; rw [h.window]; exact hc
  | submit id sh t =>
    have := R_submit h id sh t
    refine ⟨this.1, by simp [modelStep, specStep, this.2], ?_⟩
    have hw := this.1.window
    simp only [modelStep]; rw [← hw]
    have : (submit s id sh t).1.window = s.window := by
      unfold submit; split
      · rfl
      · split
        · rfl
        · split <;> rfl
    rw [this, h.window]; exact hc
  | hasJob id =>
    refine ⟨h, ?_, hc⟩
    simp [modelStep, specStep, Validator.hasJob, R_get h id]
  | latest =>
    refine ⟨h, ?_, hc⟩
    simp only [modelStep, specStep]
    rw [getLatest_eq hc h]

/-- **Refinement.** For every timeout and every operation sequence (any length, any ids, any
times), the bounded job cache of the validator behaves exactly like the unbounded announcement
log of the specification: same verdicts, same `HasJob`, same "latest job". -/
theorem c19_validator_refines_spec (timeout : Int) (ops : List Op) :
    runModel (Validator.new PRV.Gen.C19.jobCacheSize timeout) ops =
    runSpec { window := 30, timeout := timeout } ops := by
  have hcap : PRV.Gen.C19.jobCacheSize = 30 := by decide
  rw [hcap]
  have key : ∀ (ops : List Op) (v : Validator) (s : State), 0 < v.jobs.cap → R v s →
      runModel v ops = runSpec s ops := by
    intro ops
    induction ops with
    | nil => intros; rfl
    | cons op ops ih =>
      intro v s hc h
      obtain ⟨h1, h2, h3⟩ := step_refines hc h op
      simp only [runModel, runSpec, h2, ih _ _ h3 h1]
  exact key ops _ _ (show 0 < 30 by decide) (R_init 30 timeout)

/-- **Bounded stack map, stand-alone.** After any push history `h` into a map of capacity
`cap > 0`, `Get k` returns the value of the latest push of `k` among the last `cap` pushes, and
nothing for keys not pushed among them. -/
theorem bsm_recent {α : Type} (cap : Nat) (hc : 0 < cap) (h : List (String × α)) (k : String) :
    ((h.foldl (fun b p => b.push p.1 p.2) (BSM.empty cap)).get k) = lookupLast k (lastN cap h) := by
  have key := foldl_inv (α := α) cap hc
  exact (key h).1.data k

/-- never more than `cap` entries, and `Push` never hits its index panic -/
theorem bsm_bounded {α : Type} (cap : Nat) (hc : 0 < cap) (h : List (String × α)) :
    let b := h.foldl (fun b p => b.push p.1 p.2) (BSM.empty cap)
    b.count ≤ cap ∧ b.keys.length = b.count ∧ ¬ b.pushPanics := by
  have key := foldl_inv (α := α) cap hc
  intro b
  obtain ⟨hi, hcap⟩ := key h
  refine ⟨?_, ?_, ?_⟩
  · show b.cc ≤ cap; rw [hi.cc]; exact lastN_length_le cap h
  · show b.keys.length = b.cc; rw [hi.keys, hi.cc]; simp
  · intro hp
    obtain ⟨h1, h2⟩ := hp
    have : b.keys.length = b.cc := by rw [hi.keys, hi.cc]; simp
    rw [h2] at this; simp at this
    rw [← this, hcap] at h1; omega

/-! ### What the specification says, clause by clause -/

/-- "A share naming any of the 30 most recently announced jobs that has not expired is checked
against exactly that job's data": if announcement `a` is among the last `window` announcements,
no later announcement reuses its id, it is not expired and the share is new for it, the verdict is
"checked against `a`". -/
theorem recent_unexpired_checked (s : State) (pre post : List Ann) (a : Ann) (sh : List Nat)
    (now : Int) (hw : lastN s.window s.log = pre ++ a :: post)
    (hpost : ∀ b ∈ post, b.id ≠ a.id) (hexp : expired a now = false)
    (hnew : a.shares.contains sh = false) :
    (submit s a.id sh now).2 = .checked a.serial := by
  have hm : sh ∉ a.shares := fun hm => by
    rw [List.contains_iff_mem.mpr hm] at hnew; cases hnew
  rw [submit_verdict, hw, findLatest_mid pre post a hpost]
  simp [hexp, hm]

/-- a job id that none of the last `window` announcements carries is not honoured -/
theorem not_recent_notFound (s : State) (id : String) (sh : List Nat) (now : Int)
    (h : ∀ b ∈ lastN s.window s.log, b.id ≠ id) : (submit s id sh now).2 = .notFound := by
  rw [submit_verdict, findLatest_none_of_forall _ _ h]

/-- an expired job is refused, an unexpired one is never refused as unknown -/
theorem expired_refused (s : State) (id : String) (sh : List Nat) (now : Int) (a : Ann)
    (hf : findLatest id (lastN s.window s.log) = some a) :
    ((submit s id sh now).2 = .notFound ↔ expired a now = true) := by
  rw [submit_verdict, hf]; simp only
  by_cases he : expired a now = true
  · simp [he]
  · by_cases hd : sh ∈ a.shares <;> simp [he, hd]

/-- expiry is strict: honoured at `t ≤ e`, refused at `t > e` -/
theorem expired_iff (a : Ann) (e now : Int) (h : a.exp = some e) : expired a now = true ↔ e < now := by
  simp [expired, h]

theorem never_stamped_never_expires (a : Ann) (now : Int) (h : a.exp = none) :
    expired a now = false := by simp [expired, h]

/-- expiry instant of the announcement with serial `i` -/
def expAt (s : State) (i : Nat) : Option Int := (s.log[i]?).bind (·.exp)

/-- "once a clean-jobs notify arrives, earlier jobs stop being honoured after the configured
timeout": a clean notify at `T` stamps every earlier unstamped announcement with `T + timeout`. -/
theorem clean_notify_stamps (s : State) (id : String) (T : Int) (i : Nat) (hi : i < s.log.length)
    (h : expAt s i = none) : expAt (notify s id true T) i = some (T + s.timeout) := by
  unfold expAt notify at *
  simp only [if_true]
  rw [List.getElem?_append_left (by simpa using hi)]
  rw [List.getElem?_map]
  rw [List.getElem?_eq_getElem hi] at h ⊢
  simp only [Option.bind_some, Option.map_some] at h ⊢
  simp [stamp, h]

/-- "... and not before": no operation ever changes an expiry instant once it is set, so a later
clean notify cannot prolong (or shorten) the life of an already stamped job. -/
theorem exp_stable (s : State) (op : Op) (i : Nat) (e : Int) (h : expAt s i = some e) :
    expAt (specStep s op).1 i = some e := by
  have hi : i < s.log.length := by
    unfold expAt at h
    by_cases hi : i < s.log.length
    · exact hi
    · rw [List.getElem?_eq_none (by omega)] at h; simp at h
  have hmap : ∀ f : Ann → Ann, (∀ a, a.exp = some e → (f a).exp = some e) →
      ((s.log.map f)[i]?).bind (·.exp) = some e := by
    intro f hf
    unfold expAt at h
    rw [List.getElem?_map]
    rw [List.getElem?_eq_getElem hi] at h ⊢
    simp only [Option.bind_some, Option.map_some] at h ⊢
    exact hf _ h
  cases op with
  | notify id c t =>
    simp only [specStep, notify, expAt]
    rw [List.getElem?_append_left (by split <;> simpa using hi)]
    cases c with
    | false => simpa [expAt] using h
    | true =>
      simp only [if_true]
      exact hmap _ (fun a ha => by simp [stamp, ha])
  | submit id sh t =>
    simp only [specStep, submit, expAt]
    split
    · exact h
    · split
      · exact h
      · split
        · exact h
        · exact hmap _ (fun a ha => by unfold addShare; split <;> simpa using ha)
  | hasJob id => exact h
  | latest => exact h

/-- an unstamped announcement stays unstamped under everything except a clean notify -/
theorem exp_none_stable (s : State) (op : Op) (i : Nat) (hi : i < s.log.length)
    (h : expAt s i = none) (hop : ∀ id t, op ≠ .notify id true t) :
    expAt (specStep s op).1 i = none := by
  have hmap : ∀ f : Ann → Ann, (∀ a, a.exp = none → (f a).exp = none) →
      ((s.log.map f)[i]?).bind (·.exp) = none := by
    intro f hf
    unfold expAt at h
    rw [List.getElem?_map]
    rw [List.getElem?_eq_getElem hi] at h ⊢
    simp only [Option.bind_some, Option.map_some] at h ⊢
    exact hf _ h
  cases op with
  | notify id c t =>
    cases c with
    | true => exact absurd rfl (hop id t)
    | false =>
      simp only [specStep, notify, expAt, Bool.false_eq_true, if_false]
      rw [List.getElem?_append_left hi]; simpa [expAt] using h
  | submit id sh t =>
    simp only [specStep, submit, expAt]
    split
    · exact h
    · split
      · exact h
      · split
        · exact h
        · exact hmap _ (fun a ha => by unfold addShare; split <;> simpa using ha)
  | hasJob id => exact h
  | latest => exact h

/-- "the job re-announced on a switch is always the most recent one" -/
theorem latest_is_last (s : State) (id : String) (c : Bool) (t : Int) :
    latest (notify s id c t) = some s.log.length := by
  simp [latest, notify]

/-- "a share repeating the same extranonce2, ntime, nonce and version bits is refused and a share
differing in any of them is not" — at the level of share keys ... -/
theorem duplicate_iff (s : State) (id : String) (sh : List Nat) (now : Int) (a : Ann)
    (hf : findLatest id (lastN s.window s.log) = some a) (he : expired a now = false) :
    ((submit s id sh now).2 = .duplicate ↔ sh ∈ a.shares) := by
  rw [submit_verdict, hf]; simp only [he]
  by_cases hd : sh ∈ a.shares <;> simp [hd]

/-- ... and the 20-byte key is injective on well-formed submits (extranonce2 of the job's fixed
size `n ≤ 8`, 4-byte ntime / nonce / version bits). -/
theorem serializeShare_injective (n : Nat) (e1 t1 c1 m1 e2 t2 c2 m2 : List Nat)
    (h1 : shareWellFormed n e1 t1 c1 m1) (h2 : shareWellFormed n e2 t2 c2 m2)
    (h : serializeShare e1 t1 c1 m1 = serializeShare e2 t2 c2 m2) :
    e1 = e2 ∧ t1 = t2 ∧ c1 = c2 ∧ m1 = m2 := by
  obtain ⟨ha1, hn, ha2, ha3, ha4⟩ := h1
  obtain ⟨hb1, _, hb2, hb3, hb4⟩ := h2
  have pt4 : ∀ l : List Nat, l.length = 4 → padTake 4 l = l := by
    intro l hl; unfold padTake
    rw [List.take_append_of_le_length (by omega)]; exact List.take_of_length_le (by omega)
  have pl : ∀ k (l : List Nat), (padTake k l).length = k := by
    intro k l; unfold padTake; simp
  unfold serializeShare at h
  rw [pt4 _ ha2, pt4 _ ha3, pt4 _ ha4, pt4 _ hb2, pt4 _ hb3, pt4 _ hb4] at h
  have h' : padTake 8 e1 ++ (t1 ++ (c1 ++ m1)) = padTake 8 e2 ++ (t2 ++ (c2 ++ m2)) := by
    simpa [List.append_assoc] using h
  have hA := List.append_inj h' (by rw [pl, pl])
  have hB := List.append_inj hA.2 (by omega)
  have hC := List.append_inj hB.2 (by omega)
  refine ⟨?_, hB.1, hC.1, hC.2⟩
  have hp := hA.1
  unfold padTake at hp
  have t1' : ∀ l : List Nat, l.length = n → (l ++ List.replicate 8 0).take n = l := by
    intro l hl
    rw [List.take_append_of_le_length (by omega)]; exact List.take_of_length_le (by omega)
  have := congrArg (List.take n) hp
  rw [List.take_take, List.take_take, Nat.min_eq_left hn, t1' _ ha1, t1' _ hb1] at this
  exact this

/-! ### Non-vacuity: concrete histories meeting the hypotheses -/

example : runSpec { window := 3, timeout := 120 }
    [.notify "a" false 0, .notify "a" false 1, .notify "b" false 2, .notify "c" true 3,
     .submit "a" [1] 100, .submit "a" [1] 101, .submit "a" [2] 123, .submit "a" [3] 124,
     .submit "c" [1] 1000, .latest] =
    [.unit, .unit, .unit, .unit, .verdict (.checked 1), .verdict .duplicate,
     .verdict (.checked 1), .verdict .notFound, .verdict (.checked 3), .latest (some 3)] := by
  decide

example : shareWellFormed 2 [1, 2] [0, 0, 0, 1] [9, 9, 9, 9] [0, 0, 0, 0] := by
  simp [shareWellFormed]

end PRV.Props.C19
