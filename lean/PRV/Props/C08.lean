import PRV.Model.Seller
import PRV.Model.WatcherStop
import PRV.Gen.C08
/-
C08 — Seller contracts are fulfilled exactly while they run on chain, across restarts.
Theorems about `Model/Seller.lean`, for every controller state, chain state and instant.
-/
namespace PRV.Props.C08
open PRV.Model.Seller

/-- the chain says: purchased, not yet over, and the destination decrypts to a pool -/
def Live (ch : Chain) (now : Int) (h : String) : Prop :=
  ch.purchased = true ∧ now < ch.startedAt + ch.len ∧ ch.payload = .valid h

/-- invariant: a running watcher has a destination -/
def Inv (c : Ctl) : Prop := c.run.isSome → c.terms.dest.isSome

/-- miners are allocated from ten seconds after the start until the watcher stops -/
def allocates (c : Ctl) (now : Int) : Prop :=
  ∃ since, c.run = some since ∧ since + 10 ≤ now ∧ now < exitAt c.terms since

theorem load_valid (ch : Chain) (h : String) (hp : ch.payload = .valid h) :
    load ch = ({ purchased := ch.purchased, startedAt := ch.startedAt, len := ch.len, speed := ch.speed, dest := some h }, false) := by
  unfold load; rw [hp]

/-! ### only while -/

theorem inv_boot_and_handlers (c : Ctl) (ch : Chain) (now : Int) (hi : Inv c) :
    Inv (onPurchased c ch now) ∧ Inv (onClosed c ch) ∧ Inv (onDestUpdated c ch now) ∧ Inv (settle c now) := by
  refine ⟨?_, ?_, ?_, ?_⟩
  · unfold onPurchased
    by_cases hr : c.run.isSome = true
    · simp only [hr, if_true]; exact hi
    · have hn : c.run = none := by cases hc : c.run <;> simp_all
      simp only [hr, Bool.false_eq_true, if_false]
      generalize load ch = l
      obtain ⟨t, e⟩ := l
      cases e with
      | true => simp [Inv, hn]
      | false =>
        simp only [Bool.false_eq_true, if_false]
        by_cases hs : t.shouldRun now = true
        · simp only [hs, Bool.not_true, Bool.false_eq_true, if_false]
          cases hd : t.dest with
          | none => simp [Inv, hn]
          | some h => simp [Inv, hd]
        · simp [hs, Inv, hn]
  · unfold onClosed Inv; intro h; simp at h
  · unfold onDestUpdated
    generalize load ch = l
    obtain ⟨t, e⟩ := l
    cases e with
    | true => simp [Inv]
    | false =>
      simp only [Bool.false_eq_true, if_false]
      cases hd : t.dest with
      | none => simp [Inv]
      | some h => simp [Inv, hd]
  · unfold settle
    cases hr : c.run with
    | none => simpa [hr] using hi
    | some since =>
      simp only
      by_cases hx : exitAt c.terms since ≤ now
      · simp [hx, Inv]
      · simp only [hx, if_false]; exact hi

/-- **only while it runs on chain**: whenever miners are being allocated for the contract, the terms
the controller holds say purchased, not over, with a destination -/
theorem allocates_only_live (c : Ctl) (now : Int) (hi : Inv c) (h : allocates c now) :
    c.terms.purchased = true ∧ now < c.terms.startedAt + c.terms.len ∧ c.terms.dest.isSome := by
  obtain ⟨since, hr, h10, hx⟩ := h
  unfold exitAt at hx
  split at hx
  · rename_i hc
    exact ⟨hc.1, hx, hi (by rw [hr]; rfl)⟩
  · omega

/-- a close stops the fulfilment at once, whatever the chain then says -/
theorem close_stops (c : Ctl) (ch : Chain) : (onClosed c ch).run = none := rfl

/-- expiry stops it: once the contract's time is over the watcher is not running -/
theorem expiry_stops (c : Ctl) (since now : Int) (hr : c.run = some since)
    (hover : c.terms.startedAt + c.terms.len ≤ now) (h10 : since + 10 ≤ now) : (settle c now).run = none := by
  unfold settle
  simp only [hr]
  have : exitAt c.terms since ≤ now := by unfold exitAt; split <;> omega
  simp [this]

/-! ### no payload stops the node, and a bad one is never fulfilled -/

/-- **fail closed**: a purchase whose destination is empty or does not decrypt starts nothing and sets
the contract's error; so does such a destination update, which also stops a running fulfilment -/
theorem bad_payload_not_fulfilled (c : Ctl) (ch : Chain) (now : Int) (hn : c.run = none)
    (hb : ch.payload = .bad ∨ ch.payload = .empty) (hl : ch.purchased = true ∧ now < ch.startedAt + ch.len) :
    (onPurchased c ch now).run = none ∧ (onPurchased c ch now).err = true ∧
    (onDestUpdated c ch now).run = none ∧ (onDestUpdated c ch now).err = true := by
  rcases hb with hb | hb
  · simp [onPurchased, onDestUpdated, load, hb, hn]
  · simp [onPurchased, onDestUpdated, load, hb, hn, Terms.shouldRun, hl.1, hl.2]

/-! ### exactly while: engaged on purchase, after a re-purchase and from every restart point -/

/-- **a purchase engages**: a live contract is fulfilled towards its buyer's pool from the purchase on -/
theorem purchase_engages (c : Ctl) (ch : Chain) (now : Int) (h : String) (hn : c.run = none) (hl : Live ch now h) :
    (onPurchased c ch now).run = some now ∧ fulfilling (onPurchased c ch now) = some h ∧ (onPurchased c ch now).err = false := by
  obtain ⟨hp, ht, hpay⟩ := hl
  simp [onPurchased, hn, load_valid ch h hpay, Terms.shouldRun, hp, ht, fulfilling]

/-- … **under the terms on chain at that moment**: the length and speed the watcher works with are the
purchase's -/
theorem purchase_takes_chain_terms (c : Ctl) (ch : Chain) (now : Int) (h : String) (hn : c.run = none) (hl : Live ch now h) :
    (onPurchased c ch now).terms.len = ch.len ∧ (onPurchased c ch now).terms.speed = ch.speed ∧
    (onPurchased c ch now).terms.startedAt = ch.startedAt := by
  obtain ⟨hp, ht, hpay⟩ := hl
  simp [onPurchased, hn, load_valid ch h hpay, Terms.shouldRun, hp, ht]

/-- **re-engaged after a re-purchase**: close, then purchase again under new terms -/
theorem repurchase_reengages (c : Ctl) (ch0 ch : Chain) (now : Int) (h : String) (hl : Live ch now h) :
    fulfilling (onPurchased (onClosed c ch0) ch now) = some h :=
  (purchase_engages (onClosed c ch0) ch now h rfl hl).2.1

/-- **from every chain state the node may be restarted in**: a node (re)started at any point of a live
contract's life fulfils it; started on a contract that is not live, it does not -/
theorem restart_resumes (ch : Chain) (now : Int) (h : String) (hl : Live ch now h) :
    fulfilling (boot ch now) = some h := by
  obtain ⟨hp, ht, hpay⟩ := hl
  simp [boot, Terms.shouldRun, hp, ht, onPurchased, load_valid ch h hpay, fulfilling]

theorem restart_not_live (ch : Chain) (now : Int) (hl : ch.purchased = false ∨ ch.startedAt + ch.len ≤ now) :
    (boot ch now).run = none := by
  have : ({ purchased := ch.purchased, startedAt := ch.startedAt, len := ch.len, speed := ch.speed } : Terms).shouldRun now = false := by
    unfold Terms.shouldRun
    rcases hl with hl | hl
    · simp [hl]
    · simp; intro _; omega
  simp [boot, this]

/-- **a destination update is followed**: a live, running contract whose destination changes to another
valid pool is fulfilled towards the new pool -/
theorem dest_update_followed (c : Ctl) (ch : Chain) (now : Int) (h : String) (hpay : ch.payload = .valid h) :
    fulfilling (onDestUpdated c ch now) = some h := by
  simp [onDestUpdated, load_valid ch h hpay, fulfilling]

/-- a destination update that reaches a contract which is over starts a watcher that allocates nothing: it
stops by itself ten seconds later, before the start-up delay has passed -/
theorem dest_update_on_ended_contract_stops (c : Ctl) (ch : Chain) (now : Int) (h : String) (hpay : ch.payload = .valid h)
    (hover : ch.purchased = false ∨ ch.startedAt + ch.len ≤ now) :
    (settle (onDestUpdated c ch now) (now + 10)).run = none := by
  have hl := load_valid ch h hpay
  simp only [onDestUpdated, hl, settle, exitAt]
  rcases hover with hp | hp
  · simp [hp]
  · have : ¬ (ch.purchased = true ∧ now + 10 < ch.startedAt + ch.len) := by intro ⟨_, h2⟩; omega
    simp [this]

/-! ### terms updates, and whole histories -/

/-- **a terms update never disturbs a running fulfilment**: it keeps running, towards the same pool, under
the terms of its purchase (the new terms apply after the close) … -/
theorem terms_update_while_running (c : Ctl) (ch : Chain) (hr : c.run.isSome) :
    (onTermsUpdated c ch).run = c.run ∧ (onTermsUpdated c ch).terms = c.terms ∧
    fulfilling (onTermsUpdated c ch) = fulfilling c := by
  simp [onTermsUpdated, hr, fulfilling]

/-- … **and never starts one**: on an idle contract it only replaces the terms held by what the chain says -/
theorem terms_update_idle (c : Ctl) (ch : Chain) (hn : c.run = none) :
    (onTermsUpdated c ch).run = none ∧ (onTermsUpdated c ch).terms = (load ch).1 := by
  simp [onTermsUpdated, hn]

/-- **re-engaged under the new terms after a re-purchase**: close, any terms update in between, purchase —
the watcher runs with the length and speed the chain holds at the purchase, towards the purchase's pool -/
theorem repurchase_under_new_terms (c : Ctl) (ch0 ch1 ch : Chain) (now : Int) (h : String) (hl : Live ch now h) :
    let c' := onPurchased (onTermsUpdated (onClosed c ch0) ch1) ch now
    fulfilling c' = some h ∧ c'.terms.len = ch.len ∧ c'.terms.speed = ch.speed := by
  have hn : (onTermsUpdated (onClosed c ch0) ch1).run = none := (terms_update_idle _ ch1 rfl).1
  exact ⟨(purchase_engages _ ch now h hn hl).2.1, (purchase_takes_chain_terms _ ch now h hn hl).1,
    (purchase_takes_chain_terms _ ch now h hn hl).2.1⟩

theorem inv_termsUpdated (c : Ctl) (ch : Chain) (hi : Inv c) : Inv (onTermsUpdated c ch) := by
  unfold onTermsUpdated
  by_cases hr : c.run.isSome = true
  · simp only [hr, if_true]; exact hi
  · have hn : c.run = none := by cases hc : c.run <;> simp_all
    simp [Inv, hn]

theorem inv_boot (ch : Chain) (now : Int) : Inv (boot ch now) := by
  unfold boot
  simp only
  split
  · exact (inv_boot_and_handlers _ ch now (by simp [Inv])).1
  · simp [Inv]

theorem inv_apply (c : Ctl) (e : Ev) (ch : Chain) (now : Int) (hi : Inv c) : Inv (apply c e ch now) := by
  have hs : Inv (settle c now) := (inv_boot_and_handlers c ch now hi).2.2.2
  unfold apply
  cases e with
  | purchased => exact (inv_boot_and_handlers _ ch now hs).1
  | closed => exact (inv_boot_and_handlers _ ch now hs).2.1
  | destUpdated => exact (inv_boot_and_handlers _ ch now hs).2.2.1
  | termsUpdated => exact inv_termsUpdated _ ch hs
  | restart => exact inv_boot ch now
  | tick => exact hs
  | purchasedNoRpc =>
    show Inv (onPurchasedNoRpc (settle c now))
    unfold onPurchasedNoRpc; split <;> exact hs
  | closedNoRpc => intro h; simp [onClosedNoRpc] at h
  | destUpdatedNoRpc => exact hs
  | termsUpdatedNoRpc => exact hs

/-- **for every history** of purchase, close, destination-update and terms-update events, restarts and the
passing of time, whatever the chain answers at each of them, and from every chain state the node is first
started in: a running watcher has a destination … -/
theorem history_inv (ch0 : Chain) (t0 : Int) (h : List (Ev × Chain × Int)) : Inv (runHist (boot ch0 t0) h) := by
  unfold runHist
  suffices ∀ c, Inv c → Inv (h.foldl (fun c x => apply c x.1 x.2.1 x.2.2) c) from this _ (inv_boot ch0 t0)
  induction h with
  | nil => intro c hc; exact hc
  | cons x xs ih => intro c hc; exact ih _ (inv_apply c x.1 x.2.1 x.2.2 hc)

/-- … and so **miners are allocated only while the terms held say purchased, unexpired, with a destination** -/
theorem history_allocates_only_live (ch0 : Chain) (t0 : Int) (h : List (Ev × Chain × Int)) (now : Int)
    (ha : allocates (runHist (boot ch0 t0) h) now) :
    let c := runHist (boot ch0 t0) h
    c.terms.purchased = true ∧ now < c.terms.startedAt + c.terms.len ∧ c.terms.dest.isSome :=
  allocates_only_live _ now (history_inv ch0 t0 h) ha

/-- **a node that refuses calls never starts, redirects or re-terms a fulfilment**: an event handled while the chain
cannot be read leaves the terms and the destination as they are, starts nothing, and only a close stops anything -/
theorem rpc_failure_is_harmless (c : Ctl) :
    (onPurchasedNoRpc c).terms = c.terms ∧ (onPurchasedNoRpc c).run = c.run ∧
    (onDestUpdatedNoRpc c).terms = c.terms ∧ (onDestUpdatedNoRpc c).run = c.run ∧
    (onTermsUpdatedNoRpc c).terms = c.terms ∧ (onTermsUpdatedNoRpc c).run = c.run ∧
    (onClosedNoRpc c).terms = c.terms ∧ (onClosedNoRpc c).run = none := by
  refine ⟨?_, ?_, rfl, rfl, rfl, rfl, rfl, rfl⟩ <;> (unfold onPurchasedNoRpc; split <;> rfl)

/-- the terms of a fulfilment do not change while it continues: neither a purchase event nor a terms update
nor the passing of time touches the terms of a watcher that keeps running -/
theorem running_terms_fixed (c : Ctl) (e : Ev) (ch : Chain) (now since : Int)
    (he : e = .purchased ∨ e = .termsUpdated ∨ e = .tick)
    (hr : (settle c now).run = some since) : (apply c e ch now).terms = c.terms ∧ (apply c e ch now).run = some since := by
  have hst : (settle c now).terms = c.terms := by
    unfold settle; cases c.run with
    | none => rfl
    | some s => simp only; split <;> rfl
  rcases he with he | he | he <;> subst he <;> simp [apply, onPurchased, onTermsUpdated, hr, hst]

-- the hypotheses are met: a history with a terms update in the middle of a running purchase and a
-- re-purchase under other terms
example :
    let ch1 : Chain := { purchased := true, startedAt := 100, len := 300, speed := 1000, payload := .valid "poolx" }
    let ch2 : Chain := { purchased := false, len := 600, speed := 2000 }
    let ch3 : Chain := { purchased := true, startedAt := 500, len := 600, speed := 2000, payload := .valid "pooly" }
    let c := runHist (boot {} 0) [(.purchased, ch1, 100), (.termsUpdated, ch1, 150), (.tick, ch1, 160)]
    let c' := runHist c [(.closed, ch2, 200), (.termsUpdated, ch2, 210), (.purchased, ch3, 500)]
    fulfilling c = some "poolx" ∧ c.terms.speed = 1000 ∧ allocates c 160 ∧
    fulfilling c' = some "pooly" ∧ c'.terms.speed = 2000 ∧ c'.terms.len = 600 := by
  refine ⟨by decide, by decide, ⟨100, by decide, by decide, by decide⟩, by decide, by decide, by decide⟩


/-! ### the stopping watcher against the handler that waited for it (regenerated order, every interleaving) -/

section watcherStop
open PRV.Model.WatcherStop

/-- the goroutine clears the running flag before it closes the done channel (the channel of *its* run, captured before the
goroutine started), and `SetTerms` refuses while the flag is set -/
theorem source_flag_cleared_before_done :
    goroutineOf PRV.Gen.C08.startGoroutine = [.clearFlag, .closeDone] ∧
    PRV.Gen.C08.startBefore.getLast? = some "doneCh := p.doneCh" ∧
    PRV.Gen.C08.setTerms = ["if p.isRunning { return }", "p.Terms = terms"] := by decide

/-- **in the code's order every interleaving with a handler that waited for `Done()` ends well**: the new terms are
accepted, the new watcher runs with them and its flag is set — over the regenerated statement order -/
theorem restart_after_done_is_clean :
    ∀ tr ∈ merges (goroutineOf PRV.Gen.C08.startGoroutine) handler, valid tr = true → good (run tr) = true := by decide

/-- with the two statements the other way round (as before `833ac43`) some interleaving loses the update: the new terms are
refused, or the old goroutine clears the flag of the new watcher, which can then not be stopped -/
theorem done_before_flag_loses_an_update :
    ∃ tr ∈ merges [.closeDone, .clearFlag] handler, valid tr = true ∧ good (run tr) = false := by decide

-- the enumeration is the full one: C(4,2) = 6 interleavings, of which one respects the wait in the code's order and three the other way round
example : (merges [.clearFlag, .closeDone] handler).length = 6 ∧ ((merges [.clearFlag, .closeDone] handler).filter valid).length = 1 ∧
    ((merges [.closeDone, .clearFlag] handler).filter valid).length = 3 := by decide

end watcherStop

end PRV.Props.C08
