import PRV.Model.Life
import PRV.Props.C03
import PRV.Gen.C06
import PRV.Gen.Wiring
/-
C06 — After a pool connection fails, relaying resumes once or the miner is released.
Theorems about `Model/Life.lean` for every session state.
-/
namespace PRV.Props.C06
open PRV.Model PRV.Model.Session PRV.Model.Life

def isDial : Out → Bool
  | .factory _ (some _) => true
  | _ => false

def dialsIn (os : List Out) : Nat := (os.filter isDial).length

theorem dialsIn_append (a b : List Out) : dialsIn (a ++ b) = dialsIn a + dialsIn b := by
  simp [dialsIn, List.filter_append]

theorem resend_no_dial (d : Dest) (msgs : List Out) (h : resend d = some msgs) : dialsIn msgs = 0 := by
  obtain ⟨n, j, _, _, hm⟩ := PRV.Props.C03.resend_shape d msgs h
  rw [hm]
  by_cases c1 : d.xn1 ≠ j.xn1 ∨ d.xn2size ≠ j.xn2size <;> by_cases c2 : d.diff ≠ j.diff <;>
    simp [c1, c2, dialsIn, isDial, List.filter]

theorem acquire_fresh_one_dial (s : Sess) (pool user : String) (p : PoolCfg) (h : findDest s (pool, user) = none) :
    dialsIn (acquire s pool p user).2.2 = 1 := by
  unfold acquire
  simp only [h]
  by_cases hv : s.vr = true <;> simp [dialsIn, isDial, hv, List.filter]

theorem closes_no_dial (ds : List Dest) : dialsIn (ds.map fun d => Out.toPool d.pool d.conn "closed") = 0 := by
  induction ds with
  | nil => rfl
  | cons d rest ih =>
    simp only [List.map_cons, dialsIn, List.filter, isDial] at ih ⊢
    exact ih

/-- nothing is dialled before the reconnect delay has passed -/
theorem no_dial_before_delay (l : Life) (u : Int) (h : l.phase = .waiting u) (hn : l.s.now < u) :
    reconnect l = (l, []) := by
  unfold reconnect
  simp [h, hn]

/-- **once or released**: when the reconnect is due, either exactly one replacement connection is
dialled and the session relays again, or the session is over, the miner's connection is closed and
no pool connection is left — nothing in between, and never more than one dial -/
theorem resumes_once_or_releases (l : Life) (u : Int) (pool user : String) (p : PoolCfg)
    (h : l.phase = .waiting u) (hn : ¬ l.s.now < u) (ha : l.s.active = some (pool, user)) (hp : findPool l.s pool = some p)
    (hr : (resend (acquire l.s pool p user).2.1).isSome) (hfresh : findDest l.s (pool, user) = none)
    (hg : l.minerGone = false) :
    ((reconnect l).1.phase = .relaying ∧ dialsIn (reconnect l).2 = 1 ∧ (reconnect l).1.dials = l.dials + 1) ∨
    ((∃ k, (reconnect l).1.phase = .released k) ∧ Out.toMiner "closed" ∈ (reconnect l).2 ∧ dialsIn (reconnect l).2 ≤ 1 ∧
      (reconnect l).1.s.dests = []) := by
  have hacq := acquire_fresh_one_dial l.s pool user p hfresh
  unfold reconnect
  simp only [h, hn, if_false, ha, hp]
  cases h1 : flag l.reach pool with
  | false =>
    right
    simp only [Bool.not_false, if_true, release, hg]
    refine ⟨⟨_, rfl⟩, by simp, ?_, trivial⟩
    rw [dialsIn_append, dialsIn_append, closes_no_dial]
    simp [dialsIn, isDial, List.filter]
  | true =>
    simp only [Bool.not_true, Bool.false_eq_true, if_false]
    cases h2 : flag l.auth pool with
    | false =>
      right
      simp only [Bool.not_false, if_true, release, hg]
      refine ⟨⟨_, rfl⟩, by simp, ?_, trivial⟩
      rw [dialsIn_append, dialsIn_append, dialsIn_append, closes_no_dial, hacq]
      simp [dialsIn, isDial, List.filter]
    | true =>
      left
      simp only [Bool.not_true, Bool.false_eq_true, if_false, hg]
      obtain ⟨msgs, hm⟩ := Option.isSome_iff_exists.mp hr
      simp only [hm]
      refine ⟨trivial, ?_, trivial⟩
      rw [dialsIn_append, hacq, resend_no_dial _ _ hm]

/-- a miner that hung up during the wait (when nobody reads from it) is noticed at the reconnect: the
replacement that was dialled for it is closed again and the session ends with nothing left open -/
theorem miner_gone_during_wait_leaves_nothing (l : Life) (u : Int) (pool user : String) (p : PoolCfg)
    (h : l.phase = .waiting u) (hn : ¬ l.s.now < u) (ha : l.s.active = some (pool, user)) (hp : findPool l.s pool = some p)
    (hr : flag l.reach pool = true) (hau : flag l.auth pool = true) (hg : l.minerGone = true) :
    (∃ k, (reconnect l).1.phase = .released k) ∧ (reconnect l).1.s.dests = [] ∧
    Out.toPool pool (acquire l.s pool p user).2.1.conn "closed" ∈ (reconnect l).2 := by
  unfold reconnect
  simp [h, hn, ha, hp, hr, hau, hg]

/-- **never keeps opening connections**: only a failure of the active connection leads to a dial —
while relaying, or once released, `reconnect` does nothing -/
theorem no_dial_without_fault (l : Life) (h : ∀ u, l.phase ≠ .waiting u) : reconnect l = (l, []) := by
  unfold reconnect
  cases hp : l.phase with
  | waiting u => exact absurd hp (h u)
  | relaying => rfl
  | released k => rfl

/-- a failure of a parked connection does not stop the relay -/
theorem parked_failure_keeps_relaying (l : Life) (pool : String) (d : Dest)
    (h : l.phase = .relaying) (hd : lastConnOf l.s pool = some d) (hp : isActive l.s d = false) :
    (poolClose l pool).1.phase = .relaying ∧ (poolClose l pool).1.s.active = l.s.active := by
  unfold poolClose
  simp [h, hd, hp]

/-- a failure of the active connection starts the wait and counts one fault -/
theorem active_failure_waits (l : Life) (pool : String) (d : Dest)
    (h : l.phase = .relaying) (hd : lastConnOf l.s pool = some d) (hp : isActive l.s d = true) :
    (poolClose l pool).1.phase = .waiting (l.s.now + reconnectDelay) ∧ (poolClose l pool).1.faults = l.faults + 1 ∧
    (poolClose l pool).2 = [.toPool d.pool d.conn "closed"] := by
  unfold poolClose
  simp [h, hd, hp]

/-- **releasing releases everything**: when the miner leaves, the node shuts down, or a reconnect
fails, no pool connection of the session stays open -/
theorem release_closes_everything (l : Life) (kind : String) (extra : List Out) :
    (release l kind extra).1.s.dests = [] ∧
    ∀ d ∈ l.s.dests, Out.toPool d.pool d.conn "closed" ∈ (release l kind extra).2 := by
  refine ⟨rfl, ?_⟩
  intro d hd
  simp only [release, List.mem_append, List.mem_map]
  exact Or.inr ⟨d, hd, rfl⟩


/-! ### whole lifecycles: any sequence of failures, time, hang-ups and shutdowns -/

inductive LifeOp where
  | poolClose (pool : String)
  | tick (ns : Int)
  | minerClose
  | shutdown

def lifeStep (l : Life) : LifeOp → Life × List Out
  | .poolClose p => poolClose l p
  | .tick ns => tick l ns
  | .minerClose => minerClose l
  | .shutdown => shutdown l

def lifeRun : Life → List LifeOp → Life × List Out
  | l, [] => (l, [])
  | l, op :: ops => let r := lifeStep l op; let rr := lifeRun r.1 ops; (rr.1, r.2 ++ rr.2)

/-- every failure of the active connection is answered by at most one dial; while the answer is
outstanding (the session waits) one dial is still owed -/
def DialBudget (l : Life) : Prop :=
  l.dials + (match l.phase with | .waiting _ => 1 | _ => 0) ≤ l.faults

theorem release_budget (l : Life) (kind : String) (extra : List Out) (h : l.dials ≤ l.faults) :
    DialBudget (release l kind extra).1 := by
  unfold DialBudget release; simpa using h

theorem reconnect_budget (l : Life) (h : DialBudget l) : DialBudget (reconnect l).1 := by
  unfold reconnect
  cases hp : l.phase with
  | relaying => exact h
  | released k => exact h
  | waiting due =>
    have hb : l.dials + 1 ≤ l.faults := by unfold DialBudget at h; rw [hp] at h; exact h
    simp only
    split
    · exact h
    · split
      · exact h
      · split
        · exact h
        · split
          · exact release_budget _ _ _ (by show l.dials ≤ l.faults; omega)
          · split
            · exact release_budget _ _ _ (by simpa using hb)
            · split
              · unfold DialBudget; simpa using hb
              · split
                · exact h
                · unfold DialBudget; simpa using hb

theorem poolClose_budget (l : Life) (p : String) (h : DialBudget l) : DialBudget (poolClose l p).1 := by
  unfold poolClose
  split
  · rename_i hph _
    split
    · unfold DialBudget at h ⊢; rw [hph] at h; simp at h ⊢; omega
    · unfold DialBudget at h ⊢; rw [hph] at h; simpa [hph] using h
  · exact h

theorem minerClose_budget (l : Life) (h : DialBudget l) : DialBudget (minerClose l).1 := by
  unfold minerClose
  split
  · exact h
  · rename_i hph; unfold DialBudget at h ⊢; rw [hph] at h; simpa [hph] using h
  · rename_i hph; exact release_budget _ _ _ (by unfold DialBudget at h; rw [hph] at h; simpa using h)

theorem shutdown_budget (l : Life) (h : DialBudget l) : DialBudget (shutdown l).1 := by
  unfold shutdown
  split
  · exact h
  · refine release_budget _ _ _ ?_
    unfold DialBudget at h
    split at h <;> omega

theorem lifeStep_budget (l : Life) (op : LifeOp) (h : DialBudget l) : DialBudget (lifeStep l op).1 := by
  cases op with
  | poolClose p => exact poolClose_budget l p h
  | tick ns =>
    show DialBudget (tick l ns).1
    unfold tick
    exact reconnect_budget _ (by unfold DialBudget at h ⊢; exact h)
  | minerClose => exact minerClose_budget l h
  | shutdown => exact shutdown_budget l h

/-- **Never more replacement connections than failures**, over every lifecycle of any length: the
number of pool connections dialled because of a failure never exceeds the number of failures of the
active connection, and while a reconnect is still outstanding it is strictly smaller. -/
theorem dials_never_exceed_faults (l : Life) (ops : List LifeOp) (h : DialBudget l) :
    DialBudget (lifeRun l ops).1 ∧ (lifeRun l ops).1.dials ≤ (lifeRun l ops).1.faults := by
  have main : DialBudget (lifeRun l ops).1 := by
    induction ops generalizing l with
    | nil => exact h
    | cons op ops ih => exact ih _ (lifeStep_budget l op h)
  refine ⟨main, ?_⟩
  unfold DialBudget at main; omega

/-- a fresh session starts inside the budget -/
theorem fresh_budget (s : Sess) : DialBudget { s := s } := by unfold DialBudget; simp

/-- **Released is final**: once the session is over nothing is dialled, sent or closed any more,
whatever happens afterwards. -/
theorem released_is_final (l : Life) (k : String) (ops : List LifeOp) (h : l.phase = .released k) :
    (lifeRun l ops).2 = [] ∧ (lifeRun l ops).1.phase = .released k := by
  induction ops generalizing l with
  | nil => exact ⟨rfl, h⟩
  | cons op ops ih =>
    have hs : lifeStep l op = (l, []) ∨ ((lifeStep l op).2 = [] ∧ (lifeStep l op).1.phase = .released k) := by
      cases op with
      | poolClose p => left; show poolClose l p = _; unfold poolClose; simp [h]
      | tick ns => right; show (tick l ns).2 = [] ∧ (tick l ns).1.phase = _; unfold tick reconnect; simp [h]
      | minerClose => left; show minerClose l = _; unfold minerClose; simp [h]
      | shutdown => left; show shutdown l = _; unfold shutdown; simp [h]
    unfold lifeRun
    simp only
    rcases hs with e | ⟨e1, e2⟩
    · rw [e]; simpa using ih l h
    · have i := ih (lifeStep l op).1 e2
      rw [e1, i.1]; exact ⟨rfl, i.2⟩

/-! ### facts about the source, regenerated on every run -/

/-- every start of `Proxy.Run` stops the pipe that is left over and builds a fresh one: a relay direction that finished under
the previous run still carries that run's destination error, and a second run that looked at it would close the healthy
connection the scheduler has just opened and dial once more -/
theorem source_run_renews_its_pipe : PRV.Gen.C06.runPrelude =
    ["defer p.closeConnections()", "handler := NewHandlerMining(p)",
     "if p.pipe != nil { <-p.pipe.StopSourceToDest(); <-p.pipe.StopDestToSource() }",
     "p.pipe = NewPipe(p.source, p.dest, handler.sourceInterceptor, handler.destInterceptor, p.log)"] := by decide +kernel

/-- "the replacement goes to the same destination": the url a session reconnects to is its own copy of the configured one, made
inside the per-connection closure — the handshake writes the miner's worker name through it, and with one url for all sessions a
replacement would be authorised under another miner's worker -/
theorem source_session_owns_its_destination :
    (PRV.Gen.Wiring.handlerLocals.find? (·.1 = "url")).map (·.2) = some "lib.CopyURL(defaultDestUrl)" ∧
    (PRV.Gen.Wiring.handlerProxyArgs.find? (·.1 = "destURL")).map (·.2) = some "url" := by decide

end PRV.Props.C06
