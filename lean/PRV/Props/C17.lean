import PRV.Model.Cred
/-
C17 — Pool credentials: account kept, worker suffix propagated only when allowed.
-/
namespace PRV.Props.C17
open PRV.Model.Cred

/-- Copying a destination URL changes nothing. -/
theorem copy_identity (u : Url) : copyURL u = u := rfl

/-- Adjusting the user name changes only the user name: host and everything else stay, and the
password stays exactly as it was (present with its value, or absent). -/
theorem setUser_only_user (u : Url) (name : Str) :
    (setUserName u name).host = u.host ∧ (setUserName u name).rest = u.rest ∧
    (setUserName u name).password = u.password ∧ (setUserName u name).username = name := by
  simp [setUserName, Url.password, Url.username]

theorem setWorker_only_user (u : Url) (w : Str) :
    (setWorkerName u w).host = u.host ∧ (setWorkerName u w).rest = u.rest ∧
    (setWorkerName u w).password = u.password := by
  simp [setWorkerName, setUserName, Url.password]

theorem cut_join (a w : Str) (h : dot ∉ a) : cutDot (join a w) = (a, w, true) := by
  induction a with
  | nil => simp [join, cutDot]
  | cons c cs ih =>
    have hc : c ≠ dot := fun e => h (by simp [e])
    have hcs : dot ∉ cs := fun e => h (List.mem_cons_of_mem _ e)
    have := ih hcs
    simp only [join, List.cons_append, List.append_assoc, List.nil_append] at this ⊢
    simp only [cutDot, hc, if_false, this]

theorem cut_account_no_dot (s : Str) : dot ∉ (cutDot s).1 := by
  induction s with
  | nil => simp [cutDot]
  | cons c cs ih =>
    unfold cutDot
    by_cases h : c = dot
    · simp [h]
    · simp only [h, if_false, List.mem_cons, not_or]
      exact ⟨fun e => h e.symm, ih⟩

/-- **The account part is always kept**: the user name presented to the pool has the account part
of the destination (everything before its first dot) as its account part. -/
theorem account_kept (np : Bool) (incoming : Str) (dest : Url) :
    (cutDot (getDestUserName np incoming dest)).1 = (cutDot dest.username).1 := by
  unfold getDestUserName
  split
  · rw [cut_join _ _ (cut_account_no_dot _)]
  · rfl

/-- **The password is always kept** (value and presence), and so is the rest of the URL -/
theorem password_kept (np : Bool) (incoming : Str) (dest : Url) :
    (authorize np incoming dest).2.2.password = dest.password ∧
    (authorize np incoming dest).2.2.host = dest.host ∧ (authorize np incoming dest).2.2.rest = dest.rest ∧
    (authorize np incoming dest).2.1 = dest.password.getD [] := by
  unfold authorize
  simp only
  split
  · have := setWorker_only_user dest (cutDot incoming).2.1
    exact ⟨this.2.2, this.1, this.2.1, by rw [this.2.2]⟩
  · exact ⟨rfl, rfl, rfl, rfl⟩

/-- **The worker suffix is appended exactly when allowed**: propagation enabled, the destination is
not a lightning-style address (no `@` in its user, no `pplp` in its host), the miner is not a
contract connection (its name is not a hex address), and the miner's name has a suffix. Otherwise
the destination's own user name is presented unchanged. -/
theorem suffix_iff_allowed (np : Bool) (incoming : Str) (dest : Url) :
    (np = false ∧ hasLightningAddress dest = false ∧ hasPPLPHost dest = false ∧ isHexAddress incoming = false ∧
        (cutDot incoming).2.2 = true →
      getDestUserName np incoming dest = join (cutDot dest.username).1 (cutDot incoming).2.1) ∧
    (¬ (np = false ∧ hasLightningAddress dest = false ∧ hasPPLPHost dest = false ∧ isHexAddress incoming = false ∧
        (cutDot incoming).2.2 = true) →
      getDestUserName np incoming dest = dest.username) := by
  unfold getDestUserName shouldPropagate
  constructor
  · rintro ⟨a, b, c, d, e⟩; simp [a, b, c, d, e]
  · intro h
    split
    · rename_i hc
      exfalso; apply h
      obtain ⟨h1, h2⟩ := hc
      simp only [Bool.and_eq_true, Bool.not_eq_true'] at h1
      exact ⟨h1.1.1.1, h1.1.1.2, h1.1.2, h1.2, h2⟩
    · rfl

/-- the two code paths of the authorize handler (in-place `SetWorkerName` and `getDestUserName`)
present the same user name -/
theorem authorize_paths_agree (np : Bool) (incoming : Str) (dest : Url) :
    (authorize np incoming dest).1 = getDestUserName np incoming dest := by
  unfold authorize getDestUserName
  simp only
  split
  · simp [setWorkerName, setUserName, Url.username]
  · rfl

/-- a contract connection (user name = contract address) never gets a suffix propagated -/
theorem contract_connection_no_suffix (np : Bool) (incoming : Str) (dest : Url) (h : isHexAddress incoming = true) :
    getDestUserName np incoming dest = dest.username := by
  apply (suffix_iff_allowed np incoming dest).2
  intro hc; rw [h] at hc; simp at hc

/-- **Hashrate sent for a contract carries exactly the contract address as user name**, and nothing
else of the buyer's destination changes. -/
theorem contract_user_exact (dest : Url) (id : Str) :
    (adjustedDest dest id).username = id ∧ (adjustedDest dest id).password = dest.password ∧
    (adjustedDest dest id).host = dest.host ∧ (adjustedDest dest id).rest = dest.rest := by
  simp [adjustedDest, copyURL, setUserName, Url.username, Url.password]

/-! ### the split/join pair and repeated authorisation (every name, every number of repeats) -/

/-- `SplitUsername` then `JoinUsername` gives the name back whenever it had a worker part. -/
theorem split_join_roundtrip (s : Str) (h : (cutDot s).2.2 = true) :
    join (cutDot s).1 (cutDot s).2.1 = s := by
  induction s with
  | nil => simp [cutDot] at h
  | cons c cs ih =>
    unfold cutDot at h ⊢
    by_cases hc : c = dot
    · simp [hc, join]
    · simp only [hc, if_false] at h ⊢
      have := ih h
      simp only [join, List.cons_append, List.append_assoc, List.nil_append] at this ⊢
      rw [this]

/-- a name without a dot has no worker part and is its own account part -/
theorem split_no_dot (s : Str) (h : dot ∉ s) : cutDot s = (s, [], false) := by
  induction s with
  | nil => rfl
  | cons c cs ih =>
    have hc : c ≠ dot := fun e => h (by simp [e])
    have hcs : dot ∉ cs := fun e => h (List.mem_cons_of_mem _ e)
    simp only [cutDot, hc, if_false, ih hcs]

/-- **The worker part presented to the pool is exactly the miner's own suffix** (everything after
the first dot of the name the miner authorised with), when a suffix is propagated at all. -/
theorem worker_suffix_exact (np : Bool) (incoming : Str) (dest : Url)
    (h : shouldPropagate np incoming dest = true ∧ (cutDot incoming).2.2 = true) :
    (cutDot (getDestUserName np incoming dest)).2.1 = (cutDot incoming).2.1 ∧
    (cutDot (getDestUserName np incoming dest)).2.2 = true := by
  unfold getDestUserName
  rw [if_pos h, cut_join _ _ (cut_account_no_dot _)]
  exact ⟨rfl, rfl⟩

/-- **Worker names never accumulate**: setting a worker name on a destination that already carries
one replaces it (`acct.w1` then `w2` is `acct.w2`, never `acct.w1.w2`). -/
theorem setWorker_replaces (u : Url) (w1 w2 : Str) :
    setWorkerName (setWorkerName u w1) w2 = setWorkerName u w2 := by
  simp only [setWorkerName, setUserName, Url.username, Url.password,
    cut_join _ _ (cut_account_no_dot _)]

theorem setWorker_idempotent (u : Url) (w : Str) :
    setWorkerName (setWorkerName u w) w = setWorkerName u w := setWorker_replaces u w w

/-- **Authorising again changes nothing**: a miner that authorises a second time with the same name
against the destination left behind by its first authorisation is presented with the same user
name and password, and the destination stays as it was. -/
theorem authorize_idempotent (np : Bool) (incoming : Str) (dest : Url) :
    authorize np incoming (authorize np incoming dest).2.2 = authorize np incoming dest := by
  unfold authorize
  simp only
  by_cases h1 : shouldPropagate np incoming dest = true ∧ (cutDot incoming).2.2 = true
  · rw [if_pos h1]
    by_cases h2 : shouldPropagate np incoming (setWorkerName dest (cutDot incoming).2.1) = true ∧
        (cutDot incoming).2.2 = true
    · rw [if_pos h2, setWorker_idempotent]
    · rw [if_neg h2]
  · rw [if_neg h1, if_neg h1]

/-- repeated authorisations, any number of them: the destination after the first one is final -/
theorem authorize_repeat (np : Bool) (incoming : Str) (dest : Url) (n : Nat) :
    (Nat.repeat (fun d => (authorize np incoming d).2.2) (n + 1) dest) = (authorize np incoming dest).2.2 := by
  induction n with
  | zero => rfl
  | succ k ih =>
    show (authorize np incoming (Nat.repeat _ (k + 1) dest)).2.2 = _
    rw [ih, authorize_idempotent]

/-- the account part survives any sequence of miners authorising one after another against the
same destination object (the in-place `SetWorkerName` path) -/
theorem account_kept_sequence (np : Bool) (dest : Url) (names : List Str) :
    (cutDot (names.foldl (fun d nm => (authorize np nm d).2.2) dest).username).1 = (cutDot dest.username).1 := by
  induction names generalizing dest with
  | nil => rfl
  | cons nm rest ih =>
    rw [List.foldl_cons, ih]
    have h1 := authorize_paths_agree np nm dest
    have h2 := account_kept np nm dest
    have : (authorize np nm dest).2.2.username = (authorize np nm dest).1 := by
      unfold authorize; rfl
    rw [this, h1, h2]

/-- and so does the password, the host and the rest of the URL -/
theorem password_kept_sequence (np : Bool) (dest : Url) (names : List Str) :
    (names.foldl (fun d nm => (authorize np nm d).2.2) dest).password = dest.password ∧
    (names.foldl (fun d nm => (authorize np nm d).2.2) dest).host = dest.host ∧
    (names.foldl (fun d nm => (authorize np nm d).2.2) dest).rest = dest.rest := by
  induction names generalizing dest with
  | nil => exact ⟨rfl, rfl, rfl⟩
  | cons nm rest ih =>
    rw [List.foldl_cons]
    have h := password_kept np nm dest
    have i := ih (authorize np nm dest).2.2
    exact ⟨i.1.trans h.1, i.2.1.trans h.2.1, i.2.2.trans h.2.2.1⟩

/-- a contract destination adjusted twice (restart, terms refresh) is adjusted once -/
theorem adjusted_idempotent (dest : Url) (id : Str) :
    adjustedDest (adjustedDest dest id) id = adjustedDest dest id := by
  simp [adjustedDest, copyURL, setUserName, Url.password]


/-! ### non-vacuity -/
def exampleDest : Url := ⟨some ⟨[112, 46, 113], some [120]⟩, [104], []⟩
example : getDestUserName false [97, 46, 119] exampleDest = [112, 46, 119] := by decide
example : isHexAddress ([48, 120] ++ List.replicate 40 97) = true := by decide
example : shouldPropagate false [97, 46, 119] exampleDest = true ∧ (cutDot [97, 46, 119]).2.2 = true := by decide
example : setWorkerName (setWorkerName exampleDest [119]) [122] = ⟨some ⟨[112, 46, 122], some [120]⟩, [104], []⟩ := by decide

end PRV.Props.C17
