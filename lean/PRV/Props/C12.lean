import PRV.Proofs.C12
/-
C12 — Start/stop of a background task is linearizable.
Theorems about every reachable state of the transition system `Model/Task.lean` (any number of
concurrent Start/Stop calls, any interleaving of the atomic steps, any number of restarts).
-/
namespace PRV.Props.C12
open PRV.Model.Task PRV.Proofs.C12

/-- no interleaving panics (double close) or runs the function twice concurrently -/
theorem no_panic_no_overlap {s : St} (h : Reachable s) :
    s.doubleClose = false ∧ s.twoHolders = false ∧ s.active ≤ 1 := by
  have hi := inv_reachable h
  unfold Proofs.C12.Inv at hi
  obtain ⟨_, _, h3, h4, h5, _⟩ := hi
  exact ⟨h4, h3, by rw [h5]; exact b2n_le _⟩

/-- completion is signalled only when the function returned on its own or the parent context ended -/
theorem done_only_if {s : St} (h : Reachable s) :
    (s.isDone = true → s.parent = true ∨ s.ownReturned = true) ∧ (s.doneClosed = true → s.isDone = true) := by
  have hi := inv_reachable h
  unfold Proofs.C12.Inv at hi
  obtain ⟨_, _, _, _, _, _, h7, h8, _⟩ := hi
  exact ⟨fun hd => (h7 hd).2.2.2, fun hd => (h8 hd).1⟩

/-- ... and a return caused by Stop (context error, parent alive, this generation cancelled) takes the
stop path: completion is not signalled -/
theorem stop_does_not_complete (s : St) (g : Nat) (hgo : s.go = some (g, .returned false))
    (hp : s.parent = false) (hc : g ∈ s.cancelled) :
    exec s .goDecide = some { s with go := some (g, .sReset) } := by
  have hc' : s.cancelled.contains g = true := by simpa using hc
  simp [exec, hgo, hp, hc]

/-- a function that returns on its own, or whose parent ended, takes the done path -/
theorem own_or_parent_completes (s : St) (g : Nat) (own : Bool) (hgo : s.go = some (g, .returned own))
    (h : s.parent = true ∨ own = true) :
    exec s .goDecide = some { s with go := some (g, .dSetDone) } := by
  rcases h with h | h <;> simp [exec, hgo, h]

/-- **After waiting for a stop to complete the function is no longer running.**  Once the stop
channel of generation `g` is closed, the goroutine of `g` is gone, and any goroutine or pending
spawn that exists belongs to a strictly later generation (started after). Together with
`run_is_latest` (the generation Stop loads is the newest one), no invocation begun before the
Stop call is still active. -/
theorem stop_wait {s : St} (h : Reachable s) (g : Nat) (hg : g ∈ s.stopClosed) :
    (∀ g' pc, s.go = some (g', pc) → g < g') ∧ (∀ g', s.spawnPending = some g' → g < g') := by
  have hi := inv_reachable h
  unfold Proofs.C12.Inv goGen at hi
  obtain ⟨_, _, _, _, _, _, _, _, _, _, _, h12, _⟩ := hi
  obtain ⟨_, b, c⟩ := h12 g (Or.inl hg)
  exact ⟨fun g' pc hgo => b g' (by rw [hgo]; rfl), c⟩

theorem run_is_latest {s : St} (h : Reachable s) (g : Nat) (pc : GoPc) (hgo : s.go = some (g, pc)) :
    s.run = some g := by
  have hi := inv_reachable h
  unfold Proofs.C12.Inv goGen at hi
  obtain ⟨_, _, _, _, _, _, _, _, _, _, _, _, _, h14, _⟩ := hi
  exact (h14 g (Or.inl (by rw [hgo]; rfl))).2

/-- the running flag is set exactly when somebody is responsible for it: a Start call past its
compare-and-swap, the goroutine that has not yet reset the flag, or a finished (done) task -/
theorem flag_has_holder {s : St} (h : Reachable s) : s.isRunning = true ↔ holders s = 1 := by
  have hi := inv_reachable h
  unfold Proofs.C12.Inv at hi
  exact hi.2.1

/-- a goroutine whose stop channel is closed, or about to be closed, no longer holds the flag -/
theorem stopped_goroutine_released {s : St} (h : Reachable s) (g : Nat) (hg : g ∈ s.stopClosed ∨ g ∈ s.tails) :
    ∀ pc, s.go ≠ some (g, pc) := by
  have hi := inv_reachable h
  unfold Proofs.C12.Inv goGen at hi
  obtain ⟨_, _, _, _, _, _, _, _, _, _, _, h12, _⟩ := hi
  intro pc hgo
  have := (h12 g hg).2.1 g (by rw [hgo]; rfl)
  omega

/-- **A subsequent start always runs the function again.**  In a reachable state where the task is
not done and nobody else holds the flag (in particular after the wait on Stop() returned with no
other caller active), a Start call runs through and the function is invoked once more. -/
theorem start_runs_again {s : St} (h : Reachable s) (hc : 0 < s.nCas) (hd : s.isDone = false)
    (hnl : s.nLoadDone = 0) (hns : s.nStoreRun = 0) (hsp : s.spawnPending = none) (hgo : s.go = none) :
    ∃ s', runLabels s [.startCas, .startLoadDone, .startStoreRun, .startSpawn, .goBegin] = some s' ∧
      s'.invocations = s.invocations + 1 ∧ s'.active = 1 := by
  have hi := inv_reachable h
  unfold Proofs.C12.Inv holders at hi
  obtain ⟨h1, h2, _, _, h5, h6, _⟩ := hi
  have hdl : s.doneLocked = false := by
    cases hx : s.doneLocked with
    | false => rfl
    | true => have := h6 hx; rw [hd] at this; cases this
  have hrun : s.isRunning = false := by
    cases hx : s.isRunning with
    | false => rfl
    | true =>
      have := h2.mp hx
      rw [hnl, hns, hsp, hgo, hdl] at this
      simp at this
  have hact : s.active = 0 := by rw [h5]; simp [goPc, hgo]
  have hc' : ¬ s.nCas = 0 := by omega
  let s1 : St := { s with nCas := s.nCas - 1, isRunning := true, nLoadDone := s.nLoadDone + 1 }
  let s2 : St := { s1 with nLoadDone := s1.nLoadDone - 1, nStoreRun := s1.nStoreRun + 1 }
  let s3 : St := { s2 with nStoreRun := s2.nStoreRun - 1, run := some s2.nextGen, nextGen := s2.nextGen + 1,
                           spawnPending := some s2.nextGen }
  let s4 : St := { s3 with spawnPending := none, go := some (s2.nextGen, .begin) }
  let s5 : St := { s4 with go := some (s2.nextGen, .running), active := s4.active + 1,
                           invocations := s4.invocations + 1 }
  have e1 : exec s .startCas = some s1 := by simp [exec, hc', hrun, s1]
  have e2 : exec s1 .startLoadDone = some s2 := by simp [exec, s1, s2, hd]
  have e3 : exec s2 .startStoreRun = some s3 := by simp [exec, s1, s2, s3, hsp]
  have e4 : exec s3 .startSpawn = some s4 := by simp [exec, s1, s2, s3, s4, hgo]
  have e5 : exec s4 .goBegin = some s5 := by simp [exec, s4, s5]
  refine ⟨s5, by simp only [runLabels, e1, e2, e3, e4, e5], rfl, ?_⟩
  show s.active + 1 = 1
  omega

/-! ### no waiter is left blocked -/

/-- how far generation `g` is from having its stop channel closed -/
def rank (s : St) (g : Nat) : Nat :=
  if g ∈ s.stopClosed then 0
  else if g ∈ s.tails then 1
  else match s.go with
    | some (g', pc) =>
      if g' = g then
        match pc with
        | .begin => 8 | .running => 7 | .returned _ => 6 | .dSetDone => 4 | .dCloseDone => 3
        | .sReset => 2 | .dReset => 2
      else 10
    | none => if s.spawnPending = some g then 9 else 10

/-- Whoever is responsible for closing the stop channel of a published, cancelled generation can
always take a step that brings the closing nearer (the function honours its context).  Hence a
caller waiting on the channel returned by Stop() is never blocked forever: at most 9 steps of
that generation's own threads remain. -/
theorem progress_step {s : St} (hi : Proofs.C12.Inv s) (g : Nat) (hpub : g < s.nextGen) (hc : g ∈ s.cancelled)
    (hopen : g ∉ s.stopClosed) :
    ∃ l s', exec s l = some s' ∧ rank s' g < rank s g ∧ g ∈ s'.cancelled ∧ g < s'.nextGen := by
  unfold Proofs.C12.Inv holders goPc goGen at hi
  obtain ⟨h1, h2, h3, h4, h5, h6, h7, h8, h9, h10, h11, h12, h13, h14, h15, h16, h17, h18, h19⟩ := hi
  by_cases ht : g ∈ s.tails
  · have hct : s.tails.contains g = true := by simpa using ht
    refine ⟨.goCloseStop g, { s with tails := s.tails.erase g, stopClosed := g :: s.stopClosed }, ?_, ?_, hc, hpub⟩
    · simp only [exec, hct, if_true]
    · simp [rank, hopen, ht]
  · rcases h13 g hpub with a | a | a | a
    · exact absurd a hopen
    · exact absurd a ht
    · -- the goroutine of g exists
      cases hgo : s.go with
      | none => rw [hgo] at a; cases a
      | some gp =>
        obtain ⟨g', pc⟩ := gp
        rw [hgo] at a
        simp only [Option.map_some, Option.some.injEq] at a
        subst a
        have hc' : s.cancelled.contains g' = true := by simpa using hc
        cases pc with
        | begin =>
          let t : St := { s with go := some (g', .running), active := s.active + 1, invocations := s.invocations + 1 }
          refine ⟨.goBegin, t, by simp only [exec, hgo, t], ?_, hc, hpub⟩
          simp [rank, hopen, ht, hgo, t]
        | running =>
          refine ⟨.goReturnCtx, { s with go := some (g', .returned false), active := s.active - 1 },
            by simp only [exec, hgo, hc', Bool.true_or, if_true], ?_, hc, hpub⟩
          simp [rank, hopen, ht, hgo]
        | returned own =>
          by_cases hcond : (!s.parent && s.cancelled.contains g' && !own) = true
          · refine ⟨.goDecide, { s with go := some (g', .sReset) }, by simp only [exec, hgo, hcond, if_true], ?_,
              hc, hpub⟩
            simp [rank, hopen, ht, hgo]
          · refine ⟨.goDecide, { s with go := some (g', .dSetDone) }, by simp only [exec, hgo, hcond]; rfl, ?_,
              hc, hpub⟩
            simp [rank, hopen, ht, hgo]
        | sReset =>
          refine ⟨.goReset, { s with go := none, isRunning := false, tails := g' :: s.tails },
            by simp only [exec, hgo], ?_, hc, hpub⟩
          simp [rank, hopen, ht, hgo]
        | dSetDone =>
          refine ⟨.goSetDone, { s with go := some (g', .dCloseDone), isDone := true }, by simp only [exec, hgo], ?_,
            hc, hpub⟩
          simp [rank, hopen, ht, hgo]
        | dCloseDone =>
          have hdc : s.doneClosed = false := by
            cases hx : s.doneClosed with
            | false => rfl
            | true => have := (h8 hx).2; rw [hgo] at this; simp at this
          refine ⟨.goCloseDone, { s with go := some (g', .dReset), doneClosed := true },
            by simp only [exec, hgo, hdc]; rfl, ?_, hc, hpub⟩
          simp [rank, hopen, ht, hgo]
        | dReset =>
          refine ⟨.goReset, { s with go := none, isRunning := false, tails := g' :: s.tails },
            by simp only [exec, hgo], ?_, hc, hpub⟩
          simp [rank, hopen, ht, hgo]
    · -- published but not yet spawned: the Start call can spawn it (nobody else holds the flag)
      have hgo : s.go = none := by
        cases hx : s.go with
        | none => rfl
        | some y => rw [hx, a] at h1; simp at h1; omega
      refine ⟨.startSpawn, { s with spawnPending := none, go := some (g, .begin) }, by simp only [exec, a, hgo], ?_,
        hc, hpub⟩
      simp [rank, hopen, ht, hgo, a]

/-! ### non-vacuity: a concrete interleaving (Start; Stop; the goroutine winds down; Start again) -/
example : (runLabels {} [.startBegin, .startCas, .startLoadDone, .startStoreRun, .startSpawn, .goBegin,
      .stopBegin, .stopLoadRun, .stopCancel 0, .goReturnCtx, .goDecide, .goReset, .goCloseStop 0,
      .startBegin, .startCas, .startLoadDone, .startStoreRun, .startSpawn, .goBegin]).map
      (fun s => (s.invocations, s.active, s.stopClosed, s.isRunning, s.isDone)) =
    some (2, 1, [0], true, false) := by decide

end PRV.Props.C12
