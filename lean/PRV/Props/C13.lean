import PRV.Model.Relay
import PRV.Gen.C13
import PRV.Props.C06
/-
C13 — Ending a session releases everything; resources stay bounded meanwhile.
Theorems about `Model/Session.lean` (destination cache) and `Model/Life.lean` (end of a session).
-/
namespace PRV.Props.C13
open PRV.Model PRV.Model.Session PRV.Model.Life

/-! ### the destination cache stays within its maximum -/

def bound (s : Sess) : Nat := max s.maxCached 1

theorem filter_key_lt (l : List Dest) (o : Dest) (h : o ∈ l) : (l.filter (fun x => decide (x.key ≠ o.key))).length + 1 ≤ l.length := by
  induction l with
  | nil => cases h
  | cons d rest ih =>
    simp only [List.mem_cons] at h
    have hle : (rest.filter (fun x => decide (x.key ≠ o.key))).length ≤ rest.length := List.length_filter_le _ _
    by_cases hk : d.key = o.key
    · have : List.filter (fun x => decide (x.key ≠ o.key)) (d :: rest) = List.filter (fun x => decide (x.key ≠ o.key)) rest := by
        simp [List.filter, hk]
      rw [this]; simp only [List.length_cons]; omega
    · have hne : o ≠ d := fun e => hk (by rw [e])
      rcases h with h | h
      · exact absurd h hne
      · have := ih h
        have e : List.filter (fun x => decide (x.key ≠ o.key)) (d :: rest) = d :: List.filter (fun x => decide (x.key ≠ o.key)) rest := by
          simp [List.filter, hk]
        rw [e]; simp only [List.length_cons]; omega

theorem fold_pick_mem (s : Sess) (l : List Dest) (acc : Dest × Bool) (all : List Dest)
    (hacc : acc.1 ∈ all) (hl : ∀ x ∈ l, x ∈ all) : (l.foldl (pickOlder s) acc).1 ∈ all := by
  induction l generalizing acc with
  | nil => exact hacc
  | cons x xs ih =>
    simp only [List.foldl]
    apply ih
    · unfold pickOlder
      split
      · exact hl x List.mem_cons_self
      · split
        · exact hacc
        · exact hacc
    · intro y hy; exact hl y (List.mem_cons_of_mem _ hy)

theorem oldest_mem (s : Sess) (o : Dest) (t : Bool) (h : oldest s = (some o, t)) : o ∈ s.dests := by
  unfold oldest at h
  cases hd : s.dests with
  | nil => simp [hd] at h
  | cons d rest =>
    simp only [hd, Prod.mk.injEq, Option.some.injEq] at h
    rw [← h.1]
    exact fold_pick_mem s rest (d, false) (d :: rest) List.mem_cons_self (fun x hx => List.mem_cons_of_mem _ hx)

theorem oldest_none (s : Sess) (t : Bool) (h : oldest s = (none, t)) : s.dests = [] := by
  unfold oldest at h
  cases hd : s.dests with
  | nil => rfl
  | cons d rest => simp [hd] at h

/-- eviction brings a full cache below its maximum -/
theorem evict_makes_room (s : Sess) (k : String × String) (h : s.dests.length ≤ bound s) :
    (evict s k).1.dests.length + 1 ≤ bound s ∨ ((evict s k).1.dests = [] ∧ s.maxCached = 0) := by
  unfold evict
  by_cases hfull : s.dests.length ≥ s.maxCached
  · simp only [hfull, if_true]
    cases ho : oldest s with
    | mk oo t =>
      cases oo with
      | none =>
        have hempty := oldest_none s t ho
        simp only
        by_cases hm : s.maxCached = 0
        · exact Or.inr ⟨hempty, hm⟩
        · left; rw [hempty]; simp only [List.length_nil, bound]; omega
      | some o =>
        left
        simp only
        have := filter_key_lt s.dests o (oldest_mem s o t ho)
        unfold bound at h ⊢
        omega
  · left
    simp only [hfull, if_false]
    unfold bound
    omega

theorem evict_maxCached (s : Sess) (k : String × String) : (evict s k).1.maxCached = s.maxCached := by
  unfold evict
  split
  · split <;> rfl
  · rfl

theorem acquire_le (s : Sess) (pool : String) (p : PoolCfg) (user : String) :
    (acquire s pool p user).1.dests.length ≤ s.dests.length ∧ (acquire s pool p user).1.maxCached = s.maxCached := by
  unfold acquire
  simp only
  cases findDest s (pool, user) with
  | some d => exact ⟨List.length_filter_le _ _, rfl⟩
  | none => exact ⟨by simp [setPool], by simp [setPool]⟩

/-- **the cache never exceeds its maximum**: a destination switch — to a new, a cached or the current
destination, successful or not — leaves at most `max maxCached 1` destination connections -/
theorem switch_keeps_cache_bounded (s : Sess) (pool : String) (cb : Option Nat) (cbN : Nat)
    (h : s.dests.length ≤ bound s) :
    (switchWith s pool cb cbN).1.dests.length ≤ bound s := by
  unfold switchWith
  simp only
  by_cases h1 : s.active = some (pool, "acct" ++ pool ++ ".w" ++ pool)
  · simp only [h1, if_true]; exact h
  · simp only [h1, if_false]
    cases hp : findPool s pool with
    | none => exact h
    | some p =>
      simp only
      by_cases hmm : (findDest s (pool, "acct" ++ pool ++ ".w" ++ pool)).isNone ∧ s.vr ∧ p.mask ≠ s.negMask
      · -- the pool grants another mask: its connection is closed again, the cache is untouched
        rw [if_pos hmm]
        simpa [setPool] using h
      rw [if_neg hmm]
      have hacq := acquire_le s pool p ("acct" ++ pool ++ ".w" ++ pool)
      cases hr : resend (acquire s pool p ("acct" ++ pool ++ ".w" ++ pool)).2.1 with
      | none =>
        show (acquire s pool p ("acct" ++ pool ++ ".w" ++ pool)).1.dests.length ≤ bound s
        omega
      | some msgs =>
        simp only
        have hb : bound (acquire s pool p ("acct" ++ pool ++ ".w" ++ pool)).1 = bound s := by unfold bound; rw [hacq.2]
        have hroom := evict_makes_room (acquire s pool p ("acct" ++ pool ++ ".w" ++ pool)).1 (pool, "acct" ++ pool ++ ".w" ++ pool)
          (by rw [hb]; omega)
        simp only [install]
        split
        · simp only [List.length_map]
          rcases hroom with hroom | ⟨he, _⟩
          · rw [hb] at hroom; omega
          · rw [he]; simp [bound]
        · simp only [List.length_append, List.length_cons, List.length_nil]
          rcases hroom with hroom | ⟨he, _⟩
          · rw [hb] at hroom; omega
          · rw [he]; simp only [List.length_nil, bound]; omega

/-- nothing but a switch adds a destination connection: the events of the mining phase replace
entries in place -/
theorem events_keep_cache_size (s : Sess) (d : Dest) : (setDest' s d).dests.length = s.dests.length := by
  simp [setDest']

/-! ### the end of a session -/

/-- **however it ends, nothing stays open**: the miner hanging up, the node shutting down, a failed
reconnect — each ends in `release`, which closes every pool connection the session holds and
leaves none -/
theorem end_releases_everything (l : Life) :
    (∀ k, l.phase ≠ .released k) →
    (l.phase = .relaying → (minerClose l).1.s.dests = [] ∧ ∀ d ∈ l.s.dests, Out.toPool d.pool d.conn "closed" ∈ (minerClose l).2) ∧
    ((shutdown l).1.s.dests = [] ∧ ∀ d ∈ l.s.dests, Out.toPool d.pool d.conn "closed" ∈ (shutdown l).2) := by
  intro hnr
  constructor
  · intro hrel
    unfold minerClose
    simp only [hrel]
    exact PRV.Props.C06.release_closes_everything l "source" []
  · unfold shutdown
    cases hp : l.phase with
    | released k => exact absurd hp (hnr k)
    | relaying => exact PRV.Props.C06.release_closes_everything l "shutdown" []
    | waiting u => exact PRV.Props.C06.release_closes_everything l "shutdown" []

/-- once released, nothing happens any more: no event dials, reconnects or reopens anything -/
theorem released_is_final (l : Life) (k : String) (h : l.phase = .released k) :
    reconnect l = (l, []) ∧ minerClose l = (l, []) ∧ shutdown l = (l, []) ∧ ∀ p, poolClose l p = (l, []) := by
  refine ⟨?_, ?_, ?_, ?_⟩
  · unfold reconnect; simp [h]
  · unfold minerClose; simp [h]
  · unfold shutdown; simp [h]
  · intro p; unfold poolClose; simp [h]

/-! ### a single relay loop (Model/Relay.lean) -/

section Relay
open PRV.Model.Relay

/-- no pipe the proxy has let go of is still running -/
def Inv (r : Relay) : Prop := ∀ p ∈ r.old, p.s2d ≠ .running ∧ p.d2s ≠ .running

theorem stop_not_running (d : Dir) : d.stop ≠ .running := by cases d <;> simp [Dir.stop]

theorem step_inv (r : Relay) (op : Op) (h : Inv r) : Inv (step true r op) := by
  cases op with
  | runStart =>
    intro p hp
    simp only [step] at hp
    rcases List.mem_append.mp hp with hp | hp
    · cases hc : r.cur with
      | none => simp [hc] at hp
      | some q =>
        simp only [hc, if_true, List.mem_singleton] at hp
        subst hp
        exact ⟨stop_not_running _, stop_not_running _⟩
    · exact h p hp
  | destError => exact h
  | sourceError => exact h
  | renew =>
    cases hc : r.cur with
    | none => simpa [step, hc] using h
    | some q =>
      intro p hp
      simp only [step, hc, List.mem_cons] at hp
      rcases hp with hp | hp
      · subst hp; exact ⟨stop_not_running _, stop_not_running _⟩
      · exact h p hp
  | setDest => exact h
  | runExit => exact h

theorem reachable_inv (ops : List Op) : Inv (run true ops) := by
  have : ∀ (r : Relay), Inv r → Inv (ops.foldl (step true) r) := by
    induction ops with
    | nil => intro r h; exact h
    | cons o os ih => intro r h; exact ih _ (step_inv r o h)
  exact this {} (by intro p hp; simp at hp)

/-- **a single relay loop**: whatever sequence of starts, failures, reconnects, changes of destination and exits a
session goes through, at most one goroutine reads the miner's connection and at most one relays from a pool -/
theorem single_relay_loop (ops : List Op) :
    sourceReaders (run true ops) ≤ 1 ∧ destReaders (run true ops) ≤ 1 := by
  have h := reachable_inv ops
  generalize run true ops = r at h
  have hs : (r.old.filter fun p => p.s2d = .running) = [] := by
    apply List.filter_eq_nil_iff.mpr; intro p hp; simpa using (h p hp).1
  have hd : (r.old.filter fun p => p.d2s = .running) = [] := by
    apply List.filter_eq_nil_iff.mpr; intro p hp; simpa using (h p hp).2
  unfold sourceReaders destReaders pipes
  simp only [List.filter_append, hs, hd, List.append_nil]
  constructor <;> (cases r.cur <;> simp [List.filter] <;> split <;> simp)

/-- before commit 900d8c3: `Run`, started again after it had exited with a destination error and the scheduler had
changed back to the primary destination, left the old pipe reading the miner's connection next to the new one -/
theorem run_restart_two_readers_before_fix :
    sourceReaders (run false [.runStart, .destError, .runExit, .setDest, .runStart]) = 2 := by decide

example : sourceReaders (run true [.runStart, .destError, .runExit, .setDest, .runStart]) = 1 := by decide


end Relay

/-! ### the order in the source (regenerated from `Scheduler.onDisconnect` on every run) -/

/-- **the session stops being eligible before its tasks are told**: `onDisconnect` raises the disconnecting flag, then walks
the queue telling every task (`OnDisconnect`, `OnEnd`), then drops the task in service — a contract that reacts to the
notification by asking for a replacement is never handed the ending session -/
theorem source_disconnect_flag_first :
    PRV.Gen.C13.onDisconnectCalls.idxOf "isDisconnecting.Store" < PRV.Gen.C13.onDisconnectCalls.idxOf "tasks.Range" ∧
    PRV.Gen.C13.onDisconnectCalls.idxOf "tasks.Range" < PRV.Gen.C13.onDisconnectCalls.idxOf "tasks.UnlockAndRemove" ∧
    "tasks.UnlockAndRemove" ∈ PRV.Gen.C13.onDisconnectCalls ∧
    "OnDisconnect" ∈ PRV.Gen.C13.onDisconnectNotifies ∧ "OnEnd" ∈ PRV.Gen.C13.onDisconnectNotifies := by decide


/-- however `Scheduler.Run` ends it stops the relay task it started — the clean-up is a closure, so it sees the task that was
created *after* the `defer` statement (a deferred call would have been handed the nil of that moment): a session that the
scheduler ends while `Proxy.Run` is still alive (a failed change of destination) is torn down, pool connections included -/
theorem source_scheduler_stops_its_proxy_task : PRV.Gen.C13.schedulerRunDefers = ["closure: proxyTask.Stop"] := by decide

end PRV.Props.C13
