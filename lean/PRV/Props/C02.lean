import PRV.Proofs.Session
/-
C02 — Each share reaches only the pool that issued its job, under that pool's name.
Theorems about `submit` of `Model/Session.lean`, for every session state (hence every history of
switches, notifications and earlier submits leading to it), every share and every
proof-of-work oracle.
-/
namespace PRV.Props.C02
open PRV.Model PRV.Model.Session PRV.Proofs.Session

variable (pow : Pow)

def isToPool : Out → Bool | .toPool _ _ _ => true | _ => false
def isToMiner : Out → Bool | .toMiner _ => true | _ => false

/-- **At most one pool connection, exactly one reply.**  A submit is forwarded to at most one pool
connection and the miner gets exactly one reply, carrying the request id. -/
theorem one_forward_one_reply (s : Sess) (id jobId en2 nt no vb nm : String) (share : List Nat) :
    ((submit pow s id jobId en2 nt no vb nm share).2.filter isToPool).length ≤ 1 ∧
    (activeDest s ≠ none → ∃ r, submitSync pow s jobId share nm = some r ∧
      (submit pow s id jobId en2 nt no vb nm share).2.filter isToMiner = [.toMiner (replyLine id r.reply)]) := by
  unfold submit
  cases hs : submitSync pow s jobId share nm with
  | none =>
    refine ⟨by simp, ?_⟩
    intro ha
    unfold submitSync at hs
    cases h : activeDest s with
    | none => exact absurd h ha
    | some a => rw [h] at hs; cases hs
  | some r =>
    simp only
    cases hd : r.fwd.bind (findDest r.s) with
    | none => exact ⟨by simp [List.filter, isToPool], fun _ => ⟨r, rfl, by simp [List.filter, isToMiner]⟩⟩
    | some d =>
      simp only
      cases hc : r.cbFired with
      | none => exact ⟨by simp [List.filter, isToPool], fun _ => ⟨r, rfl, by simp [List.filter, isToMiner]⟩⟩
      | some k => exact ⟨by simp [List.filter, isToPool], fun _ => ⟨r, rfl, by simp [List.filter, isToMiner]⟩⟩

/-- **Accepted exactly when it should be.**  The reply says accepted exactly when the active
destination's job memory accepts the share, or — the job being unknown there, or its difficulty
not met (a colliding job id) — some cached destination's does. -/
theorem accepted_iff (s : Sess) (a : Dest) (jobId : String) (share : List Nat) (nm : String) (r : SubmitRes)
    (ha : activeDest s = some a) (h : submitSync pow s jobId share nm = some r) :
    (r.reply = .ok ↔ r.accepted = true) ∧
    (r.accepted = true ↔
      ((validate pow a jobId share nm s.now).2.1 = .ok ∨
       (((validate pow a jobId share nm s.now).2.1 = .jobNotFound ∨ (validate pow a jobId share nm s.now).2.1 = .lowDiff) ∧
        (fallback pow jobId share nm (setDest' s (validate pow a jobId share nm s.now).1).now
            (setDest' s (validate pow a jobId share nm s.now).1).dests).2.isSome))) := by
  unfold submitSync at h
  rw [ha] at h
  simp only [Option.some.injEq] at h
  subst h
  have hiff := route_accepted_iff pow s a jobId share nm
  unfold book
  have hfirst : (route pow s a jobId share nm).2.2.2 = (validate pow a jobId share nm s.now).2.1 := by
    unfold route; simp only; split_ifs <;> (try split) <;> rfl
  cases hacc : (route pow s a jobId share nm).2.1 with
  | true =>
    simp only [if_true]
    refine ⟨by simp, ?_⟩
    constructor
    · intro _; exact hiff.mp hacc
    · intro _; trivial
  | false =>
    simp only [Bool.false_eq_true, if_false]
    have hno : ¬ ((validate pow a jobId share nm s.now).2.1 = .ok ∨
       (((validate pow a jobId share nm s.now).2.1 = .jobNotFound ∨ (validate pow a jobId share nm s.now).2.1 = .lowDiff) ∧
        (fallback pow jobId share nm (setDest' s (validate pow a jobId share nm s.now).1).now
            (setDest' s (validate pow a jobId share nm s.now).1).dests).2.isSome)) := by
      intro h; have := hiff.mpr h; rw [hacc] at this; cases this
    refine ⟨?_, ?_⟩
    · constructor
      · intro hr
        rw [hfirst] at hr
        exact absurd (Or.inl hr) hno
      · intro x; exact absurd x (by simp)
    · constructor
      · intro x; exact absurd x (by simp)
      · intro h; exact absurd h hno

/-- **To the pool whose job it solves.**  An accepted share is forwarded either to the active
destination, whose job memory accepted it, or to a cached destination that is in the destination
map, knows the job id and whose job memory accepted the share. -/
theorem accepted_goes_to_job_owner (s : Sess) (a : Dest) (jobId : String) (share : List Nat) (nm : String)
    (r : SubmitRes) (ha : activeDest s = some a) (h : submitSync pow s jobId share nm = some r)
    (hacc : r.accepted = true) :
    (r.fwd = some a.key ∧ ((validate pow a jobId share nm s.now).2.1 = .ok ∨
        ∃ d ∈ (setDest' s (validate pow a jobId share nm s.now).1).dests, d.key = a.key ∧
          d.v.hasJob jobId = true ∧ (validate pow d jobId share nm s.now).2.1 = .ok)) ∨
    (∃ d ∈ (setDest' s (validate pow a jobId share nm s.now).1).dests, r.fwd = some d.key ∧
        d.v.hasJob jobId = true ∧ (validate pow d jobId share nm s.now).2.1 = .ok) := by
  unfold submitSync at h
  rw [ha] at h
  simp only [Option.some.injEq] at h
  subst h
  unfold book at hacc ⊢
  cases hr : (route pow s a jobId share nm).2.1 with
  | false => rw [hr] at hacc; simp at hacc
  | true =>
    simp only [hr, if_true]
    rcases route_target pow s a jobId share nm with ht | ⟨_, hf⟩
    · -- target is the active destination: accepted by the first validation or by the fallback pass
      have hiff := (route_accepted_iff pow s a jobId share nm).mp hr
      rcases hiff with h1 | ⟨h2', h2⟩
      · exact Or.inl ⟨by rw [ht], Or.inl h1⟩
      · cases hfb : (fallback pow jobId share nm (setDest' s (validate pow a jobId share nm s.now).1).now
            (setDest' s (validate pow a jobId share nm s.now).1).dests).2 with
        | none => rw [hfb] at h2; cases h2
        | some k =>
          obtain ⟨d, hd, hk, hj, hv⟩ := fallback_target pow jobId share nm _ _ k hfb
          -- route's target equals k in this branch
          have hk' : (route pow s a jobId share nm).2.2.1 = k := by
            unfold route; simp only
            split_ifs with c1 c2
            · exfalso; rcases h2' with x | x <;> simp_all
            · simp only [hfb]
          refine Or.inl ⟨by rw [ht], Or.inr ⟨d, hd, by rw [hk, ← hk', ht], hj, ?_⟩⟩
          exact hv
    · obtain ⟨d, hd, hk, hj, hv⟩ := fallback_target pow jobId share nm _ _ _ hf
      exact Or.inr ⟨d, hd, by rw [hk], hj, hv⟩

/-- **Under that pool's name.**  The forwarded share carries the user name authorised on the
connection it is forwarded to (never the name of the destination the miner has since been switched
to, and never the miner's own name). -/
theorem forwarded_under_own_name (s : Sess) (id jobId en2 nt no vb nm : String) (share : List Nat)
    (p : String) (c : Nat) (line : String)
    (h : Out.toPool p c line ∈ (submit pow s id jobId en2 nt no vb nm share).2) :
    ∃ r d, submitSync pow s jobId share nm = some r ∧ r.fwd.bind (findDest r.s) = some d ∧ d.pool = p ∧ d.conn = c ∧
      line = s!"submit id={id} user={d.user} job={jobId} en2={en2} ntime={nt} nonce={no} vbits={vb}" := by
  unfold submit at h
  cases hs : submitSync pow s jobId share nm with
  | none => rw [hs] at h; simp at h
  | some r =>
    rw [hs] at h
    simp only at h
    cases hd : r.fwd.bind (findDest r.s) with
    | none => rw [hd] at h; simp at h
    | some d =>
      rw [hd] at h
      simp only at h
      refine ⟨r, d, rfl, hd, ?_⟩
      cases hc : r.cbFired with
      | none => rw [hc] at h; simp at h; exact ⟨h.1.symm, h.2.1.symm, h.2.2⟩
      | some k => rw [hc] at h; simp at h; exact ⟨h.1.symm, h.2.1.symm, h.2.2⟩

/-! ### whole histories of submits -/

/-- one submit as the miner sends it: request id, job id, extranonce2, ntime, nonce, version bits,
worker name, and the proof-of-work input -/
structure SubmitMsg where
  id : String
  jobId : String
  en2 : String
  nt : String
  no : String
  vb : String
  nm : String
  share : List Nat

/-- a whole history of submits, each run to quiescence, outputs in order -/
def submitMany (pow : Pow) : Sess → List SubmitMsg → Sess × List Out
  | s, [] => (s, [])
  | s, m :: ms =>
    let r := submit pow s m.id m.jobId m.en2 m.nt m.no m.vb m.nm m.share
    let rr := submitMany pow r.1 ms
    (rr.1, r.2 ++ rr.2)

theorem one_reply_at_most (s : Sess) (id jobId en2 nt no vb nm : String) (share : List Nat) :
    ((submit pow s id jobId en2 nt no vb nm share).2.filter isToMiner).length ≤ 1 := by
  cases ha : activeDest s with
  | none =>
    have : submitSync pow s jobId share nm = none := by unfold submitSync; rw [ha]
    unfold submit; rw [this]; simp
  | some a =>
    obtain ⟨r, _, h⟩ := (one_forward_one_reply pow s id jobId en2 nt no vb nm share).2 (by rw [ha]; simp)
    rw [h]; simp

/-- **No share is ever duplicated towards a pool, no reply is ever duplicated towards the miner**,
over any history of submits of any length: at most one forwarded line and at most one reply per
submit the miner sent. -/
theorem history_forwards_and_replies_bounded (s : Sess) (ms : List SubmitMsg) :
    ((submitMany pow s ms).2.filter isToPool).length ≤ ms.length ∧
    ((submitMany pow s ms).2.filter isToMiner).length ≤ ms.length := by
  induction ms generalizing s with
  | nil => simp [submitMany]
  | cons m ms ih =>
    unfold submitMany
    simp only [List.filter_append, List.length_append, List.length_cons]
    have a := (one_forward_one_reply pow s m.id m.jobId m.en2 m.nt m.no m.vb m.nm m.share).1
    have b := one_reply_at_most pow s m.id m.jobId m.en2 m.nt m.no m.vb m.nm m.share
    have i := ih (submit pow s m.id m.jobId m.en2 m.nt m.no m.vb m.nm m.share).1
    constructor <;> omega

end PRV.Props.C02
