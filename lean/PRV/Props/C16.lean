import PRV.Model.Manager
import PRV.Model.ManagerStop
import PRV.Gen.C16
/-
C16 — The node watches exactly its own contracts.
Theorems about `Model/Manager.lean`, for every chain state and every event.
-/
namespace PRV.Props.C16
open PRV.Model.Manager

theorem add_mem (s : St) (a : String) : a ∈ (add s a).watched := by
  unfold add
  by_cases h : a ∈ s.watched
  · simp [h]
  · simp [h]

theorem add_keeps (s : St) (a b : String) (h : b ∈ s.watched) : b ∈ (add s a).watched := by
  unfold add
  split
  · exact h
  · simp [h]

theorem add_only (s : St) (a b : String) (h : b ∈ (add s a).watched) : b ∈ s.watched ∨ b = a := by
  unfold add at h
  split at h
  · exact Or.inl h
  · simp only [List.mem_append, List.mem_singleton] at h; exact h

theorem add_chain (s : St) (a : String) : (add s a).chain = s.chain ∧ (add s a).me = s.me := by
  unfold add; split <;> exact ⟨rfl, rfl⟩

/-! ### start-up -/

theorem scan_fold (me : String) (l : List Contract) (s : St) (hme : s.me = me) :
    ∀ b, b ∈ (l.foldl (fun s c => if ours s.me c then add s c.addr else s) s).watched ↔
      (b ∈ s.watched ∨ ∃ c ∈ l, ours me c = true ∧ c.addr = b) := by
  induction l generalizing s with
  | nil => intro b; simp
  | cons c rest ih =>
    intro b
    simp only [List.foldl]
    by_cases ho : ours s.me c = true
    · simp only [ho, if_true]
      rw [ih (add s c.addr) (by rw [(add_chain s c.addr).2, hme])]
      constructor
      · rintro (h | ⟨x, hx, hox, hxb⟩)
        · rcases add_only s c.addr b h with h | h
          · exact Or.inl h
          · exact Or.inr ⟨c, List.mem_cons_self, by rw [← hme]; exact ho, h.symm⟩
        · exact Or.inr ⟨x, List.mem_cons_of_mem _ hx, hox, hxb⟩
      · rintro (h | ⟨x, hx, hox, hxb⟩)
        · exact Or.inl (add_keeps s c.addr b h)
        · simp only [List.mem_cons] at hx
          rcases hx with hx | hx
          · left; rw [← hxb, hx]; exact add_mem s c.addr
          · exact Or.inr ⟨x, hx, hox, hxb⟩
    · simp only [ho, Bool.false_eq_true, if_false]
      rw [ih s hme]
      constructor
      · rintro (h | ⟨x, hx, hox, hxb⟩)
        · exact Or.inl h
        · exact Or.inr ⟨x, List.mem_cons_of_mem _ hx, hox, hxb⟩
      · rintro (h | ⟨x, hx, hox, hxb⟩)
        · exact Or.inl h
        · simp only [List.mem_cons] at hx
          rcases hx with hx | hx
          · exfalso; rw [hx, ← hme] at hox; exact ho hox
          · exact Or.inr ⟨x, hx, hox, hxb⟩

/-- **from every chain state the node may be started in**: after start-up (and after a restart)
the node watches exactly the contracts it sells plus those currently purchased with its wallet as
buyer or validator -/
theorem startup_watches_exactly_own (s : St) (b : String) :
    b ∈ (step s .restart).watched ↔ b ∈ shouldWatch s := by
  show b ∈ (scan { s with watched := [] }).watched ↔ _
  unfold scan
  rw [scan_fold s.me s.chain { s with watched := [] } rfl]
  simp only [List.not_mem_nil, false_or, shouldWatch, List.mem_map, List.mem_filter]
  constructor
  · rintro ⟨c, hc, ho, hb⟩; exact ⟨c, ⟨hc, ho⟩, hb⟩
  · rintro ⟨c, ⟨hc, ho⟩, hb⟩; exact ⟨c, hc, ho, hb⟩

/-! ### picked up without a restart -/

theorem find_setChain (s : St) (c : Contract) : find (setChain s c) c.addr = some c ∨ ∃ c', find (setChain s c) c.addr = some c' ∧ c'.addr = c.addr := by
  unfold find setChain
  by_cases h : s.chain.any (·.addr = c.addr) = true
  · right
    simp only [h, if_true]
    cases hf : List.find? (fun x => decide (x.addr = c.addr)) (s.chain.map fun x => if x.addr = c.addr then c else x) with
    | some c' => exact ⟨c', rfl, by simpa using List.find?_some hf⟩
    | none =>
      exfalso
      rw [List.find?_eq_none] at hf
      rw [List.any_eq_true] at h
      obtain ⟨x, hx, hxa⟩ := h
      have := hf (if x.addr = c.addr then c else x) (List.mem_map.mpr ⟨x, hx, rfl⟩)
      simp only [decide_eq_true_eq] at hxa
      simp [hxa] at this
  · right
    simp only [h, Bool.false_eq_true, if_false]
    rw [List.find?_append]
    have : List.find? (fun x => decide (x.addr = c.addr)) s.chain = none := by
      rw [List.find?_eq_none]
      intro x hx hxa
      exact h (List.any_eq_true.mpr ⟨x, hx, hxa⟩)
    simp [this]

/-- **a purchase with the node's wallet as buyer or validator is picked up** (also a contract that was
watched before, ended and was released: the same contract is picked up again) -/
theorem purchase_picked_up (s : St) (a buyer validator : String) (c : Contract)
    (hc : find s a = some c) (hmine : buyer = s.me ∨ validator = s.me) :
    a ∈ (step s (.purchased a buyer validator)).watched := by
  simp only [step, hc]
  have : oursAsBuyer s.me { c with buyer := buyer, validator := validator, running := true } = true := by
    unfold oursAsBuyer view
    rcases hmine with h | h <;> simp [h]
  simp only [this, if_true]
  exact add_mem _ a

/-- a purchase by others leaves the watched set alone -/
theorem foreign_purchase_ignored (s : St) (a buyer validator : String)
    (hb : buyer ≠ s.me) (hv : validator ≠ s.me) :
    (step s (.purchased a buyer validator)).watched = s.watched := by
  simp only [step]
  cases hc : find s a with
  | none => rfl
  | some c =>
    simp only
    have : oursAsBuyer s.me { c with buyer := buyer, validator := validator, running := true } = false := by
      unfold oursAsBuyer view
      simp [hb, hv]
    simp only [this, Bool.false_eq_true, if_false]
    unfold setChain
    split <;> rfl

/-- **released**: when the controller of an ended purchase returns the contract is no longer watched -/
theorem ended_released (s : St) (a : String) : a ∉ (step s (.ctlExit a)).watched := by
  simp [step]

/-- a returning controller releases only its own contract -/
theorem exit_releases_only_own (s : St) (a b : String) (h : b ≠ a) :
    b ∈ (step s (.ctlExit a)).watched ↔ b ∈ s.watched := by
  simp [step, h]

/-- closing and the delete flag never change what is watched (the controllers see them, not the manager) -/
theorem close_and_flag_keep_watched (s : St) (a : String) :
    (step s (.closed a)).watched = s.watched ∧ (step s (.deleteFlag a)).watched = s.watched := by
  refine ⟨?_, rfl⟩
  simp only [step]
  cases find s a with
  | none => rfl
  | some c => simp only; unfold setChain; split <;> rfl

/-! ### the corner that does not hold (known finding, replayed on the real ContractManager) -/

def raceStart : St :=
  { me := "me", chain := [{ addr := "c1", seller := "o1" }], watched := [] }

/-- **a re-purchase handled before the ended purchase's controller has returned is lost**: after
purchase, close, re-purchase and the return of the old controller, the contract is purchased with the
node's wallet as validator and is not watched -/
theorem repurchase_before_exit_is_lost :
    let s := run raceStart [.start, .purchased "c1" "o2" "me", .closed "c1", .purchased "c1" "o2" "me", .ctlExit "c1"]
    "c1" ∈ shouldWatch s ∧ "c1" ∉ s.watched := by decide

/-- … while in the orderly order (the old controller returns first) it is watched again -/
theorem repurchase_after_exit_is_watched :
    let s := run raceStart [.start, .purchased "c1" "o2" "me", .closed "c1", .ctlExit "c1", .purchased "c1" "o2" "me"]
    "c1" ∈ shouldWatch s ∧ "c1" ∈ s.watched := by decide


/-! ### a manager that stops, stops its contracts: how `Run` ends (regenerated) -/

section stop
open PRV.Model.ManagerStop

/-- the contracts run under a context `Run` derives for them, and the deferred function cancels it before it waits -/
theorem source_run_stops_before_waiting :
    PRV.Gen.C16.runFirstStmt = "ctx, cancel := context.WithCancel(ctx)" ∧
    PRV.Gen.C16.runDeferCalls.map toStep = [.cancel, .other, .wait, .other] ∧
    PRV.Gen.C16.addContractCtx = ["Run:ctx", "handleContractCreated:ctx", "handleContractPurchased:ctx"] := by decide

/-- **`Run` returns, whatever made its body return and however many controllers are running** — so a manager that was
refused a call hands its error to the node's supervisor instead of hanging with nobody watching the clone factory -/
theorem run_returns_on_every_exit (s : PRV.Model.ManagerStop.St) :
    ∃ s', runDefer (PRV.Gen.C16.runDeferCalls.map toStep) s = some s' ∧ s'.running = 0 := by
  rw [source_run_stops_before_waiting.2.1]
  simp [runDefer, settle]

/-- waiting without stopping (the deferred function as it was before `8853e91`) never returns while a controller runs and
the node itself is not shutting down -/
theorem waiting_without_stopping_hangs (s : PRV.Model.ManagerStop.St) (hp : s.parentLive = true) (hc : s.ctxLive = true) (hr : 0 < s.running) :
    runDefer [.other, .wait, .other] s = none := by
  simp [runDefer, settle, hp, hc]; omega

/-- in general: a deferred function returns from every state iff it cancels before it first waits (or never waits) -/
theorem returns_iff_cancel_first (ds : List DStep) :
    (∀ s, (runDefer ds s).isSome) ↔ (∀ pre post, ds = pre ++ .wait :: post → .wait ∈ pre ∨ .cancel ∈ pre) := by
  constructor
  · intro h pre post hd
    by_cases hw : DStep.wait ∈ pre
    · exact Or.inl hw
    by_cases hc : DStep.cancel ∈ pre
    · exact Or.inr hc
    exfalso
    -- a state with a running controller and live contexts passes `pre` unchanged and blocks at the wait
    have key : ∀ (pre : List DStep), .wait ∉ pre → .cancel ∉ pre → ∀ rest (s : PRV.Model.ManagerStop.St),
        runDefer (pre ++ rest) s = runDefer rest s := by
      intro pre
      induction pre with
      | nil => intros; rfl
      | cons d r ih =>
        intro hw hc rest s
        cases d with
        | cancel => simp at hc
        | wait => simp at hw
        | other =>
          simp only [List.cons_append, runDefer]
          exact ih (fun x => hw (List.mem_cons_of_mem _ x)) (fun x => hc (List.mem_cons_of_mem _ x)) rest s
    have := h ({ running := 1 } : PRV.Model.ManagerStop.St)
    rw [hd, key pre hw hc] at this
    simp [runDefer, settle] at this
  · intro h
    -- after a cancel every wait passes; before any wait nothing blocks
    have after : ∀ (ds : List DStep) (s : PRV.Model.ManagerStop.St), s.ctxLive = false → (runDefer ds s).isSome := by
      intro ds
      induction ds with
      | nil => intros; rfl
      | cons d r ih =>
        intro s hs
        cases d with
        | cancel => simp only [runDefer]; apply ih; simp [settle]
        | wait =>
          have h0 : (settle s).running = 0 := by simp [settle, hs]
          simp only [runDefer, h0, if_true]; apply ih; simp [settle, hs]
        | other => simp only [runDefer]; exact ih s hs
    induction ds with
    | nil => intro s; rfl
    | cons d r ih =>
      intro s
      cases d with
      | cancel => simp only [runDefer]; apply after; simp [settle]
      | wait =>
        have := h [] r rfl
        simp at this
      | other =>
        simp only [runDefer]
        apply ih
        intro pre post hd
        have := h (.other :: pre) post (by simp [hd])
        simpa using this

end stop

end PRV.Props.C16
