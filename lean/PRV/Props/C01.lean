import PRV.Proofs.C01
/-
C01 — Share acceptance equals proof-of-work truth.

`validateDiff` (Model/Pow.lean) is the operation-by-operation model of the Go function, assembled
from the tables regenerated from its source (Gen/C01.lean).  `Spec/C01.lean` is the Bitcoin header
layout.  The theorems hold for every hash function `H` (SHA-256 is one instance), every job, every
extranonce, every submit and every difficulty.
-/
namespace PRV.Props.C01
open PRV.Base PRV.Model.Pow PRV.Spec.C01 PRV.Proofs.C01 PRV.Gen

/-- the Stratum messages carrying a job and a share: notify params
`[job id, prevhash, coinb1, coinb2, branches, version, nbits, ntime, clean]`, submit params
`[worker, job id, extranonce2, ntime, nonce (, version bits, anything further)]` -/
def toInput (en1 mask : String) (j : Job) (s : Share) (worker jobId jobNtime : String) (clean : JVal)
    (extra : List String := []) : Input :=
  { en1 := en1
    mask := mask
    job := [.str jobId, .str j.prevHash, .str j.gen1, .str j.gen2, .arr j.branches, .str j.version, .str j.nbits,
            .str jobNtime, clean]
    submit := [worker, jobId, s.en2, s.ntime, s.nonce] ++ (match s.bits with | some b => b :: extra | none => []) }

/-! ### the regenerated description of the Go function is the one the proofs are about -/

/-- shape facts of single statements, regenerated from the source -/
theorem shape_facts :
    C01.merkleInit = "sha256d(decode(gen))" ∧
    C01.merkleStep = "merkle_root=sha256d(append(merkle_root[:],decode(branch)...))" ∧
    C01.hashFrom = "header.Bytes()" ∧ C01.hashAsInt = "reverse(hash[:])" ∧ C01.quotient = "b/h" ∧
    C01.need = "new(big.Rat).SetFloat64(job_diff);need.Mul(need,new(big.Rat).SetInt(h))" ∧
    C01.verdict = "need.Cmp(new(big.Rat).SetInt(b)) <= 0" ∧
    C01.versionOperands = [("jv", "binary.LittleEndian.Uint32:decode_swap", "version"),
                           ("sv", "binary.LittleEndian.Uint32:decode_swap", "sver"),
                           ("vm", "binary.LittleEndian.Uint32:decode_swap", "version_mask")] ∧
    C01.vaasCall = "ValidateDiffFloat(job.extraNonce1,uint(job.extraNonce2Size),job.diff,mask,job.notify,msg)" := by
  decide

theorem d1_eq : d1 = D1 := rfl

/-! ### the header -/

theorem merkleRoot_eq (H : List Nat → List Nat) (en1 mask : String) (j : Job) (s : Share) (h : wellFormed en1 mask j s = true) :
    Model.Pow.merkleRoot H (hexDecode (j.gen1 ++ (en1 ++ (s.en2 ++ (j.gen2 ++ ""))))) j.branches = Spec.C01.merkleRoot H en1 j s := by
  unfold wellFormed at h
  simp only [Bool.and_eq_true] at h
  obtain ⟨⟨⟨⟨⟨⟨_, hg1⟩, he1⟩, he2⟩, _⟩, _⟩, _⟩ := h
  unfold Model.Pow.merkleRoot Spec.C01.merkleRoot
  rw [hexDecode_append _ _ hg1, hexDecode_append _ _ he1, hexDecode_append _ _ he2, String.append_empty]
  simp only [List.append_assoc]
  rfl

theorem versionField_eq (en1 mask : String) (j : Job) (s : Share) (w id nt : String) (c : JVal) (extra : List String)
    (h : wellFormed en1 mask j s = true) :
    versionField (toInput en1 mask j s w id nt c extra) = some (le4 (version mask j s).toNat) := by
  unfold wellFormed at h
  simp only [Bool.and_eq_true] at h
  obtain ⟨⟨⟨⟨⟨⟨⟨⟨⟨⟨_, hver⟩, _⟩, _⟩, _⟩, _⟩, _⟩, _⟩, _⟩, _⟩, hbits⟩ := h
  unfold versionField version
  cases hb : s.bits with
  | none =>
    have : ¬ ((toInput en1 mask j s w id nt c extra).submit.length > C01.sverMinLen) := by
      simp [toInput, hb, C01.sverMinLen]
    rw [if_neg this]
    have hv : getVar (toInput en1 mask j s w id nt c extra) "version" = some j.version := rfl
    simp only [C01.versionElse, field, hv, Option.map_some, decodeSwap_le4 _ hver, word_toNat _ hver]
  | some b =>
    rw [hb] at hbits
    simp only [Bool.and_eq_true] at hbits
    have : (toInput en1 mask j s w id nt c extra).submit.length > C01.sverMinLen := by
      simp [toInput, hb, C01.sverMinLen]
    rw [if_pos this]
    have o1 : operand (toInput en1 mask j s w id nt c extra) "jv" = some (word j.version) := by
      have : operand (toInput en1 mask j s w id nt c extra) "jv" = leU32 (decodeSwap j.version) := rfl
      rw [this]; exact leU32_decodeSwap _ hver
    have o2 : operand (toInput en1 mask j s w id nt c extra) "vm" = some (word mask) := by
      have : operand (toInput en1 mask j s w id nt c extra) "vm" = leU32 (decodeSwap mask) := rfl
      rw [this]; exact leU32_decodeSwap _ hbits.2
    have o3 : operand (toInput en1 mask j s w id nt c extra) "sv" = some (word b) := by
      have : getVar (toInput en1 mask j s w id nt c extra) "sver" = some b := by
        simp [getVar, C01.en1Name, C01.maskName, C01.jobParam, C01.submitParam, List.lookup, toInput, hb]
      have e : operand (toInput en1 mask j s w id nt c extra) "sv" =
          (getVar (toInput en1 mask j s w id nt c extra) "sver").bind fun s => leU32 (decodeSwap s) := rfl
      rw [e, this]
      exact leU32_decodeSwap _ hbits.1
    have a0 : C01.mixArgs[0]! = "jv" := rfl
    have a1 : C01.mixArgs[1]! = "vm" := rfl
    have a2 : C01.mixArgs[2]! = "sv" := rfl
    rw [a0, a1, a2, o1, o2, o3]
    rfl

/-- **The header the code hashes is the block header.**  On well-formed input the bytes assembled
by the (regenerated) model are exactly version ‖ prevhash ‖ merkle root ‖ ntime ‖ nbits ‖ nonce in
the Bitcoin layout. -/
theorem header_eq_spec (H : List Nat → List Nat) (en1 mask : String) (j : Job) (s : Share) (w id nt : String) (c : JVal) (extra : List String)
    (h : wellFormed en1 mask j s = true) :
    Model.Pow.header H (toInput en1 mask j s w id nt c extra) = some (Spec.C01.header H en1 mask j s) := by
  have hwf := h
  unfold wellFormed at h
  simp only [Bool.and_eq_true] at h
  obtain ⟨⟨⟨⟨⟨⟨⟨⟨⟨⟨hprev, _⟩, hnbits⟩, hntime⟩, hnonce⟩, _⟩, _⟩, _⟩, _⟩, _⟩, _⟩ := h
  unfold Model.Pow.header
  have s2 : (toInput en1 mask j s w id nt c extra).submit[2]? = some s.en2 := by simp [toInput]
  have s3 : (toInput en1 mask j s w id nt c extra).submit[3]? = some s.ntime := by simp [toInput]
  have s4 : (toInput en1 mask j s w id nt c extra).submit[4]? = some s.nonce := by simp [toInput]
  rw [s2, s3, s4]
  have g1 : getVar (toInput en1 mask j s w id nt c extra) "gen1" = some j.gen1 := rfl
  have g2 : getVar (toInput en1 mask j s w id nt c extra) "en1" = some en1 := rfl
  have g3 : getVar (toInput en1 mask j s w id nt c extra) "en2" = some s.en2 := by
    simp [getVar, C01.en1Name, C01.maskName, C01.jobParam, C01.submitParam, List.lookup, toInput]
  have g4 : getVar (toInput en1 mask j s w id nt c extra) "gen2" = some j.gen2 := rfl
  have g5 : getVar (toInput en1 mask j s w id nt c extra) "prev_hash" = some j.prevHash := rfl
  have g6 : getVar (toInput en1 mask j s w id nt c extra) "ntime" = some s.ntime := by
    simp [getVar, C01.en1Name, C01.maskName, C01.jobParam, C01.submitParam, List.lookup, toInput]
  have g7 : getVar (toInput en1 mask j s w id nt c extra) "nbits" = some j.nbits := rfl
  have g8 : getVar (toInput en1 mask j s w id nt c extra) "nonce" = some s.nonce := by
    simp [getVar, C01.en1Name, C01.maskName, C01.jobParam, C01.submitParam, List.lookup, toInput]
  have hcat : concatVars (toInput en1 mask j s w id nt c extra) C01.genOrder =
      some (j.gen1 ++ (en1 ++ (s.en2 ++ (j.gen2 ++ "")))) := by
    simp only [C01.genOrder, concatVars, g1, g2, g3, g4]
  have hbr : branchesOf (toInput en1 mask j s w id nt c extra) = j.branches := rfl
  simp only [hcat]
  rw [hbr, merkleRoot_eq H en1 mask j s hwf, versionField_eq en1 mask j s w id nt c extra hwf]
  have hp := (hexN_bytes 32 _ hprev).1
  simp only [C01.headerParts, catFields, field, g5, g6, g7, g8, Option.map_some, Option.bind_some,
    swapWords_eq _ (by omega : (hexDecode j.prevHash).length % 4 = 0),
    decodeSwap_le4 _ hntime, decodeSwap_le4 _ hnbits, decodeSwap_le4 _ hnonce, if_true]
  simp [Spec.C01.header]

/-- the header has 80 bytes -/
theorem header_len (H : List Nat → List Nat) (hH : ∀ x, (H x).length = 32) (en1 mask : String) (j : Job) (s : Share)
    (h : wellFormed en1 mask j s = true) : (Spec.C01.header H en1 mask j s).length = 80 := by
  have hroot : (Spec.C01.merkleRoot H en1 j s).length = 32 := by
    unfold Spec.C01.merkleRoot
    have : ∀ (bs : List String) (r : List Nat), r.length = 32 →
        (bs.foldl (fun r b => hh H (r ++ hexDecode b)) r).length = 32 := by
      intro bs
      induction bs with
      | nil => intro r hr; exact hr
      | cons b rest ih => intro r _; exact ih _ (hH _)
    exact this _ _ (hH _)
  unfold wellFormed at h
  simp only [Bool.and_eq_true] at h
  obtain ⟨⟨⟨⟨⟨⟨⟨⟨⟨⟨hprev, _⟩, _⟩, _⟩, _⟩, _⟩, _⟩, _⟩, _⟩, _⟩, _⟩ := h
  have hp := (hexN_bytes 32 _ hprev).1
  have := swap32_length (hexDecode j.prevHash) (by omega)
  simp only [Spec.C01.header, List.length_append, le4_length, hroot, this, hp]

/-! ### the verdict -/

/-- **What the code returns.**  For well-formed input whose header hash is not zero, the Go function
reports ⌊D1 / hash⌋ (its low 64 bits) and says "meets" exactly when `d · hash ≤ D1` for the exact
value `d` of the job difficulty; a non-finite difficulty is never met. -/
theorem validateDiff_eq_spec (H : List Nat → List Nat) (en1 mask : String) (j : Job) (s : Share) (w id nt : String) (c : JVal) (extra : List String)
    (d : Option Rat) (h : wellFormed en1 mask j s = true) (hz : shareHash H en1 mask j s ≠ 0) :
    validateDiff H (toInput en1 mask j s w id nt c extra) d =
      .ok (shareDiff H en1 mask j s % 2 ^ 64)
          (match d with | none => false | some d => decide (d * (shareHash H en1 mask j s : Rat) ≤ (D1 : Rat))) := by
  unfold validateDiff
  rw [header_eq_spec H en1 mask j s w id nt c extra h]
  have : leNat (sha256d H (Spec.C01.header H en1 mask j s)) = shareHash H en1 mask j s := by
    rw [leNat_eq]; rfl
  simp only [this]
  rw [if_neg hz]
  cases d <;> rfl

/-- **Accepted iff the proof of work meets the difficulty in force.** -/
theorem accept_iff_meets (H : List Nat → List Nat) (en1 mask : String) (j : Job) (s : Share) (w id nt : String) (c : JVal) (extra : List String)
    (d : Rat) (h : wellFormed en1 mask j s = true) (hz : shareHash H en1 mask j s ≠ 0) :
    (∃ t, validateDiff H (toInput en1 mask j s w id nt c extra) (some d) = .ok t true) ↔ meets H en1 mask j s d := by
  rw [validateDiff_eq_spec H en1 mask j s w id nt c extra (some d) h hz]
  unfold meets
  constructor
  · rintro ⟨t, ht⟩
    simp only [Res.ok.injEq, decide_eq_true_eq] at ht
    exact ht.2
  · intro hm
    exact ⟨shareDiff H en1 mask j s % 2 ^ 64, by simp [hm]⟩

/-- for an integer difficulty, "meets" is the comparison of the reported (floored) share difficulty
with it, as long as that difficulty fits 64 bits: boundary `share difficulty = d` is accepted,
`d = share difficulty + 1` is not -/
theorem meets_integer (H : List Nat → List Nat) (en1 mask : String) (j : Job) (s : Share) (d : Nat)
    (hz : shareHash H en1 mask j s ≠ 0) :
    meets H en1 mask j s (d : Rat) ↔ d ≤ shareDiff H en1 mask j s := by
  unfold meets shareDiff
  have hpos : 0 < shareHash H en1 mask j s := Nat.pos_of_ne_zero hz
  rw [Nat.le_div_iff_mul_le hpos]
  rw [← Rat.natCast_mul, Rat.natCast_le_natCast]

/-! ### nothing else the miner sends influences the verdict -/

/-- the worker name, the job id text, the notify's own ntime and clean flag, and parameters after
the version bits do not enter -/
theorem verdict_ignores_names (H : List Nat → List Nat) (en1 mask : String) (j : Job) (s : Share)
    (w id nt w' id' nt' : String) (c c' : JVal) (extra extra' : List String) (d : Option Rat) (h : wellFormed en1 mask j s = true) :
    validateDiff H (toInput en1 mask j s w id nt c extra) d = validateDiff H (toInput en1 mask j s w' id' nt' c' extra') d := by
  unfold validateDiff
  rw [header_eq_spec H en1 mask j s w id nt c extra h, header_eq_spec H en1 mask j s w' id' nt' c' extra' h]

/-- version bits outside the negotiated mask do not enter: two submits whose version bits agree
inside the mask hash the same header -/
theorem version_bits_outside_mask_ignored (mask : String) (j : Job) (s : Share) (b b' : String)
    (hb : word b &&& word mask = word b' &&& word mask) :
    version mask j { s with bits := some b } = version mask j { s with bits := some b' } := by
  simp only [version, hb]

/-- a submit without version bits is a submit whose version bits repeat the job's version inside
the mask -/
theorem no_bits_is_job_version (mask : String) (j : Job) (s : Share) (b : String)
    (hb : word b &&& word mask = word j.version &&& word mask) :
    version mask j { s with bits := some b } = version mask j { s with bits := none } := by
  simp only [version, hb]
  ext i hi
  simp only [BitVec.getElem_or, BitVec.getElem_and, BitVec.getElem_not]
  cases (word j.version)[i] <;> cases (word mask)[i] <;> rfl

/-- only mask-permitted bits come from the miner: outside the mask the hashed version is the job's,
inside it is the miner's -/
theorem version_bits (mask : String) (j : Job) (s : Share) (b : String) (i : Nat) (hi : i < 32) :
    (version mask j { s with bits := some b })[i] = if (word mask)[i] then (word b)[i] else (word j.version)[i] := by
  simp only [version, BitVec.getElem_or, BitVec.getElem_and, BitVec.getElem_not]
  cases (word j.version)[i] <;> cases (word mask)[i] <;> cases (word b)[i] <;> rfl

/-! ### non-vacuity -/

def exJob : Job := { prevHash := "221a7d5aeda279d8b8455fe56c8dc7d05582575d00038fbf0000000000000000",
                     gen1 := "01000000", gen2 := "ffffffff", branches := ["3f9f7dfc7cbfda1c1ad7a42ff7e2e35f7fe8c6b5f4fd0c49e2a66e5e3d0d2d15"],
                     version := "20000000", nbits := "17053894" }
def exShare : Share := { en2 := "000000000003", ntime := "64c25820", nonce := "00000002", bits := some "00004000" }

example : wellFormed "ffee" "1fffe000" exJob exShare = true := by decide

end PRV.Props.C01
