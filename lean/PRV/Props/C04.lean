import PRV.Proofs.Session
/-
C04 — Every accepted share is credited exactly once, to the right parties.
Theorems about the submit path of `Model/Session.lean`, for every session state, every share and
every proof-of-work oracle (hence for every history leading to that state).
-/
namespace PRV.Props.C04
open PRV.Model PRV.Model.Session PRV.Proofs.Session

variable (pow : Pow)

/-- **Credited exactly once, or not at all.**  An accepted share adds the credited difficulty once to
the miner total and once to the worker total and counts one share; a rejected (unknown, expired,
repeated, too low) share adds nothing anywhere.  Every submit counts once as accepted or rejected. -/
theorem ledgers (s : Sess) (jobId : String) (share : List Nat) (nm : String) (r : SubmitRes)
    (h : submitSync pow s jobId share nm = some r) :
    (r.accepted = true →
        r.s.minerWork = s.minerWork + r.credit ∧ r.s.workerWork = s.workerWork + r.credit ∧
        r.s.minerShares = s.minerShares + 1 ∧ r.s.srcAcc = s.srcAcc + 1 ∧ r.s.srcRej = s.srcRej ∧
        r.reply = .ok) ∧
    (r.accepted = false →
        r.s.minerWork = s.minerWork ∧ r.s.workerWork = s.workerWork ∧ r.s.minerShares = s.minerShares ∧
        r.s.srcAcc = s.srcAcc ∧ r.s.srcRej = s.srcRej + 1 ∧ r.credit = 0 ∧ r.cbFired = none) := by
  unfold submitSync at h
  cases ha : activeDest s with
  | none => rw [ha] at h; cases h
  | some a =>
    rw [ha] at h
    simp only [Option.some.injEq] at h
    subst h
    have l := route_ledgers pow s a jobId share nm
    unfold book
    cases hacc : (route pow s a jobId share nm).2.1 with
    | true =>
      simp only [if_true]
      exact ⟨fun _ => ⟨by rw [l.minerWork], by rw [l.workerWork], by rw [l.minerShares], by rw [l.srcAcc],
        l.srcRej, trivial⟩, (fun x => by cases x)⟩
    | false =>
      simp only [Bool.false_eq_true, if_false]
      exact ⟨(fun x => by cases x), fun _ => ⟨l.minerWork, l.workerWork, l.minerShares, l.srcAcc,
        by rw [l.srcRej], trivial, trivial⟩⟩

/-- **The task is credited only for its own destination.**  The installed task callback fires
exactly for accepted shares that are forwarded to the destination the miner is currently assigned
to, with the same amount the miner total got. -/
theorem task_credit_only_own_destination (s : Sess) (jobId : String) (share : List Nat) (nm : String)
    (r : SubmitRes) (k : Nat) (h : submitSync pow s jobId share nm = some r) :
    r.cbFired = some k ↔ (r.accepted = true ∧ r.fwd = s.active ∧ s.cb = some k) := by
  unfold submitSync at h
  cases ha : activeDest s with
  | none => rw [ha] at h; cases h
  | some a =>
    rw [ha] at h
    simp only [Option.some.injEq] at h
    subst h
    have l := route_ledgers pow s a jobId share nm
    -- the active destination's key is `s.active`
    have hact : s.active = some a.key := by
      unfold activeDest at ha
      cases hs : s.active with
      | none => rw [hs] at ha; cases ha
      | some k0 =>
        rw [hs] at ha
        simp only [Option.bind_some, findDest] at ha
        have := List.find?_some ha
        simp only [decide_eq_true_eq] at this
        rw [this]
    unfold book
    cases hacc : (route pow s a jobId share nm).2.1 with
    | true =>
      simp only [if_true]
      by_cases ht : (route pow s a jobId share nm).2.2.1 = a.key
      · simp [ht, l.cb, hact]
      · have : ¬ (some (route pow s a jobId share nm).2.2.1 = s.active) := by
          rw [hact]; intro e; exact ht (by simpa using e)
        simp [ht, this]
    | false => simp

/-- the amount credited is the difficulty captured with the job the share solves, at the
destination it is forwarded to (not that destination's current difficulty) -/
theorem credit_is_job_difficulty (s : Sess) (target : String × String) (jobId : String) (d : Dest) (job : Spec.C19.Ann)
    (info : JobInfo) (hd : findDest s target = some d) (hj : d.v.jobs.get jobId = some job)
    (hi : d.jobs[job.serial]? = some info) : creditOf s target jobId = info.diff := by
  unfold creditOf; simp [hd, hj, hi]

/-! ### the verdict counters -/

/-- each combination of (we accepted?, pool rejected?) increments exactly the counters of its cell,
for the miner and for the destination the share went to -/
theorem verdict_bucket (s : Sess) (d : Dest) (accepted rejects : Bool) (hd : findDest s d.key = some d) :
    let s' := poolAnswer s d.key accepted rejects
    s'.srcAccTheyRej = s.srcAccTheyRej + (if accepted ∧ rejects then 1 else 0) ∧
    s'.srcRejTheyAcc = s.srcRejTheyAcc + (if ¬ accepted ∧ ¬ rejects then 1 else 0) ∧
    s'.srcAcc = s.srcAcc ∧ s'.srcRej = s.srcRej ∧ s'.minerWork = s.minerWork ∧ s'.workerWork = s.workerWork := by
  unfold poolAnswer
  rw [hd]
  cases accepted <;> cases rejects <;> simp [setDest']

/-! ### whole histories of submits -/

/-- one submit of a history: job id, the share's proof-of-work input, the name it was sent under -/
abbrev Sub := String × List Nat × String

/-- the synchronous submit path over a whole history; a submit without an assigned destination is
refused and leaves the session as it is -/
def submitAll (pow : Pow) : Sess → List Sub → Sess × List SubmitRes
  | s, [] => (s, [])
  | s, x :: xs =>
    match submitSync pow s x.1 x.2.1 x.2.2 with
    | none => submitAll pow s xs
    | some r => let rr := submitAll pow r.s xs; (rr.1, r :: rr.2)

def totalCredit (rs : List SubmitRes) : Nat := (rs.map (·.credit)).sum
def acceptedCount (rs : List SubmitRes) : Nat := (rs.filter (·.accepted)).length
def rejectedCount (rs : List SubmitRes) : Nat := (rs.filter (fun r => !r.accepted)).length

/-- **Conservation over every history of submits**, of any length: what the miner ledger and the
worker ledger gained is exactly the sum of the credits of the accepted shares — nothing is credited
twice, nothing is lost, a rejected share contributes nothing — and every processed submit is counted
exactly once as accepted or as rejected. -/
theorem ledgers_history (s : Sess) (xs : List Sub) :
    (submitAll pow s xs).1.minerWork = s.minerWork + totalCredit (submitAll pow s xs).2 ∧
    (submitAll pow s xs).1.workerWork = s.workerWork + totalCredit (submitAll pow s xs).2 ∧
    (submitAll pow s xs).1.minerShares = s.minerShares + acceptedCount (submitAll pow s xs).2 ∧
    (submitAll pow s xs).1.srcAcc = s.srcAcc + acceptedCount (submitAll pow s xs).2 ∧
    (submitAll pow s xs).1.srcRej = s.srcRej + rejectedCount (submitAll pow s xs).2 := by
  induction xs generalizing s with
  | nil => simp [submitAll, totalCredit, acceptedCount, rejectedCount]
  | cons x xs ih =>
    unfold submitAll
    cases h : submitSync pow s x.1 x.2.1 x.2.2 with
    | none => exact ih s
    | some r =>
      simp only
      have l := ledgers pow s x.1 x.2.1 x.2.2 r h
      have i := ih r.s
      cases ha : r.accepted with
      | true =>
        obtain ⟨l1, l2, l3, l4, l5, _⟩ := l.1 ha
        simp only [totalCredit, acceptedCount, rejectedCount, List.map_cons, List.sum_cons,
          List.filter_cons, ha, if_true, List.length_cons, Bool.not_true, Bool.false_eq_true, if_false] at i ⊢
        refine ⟨?_, ?_, ?_, ?_, ?_⟩
        · rw [i.1, l1]; omega
        · rw [i.2.1, l2]; omega
        · rw [i.2.2.1, l3]; omega
        · rw [i.2.2.2.1, l4]; omega
        · rw [i.2.2.2.2, l5]
      | false =>
        obtain ⟨l1, l2, l3, l4, l5, l6, _⟩ := l.2 ha
        simp only [totalCredit, acceptedCount, rejectedCount, List.map_cons, List.sum_cons,
          List.filter_cons, ha, if_true, List.length_cons, Bool.not_false, Bool.false_eq_true, if_false, l6] at i ⊢
        refine ⟨?_, ?_, ?_, ?_, ?_⟩
        · rw [i.1, l1]; omega
        · rw [i.2.1, l2]; omega
        · rw [i.2.2.1, l3]
        · rw [i.2.2.2.1, l4]
        · rw [i.2.2.2.2, l5]; omega

/-- the miner ledger and the worker ledger never drift apart, whatever is submitted -/
theorem ledgers_agree_history (s : Sess) (xs : List Sub) (h : s.minerWork = s.workerWork) :
    (submitAll pow s xs).1.minerWork = (submitAll pow s xs).1.workerWork := by
  have l := ledgers_history pow s xs
  rw [l.1, l.2.1, h]

/-- every processed submit of a history is counted, once -/
theorem every_submit_counted (s : Sess) (xs : List Sub) :
    (submitAll pow s xs).1.srcAcc + (submitAll pow s xs).1.srcRej =
      s.srcAcc + s.srcRej + (submitAll pow s xs).2.length := by
  have l := ledgers_history pow s xs
  rw [l.2.2.2.1, l.2.2.2.2]
  have : ∀ rs : List SubmitRes, acceptedCount rs + rejectedCount rs = rs.length := by
    intro rs
    induction rs with
    | nil => rfl
    | cons r rs ih =>
      unfold acceptedCount rejectedCount at ih ⊢
      cases ha : r.accepted <;> simp [List.filter_cons, ha] <;> omega
  have := this (submitAll pow s xs).2
  omega

/-- in every history a rejected share carries no credit and fires no task callback -/
theorem rejected_no_credit_history (s : Sess) (xs : List Sub) :
    ∀ r ∈ (submitAll pow s xs).2, r.accepted = false → r.credit = 0 ∧ r.cbFired = none := by
  induction xs generalizing s with
  | nil => intro r hr; simp [submitAll] at hr
  | cons x xs ih =>
    unfold submitAll
    cases h : submitSync pow s x.1 x.2.1 x.2.2 with
    | none => exact ih s
    | some r0 =>
      simp only
      intro r hr ha
      rcases List.mem_cons.mp hr with e | e
      · subst e
        have l := (ledgers pow s x.1 x.2.1 x.2.2 r h).2 ha
        exact ⟨l.2.2.2.2.2.1, l.2.2.2.2.2.2⟩
      · exact ih r0.s r e ha

/-! ### tasks -/

/-- a successful switch — also one to the current destination — installs exactly the callback it
was given: when a task has ended (`hasCb = false`, or the next task's callback) nothing more is
credited to it, and the next task is credited from its first accepted share on -/
theorem switch_installs_callback (s : Sess) (pool : String) (hasCb : Bool)
    (hsucc : Out.session "setdest-ret nil" ∈ (switchTo s pool hasCb).2) :
    (switchTo s pool hasCb).1.cb = (if hasCb then some (s.cbN + 1) else none) := by
  have hacq : ∀ (p : PoolCfg) (user : String), ∀ o ∈ (acquire s pool p user).2.2, ∀ w, o ≠ Out.session w := by
    intro p user o ho w
    unfold acquire at ho
    simp only at ho
    split at ho
    · cases ho
    · simp only [List.mem_append, List.mem_cons, List.not_mem_nil, or_false] at ho
      rcases ho with (h | h) | h | h
      · rw [h]; intro e; cases e
      · by_cases hv : s.vr = true
        · simp only [hv, if_true, List.mem_cons, List.not_mem_nil, or_false] at h; rw [h]; intro e; cases e
        · simp only [hv, Bool.false_eq_true, if_false, List.not_mem_nil] at h
      · rw [h]; intro e; cases e
      · rw [h]; intro e; cases e
  have main : ∀ (cb : Option Nat) (cbN : Nat),
      Out.session "setdest-ret nil" ∈ (switchWith s pool cb cbN).2 → (switchWith s pool cb cbN).1.cb = cb := by
    intro cb cbN hm
    unfold switchWith at hm ⊢
    simp only at hm ⊢
    by_cases h1 : s.active = some (pool, "acct" ++ pool ++ ".w" ++ pool)
    · simp only [h1, if_true]
    · simp only [h1, if_false] at hm ⊢
      cases hp : findPool s pool with
      | none => simp [hp] at hm
      | some p =>
        simp only [hp] at hm ⊢
        by_cases hmm : (findDest s (pool, "acct" ++ pool ++ ".w" ++ pool)).isNone ∧ s.vr ∧ p.mask ≠ s.negMask
        · simp [hmm] at hm
        simp only [hmm, if_false] at hm ⊢
        cases hr : resend (acquire s pool p ("acct" ++ pool ++ ".w" ++ pool)).2.1 with
        | none =>
          simp only [hr] at hm
          simp only [List.mem_append, List.mem_singleton] at hm
          rcases hm with hm | hm
          · exact absurd rfl (hacq p _ _ hm "setdest-ret nil")
          · simp at hm
        | some msgs => simp only [hr, install]
  unfold switchTo at hsucc ⊢
  exact main _ _ hsucc

end PRV.Props.C04
