import PRV.Proofs.Session
import PRV.Model.WorkerBook
/-
C04 — Every accepted share is credited exactly once, to the right parties.
Theorems about the submit path of `Model/Session.lean`, for every session state, every share and
every proof-of-work oracle (hence for every history leading to that state).
-/
namespace PRV.Props.C04
open PRV.Model PRV.Model.Session PRV.Proofs.Session

variable (pow : Pow)

/-- **Credited exactly once, or not at all.**  An accepted share adds the credited difficulty once to
the miner total and once to the worker total and counts one share; a rejected (unknown, expired,
repeated, too low) share adds nothing anywhere.  Every submit counts once as accepted or rejected. -/
theorem ledgers (s : Sess) (jobId : String) (share : List Nat) (nm : String) (r : SubmitRes)
    (h : submitSync pow s jobId share nm = some r) :
    (r.accepted = true →
        r.s.minerWork = s.minerWork + r.credit ∧ r.s.workerWork = s.workerWork + r.credit ∧
        r.s.minerShares = s.minerShares + 1 ∧ r.s.srcAcc = s.srcAcc + 1 ∧ r.s.srcRej = s.srcRej ∧
        r.reply = .ok) ∧
    (r.accepted = false →
        r.s.minerWork = s.minerWork ∧ r.s.workerWork = s.workerWork ∧ r.s.minerShares = s.minerShares ∧
        r.s.srcAcc = s.srcAcc ∧ r.s.srcRej = s.srcRej + 1 ∧ r.credit = 0 ∧ r.cbFired = none) := by
  unfold submitSync at h
  cases ha : activeDest s with
  | none => rw [ha] at h; cases h
  | some a =>
    rw [ha] at h
    simp only [Option.some.injEq] at h
    subst h
    have l := route_ledgers pow s a jobId share nm
    unfold book
    cases hacc : (route pow s a jobId share nm).2.1 with
    | true =>
      simp only [if_true]
      exact ⟨fun _ => ⟨by rw [l.minerWork], by rw [l.workerWork], by rw [l.minerShares], by rw [l.srcAcc],
        l.srcRej, trivial⟩, (fun x => by cases x)⟩
    | false =>
      simp only [Bool.false_eq_true, if_false]
      exact ⟨(fun x => by cases x), fun _ => ⟨l.minerWork, l.workerWork, l.minerShares, l.srcAcc,
        by rw [l.srcRej], trivial, trivial⟩⟩

/-- **The task is credited only for its own destination.**  The installed task callback fires
exactly for accepted shares that are forwarded to the destination the miner is currently assigned
to, with the same amount the miner total got. -/
theorem task_credit_only_own_destination (s : Sess) (jobId : String) (share : List Nat) (nm : String)
    (r : SubmitRes) (k : Nat) (h : submitSync pow s jobId share nm = some r) :
    r.cbFired = some k ↔ (r.accepted = true ∧ r.fwd = s.active ∧ s.cb = some k) := by
  unfold submitSync at h
  cases ha : activeDest s with
  | none => rw [ha] at h; cases h
  | some a =>
    rw [ha] at h
    simp only [Option.some.injEq] at h
    subst h
    have l := route_ledgers pow s a jobId share nm
    -- the active destination's key is `s.active`
    have hact : s.active = some a.key := by
      unfold activeDest at ha
      cases hs : s.active with
      | none => rw [hs] at ha; cases ha
      | some k0 =>
        rw [hs] at ha
        simp only [Option.bind_some, findDest] at ha
        have := List.find?_some ha
        simp only [decide_eq_true_eq] at this
        rw [this]
    unfold book
    cases hacc : (route pow s a jobId share nm).2.1 with
    | true =>
      simp only [if_true]
      by_cases ht : (route pow s a jobId share nm).2.2.1 = a.key
      · simp [ht, l.cb, hact]
      · have : ¬ (some (route pow s a jobId share nm).2.2.1 = s.active) := by
          rw [hact]; intro e; exact ht (by simpa using e)
        simp [ht, this]
    | false => simp

/-- the amount credited is the difficulty captured with the job the share solves, at the
destination it is forwarded to (not that destination's current difficulty) -/
theorem credit_is_job_difficulty (s : Sess) (target : String × String) (jobId : String) (d : Dest) (job : Spec.C19.Ann)
    (info : JobInfo) (hd : findDest s target = some d) (hj : d.v.jobs.get jobId = some job)
    (hi : d.jobs[job.serial]? = some info) : creditOf s target jobId = info.diff := by
  unfold creditOf; simp [hd, hj, hi]

/-! ### the verdict counters -/

/-- each combination of (we accepted?, pool rejected?) increments exactly the counters of its cell,
for the miner and for the destination the share went to -/
theorem verdict_bucket (s : Sess) (d : Dest) (accepted rejects : Bool) (hd : findDest s d.key = some d) :
    let s' := poolAnswer s d.key accepted rejects
    s'.srcAccTheyRej = s.srcAccTheyRej + (if accepted ∧ rejects then 1 else 0) ∧
    s'.srcRejTheyAcc = s.srcRejTheyAcc + (if ¬ accepted ∧ ¬ rejects then 1 else 0) ∧
    s'.srcAcc = s.srcAcc ∧ s'.srcRej = s.srcRej ∧ s'.minerWork = s.minerWork ∧ s'.workerWork = s.workerWork := by
  unfold poolAnswer
  rw [hd]
  cases accepted <;> cases rejects <;> simp [setDest']

/-! ### whole histories of submits -/

/-- one submit of a history: job id, the share's proof-of-work input, the name it was sent under -/
abbrev Sub := String × List Nat × String

/-- the synchronous submit path over a whole history; a submit without an assigned destination is
refused and leaves the session as it is -/
def submitAll (pow : Pow) : Sess → List Sub → Sess × List SubmitRes
  | s, [] => (s, [])
  | s, x :: xs =>
    match submitSync pow s x.1 x.2.1 x.2.2 with
    | none => submitAll pow s xs
    | some r => let rr := submitAll pow r.s xs; (rr.1, r :: rr.2)

def totalCredit (rs : List SubmitRes) : Nat := (rs.map (·.credit)).sum
def acceptedCount (rs : List SubmitRes) : Nat := (rs.filter (·.accepted)).length
def rejectedCount (rs : List SubmitRes) : Nat := (rs.filter (fun r => !r.accepted)).length

/-- **Conservation over every history of submits**, of any length: what the miner ledger and the
worker ledger gained is exactly the sum of the credits of the accepted shares — nothing is credited
twice, nothing is lost, a rejected share contributes nothing — and every processed submit is counted
exactly once as accepted or as rejected. -/
theorem ledgers_history (s : Sess) (xs : List Sub) :
    (submitAll pow s xs).1.minerWork = s.minerWork + totalCredit (submitAll pow s xs).2 ∧
    (submitAll pow s xs).1.workerWork = s.workerWork + totalCredit (submitAll pow s xs).2 ∧
    (submitAll pow s xs).1.minerShares = s.minerShares + acceptedCount (submitAll pow s xs).2 ∧
    (submitAll pow s xs).1.srcAcc = s.srcAcc + acceptedCount (submitAll pow s xs).2 ∧
    (submitAll pow s xs).1.srcRej = s.srcRej + rejectedCount (submitAll pow s xs).2 := by
  induction xs generalizing s with
  | nil => simp [submitAll, totalCredit, acceptedCount, rejectedCount]
  | cons x xs ih =>
    unfold submitAll
    cases h : submitSync pow s x.1 x.2.1 x.2.2 with
    | none => exact ih s
    | some r =>
      simp only
      have l := ledgers pow s x.1 x.2.1 x.2.2 r h
      have i := ih r.s
      cases ha : r.accepted with
      | true =>
        obtain ⟨l1, l2, l3, l4, l5, _⟩ := l.1 ha
        simp only [totalCredit, acceptedCount, rejectedCount, List.map_cons, List.sum_cons,
          List.filter_cons, ha, if_true, List.length_cons, Bool.not_true, Bool.false_eq_true, if_false] at i ⊢
        refine ⟨?_, ?_, ?_, ?_, ?_⟩
        · rw [i.1, l1]; omega
        · rw [i.2.1, l2]; omega
        · rw [i.2.2.1, l3]; omega
        · rw [i.2.2.2.1, l4]; omega
        · rw [i.2.2.2.2, l5]
      | false =>
        obtain ⟨l1, l2, l3, l4, l5, l6, _⟩ := l.2 ha
        simp only [totalCredit, acceptedCount, rejectedCount, List.map_cons, List.sum_cons,
          List.filter_cons, ha, if_true, List.length_cons, Bool.not_false, Bool.false_eq_true, if_false, l6] at i ⊢
        refine ⟨?_, ?_, ?_, ?_, ?_⟩
        · rw [i.1, l1]; omega
        · rw [i.2.1, l2]; omega
        · rw [i.2.2.1, l3]
        · rw [i.2.2.2.1, l4]
        · rw [i.2.2.2.2, l5]; omega

/-- the miner ledger and the worker ledger never drift apart, whatever is submitted -/
theorem ledgers_agree_history (s : Sess) (xs : List Sub) (h : s.minerWork = s.workerWork) :
    (submitAll pow s xs).1.minerWork = (submitAll pow s xs).1.workerWork := by
  have l := ledgers_history pow s xs
  rw [l.1, l.2.1, h]

/-- every processed submit of a history is counted, once -/
theorem every_submit_counted (s : Sess) (xs : List Sub) :
    (submitAll pow s xs).1.srcAcc + (submitAll pow s xs).1.srcRej =
      s.srcAcc + s.srcRej + (submitAll pow s xs).2.length := by
  have l := ledgers_history pow s xs
  rw [l.2.2.2.1, l.2.2.2.2]
  have : ∀ rs : List SubmitRes, acceptedCount rs + rejectedCount rs = rs.length := by
    intro rs
    induction rs with
    | nil => rfl
    | cons r rs ih =>
      unfold acceptedCount rejectedCount at ih ⊢
      cases ha : r.accepted <;> simp [List.filter_cons, ha] <;> omega
  have := this (submitAll pow s xs).2
  omega

/-- in every history a rejected share carries no credit and fires no task callback -/
theorem rejected_no_credit_history (s : Sess) (xs : List Sub) :
    ∀ r ∈ (submitAll pow s xs).2, r.accepted = false → r.credit = 0 ∧ r.cbFired = none := by
  induction xs generalizing s with
  | nil => intro r hr; simp [submitAll] at hr
  | cons x xs ih =>
    unfold submitAll
    cases h : submitSync pow s x.1 x.2.1 x.2.2 with
    | none => exact ih s
    | some r0 =>
      simp only
      intro r hr ha
      rcases List.mem_cons.mp hr with e | e
      · subst e
        have l := (ledgers pow s x.1 x.2.1 x.2.2 r h).2 ha
        exact ⟨l.2.2.2.2.2.1, l.2.2.2.2.2.2⟩
      · exact ih r0.s r e ha

/-! ### the worker-name total across connections -/

namespace Book
open PRV.Model.WorkerBook

/-- what happens to the per-worker-name record during normal operation: a connection under a name,
or a share credited to a name (`Reset` belongs to the buyer's purchase start, C10) -/
inductive BookOp where
  | connect (w : String)
  | submit (w : String) (diff now : Int)

def bookStep (b : Book) : BookOp → Book
  | .connect w => onConnect b w
  | .submit w d t => onSubmit b w d t

/-- the work credited to `w` by a history -/
def credited (w : String) : List BookOp → Int
  | [] => 0
  | .submit w' d _ :: rest => (if w' = w then d else 0) + credited w rest
  | .connect _ :: rest => credited w rest

def total (b : Book) (w : String) : Int := (totalWork b w).getD 0

theorem load_initRec (b : Book) (w w' : String) :
    ((load (initRec b w) w').map (·.work)).getD 0 = ((load b w').map (·.work)).getD 0 := by
  unfold initRec
  split
  · rfl
  · rename_i h
    unfold load
    rw [List.find?_append]
    cases hf : List.find? (fun x => x.1 = w') b with
    | some r => simp
    | none =>
      by_cases e : w = w'
      · subst e; simp
      · simp [e]

/-- **A connection never changes any worker-name total** — the record of a name outlives the
connection: a reconnecting rig, a second rig, another miner of the same contract add to one total. -/
theorem connect_keeps_totals (b : Book) (w w' : String) : total (onConnect b w) w' = total b w' := by
  unfold total totalWork onConnect
  exact load_initRec b w w'

theorem load_map_other (b : Book) (f : String × Rec → String × Rec) (w' : String)
    (hk : ∀ e, (f e).1 = e.1) :
    load (b.map f) w' = (b.find? (·.1 = w')).map (fun e => (f e).2) := by
  unfold load
  induction b with
  | nil => rfl
  | cons e rest ih =>
    simp only [List.map_cons, List.find?_cons, hk]
    by_cases h : e.1 = w'
    · simp [h]
    · simp only [h, decide_false]; exact ih

theorem submit_total (b : Book) (w w' : String) (d t : Int) :
    total (onSubmit b w d t) w' = total b w' + (if w = w' then d else 0) := by
  have hi := load_initRec b w w'
  have hpres : (load (initRec b w) w).isSome := by
    unfold initRec
    split
    · assumption
    · unfold load; rw [List.find?_append]
      cases hf : List.find? (fun x => x.1 = w) b <;> simp
  unfold total totalWork onSubmit
  rw [load_map_other _ _ _ (by intro e; by_cases h : e.1 = w <;> simp [h])]
  unfold load at hi hpres ⊢
  cases hf : List.find? (fun x => x.1 = w') (initRec b w) with
  | none =>
    rw [hf] at hi
    by_cases e : w = w'
    · subst e; rw [hf] at hpres; simp at hpres
    · simp only [Option.map_none, Option.getD_none, e, if_false] at hi ⊢; omega
  | some r =>
    rw [hf] at hi
    have hr : r.1 = w' := by simpa using List.find?_some hf
    simp only [Option.map_some, Option.getD_some] at hi ⊢
    by_cases e : w = w'
    · subst e; simp only [hr, if_true]; omega
    · have : ¬ r.1 = w := fun x => e (x.symm.trans hr)
      simp only [this, if_false, e]; omega

/-- **Exactly once to the worker-name total, over every history** of connections and shares of any
length, under any number of connections per name: the total of a name is what it was plus the sum
of the difficulties credited to that name — never less (a reconnection loses nothing), never more. -/
theorem worker_total_history (b : Book) (ops : List BookOp) (w : String) :
    total (ops.foldl bookStep b) w = total b w + credited w ops := by
  induction ops generalizing b with
  | nil => simp [credited]
  | cons op ops ih =>
    rw [List.foldl_cons, ih]
    cases op with
    | connect w0 =>
      show total (onConnect b w0) w + _ = _
      rw [connect_keeps_totals]; rfl
    | submit w0 d t =>
      show total (onSubmit b w0 d t) w + _ = _
      rw [submit_total]
      show _ = total b w + ((if w0 = w then d else 0) + credited w ops)
      omega

example : total ([BookOp.submit "a" 10 1, .submit "a" 10 2, .connect "a", .submit "a" 10 3].foldl bookStep []) "a" = 30 := by
  decide

end Book

/-! ### tasks -/

/-- a successful switch — also one to the current destination — installs exactly the callback it
was given: when a task has ended (`hasCb = false`, or the next task's callback) nothing more is
credited to it, and the next task is credited from its first accepted share on -/
theorem switch_installs_callback (s : Sess) (pool : String) (hasCb : Bool)
    (hsucc : Out.session "setdest-ret nil" ∈ (switchTo s pool hasCb).2) :
    (switchTo s pool hasCb).1.cb = (if hasCb then some (s.cbN + 1) else none) := by
  have hacq : ∀ (p : PoolCfg) (user : String), ∀ o ∈ (acquire s pool p user).2.2, ∀ w, o ≠ Out.session w := by
    intro p user o ho w
    unfold acquire at ho
    simp only at ho
    split at ho
    · cases ho
    · simp only [List.mem_append, List.mem_cons, List.not_mem_nil, or_false] at ho
      rcases ho with (h | h) | h | h
      · rw [h]; intro e; cases e
      · by_cases hv : s.vr = true
        · simp only [hv, if_true, List.mem_cons, List.not_mem_nil, or_false] at h; rw [h]; intro e; cases e
        · simp only [hv, Bool.false_eq_true, if_false, List.not_mem_nil] at h
      · rw [h]; intro e; cases e
      · rw [h]; intro e; cases e
  have main : ∀ (cb : Option Nat) (cbN : Nat),
      Out.session "setdest-ret nil" ∈ (switchWith s pool cb cbN).2 → (switchWith s pool cb cbN).1.cb = cb := by
    intro cb cbN hm
    unfold switchWith at hm ⊢
    simp only at hm ⊢
    by_cases h1 : s.active = some (pool, "acct" ++ pool ++ ".w" ++ pool)
    · simp only [h1, if_true]
    · simp only [h1, if_false] at hm ⊢
      cases hp : findPool s pool with
      | none => simp [hp] at hm
      | some p =>
        simp only [hp] at hm ⊢
        by_cases hmm : (findDest s (pool, "acct" ++ pool ++ ".w" ++ pool)).isNone ∧ s.vr ∧ p.mask ≠ s.negMask
        · simp [hmm] at hm
        simp only [hmm, if_false] at hm ⊢
        cases hr : resend (acquire s pool p ("acct" ++ pool ++ ".w" ++ pool)).2.1 with
        | none =>
          simp only [hr] at hm
          simp only [List.mem_append, List.mem_singleton] at hm
          rcases hm with hm | hm
          · exact absurd rfl (hacq p _ _ hm "setdest-ret nil")
          · simp at hm
        | some msgs => simp only [hr, install]
  unfold switchTo at hsucc ⊢
  exact main _ _ hsucc

end PRV.Props.C04
