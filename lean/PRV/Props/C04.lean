import PRV.Proofs.Session
/-
C04 — Every accepted share is credited exactly once, to the right parties.
Theorems about the submit path of `Model/Session.lean`, for every session state, every share and
every proof-of-work oracle (hence for every history leading to that state).
-/
namespace PRV.Props.C04
open PRV.Model PRV.Model.Session PRV.Proofs.Session

variable (pow : Pow)

/-- **Credited exactly once, or not at all.**  An accepted share adds the credited difficulty once to
the miner total and once to the worker total and counts one share; a rejected (unknown, expired,
repeated, too low) share adds nothing anywhere.  Every submit counts once as accepted or rejected. -/
theorem ledgers (s : Sess) (jobId : String) (share : List Nat) (nm : String) (r : SubmitRes)
    (h : submitSync pow s jobId share nm = some r) :
    (r.accepted = true →
        r.s.minerWork = s.minerWork + r.credit ∧ r.s.workerWork = s.workerWork + r.credit ∧
        r.s.minerShares = s.minerShares + 1 ∧ r.s.srcAcc = s.srcAcc + 1 ∧ r.s.srcRej = s.srcRej ∧
        r.reply = .ok) ∧
    (r.accepted = false →
        r.s.minerWork = s.minerWork ∧ r.s.workerWork = s.workerWork ∧ r.s.minerShares = s.minerShares ∧
        r.s.srcAcc = s.srcAcc ∧ r.s.srcRej = s.srcRej + 1 ∧ r.credit = 0 ∧ r.cbFired = none) := by
  unfold submitSync at h
  cases ha : activeDest s with
  | none => rw [ha] at h; cases h
  | some a =>
    rw [ha] at h
    simp only [Option.some.injEq] at h
    subst h
    have l := route_ledgers pow s a jobId share nm
    unfold book
    cases hacc : (route pow s a jobId share nm).2.1 with
    | true =>
      simp only [if_true]
      exact ⟨fun _ => ⟨by rw [l.minerWork], by rw [l.workerWork], by rw [l.minerShares], by rw [l.srcAcc],
        l.srcRej, trivial⟩, (fun x => by cases x)⟩
    | false =>
      simp only [Bool.false_eq_true, if_false]
      exact ⟨(fun x => by cases x), fun _ => ⟨l.minerWork, l.workerWork, l.minerShares, l.srcAcc,
        by rw [l.srcRej], trivial, trivial⟩⟩

/-- **The task is credited only for its own destination.**  The installed task callback fires
exactly for accepted shares that are forwarded to the destination the miner is currently assigned
to, with the same amount the miner total got. -/
theorem task_credit_only_own_destination (s : Sess) (jobId : String) (share : List Nat) (nm : String)
    (r : SubmitRes) (k : Nat) (h : submitSync pow s jobId share nm = some r) :
    r.cbFired = some k ↔ (r.accepted = true ∧ r.fwd = s.active ∧ s.cb = some k) := by
  unfold submitSync at h
  cases ha : activeDest s with
  | none => rw [ha] at h; cases h
  | some a =>
    rw [ha] at h
    simp only [Option.some.injEq] at h
    subst h
    have l := route_ledgers pow s a jobId share nm
    -- the active destination's key is `s.active`
    have hact : s.active = some a.key := by
      unfold activeDest at ha
      cases hs : s.active with
      | none => rw [hs] at ha; cases ha
      | some k0 =>
        rw [hs] at ha
        simp only [Option.bind_some, findDest] at ha
        have := List.find?_some ha
        simp only [decide_eq_true_eq] at this
        rw [this]
    unfold book
    cases hacc : (route pow s a jobId share nm).2.1 with
    | true =>
      simp only [if_true]
      by_cases ht : (route pow s a jobId share nm).2.2.1 = a.key
      · simp [ht, l.cb, hact]
      · have : ¬ (some (route pow s a jobId share nm).2.2.1 = s.active) := by
          rw [hact]; intro e; exact ht (by simpa using e)
        simp [ht, this]
    | false => simp

/-- the amount credited is the difficulty captured with the job the share solves, at the
destination it is forwarded to (not that destination's current difficulty) -/
theorem credit_is_job_difficulty (s : Sess) (target : String × String) (jobId : String) (d : Dest) (job : Spec.C19.Ann)
    (info : JobInfo) (hd : findDest s target = some d) (hj : d.v.jobs.get jobId = some job)
    (hi : d.jobs[job.serial]? = some info) : creditOf s target jobId = info.diff := by
  unfold creditOf; simp [hd, hj, hi]

/-! ### the verdict counters -/

/-- each combination of (we accepted?, pool rejected?) increments exactly the counters of its cell,
for the miner and for the destination the share went to -/
theorem verdict_bucket (s : Sess) (d : Dest) (accepted rejects : Bool) (hd : findDest s d.key = some d) :
    let s' := poolAnswer s d.key accepted rejects
    s'.srcAccTheyRej = s.srcAccTheyRej + (if accepted ∧ rejects then 1 else 0) ∧
    s'.srcRejTheyAcc = s.srcRejTheyAcc + (if ¬ accepted ∧ ¬ rejects then 1 else 0) ∧
    s'.srcAcc = s.srcAcc ∧ s'.srcRej = s.srcRej ∧ s'.minerWork = s.minerWork ∧ s'.workerWork = s.workerWork := by
  unfold poolAnswer
  rw [hd]
  cases accepted <;> cases rejects <;> simp [setDest']

/-! ### tasks -/

/-- a successful switch — also one to the current destination — installs exactly the callback it
was given: when a task has ended (`hasCb = false`, or the next task's callback) nothing more is
credited to it, and the next task is credited from its first accepted share on -/
theorem switch_installs_callback (s : Sess) (pool : String) (hasCb : Bool)
    (hsucc : Out.session "setdest-ret nil" ∈ (switchTo s pool hasCb).2) :
    (switchTo s pool hasCb).1.cb = (if hasCb then some (s.cbN + 1) else none) := by
  have hacq : ∀ (p : PoolCfg) (user : String), ∀ o ∈ (acquire s pool p user).2.2, ∀ w, o ≠ Out.session w := by
    intro p user o ho w
    unfold acquire at ho
    simp only at ho
    split at ho
    · cases ho
    · simp only [List.mem_append, List.mem_cons, List.not_mem_nil, or_false] at ho
      rcases ho with (h | h) | h | h
      · rw [h]; intro e; cases e
      · by_cases hv : s.vr = true
        · simp only [hv, if_true, List.mem_cons, List.not_mem_nil, or_false] at h; rw [h]; intro e; cases e
        · simp only [hv, Bool.false_eq_true, if_false, List.not_mem_nil] at h
      · rw [h]; intro e; cases e
      · rw [h]; intro e; cases e
  have main : ∀ (cb : Option Nat) (cbN : Nat),
      Out.session "setdest-ret nil" ∈ (switchWith s pool cb cbN).2 → (switchWith s pool cb cbN).1.cb = cb := by
    intro cb cbN hm
    unfold switchWith at hm ⊢
    simp only at hm ⊢
    by_cases h1 : s.active = some (pool, "acct" ++ pool ++ ".w" ++ pool)
    · simp only [h1, if_true]
    · simp only [h1, if_false] at hm ⊢
      cases hp : findPool s pool with
      | none => simp [hp] at hm
      | some p =>
        simp only [hp] at hm ⊢
        by_cases hmm : (findDest s (pool, "acct" ++ pool ++ ".w" ++ pool)).isNone ∧ s.vr ∧ p.mask ≠ s.negMask
        · simp [hmm] at hm
        simp only [hmm, if_false] at hm ⊢
        cases hr : resend (acquire s pool p ("acct" ++ pool ++ ".w" ++ pool)).2.1 with
        | none =>
          simp only [hr] at hm
          simp only [List.mem_append, List.mem_singleton] at hm
          rcases hm with hm | hm
          · exact absurd rfl (hacq p _ _ hm "setdest-ret nil")
          · simp at hm
        | some msgs => simp only [hr, install]
  unfold switchTo at hsucc ⊢
  exact main _ _ hsucc

end PRV.Props.C04
