import PRV.Model.Handshake
import PRV.Gen.Wiring
import PRV.Gen.C15
import PRV.Model.AnswerRace
/-
C15 — Handshake correlated and ordered per connection; contract routing correct.
Per-event theorems about `Model/Handshake.lean` for every connection state (hence every order of
requests, every timing of pool replies and every interleaved notification leading to it), and a
non-interference theorem for a process holding many connections.
-/
namespace PRV.Props.C15
open PRV.Model PRV.Model.Handshake

def isToMiner : Out → Bool | .toMiner _ => true | _ => false
def isFactory : Out → Bool | .factory _ => true | _ => false

theorem find_fst (hs : List (String × HKind)) (id : String) (x : String × HKind)
    (h : hs.find? (·.1 = id) = some x) : x.1 = id := by
  have := List.find?_some h
  simpa using this

theorem find_drop (hs : List (String × HKind)) (id : String) : (hs.filter (·.1 ≠ id)).find? (·.1 = id) = none := by
  simp [List.find?_eq_none]

/-! ### replies are correlated by request id and carry this connection's pool's values -/

/-- **configure**: the pool's configure result for a pending configure request reaches the miner
once, under the same id, with the mask the pool granted; the request is then settled -/
theorem configure_reply (s : HS) (id mask : String) (hf : s.finished = none)
    (hh : s.handlers.find? (·.1 = id) = some (id, .configure)) :
    (step s (.pCfgResult id mask)).2 = [.toMiner (cfgLine id mask)] ∧
    (step s (.pCfgResult id mask)).1.handlers.find? (·.1 = id) = none ∧
    (step s (.pCfgResult id mask)).1.finished = none := by
  simp only [step, hf, Option.isSome_none, Bool.false_eq_true, if_false, stepCore, onResult, hh]
  exact ⟨trivial, find_drop _ _, hf⟩

/-- **subscribe**: the pool's subscribe result for a pending subscribe request reaches the miner
once, under the same id, with that pool's extranonce and extranonce size -/
theorem subscribe_reply (s : HS) (id en1 : String) (size : Nat) (hf : s.finished = none)
    (hh : s.handlers.find? (·.1 = id) = some (id, .subscribe)) :
    (step s (.pSubResult id en1 size)).2 = [.toMiner (subLine id en1 size)] ∧
    (step s (.pSubResult id en1 size)).1.handlers.find? (·.1 = id) = none ∧
    (step s (.pSubResult id en1 size)).1.finished = none := by
  simp only [step, hf, Option.isSome_none, Bool.false_eq_true, if_false, stepCore, onResult, hh]
  exact ⟨trivial, find_drop _ _, hf⟩

/-- a subscribe is forwarded to the connection's own destination and registered under its id -/
theorem subscribe_forwarded (s : HS) (id : String) (p : String) (n : Nat) (hf : s.finished = none)
    (hd : s.dest = some (p, n)) :
    (step s (.mSubscribe id)).2 = [.toPool p n s!"subscribe id={id}"] ∧
    (step s (.mSubscribe id)).1.handlers.find? (·.1 = id) = some (id, .subscribe) ∧
    (step s (.mSubscribe id)).1.subscribed = true := by
  simp only [step, hf, Option.isSome_none, Bool.false_eq_true, if_false, stepCore, onSubscribe, hd,
    Option.isSome_some, if_true, poolOut, setHandler]
  refine ⟨trivial, ?_, trivial⟩
  rw [List.find?_append, find_drop]
  simp

/-! ### authorize -/

/-- **acknowledged once, forwarded under the destination's name**: an authorize on a connection
that has subscribed gets exactly one acknowledgement under its id, and one authorize goes to the
connection's own pool with the user name and password `Model/Cred.authorize` (C17) computes -/
theorem authorize_acked_once (s : HS) (id user : String) (u : PoolUrl) (p : String) (n : Nat)
    (hf : s.finished = none) (hs : s.subscribed = true) (hu : s.destUrl = some u) (hd : s.dest = some (p, n)) :
    (step s (.mAuthorize id user)).2 =
      [.toMiner s!"result id={id} ok",
       .toPool p n s!"authorize id={id} user={bytesStr (Cred.authorize s.notPropagate (strBytes user) (credUrl u)).1} pwd={bytesStr (Cred.authorize s.notPropagate (strBytes user) (credUrl u)).2.1}"] ∧
    (step s (.mAuthorize id user)).1.finished = none := by
  simp only [step, hf, Option.isSome_none, Bool.false_eq_true, if_false, stepCore, onAuthorize, hs, Bool.not_true, hu,
    poolOut, setHandler, hd]
  exact ⟨rfl, trivial⟩

/-- **order enforced**: authorize on a connection that has not itself subscribed is refused — the
miner gets no acknowledgement and the handshake fails -/
theorem authorize_before_subscribe_refused (s : HS) (id user : String) (hf : s.finished = none)
    (hs : s.subscribed = false) :
    (step s (.mAuthorize id user)).1.finished = some (.failed "handshake-source") ∧
    (step s (.mAuthorize id user)).2.filter isToMiner = [] := by
  simp only [step, hf, Option.isSome_none, Bool.false_eq_true, if_false, stepCore, onAuthorize, hs, Bool.not_false, if_true, fail]
  cases s.dest <;> simp [isToMiner, List.filter]

theorem dial_keeps (s s1 : HS) (u : PoolUrl) (f : Out) (h : dial s u = some (s1, f)) :
    s1.finished = s.finished ∧ s1.subscribed = s.subscribed ∧ s1.handlers = s.handlers := by
  unfold dial at h
  split at h
  · simp only [Option.some.injEq, Prod.mk.injEq] at h
    rw [← h.1]
    exact ⟨rfl, rfl, rfl⟩
  · cases h

/-- the only way a connection becomes "subscribed" is its own subscribe request -/
theorem subscribed_only_by_own_subscribe (s : HS) (ev : Ev) (h : (step s ev).1.subscribed = true) :
    s.subscribed = true ∨ ∃ id, ev = .mSubscribe id := by
  by_cases hs : s.subscribed = true
  · exact Or.inl hs
  right
  have hs' : s.subscribed = false := by simpa using hs
  unfold step at h
  by_cases hf : s.finished.isSome = true
  · simp [hf, hs'] at h
  simp only [hf, Bool.false_eq_true, if_false] at h
  cases ev with
  | mSubscribe id => exact ⟨id, rfl⟩
  | mConfigure id mask minbits contract =>
    exfalso
    simp only [stepCore, onConfigure] at h
    split at h
    · simp [fail, hs'] at h
    · split at h
      · simp [fail, hs'] at h
      · split at h
        · simp [fail, hs'] at h
        · rename_i s1 f hdial
          simp [setHandler, (dial_keeps _ _ _ _ hdial).2.1, hs'] at h
  | mAuthorize id user => exfalso; simp [stepCore, onAuthorize, hs', fail] at h
  | mSubmit => exfalso; simp [stepCore, fail, hs'] at h
  | pCfgResult id mask =>
    exfalso
    simp only [stepCore, onResult] at h
    split at h
    · simp [hs'] at h
    · simp [drop, fail, hs'] at h
    · simp [drop, hs'] at h
    · simp [drop, fail, hs'] at h
  | pSubResult id en1 size =>
    exfalso
    simp only [stepCore, onResult] at h
    split at h
    · simp [hs'] at h
    · simp [drop, fail, hs'] at h
    · simp [drop, fail, hs'] at h
    · simp [drop, hs'] at h
  | pResult id ok payload =>
    exfalso
    simp only [stepCore, onResult] at h
    split at h
    · simp [hs'] at h
    · split at h <;> simp [drop, fail, hs'] at h
    · simp [drop, fail, hs'] at h
    · simp [drop, fail, hs'] at h
  | pNotify job => exfalso; simp [stepCore, hs'] at h
  | pDiff d => exfalso; simp [stepCore, hs'] at h
  | pExtranonce en1 size => exfalso; simp [stepCore, hs'] at h
  | pMask mask => exfalso; simp [stepCore, hs'] at h

/-! ### mining only if the pool authorised -/

/-- the reply a result event carries: request id and whether it is a refusal -/
def replyOf : Ev → Option (String × Bool)
  | .pCfgResult id _ => some (id, false)
  | .pSubResult id _ _ => some (id, false)
  | .pResult id ok _ => some (id, !ok)
  | _ => none

theorem onResult_connected (s : HS) (id : String) (sh : Shape) (refusal : Bool) (line : String)
    (hf : s.finished = none) (h : (onResult s id sh refusal line).1.finished = some .connected) :
    s.handlers.find? (·.1 = id) = some (id, .authorize) ∧ refusal = false := by
  unfold onResult at h
  split at h
  · simp [hf] at h
  · rename_i x hx
    have := find_fst _ _ _ hx
    simp only at this
    cases refusal with
    | true => simp [fail] at h
    | false => exact ⟨by rw [hx, this], rfl⟩
  · split at h
    · simp [drop, hf] at h
    · simp [fail] at h
  · split at h
    · simp [drop, hf] at h
    · simp [fail] at h

/-- **proceeds to mining only if the pool authorised**: the handshake completes only on a reply,
under the id of a pending authorize request, that is not a refusal -/
theorem connected_only_if_authorised (s : HS) (ev : Ev) (hf : s.finished = none)
    (h : (step s ev).1.finished = some .connected) :
    ∃ id, replyOf ev = some (id, false) ∧ s.handlers.find? (·.1 = id) = some (id, .authorize) := by
  simp only [step, hf, Option.isSome_none, Bool.false_eq_true, if_false] at h
  cases ev with
  | mConfigure id mask minbits contract =>
    exfalso
    simp only [stepCore, onConfigure] at h
    split at h
    · simp [fail] at h
    · split at h
      · simp [fail] at h
      · split at h
        · simp [fail] at h
        · rename_i s1 f hdial
          simp [setHandler, (dial_keeps _ _ _ _ hdial).1, hf] at h
  | mSubscribe id =>
    exfalso
    simp only [stepCore, onSubscribe] at h
    split at h
    · simp [setHandler, hf] at h
    · split at h
      · rename_i s1 f hdial
        simp [setHandler, (dial_keeps _ _ _ _ hdial).1, hf] at h
      · simp [fail] at h
  | mAuthorize id user =>
    exfalso
    simp only [stepCore, onAuthorize] at h
    split at h
    · simp [fail] at h
    · split at h
      · simp [fail] at h
      · simp [setHandler, hf] at h
  | mSubmit => exfalso; simp [stepCore, fail] at h
  | pCfgResult id mask =>
    obtain ⟨a, _⟩ := onResult_connected s id _ _ _ hf h
    exact ⟨id, rfl, a⟩
  | pSubResult id en1 size =>
    obtain ⟨a, _⟩ := onResult_connected s id _ _ _ hf h
    exact ⟨id, rfl, a⟩
  | pResult id ok payload =>
    obtain ⟨a, b⟩ := onResult_connected s id _ _ _ hf h
    exact ⟨id, by simp [replyOf, b], a⟩
  | pNotify job => exfalso; simp [stepCore, hf] at h
  | pDiff d => exfalso; simp [stepCore, hf] at h
  | pExtranonce en1 size => exfalso; simp [stepCore, hf] at h
  | pMask mask => exfalso; simp [stepCore, hf] at h

/-- … and does so on exactly such a reply -/
theorem authorised_connects (s : HS) (id payload : String) (hf : s.finished = none)
    (hh : s.handlers.find? (·.1 = id) = some (id, .authorize)) :
    (step s (.pResult id true payload)).1.finished = some .connected ∧
    (step s (.pResult id true payload)).2 = [.session "connected"] := by
  simp only [step, hf, Option.isSome_none, Bool.false_eq_true, if_false, stepCore, onResult, hh, Bool.not_true]
  exact ⟨trivial, rfl⟩

/-- a refusal of the pending authorize ends the handshake with a destination error -/
theorem refused_authorize_fails (s : HS) (id payload : String) (hf : s.finished = none)
    (hh : s.handlers.find? (·.1 = id) = some (id, .authorize)) :
    (step s (.pResult id false payload)).1.finished = some (.failed "handshake-dest") := by
  simp [step, hf, stepCore, onResult, hh, fail]

/-! ### contract routing -/

/-- **unknown contract refused**: a connection announcing a contract address the store does not
know is refused without any pool connection being opened -/
theorem unknown_contract_refused (s : HS) (id mask minbits c : String) (hf : s.finished = none) (hc : c ≠ "")
    (hd : s.dest = none) (hu : s.contracts.find? (·.id = c) = none) :
    (step s (.mConfigure id mask minbits c)).1.finished = some (.failed "unknown-contract") ∧
    (step s (.mConfigure id mask minbits c)).2.filter isFactory = [] ∧
    (step s (.mConfigure id mask minbits c)).1.dest = s.dest := by
  simp only [step, hf, Option.isSome_none, Bool.false_eq_true, if_false, stepCore, onConfigure, contractTarget, hc, hu, fail, hd]
  simp [isFactory, List.filter]

/-- **known contract attached to its pool**: a connection announcing a known contract (whose
validator is not the contract itself) is connected to that contract's pool destination, and its
configure is forwarded there -/
theorem known_contract_routed (s : HS) (id mask minbits c : String) (ct : Contract) (u : PoolUrl)
    (hf : s.finished = none) (hc : c ≠ "") (hd : s.dest = none)
    (hk : s.contracts.find? (·.id = c) = some ct) (hv : ct.validator ≠ c)
    (hp : s.pools.find? (·.host = ct.pool) = some u) (hr : s.reachable.contains u.host = true) :
    ∃ n, (step s (.mConfigure id mask minbits c)).1.dest = some (u.host, n) ∧
         (step s (.mConfigure id mask minbits c)).1.destUrl = some u ∧
         (step s (.mConfigure id mask minbits c)).1.finished = none ∧
         Out.toPool u.host n s!"configure id={id} mask={mask} minbits={minbits} contract={c}" ∈ (step s (.mConfigure id mask minbits c)).2 := by
  simp only [step, hf, Option.isSome_none, Bool.false_eq_true, if_false, stepCore, onConfigure, contractTarget, hc, hk, hv, hp,
    dial, hr, if_true, hd]
  exact ⟨_, rfl, rfl, by simp [setHandler, hf], by simp [poolOut]⟩

/-- a configure on a connection that already has a destination is refused: the destination of a
connection is chosen once -/
theorem second_configure_refused (s : HS) (id mask minbits c : String) (d : String × Nat) (hf : s.finished = none)
    (hd : s.dest = some d) :
    (step s (.mConfigure id mask minbits c)).1.finished = some (.failed "handshake-source") ∧
    (step s (.mConfigure id mask minbits c)).1.dest = s.dest := by
  simp [step, hf, stepCore, onConfigure, hd, fail]

/-! ### many connections in one process -/

/-- a process is a list of connections; an event of connection `i` is handled by `step` on that
connection's own state -/
def pstep (cs : List HS) (i : Nat) (ev : Ev) : List HS × List Out :=
  match cs[i]? with
  | none => (cs, [])
  | some s => (cs.set i (step s ev).1, (step s ev).2)

/-- **regardless of what any other connection has done**: an event changes no other connection, and
what it does to its own connection — new state and everything sent — depends on that connection's
state alone -/
theorem connections_do_not_interfere (cs cs' : List HS) (i : Nat) (ev : Ev) (s : HS)
    (h : cs[i]? = some s) (h' : cs'[i]? = some s) :
    (∀ j, j ≠ i → (pstep cs i ev).1[j]? = cs[j]?) ∧
    (pstep cs i ev).2 = (pstep cs' i ev).2 ∧ (pstep cs i ev).1[i]? = (pstep cs' i ev).1[i]? := by
  unfold pstep
  simp only [h, h']
  refine ⟨?_, trivial, ?_⟩
  · intro j hj
    rw [List.getElem?_set_ne (Ne.symm hj)]
  · have hi : i < cs.length := by
      rcases Nat.lt_or_ge i cs.length with h1 | h1
      · exact h1
      · rw [List.getElem?_eq_none h1] at h; cases h
    have hi' : i < cs'.length := by
      rcases Nat.lt_or_ge i cs'.length with h1 | h1
      · exact h1
      · rw [List.getElem?_eq_none h1] at h'; cases h'
    simp [List.getElem?_set_self hi, List.getElem?_set_self hi']

/-! ### non-vacuity -/

def exHS : HS :=
  { notPropagate := false, defaultPool := { host := "pa", user := "acctpa.wpa", pwd := "pwdpa" },
    pools := [{ host := "pa", user := "acctpa.wpa", pwd := "pwdpa" }], reachable := ["pa"], contracts := [] }

example :
    let s1 := (step exHS (.mSubscribe "2")).1
    let s2 := (step s1 (.mAuthorize "3" "acct.rig7")).1
    s1.subscribed = true ∧ s2.handlers.find? (·.1 = "3") = some ("3", .authorize) ∧
    (step s2 (.pResult "3" true "ok")).1.finished = some .connected := by decide


/-! ### one connection = one state also outside the proxy: the per-connection handler (regenerated) -/

def lookupW (l : List (String × String)) (k : String) : Option String := (l.find? (·.1 = k)).map (·.2)

/-- the per-connection handler gives every connection *its own copy* of the configured destination: the proxy and the
scheduler are built on `url`, and `url` is `lib.CopyURL(defaultDestUrl)` — the handshake writes the miner's worker name
through that pointer (`onMiningAuthorize`), so without the copy one connection would edit every later connection's
destination account -/
theorem source_handler_clones_destination :
    lookupW PRV.Gen.Wiring.handlerProxyArgs "destURL" = some "url" ∧
    lookupW PRV.Gen.Wiring.handlerSchedulerArgs "defaultDest" = some "url" ∧
    lookupW PRV.Gen.Wiring.handlerLocals "url" = some "lib.CopyURL(defaultDestUrl)" ∧
    lookupW PRV.Gen.Wiring.proxyFields "destURL" = some "atomic.NewPointer(destURL)" := by decide


/-! ### replies are correlated with requests: the answer's handler is in place before the pool can answer (regenerated order) -/

section answerRace
open PRV.Model.AnswerRace

/-- each of the three handshake handlers registers the answer's callback before it writes the request -/
theorem source_handler_registered_before_write :
    PRV.Gen.C15.onMiningConfigureCalls = ["dest.onceResult", "dest.Write"] ∧
    PRV.Gen.C15.onMiningSubscribeCalls = ["dest.onceResult", "dest.Write"] ∧
    PRV.Gen.C15.onMiningAuthorizeCalls = ["dest.onceResult", "dest.Write"] := by decide

/-- **in the code's order the pool's answer always finds its handler**, however the reader goroutine is scheduled against the
sender (over the regenerated order of each handler): the miner gets one acknowledgement and the handshake goes on -/
theorem answer_finds_its_handler :
    ∀ calls ∈ [PRV.Gen.C15.onMiningConfigureCalls, PRV.Gen.C15.onMiningSubscribeCalls, PRV.Gen.C15.onMiningAuthorizeCalls],
      ∀ tr ∈ merges (senderOf calls) [.answer], valid tr = true → good (run tr) = true := by decide

/-- written first and registered afterwards, a fast pool's answer can be read in between: no handler is found, the answer goes
to the miner as a second result and the handshake never completes -/
theorem write_before_register_loses_the_answer :
    ∃ tr ∈ merges [.write, .register] [.answer], valid tr = true ∧ good (run tr) = false := by decide

end answerRace

end PRV.Props.C15
