import PRV.Gen.C20
import PRV.Gen.C09
import PRV.Model.Estimators
import Mathlib.Tactic.Linarith
import Mathlib.Tactic.FieldSimp
import Mathlib.Tactic.Ring
import Mathlib.Tactic.Positivity
import Mathlib.Algebra.Order.Field.Basic
import Mathlib.Algebra.Order.Floor.Ring
import Mathlib.Data.Rat.Floor
/-
C20 — Hashrate arithmetic is consistent.
`PRV.Gen.C20.*` is regenerated from hashrate.go on every run: the exact (ℚ) reading of every
conversion and a rounded reading (`…Fl fl`) in which the result of every float operation passes
through a rounding function `fl`.
-/
namespace PRV.Props.C20
open PRV.Gen.C20 PRV.Model.Est

/-! ### conversions are mutual inverses (exact arithmetic) -/

theorem hs_job_inverse (x : Rat) :
    hsToJobSubmitted (jobSubmittedToHS x) = x ∧ jobSubmittedToHS (hsToJobSubmitted x) = x := by
  unfold hsToJobSubmitted jobSubmittedToHS
  constructor <;> field_simp

theorem ghs_job_inverse (x : Rat) :
    jobSubmittedToGHS (ghsToJobSubmitted x) = x ∧ ghsToJobSubmitted (jobSubmittedToGHS x) = x := by
  unfold jobSubmittedToGHS ghsToJobSubmitted hsToJobSubmitted jobSubmittedToHS
  constructor <;> field_simp

theorem v2_inverse (x : Rat) (d : Int) (hd : d ≠ 0) :
    jobSubmittedToGHSV2 (ghsToJobSubmittedV2 x d) d = x ∧
    ghsToJobSubmittedV2 (jobSubmittedToGHSV2 x d) d = x := by
  have hd' : (d : Rat) ≠ 0 := by exact_mod_cast hd
  unfold jobSubmittedToGHSV2 ghsToJobSubmittedV2 hsToJobSubmitted jobSubmittedToHS
  constructor <;> field_simp

/-- the V2 pair agrees with the plain pair over one second -/
theorem v2_one_second (x : Rat) :
    ghsToJobSubmittedV2 x 1000000000 = ghsToJobSubmitted x ∧
    jobSubmittedToGHSV2 x 1000000000 = jobSubmittedToGHS x := by
  unfold ghsToJobSubmittedV2 jobSubmittedToGHSV2 ghsToJobSubmitted jobSubmittedToGHS
  constructor <;> norm_num

/-- whole GH/s survive the H/s round trip; H/s lose less than one GH/s, never gain -/
theorem ghs_hs_int_inverse (n : Int) : hsToGHS (ghsToHS n) = n := by
  unfold hsToGHS ghsToHS ratTrunc
  have : ((n : Rat) * 10 ^ 9 / 10 ^ 9) = (n : Rat) := by field_simp
  rw [this]
  split_ifs <;> simp

theorem ghs_hs_trunc (x : Rat) (hx : 0 ≤ x) :
    0 ≤ x - ghsToHS (hsToGHS x) ∧ x - ghsToHS (hsToGHS x) < 10 ^ 9 := by
  unfold hsToGHS ghsToHS ratTrunc
  have h0 : (0 : Rat) ≤ x / 10 ^ 9 := by positivity
  simp only [h0, if_true]
  have efl : (x / (10 : Rat) ^ 9).floor = ⌊x / (10 : Rat) ^ 9⌋ := rfl
  rw [efl]
  have hfl := Int.floor_le (x / (10 : Rat) ^ 9)
  have hlt := Int.lt_floor_add_one (x / (10 : Rat) ^ 9)
  have hp : (0 : Rat) < 10 ^ 9 := by positivity
  constructor
  · have := (le_div_iff₀ hp).mp hfl
    linarith
  · have := (div_lt_iff₀ hp).mp hlt
    linarith

/-! ### the same round trips under floating-point rounding

`Rounding u fl`: every result is off by a relative error of at most `u` (IEEE-754 binary64 without
overflow/underflow: `u = 2⁻⁵³`).  This is a hypothesis, not an axiom. -/

def Rounding (u : Rat) (fl : Rat → Rat) : Prop := ∀ y, ∃ δ : Rat, |δ| ≤ u ∧ fl y = y * (1 + δ)

theorem step_bound (p E δ u : Rat) (hE : 1 ≤ E) (hp : |p - 1| ≤ E - 1) (hδ : |δ| ≤ u) :
    |p * (1 + δ) - 1| ≤ E * (1 + u) - 1 := by
  have hu : 0 ≤ u := le_trans (abs_nonneg δ) hδ
  have h1 : p * (1 + δ) - 1 = (p - 1) * (1 + δ) + δ := by ring
  rw [h1]
  have h2 : |(p - 1) * (1 + δ)| ≤ (E - 1) * (1 + u) := by
    rw [abs_mul]
    have : |1 + δ| ≤ 1 + u := by
      calc |1 + δ| ≤ |1| + |δ| := abs_add_le _ _
        _ ≤ 1 + u := by simp; exact hδ
    exact mul_le_mul hp this (abs_nonneg _) (by linarith)
  calc |(p - 1) * (1 + δ) + δ| ≤ |(p - 1) * (1 + δ)| + |δ| := abs_add_le _ _
    _ ≤ (E - 1) * (1 + u) + u := add_le_add h2 hδ
    _ = E * (1 + u) - 1 := by ring

/-- GH/s → job units → GH/s under rounding: four rounded operations, relative error at most
`(1+u)⁴ − 1` (≈ 4u; below `6u` for `u ≤ 1/10`). -/
theorem ghs_job_roundtrip_rounded (u : Rat) (fl : Rat → Rat) (h : Rounding u fl) (x : Rat) :
    |jobSubmittedToGHSFl fl (ghsToJobSubmittedFl fl x) - x| ≤ ((1 + u) ^ 4 - 1) * |x| := by
  unfold jobSubmittedToGHSFl ghsToJobSubmittedFl hsToJobSubmittedFl jobSubmittedToHSFl
  obtain ⟨d1, h1, e1⟩ := h (x * 10 ^ 9)
  rw [e1]
  obtain ⟨d2, h2, e2⟩ := h (x * 10 ^ 9 * (1 + d1) / 2 ^ 32)
  rw [e2]
  obtain ⟨d3, h3, e3⟩ := h (x * 10 ^ 9 * (1 + d1) / 2 ^ 32 * (1 + d2) * 2 ^ 32)
  rw [e3]
  obtain ⟨d4, h4, e4⟩ := h (x * 10 ^ 9 * (1 + d1) / 2 ^ 32 * (1 + d2) * 2 ^ 32 * (1 + d3) / 10 ^ 9)
  rw [e4]
  have hu : 0 ≤ u := le_trans (abs_nonneg d1) h1
  have hx : x * 10 ^ 9 * (1 + d1) / 2 ^ 32 * (1 + d2) * 2 ^ 32 * (1 + d3) / 10 ^ 9 * (1 + d4) - x
      = ((1 + d1) * (1 + d2) * (1 + d3) * (1 + d4) - 1) * x := by
    field_simp
  rw [hx, abs_mul]
  apply mul_le_mul_of_nonneg_right _ (abs_nonneg x)
  have hb : (1 : Rat) ≤ 1 + u := by linarith
  have s1 : |(1 : Rat) * (1 + d1) - 1| ≤ 1 * (1 + u) - 1 :=
    step_bound 1 1 d1 u (le_refl _) (by simp) h1
  have s2 := step_bound (1 * (1 + d1)) (1 * (1 + u)) d2 u (by linarith) s1 h2
  have s3 := step_bound (1 * (1 + d1) * (1 + d2)) (1 * (1 + u) * (1 + u)) d3 u
    (by nlinarith) s2 h3
  have s4 := step_bound (1 * (1 + d1) * (1 + d2) * (1 + d3)) (1 * (1 + u) * (1 + u) * (1 + u)) d4 u
    (by nlinarith [mul_nonneg hu hu, mul_nonneg (mul_nonneg hu hu) hu]) s3 h4
  have e : 1 * (1 + u) * (1 + u) * (1 + u) * (1 + u) - 1 = (1 + u) ^ 4 - 1 := by ring
  rw [e] at s4
  simpa using s4

theorem four_roundings_below_6u (u : Rat) (h0 : 0 ≤ u) (h1 : u ≤ 1 / 10) : (1 + u) ^ 4 - 1 ≤ 6 * u := by
  nlinarith [mul_nonneg h0 h0, mul_nonneg (mul_nonneg h0 h0) h0, mul_nonneg (mul_nonneg h0 h0) (mul_nonneg h0 h0)]

/-! ### Mean -/

/-- the mean reports total work over elapsed (whole) seconds -/
theorem mean_total_over_elapsed (m : Mean) (now : Int) (h : m.first < now) :
    m.valuePer now 1000000000 = some ((m.totalWork : Rat) / ((now - m.first : Int) : Rat)) := by
  unfold Mean.valuePer Mean.totalDuration
  have h1 : (now - m.first) * 1000000000 ≠ 0 := by omega
  have h2 : Int.tdiv ((now - m.first) * 1000000000) 1000000000 = now - m.first := by
    rw [Int.mul_tdiv_cancel _ (by decide)]
  have h3 : now - m.first ≠ 0 := by omega
  simp [h1, h2, h3]

/-- with the interval the public API uses (one second) the mean is always defined and ≥ 0 -/
theorem mean_defined_nonneg (m : Mean) (now : Int) (h : m.first ≤ now) :
    ∃ v, m.valuePer now 1000000000 = some v ∧ 0 ≤ v := by
  by_cases he : m.first = now
  · refine ⟨0, ?_, le_refl _⟩
    unfold Mean.valuePer Mean.totalDuration; simp [he]
  · have hlt : m.first < now := lt_of_le_of_ne h he
    refine ⟨_, mean_total_over_elapsed m now hlt, ?_⟩
    have : (0 : Rat) < ((now - m.first : Int) : Rat) := by
      have : (0 : Int) < now - m.first := by omega
      exact_mod_cast this
    positivity

/-- work accumulated by a sequence of adds since the last reset -/
def meanRun (m : Mean) : List (Nat × Int) → Mean
  | [] => m
  | (d, t) :: rest => meanRun (m.add d t) rest

theorem mean_total_is_sum (m : Mean) (adds : List (Nat × Int)) :
    (meanRun m adds).totalWork = m.totalWork + (adds.map (·.1)).sum := by
  induction adds generalizing m with
  | nil => simp [meanRun]
  | cons a adds ih =>
    obtain ⟨d, t⟩ := a
    simp only [meanRun, List.map_cons, List.sum_cons]
    rw [ih]
    have : (m.add d t).totalWork = m.totalWork + d := by
      unfold Mean.add Mean.maybeSetFirst; split <;> rfl
    omega

/-- the first submit time is set once and then kept -/
theorem mean_first_kept (m : Mean) (d : Nat) (t : Int) (h : m.first ≠ 0) : (m.add d t).first = m.first := by
  unfold Mean.add Mean.maybeSetFirst; simp [h]

/-! ### Ema -/

/-- decay weights of a real exponential: in (0,1] for non-negative elapsed time
(the float `math.Exp` may underflow to 0, hence `0 ≤`) -/
def Decay (w : Int → Rat) : Prop := ∀ Δ, 0 ≤ Δ → 0 ≤ w Δ ∧ w Δ ≤ 1

theorem ema_step (w : Int → Rat) (hw : Decay w) (e : Ema) (b : Rat) (now : Int)
    (ht : e.lastTime ≤ now) (h0 : 0 ≤ e.lastValue) (hb : e.lastValue ≤ b) :
    0 ≤ e.valueAt w now ∧ e.valueAt w now ≤ b := by
  unfold Ema.valueAt
  split_ifs with hz
  · exact ⟨le_refl _, le_trans h0 hb⟩
  · obtain ⟨w0, w1⟩ := hw (now - e.lastTime) (by omega)
    constructor
    · exact mul_nonneg h0 w0
    · calc e.lastValue * w (now - e.lastTime) ≤ e.lastValue * 1 := mul_le_mul_of_nonneg_left w1 h0
        _ ≤ b := by simpa using hb

/-- Ordered adds of non-negative values: -/
def OrderedFrom (t0 : Int) : List (Rat × Int) → Prop
  | [] => True
  | (v, t) :: rest => 0 ≤ v ∧ t0 ≤ t ∧ OrderedFrom t rest

/-- for every sequence of non-negative adds at non-decreasing instants, at every later instant the
EMA is non-negative and never exceeds everything that was added (no negative / runaway value) -/
theorem ema_bounded (w : Int → Rat) (hw : Decay w) (adds : List (Rat × Int)) :
    ∀ (e : Ema) (b : Rat), 0 ≤ e.lastValue → e.lastValue ≤ b → OrderedFrom e.lastTime adds →
    ∀ now, (Ema.run w e adds).lastTime ≤ now →
      0 ≤ (Ema.run w e adds).valueAt w now ∧
      (Ema.run w e adds).valueAt w now ≤ b + (adds.map (·.1)).sum := by
  induction adds with
  | nil =>
    intro e b h0 hb _ now hn
    simpa [Ema.run] using ema_step w hw e b now hn h0 hb
  | cons a adds ih =>
    obtain ⟨v, t⟩ := a
    intro e b h0 hb hord now hn
    obtain ⟨hv, ht, hrest⟩ := hord
    obtain ⟨s0, s1⟩ := ema_step w hw e b t ht h0 hb
    have := ih (e.add w v t) (b + v) (by unfold Ema.add; simp; linarith)
      (by unfold Ema.add; simp; linarith) (by simpa [Ema.add] using hrest) now
      (by simpa [Ema.run] using hn)
    simp only [Ema.run, List.map_cons, List.sum_cons]
    constructor
    · exact this.1
    · linarith [this.2]

/-! ### Sma -/

theorem dropExpired_sum (window now : Int) (l : List (Int × Int)) (sum : Int)
    (h : sum = (l.map (·.2)).sum) :
    (Sma.dropExpired window now l sum).2 = ((Sma.dropExpired window now l sum).1.map (·.2)).sum := by
  induction l generalizing sum with
  | nil => simpa [Sma.dropExpired] using h
  | cons a l ih =>
    obtain ⟨ts, v⟩ := a
    unfold Sma.dropExpired
    split_ifs
    · simpa using h
    · apply ih; simp at h; omega

theorem dropExpired_sublist (window now : Int) (l : List (Int × Int)) (sum : Int) :
    ∃ k, (Sma.dropExpired window now l sum).1 = l.drop k := by
  induction l generalizing sum with
  | nil => exact ⟨0, rfl⟩
  | cons a l ih =>
    obtain ⟨ts, v⟩ := a
    unfold Sma.dropExpired
    split_ifs
    · exact ⟨0, rfl⟩
    · obtain ⟨k, hk⟩ := ih (sum - v); exact ⟨k + 1, by simpa using hk⟩

/-- the running sum always equals the sum of the retained measurements, so with non-negative
measurements and a positive window the reported value is defined and non-negative -/
theorem sma_nonneg (s : Sma) (now : Int) (hw : 0 < s.window)
    (hsum : s.sum = (s.items.map (·.2)).sum) (hpos : ∀ p ∈ s.items, 0 ≤ p.2) :
    ∃ v, (s.value now).2 = some v ∧ 0 ≤ v := by
  unfold Sma.value Sma.check
  have hw' : s.window ≠ 0 := by omega
  simp only [hw', if_false]
  refine ⟨_, rfl, ?_⟩
  have hs := dropExpired_sum s.window now s.items.reverse s.sum (by
    rw [hsum, List.map_reverse, List.sum_reverse])
  obtain ⟨k, hk⟩ := dropExpired_sublist s.window now s.items.reverse s.sum
  have hnn : 0 ≤ (Sma.dropExpired s.window now s.items.reverse s.sum).2 := by
    rw [hs, hk]
    apply List.sum_nonneg
    intro x hx
    obtain ⟨p, hp, rfl⟩ := List.mem_map.mp hx
    have : p ∈ s.items := by
      have := List.mem_of_mem_drop hp
      simpa using this
    exact hpos p this
  have h1 : (0 : Rat) ≤ ((Sma.dropExpired s.window now s.items.reverse s.sum).2 : Rat) := by
    exact_mod_cast hnn
  have h2 : (0 : Rat) < (s.window : Rat) := by exact_mod_cast hw
  positivity

/-- adding keeps the sum invariant -/
theorem sma_add_inv (s : Sma) (v ts : Int) (hsum : s.sum = (s.items.map (·.2)).sum) :
    (s.add v ts).sum = ((s.add v ts).items.map (·.2)).sum := by
  unfold Sma.add; simp [hsum]; omega

theorem sma_check_inv (s : Sma) (now : Int) (hsum : s.sum = (s.items.map (·.2)).sum) :
    (s.check now).sum = ((s.check now).items.map (·.2)).sum := by
  unfold Sma.check
  simp only
  rw [List.map_reverse, List.sum_reverse]
  exact dropExpired_sum s.window now s.items.reverse s.sum (by
    rw [hsum, List.map_reverse, List.sum_reverse])

/-! ### non-vacuity -/
example : jobSubmittedToGHS (ghsToJobSubmitted 700) = 700 := (ghs_job_inverse 700).1
example : Rounding 0 id := fun y => ⟨0, by simp, by simp⟩
example : Decay (fun _ => 1 / 2) := fun _ _ => by norm_num
example : (({ totalWork := 600, first := 100 } : Mean).valuePer 160 1000000000) = some 10 := by
  rw [mean_total_over_elapsed _ _ (by decide)]; norm_num


/-! ### where the conversions are used as a pair: the seller's mid-cycle allocation (regenerated) -/

/-- `adjustHashrate` converts the missing rate to work over the time *left in the cycle* and converts what the allocator placed
back over the *same* span: the pair is an inverse pair (`v2_inverse`) only then — over two different spans the contract would
credit itself `remaining / cycle` of what it handed out -/
theorem source_seller_converts_over_one_span :
    PRV.Gen.C09.adjustSkeleton.contains
      "if hashrateGHS > partialMinersThresholdGHS { job := hr.GHSToJobSubmittedV2(hashrateGHS, remainingCycleDuration); addedJob := p.addPartialMiners(job, remainingCycleDuration); addedGHS := hr.JobSubmittedToGHSV2(addedJob, remainingCycleDuration); hashrateGHS -= addedGHS }" = true := by decide +kernel

end PRV.Props.C20
