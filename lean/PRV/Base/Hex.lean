/-
Hex decoding with the semantics of Go's `encoding/hex.DecodeString` *when the error is ignored*
(as `validator_diff.go` and `mining_job.go` do): the bytes decoded before the first offending
character are returned.
-/
namespace PRV.Base

def hexVal (c : Char) : Option Nat :=
  if '0' ≤ c ∧ c ≤ '9' then some (c.toNat - '0'.toNat)
  else if 'a' ≤ c ∧ c ≤ 'f' then some (c.toNat - 'a'.toNat + 10)
  else if 'A' ≤ c ∧ c ≤ 'F' then some (c.toNat - 'A'.toNat + 10)
  else none

/-- bytes decoded before the first error (odd trailing nibble is dropped) -/
def hexDecodeChars : List Char → List Nat
  | a :: b :: rest =>
    match hexVal a, hexVal b with
    | some x, some y => (x * 16 + y) :: hexDecodeChars rest
    | _, _ => []
  | _ => []

def hexDecode (s : String) : List Nat := hexDecodeChars s.toList

/-- the whole string is valid, even-length hex -/
def isHexChars : List Char → Bool
  | [] => true
  | a :: b :: rest => (hexVal a).isSome && (hexVal b).isSome && isHexChars rest
  | [_] => false

def isHex (s : String) : Bool := isHexChars s.toList

def hexDigit (n : Nat) : Char :=
  if n < 10 then Char.ofNat (n + '0'.toNat) else Char.ofNat (n - 10 + 'a'.toNat)

def hexEncode (bs : List Nat) : String :=
  String.ofList (bs.flatMap (fun b => [hexDigit (b / 16 % 16), hexDigit (b % 16)]))

end PRV.Base
