/-
SHA-256 (FIPS 180-4) over byte lists, written from the standard.  Used as the executable hash of the
proof-of-work model; the theorems of C01 hold for *any* 32-byte hash function, this one is what the
correspondence check runs against Go's crypto/sha256.
-/
namespace PRV.Base.Sha256

def K : Array UInt32 := #[
  0x428a2f98, 0x71374491, 0xb5c0fbcf, 0xe9b5dba5, 0x3956c25b, 0x59f111f1, 0x923f82a4, 0xab1c5ed5,
  0xd807aa98, 0x12835b01, 0x243185be, 0x550c7dc3, 0x72be5d74, 0x80deb1fe, 0x9bdc06a7, 0xc19bf174,
  0xe49b69c1, 0xefbe4786, 0x0fc19dc6, 0x240ca1cc, 0x2de92c6f, 0x4a7484aa, 0x5cb0a9dc, 0x76f988da,
  0x983e5152, 0xa831c66d, 0xb00327c8, 0xbf597fc7, 0xc6e00bf3, 0xd5a79147, 0x06ca6351, 0x14292967,
  0x27b70a85, 0x2e1b2138, 0x4d2c6dfc, 0x53380d13, 0x650a7354, 0x766a0abb, 0x81c2c92e, 0x92722c85,
  0xa2bfe8a1, 0xa81a664b, 0xc24b8b70, 0xc76c51a3, 0xd192e819, 0xd6990624, 0xf40e3585, 0x106aa070,
  0x19a4c116, 0x1e376c08, 0x2748774c, 0x34b0bcb5, 0x391c0cb3, 0x4ed8aa4a, 0x5b9cca4f, 0x682e6ff3,
  0x748f82ee, 0x78a5636f, 0x84c87814, 0x8cc70208, 0x90befffa, 0xa4506ceb, 0xbef9a3f7, 0xc67178f2]

@[inline] def rotr (x : UInt32) (n : UInt32) : UInt32 := (x >>> n) ||| (x <<< (32 - n))

structure St where
  a : UInt32
  b : UInt32
  c : UInt32
  d : UInt32
  e : UInt32
  f : UInt32
  g : UInt32
  h : UInt32

def init : St :=
  ⟨0x6a09e667, 0xbb67ae85, 0x3c6ef372, 0xa54ff53a, 0x510e527f, 0x9b05688c, 0x1f83d9ab, 0x5be0cd19⟩

/-- message padding: 0x80, zeros up to 56 mod 64, bit length as 64-bit big endian -/
def pad (msg : List Nat) : List Nat :=
  let l := msg.length
  let zeros := (64 - (l + 9) % 64) % 64
  let bits := l * 8
  msg ++ [0x80] ++ List.replicate zeros 0 ++ (List.range 8).map (fun i => (bits >>> (8 * (7 - i))) % 256)

def word (b0 b1 b2 b3 : Nat) : UInt32 :=
  UInt32.ofNat (((b0 % 256) <<< 24) + ((b1 % 256) <<< 16) + ((b2 % 256) <<< 8) + (b3 % 256))

def words : List Nat → List UInt32
  | b0 :: b1 :: b2 :: b3 :: rest => word b0 b1 b2 b3 :: words rest
  | _ => []

/-- message schedule of one block -/
def schedule (w16 : Array UInt32) : Array UInt32 :=
  (List.range 48).foldl (fun (w : Array UInt32) i =>
    let t := i + 16
    let w15 := w[t - 15]!
    let w2 := w[t - 2]!
    let s0 := rotr w15 7 ^^^ rotr w15 18 ^^^ (w15 >>> 3)
    let s1 := rotr w2 17 ^^^ rotr w2 19 ^^^ (w2 >>> 10)
    w.push (w[t - 16]! + s0 + w[t - 7]! + s1)) w16

def round (s : St) (k w : UInt32) : St :=
  let S1 := rotr s.e 6 ^^^ rotr s.e 11 ^^^ rotr s.e 25
  let ch := (s.e &&& s.f) ^^^ ((~~~ s.e) &&& s.g)
  let t1 := s.h + S1 + ch + k + w
  let S0 := rotr s.a 2 ^^^ rotr s.a 13 ^^^ rotr s.a 22
  let maj := (s.a &&& s.b) ^^^ (s.a &&& s.c) ^^^ (s.b &&& s.c)
  let t2 := S0 + maj
  ⟨t1 + t2, s.a, s.b, s.c, s.d + t1, s.e, s.f, s.g⟩

def compress (h : St) (block : List UInt32) : St :=
  let w := schedule block.toArray
  let s := (List.range 64).foldl (fun s i => round s K[i]! w[i]!) h
  ⟨h.a + s.a, h.b + s.b, h.c + s.c, h.d + s.d, h.e + s.e, h.f + s.f, h.g + s.g, h.h + s.h⟩

def blocks (fuel : Nat) (ws : List UInt32) (h : St) : St :=
  match fuel with
  | 0 => h
  | fuel + 1 => if ws.length < 16 then h else blocks fuel (ws.drop 16) (compress h (ws.take 16))

def be4 (x : UInt32) : List Nat :=
  let n := x.toNat
  [n / 16777216 % 256, n / 65536 % 256, n / 256 % 256, n % 256]

def digest (s : St) : List Nat :=
  be4 s.a ++ be4 s.b ++ be4 s.c ++ be4 s.d ++ be4 s.e ++ be4 s.f ++ be4 s.g ++ be4 s.h

def sha256 (msg : List Nat) : List Nat :=
  let ws := words (pad msg)
  digest (blocks (ws.length / 16 + 1) ws init)

theorem digest_length (s : St) : (digest s).length = 32 := by simp [digest, be4]

theorem sha256_length (msg : List Nat) : (sha256 msg).length = 32 := digest_length _

end PRV.Base.Sha256
