/-
Specification for C19 (job memory), written against an *unbounded log* of announcements.
Nothing here mentions the bounded cache.
-/
namespace PRV.Spec.C19

/-- One announcement (mining.notify) as the specification remembers it. -/
structure Ann where
  id     : String
  serial : Nat                 -- position in the connection's announcement history ("that job's data")
  exp    : Option Int          -- instant after which it is no longer honoured
  shares : List (List Nat)     -- share keys already seen for this announcement
deriving Repr, DecidableEq

inductive Verdict where
  | notFound | duplicate | checked (serial : Nat)
deriving Repr, DecidableEq

/-- the last `n` elements -/
def lastN {β : Type} (n : Nat) (l : List β) : List β := l.drop (l.length - n)

/-- latest element with the given id, searching from the newest -/
def findLatest (id : String) : List Ann → Option Ann
  | [] => none
  | a :: rest => match findLatest id rest with
      | some r => some r
      | none => if a.id = id then some a else none

structure State where
  window  : Nat               -- how many most recent announcements are honoured (30)
  timeout : Int
  log     : List Ann := []    -- every announcement so far, oldest first
deriving Repr

def stamp (e : Int) (a : Ann) : Ann := match a.exp with
  | some _ => a
  | none => { a with exp := some e }

/-- A notify at time `now`: a clean-jobs notify stamps every earlier, not yet stamped
announcement with `now + timeout`; then the new announcement is appended. -/
def notify (s : State) (id : String) (clean : Bool) (now : Int) : State :=
  let log := if clean then s.log.map (stamp (now + s.timeout)) else s.log
  { s with log := log ++ [{ id := id, serial := s.log.length, exp := none, shares := [] }] }

def addShare (id : String) (serial : Nat) (sh : List Nat) (a : Ann) : Ann :=
  if a.id = id ∧ a.serial = serial then { a with shares := sh :: a.shares } else a

/-- has this announcement's expiry instant passed? (strictly) -/
def expired (a : Ann) (now : Int) : Bool := match a.exp with
  | some e => decide (e < now)
  | none => false

/-- A submit naming `id` with share key `sh` at time `now`. -/
def submit (s : State) (id : String) (sh : List Nat) (now : Int) : State × Verdict :=
  match findLatest id (lastN s.window s.log) with
  | none => (s, .notFound)
  | some a =>
    if expired a now then (s, .notFound)
    else if a.shares.contains sh then (s, .duplicate)
    else ({ s with log := s.log.map (addShare id a.serial sh) }, .checked a.serial)

/-- id announced by the most recent notify -/
def latest (s : State) : Option Nat := s.log.getLast?.map (·.serial)

end PRV.Spec.C19
