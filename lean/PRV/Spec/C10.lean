/-
Specification of C10's tolerance clause as an executable monitor over observed values
(result of the tolerance function for given elapsed / threshold / flatness / skip period).
-/
namespace PRV.Spec.C10

/-- clauses a single observation must satisfy (`0 ≤ m ≤ 1`, non-negative durations) -/
def tolClauses (e : Int) (m : Rat) (_f s : Int) (r : Rat) : List String :=
  (if e ≤ s ∧ r ≠ 1 then ["tolerance is not 100% inside the skip period"] else []) ++
  (if r < m then ["tolerance below the configured threshold"] else []) ++
  (if r > 1 then ["tolerance above 100%"] else [])

/-- two observations with the same configuration, `e1 ≤ e2` -/
def tolPairClauses (e1 e2 : Int) (r1 r2 : Rat) : List String :=
  if e1 ≤ e2 ∧ r2 > r1 then ["tolerance increases with elapsed time"] else []

end PRV.Spec.C10
