import PRV.Base.Hex
/-
Specification of the proof-of-work check, written from the Bitcoin block header layout and the
Stratum V1 / BIP 310 conventions, independently of the Go code.

  header  = version_LE ‖ prevhash (each 4-byte word byte-swapped) ‖ merkle root ‖ ntime_LE ‖ nbits_LE ‖ nonce_LE
  root    = fold (λ r b, H²(r ‖ b)) (H²(coinb1 ‖ extranonce1 ‖ extranonce2 ‖ coinb2)) branches
  version = job version with exactly the mask-permitted bits taken from the miner's version bits
  hash    = H²(header) read as a little-endian 256-bit number
  share difficulty = ⌊D1 / hash⌋,  D1 = 0xffff·2²⁰⁸;   the share meets difficulty d  iff  d · hash ≤ D1
-/
namespace PRV.Spec.C01
open PRV.Base

abbrev Hash := List Nat → List Nat
def hh (H : Hash) (x : List Nat) : List Nat := H (H x)

structure Job where
  prevHash : String
  gen1     : String
  gen2     : String
  branches : List String
  version  : String
  nbits    : String
deriving Repr

structure Share where
  en2   : String
  ntime : String
  nonce : String
  bits  : Option String     -- BIP 310 version bits
deriving Repr

def hexN (n : Nat) (s : String) : Bool := isHex s && s.toList.length == 2 * n

/-- the inputs the property speaks about -/
def wellFormed (en1 mask : String) (j : Job) (s : Share) : Bool :=
  hexN 32 j.prevHash && hexN 4 j.version && hexN 4 j.nbits && hexN 4 s.ntime && hexN 4 s.nonce &&
  isHex j.gen1 && isHex en1 && isHex s.en2 && isHex j.gen2 && j.branches.all (hexN 32) &&
  (match s.bits with | none => true | some b => hexN 4 b && hexN 4 mask)

/-- big-endian value of a byte string -/
def beVal (bs : List Nat) : Nat := bs.foldl (fun acc b => acc * 256 + b) 0

/-- a 32-bit number as 4 little-endian bytes -/
def le4 (n : Nat) : List Nat := [n % 256, n / 256 % 256, n / 65536 % 256, n / 16777216 % 256]

/-- a little-endian byte string as a number -/
def leVal : List Nat → Nat
  | [] => 0
  | b :: rest => b + 256 * leVal rest

def swap32 : List Nat → List Nat
  | a :: b :: c :: d :: rest => d :: c :: b :: a :: swap32 rest
  | _ => []

def word (s : String) : BitVec 32 := BitVec.ofNat 32 (beVal (hexDecode s))

/-- the version the miner hashed: mask-permitted bits from the miner, the others from the job -/
def version (mask : String) (j : Job) (s : Share) : BitVec 32 :=
  match s.bits with
  | none => word j.version
  | some b => (word j.version &&& ~~~ (word mask)) ||| (word b &&& word mask)

def merkleRoot (H : Hash) (en1 : String) (j : Job) (s : Share) : List Nat :=
  j.branches.foldl (fun r b => hh H (r ++ hexDecode b))
    (hh H (hexDecode j.gen1 ++ hexDecode en1 ++ hexDecode s.en2 ++ hexDecode j.gen2))

def header (H : Hash) (en1 mask : String) (j : Job) (s : Share) : List Nat :=
  le4 (version mask j s).toNat ++ swap32 (hexDecode j.prevHash) ++ merkleRoot H en1 j s ++
  le4 (beVal (hexDecode s.ntime)) ++ le4 (beVal (hexDecode j.nbits)) ++ le4 (beVal (hexDecode s.nonce))

def shareHash (H : Hash) (en1 mask : String) (j : Job) (s : Share) : Nat :=
  leVal (hh H (header H en1 mask j s))

def D1 : Nat := 0xffff * 2 ^ 208

def shareDiff (H : Hash) (en1 mask : String) (j : Job) (s : Share) : Nat := D1 / shareHash H en1 mask j s

/-- the share meets difficulty `d` -/
def meets (H : Hash) (en1 mask : String) (j : Job) (s : Share) (d : Rat) : Prop :=
  d * (shareHash H en1 mask j s : Rat) ≤ (D1 : Rat)

end PRV.Spec.C01
