import PRV.Model.Sched
import Mathlib.Tactic.SplitIfs
import Mathlib.Tactic.Linarith
import Mathlib.Tactic.Push
/-
Helper lemmas for C07: task list invariants and the run-to-quiescence function.
-/
namespace PRV.Proofs.C07
open PRV.Model.Sched

/-! ### TaskList.cancel -/

def other (cid : String) (t : Task) : Bool := !decide (t.cid = cid)

theorem cancelRest_filter (cid : String) (l : List Task) :
    (TaskList.cancelRest cid l).1 = l.filter (other cid) ∧
    (TaskList.cancelRest cid l).2 + (l.filter (other cid)).length = l.length := by
  induction l with
  | nil => simp [TaskList.cancelRest]
  | cons t rest ih =>
    unfold TaskList.cancelRest
    by_cases h : t.cid = cid
    · have hd : other cid t = false := by simp [other, h]
      simp only [h, if_true, List.filter_cons, hd, Bool.false_eq_true, if_false, List.length_cons]
      exact ⟨ih.1, by omega⟩
    · have hd : other cid t = true := by simp [other, h]
      simp only [h, if_false, List.filter_cons, hd, if_true, List.length_cons]
      exact ⟨by rw [ih.1], by omega⟩

theorem cancel_tasks (l : TaskList) (cid : String) (h : Task) (rest : List Task) (hl : l.tasks = h :: rest) :
    (l.cancel cid).tasks =
        if l.taken = true ∧ h.cid = cid then { h with cancelled := true } :: rest.filter (other cid)
        else (h :: rest).filter (other cid) := by
  unfold TaskList.cancel
  rw [hl]
  simp only
  split_ifs with hc
  · simp [(cancelRest_filter cid rest).1]
  · simp [(cancelRest_filter cid (h :: rest)).1]

theorem cancel_nil (l : TaskList) (cid : String) (hl : l.tasks = []) : l.cancel cid = l := by
  unfold TaskList.cancel; rw [hl]

theorem cancel_taken (l : TaskList) (cid : String) : (l.cancel cid).taken = l.taken := by
  unfold TaskList.cancel
  cases l.tasks with
  | nil => rfl
  | cons h rest => simp only; split_ifs <;> rfl

theorem cancel_size (l : TaskList) (cid : String) (h : l.size = l.tasks.length) :
    (l.cancel cid).size = (l.cancel cid).tasks.length := by
  unfold TaskList.cancel
  cases hl : l.tasks with
  | nil => simpa [hl] using h
  | cons t rest =>
    simp only
    rw [hl] at h
    split_ifs with hc
    · have := cancelRest_filter cid rest
      simp only [List.length_cons, this.1]
      simp only [List.length_cons] at h
      have h2 := this.2
      push_cast
      omega
    · have := cancelRest_filter cid (t :: rest)
      simp only [this.1]
      have h2 := this.2
      simp only [List.length_cons] at h h2
      omega

/-! ### the scheduler run to quiescence -/

/-- well-formedness of a scheduler state between events -/
structure WF (s : Sched) : Prop where
  size  : s.tl.size = s.tl.tasks.length
  taken : s.tl.taken = true → ∃ t rest, s.tl.tasks = t :: rest ∧ s.cur = t.dest ∧ s.cb = some t.tid ∧ s.idle = false
  idle  : s.idle = true → s.cur = s.primary ∧ s.cb = none ∧ s.tl.taken = false

/-- the scheduler goroutine is blocked: parked on the primary destination with an empty queue, or
serving the head of the queue, which is neither finished, removed nor expired -/
def Quiescent (s : Sched) : Prop :=
  s.exited = true ∨
  (s.tl.tasks = [] ∧ s.tl.taken = false ∧ s.idle = true ∧ s.cur = s.primary ∧ s.cb = none) ∨
  (∃ t rest, s.tl.tasks = t :: rest ∧ s.tl.taken = true ∧ t.cancelled = false ∧ s.now < t.deadline ∧
    s.cur = t.dest ∧ s.cb = some t.tid)

/-- what `settle` guarantees -/
structure SettleSpec (s r : Sched) (outs : List Out) : Prop where
  wf        : WF r
  quiescent : Quiescent r
  suffix    : r.tl.tasks <:+ s.tl.tasks
  setdest   : ∀ d, Out.setDest d true ∈ outs →
                ∃ t ∈ (if s.tl.taken then s.tl.tasks.tail else s.tl.tasks), t.dest = d ∧ t.cancelled = false
  onend     : ∀ tid r k, Out.onEnd tid r k ∈ outs → ∃ t ∈ s.tl.tasks, t.tid = tid ∧ t.remaining = r ∧
                ((k = .done ∧ t.cancelled = true) ∨ (k = .deadline ∧ t.deadline ≤ s.now))
  primary   : r.primary = s.primary
  now       : r.now = s.now
  serial    : r.serial = s.serial
  exited    : r.exited = s.exited

theorem settle_spec (fuel : Nat) : ∀ (s : Sched), WF s → s.tl.tasks.length < fuel →
    SettleSpec s (settle fuel s).1 (settle fuel s).2 := by
  induction fuel with
  | zero => intro s _ h; omega
  | succ fuel ih =>
    intro s hwf hf
    obtain ⟨⟨tasks, taken, size⟩, now, primary, cur, cb, idle, exited, serial⟩ := s
    unfold settle
    cases exited with
    | true => exact ⟨hwf, Or.inl rfl, List.suffix_refl _, by simp, by simp, rfl, rfl, rfl, rfl⟩
    | false =>
      simp only [Bool.false_eq_true, if_false]
      cases tasks with
      | nil =>
        simp only
        cases idle with
        | true =>
          obtain ⟨a, b, c⟩ := hwf.idle rfl
          simp only at a b c
          simp only [if_true]
          exact ⟨hwf, Or.inr (Or.inl ⟨rfl, c, rfl, a, b⟩), List.suffix_refl _, by simp, by simp, rfl, rfl, rfl, rfl⟩
        | false =>
          simp only [Bool.false_eq_true, if_false]
          have hnt : taken = false := by
            cases taken with
            | false => rfl
            | true => obtain ⟨t, rest, e, _⟩ := hwf.taken rfl; simp at e
          subst hnt
          exact ⟨⟨hwf.size, by intro h; simp at h, by intro _; exact ⟨rfl, rfl, rfl⟩⟩,
            Or.inr (Or.inl ⟨rfl, rfl, rfl, rfl, rfl⟩), List.suffix_refl _, by simp, by simp, rfl, rfl, rfl, rfl⟩
      | cons t rest =>
        simp only
        have hlen : rest.length < fuel := by simp only [List.length_cons] at hf; omega
        have hsz : size = (rest.length : Int) + 1 := by
          have := hwf.size; simp only [List.length_cons] at this; push_cast at this; exact this
        -- the state after the head has been retired
        have hw' : ∀ (cur' : String) (cb' : Option Nat),
            WF { tl := { tasks := rest, taken := false, size := size - 1 }, now := now, primary := primary,
                 cur := cur', cb := cb', idle := false, exited := false, serial := serial } := by
          intro cur' cb'
          exact ⟨by simp only; omega, by intro h; simp at h, by intro h; simp at h⟩
        have lift : ∀ (k : EndKind) (r : Sched) (o : List Out) (s' : Sched),
            s'.tl.tasks = rest → s'.tl.taken = false →
            ((k = .done ∧ t.cancelled = true) ∨ (k = .deadline ∧ t.deadline ≤ now)) →
            SettleSpec s' r o → s'.primary = primary → s'.now = now → s'.serial = serial → s'.exited = false →
            SettleSpec { tl := { tasks := t :: rest, taken := taken, size := size }, now := now, primary := primary,
                         cur := cur, cb := cb, idle := idle, exited := false, serial := serial } r
              (Out.onEnd t.tid t.remaining k :: o) := by
          intro k r o s' hs' hnt hk sp h1 h2 h3 h4
          refine ⟨sp.wf, sp.quiescent, ?_, ?_, ?_, by rw [sp.primary, h1], by rw [sp.now, h2],
            by rw [sp.serial, h3], by rw [sp.exited, h4]⟩
          · exact List.IsSuffix.trans (hs' ▸ sp.suffix) (List.suffix_cons t rest)
          · intro d hd
            simp only [List.mem_cons] at hd
            rcases hd with hd | hd
            · cases hd
            · obtain ⟨x, hx, hxd⟩ := sp.setdest d hd
              rw [hnt] at hx
              simp only [Bool.false_eq_true, if_false, hs'] at hx
              refine ⟨x, ?_, hxd⟩
              cases taken <;> simp [hx]
          · intro tid r' k' hd
            simp only [List.mem_cons] at hd
            rcases hd with hd | hd
            · cases hd; exact ⟨t, List.mem_cons_self, rfl, rfl, hk⟩
            · obtain ⟨x, hx, hxd⟩ := sp.onend tid r' k' hd
              rw [h2] at hxd
              exact ⟨x, List.mem_cons_of_mem _ (hs' ▸ hx), hxd⟩
        cases taken with
        | true =>
          obtain ⟨t', rest', e, hcur, hcb, hidle⟩ := hwf.taken rfl
          simp only [List.cons.injEq] at e hcur hcb hidle
          rw [← e.1] at hcur hcb
          subst hidle
          simp only [if_true]
          by_cases hc : t.cancelled = true
          · simp only [hc, if_true, retire, TaskList.unlockAndRemove, Bool.not_true, Bool.false_eq_true, if_false,
              List.singleton_append]
            exact lift .done _ _ _ rfl rfl (Or.inl ⟨rfl, hc⟩) (ih _ (hw' cur cb) hlen) rfl rfl rfl rfl
          · simp only [hc, Bool.false_eq_true, if_false]
            by_cases hd : t.deadline ≤ now
            · simp only [hd, if_true, retire, TaskList.unlockAndRemove, Bool.not_true, Bool.false_eq_true, if_false,
                List.singleton_append]
              exact lift .deadline _ _ _ rfl rfl (Or.inr ⟨rfl, hd⟩) (ih _ (hw' cur cb) hlen) rfl rfl rfl rfl
            · simp only [hd, if_false]
              have hcf : t.cancelled = false := by simpa using hc
              exact ⟨hwf, Or.inr (Or.inr ⟨t, rest, rfl, rfl, hcf, not_le.mp hd, hcur, hcb⟩),
                List.suffix_refl _, by simp, by simp, rfl, rfl, rfl, rfl⟩
        | false =>
          simp only [Bool.false_eq_true, if_false]
          by_cases hc : t.cancelled = true
          · simp only [hc, if_true, retire, TaskList.unlockAndRemove, Bool.not_true, Bool.false_eq_true, if_false,
              List.singleton_append]
            exact lift .done _ _ _ rfl rfl (Or.inl ⟨rfl, hc⟩) (ih _ (hw' cur cb) hlen) rfl rfl rfl rfl
          · simp only [hc, Bool.false_eq_true, if_false]
            have hcf : t.cancelled = false := by simpa using hc
            by_cases hd : t.deadline ≤ now
            · simp only [hd, if_true, retire, TaskList.unlockAndRemove, Bool.not_true, Bool.false_eq_true, if_false,
                List.singleton_append]
              exact lift .deadline _ _ _ rfl rfl (Or.inr ⟨rfl, hd⟩) (ih _ (hw' cur cb) hlen) rfl rfl rfl rfl
            · simp only [hd, if_false]
              refine ⟨⟨hwf.size, ?_, ?_⟩, Or.inr (Or.inr ⟨t, rest, rfl, rfl, hcf, not_le.mp hd, rfl, rfl⟩),
                List.suffix_refl _, ?_, by simp, rfl, rfl, rfl, rfl⟩
              · intro _; exact ⟨t, rest, rfl, rfl, rfl, rfl⟩
              · intro h; simp at h
              · intro d hd'
                simp only [List.mem_singleton, Out.setDest.injEq] at hd'
                exact ⟨t, by simp, hd'.1.symm, hcf⟩

end PRV.Proofs.C07
