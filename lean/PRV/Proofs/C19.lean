import PRV.Model.Validator
/-
Helper lemmas for C19: the bounded stack map refines "the last `cap` pushes, latest per key",
and the validator refines the unbounded-log specification.
-/
namespace PRV.Proofs.C19
open PRV.Model PRV.Spec.C19

variable {α : Type}

/-- value of the latest pair with key `k` -/
def lookupLast (k : String) : List (String × α) → Option α
  | [] => none
  | (a, v) :: rest => match lookupLast k rest with
      | some r => some r
      | none => if a = k then some v else none

def winStep {β : Type} (cap : Nat) (w : List β) (x : β) : List β :=
  if w.length = cap then w.tail ++ [x] else w ++ [x]

theorem lookupLast_append_single (k k' : String) (v : α) (w : List (String × α)) :
    lookupLast k (w ++ [(k', v)]) = if k' = k then some v else lookupLast k w := by
  induction w with
  | nil => simp [lookupLast]
  | cons a w ih =>
    obtain ⟨a1, a2⟩ := a
    simp only [List.cons_append, lookupLast, ih]
    by_cases h : k' = k <;> simp [h]

theorem lookupLast_none_iff (k : String) (w : List (String × α)) :
    lookupLast k w = none ↔ k ∉ w.map (·.1) := by
  induction w with
  | nil => simp [lookupLast]
  | cons a w ih =>
    obtain ⟨a1, a2⟩ := a
    simp only [lookupLast, List.map_cons, List.mem_cons, not_or]
    cases h : lookupLast k w with
    | some r =>
      have hin : k ∈ w.map (·.1) := Decidable.not_not.mp
        (fun hn => by rw [ih.mpr hn] at h; cases h)
      simp [hin]
    | none =>
      have hk := ih.mp h
      by_cases e : a1 = k
      · subst e; simp
      · have e' : ¬ k = a1 := fun x => e x.symm
        simp [e, e', hk]

theorem lookupLast_tail (k o : String) (vo : α) (rest : List (String × α)) :
    lookupLast k rest =
      if o ∈ rest.map (·.1) then lookupLast k ((o, vo) :: rest)
      else if k = o then none else lookupLast k ((o, vo) :: rest) := by
  simp only [lookupLast]
  by_cases ho : o ∈ rest.map (·.1)
  · simp only [ho, if_true]
    cases h : lookupLast k rest with
    | some r => rfl
    | none =>
      have hk := (lookupLast_none_iff k rest).mp h
      have : ¬ o = k := fun e => hk (e ▸ ho)
      simp [this]
  · simp only [ho, if_false]
    by_cases e : k = o
    · subst e; simp [(lookupLast_none_iff k rest).mpr ho]
    · have e' : ¬ o = k := fun x => e x.symm
      simp only [e, if_false, e']
      cases lookupLast k rest <;> rfl

theorem lookupLast_map (k : String) (f : α → α) (w : List (String × α)) :
    lookupLast k (w.map (fun p => (p.1, f p.2))) = (lookupLast k w).map f := by
  induction w with
  | nil => rfl
  | cons a w ih =>
    obtain ⟨a1, a2⟩ := a
    simp only [List.map_cons, lookupLast, ih]
    cases lookupLast k w with
    | some r => rfl
    | none => by_cases e : a1 = k <;> simp [e]

theorem lastN_snoc {β : Type} (cap : Nat) (hc : 0 < cap) (l : List β) (x : β) :
    lastN cap (l ++ [x]) = winStep cap (lastN cap l) x := by
  unfold lastN winStep
  simp only [List.length_append, List.length_singleton, List.length_drop]
  by_cases h : l.length < cap
  · have h1 : l.length + 1 - cap = 0 := by omega
    have h2 : l.length - cap = 0 := by omega
    have h3 : ¬ (l.length - (l.length - cap) = cap) := by omega
    rw [if_neg h3, h1, h2]; simp
  · have h3 : l.length - (l.length - cap) = cap := by omega
    have h4 : l.length + 1 - cap = (l.length - cap) + 1 := by omega
    have h5 : l.length - cap + 1 ≤ l.length := by omega
    simp only [h3, if_true, h4, List.tail_drop]
    rw [List.drop_append_of_le_length h5]

theorem lastN_length_le {β : Type} (cap : Nat) (l : List β) : (lastN cap l).length ≤ cap := by
  unfold lastN; simp only [List.length_drop]; omega

theorem lastN_map {β γ : Type} (n : Nat) (f : β → γ) (l : List β) :
    lastN n (l.map f) = (lastN n l).map f := by
  unfold lastN; simp [List.map_drop]

/-- Representation invariant of the bounded stack map against the window `w` of recent pushes. -/
structure Inv (b : BSM α) (w : List (String × α)) : Prop where
  keys : b.keys = w.map (·.1)
  cc   : b.cc = w.length
  le   : w.length ≤ b.cap
  data : ∀ k, b.data k = lookupLast k w

theorem inv_empty (cap : Nat) : Inv (BSM.empty cap : BSM α) [] :=
  ⟨rfl, rfl, Nat.zero_le _, fun _ => rfl⟩

theorem push_cap (b : BSM α) (k : String) (v : α) : (b.push k v).cap = b.cap := by
  unfold BSM.push
  split
  · split <;> rfl
  · rfl

theorem push_inv {b : BSM α} {w : List (String × α)} (hcap : 0 < b.cap) (h : Inv b w)
    (k : String) (v : α) : Inv (b.push k v) (winStep b.cap w (k, v)) := by
  unfold BSM.push winStep
  by_cases hfull : b.cc = b.cap
  · have hwl : w.length = b.cap := by rw [← h.cc]; exact hfull
    simp only [hfull, if_true, hwl]
    cases w with
    | nil => simp at hwl; omega
    | cons o rest =>
      obtain ⟨o1, o2⟩ := o
      have hk : b.keys = o1 :: rest.map (·.1) := by rw [h.keys]; rfl
      rw [hk]
      simp only [List.tail_cons]
      refine ⟨by simp, ?_, ?_, ?_⟩
      · simp only [List.length_append, List.length_singleton]
        simp only [List.length_cons] at hwl; omega
      · simp only [List.length_append, List.length_singleton]
        simp only [List.length_cons] at hwl; omega
      · intro x
        rw [lookupLast_append_single]
        by_cases e : x = k
        · subst e; simp [BSM.set]
        · have e' : ¬ k = x := fun y => e y.symm
          rw [lookupLast_tail x o1 o2 rest]
          by_cases hm : o1 ∈ rest.map (·.1)
          · have hc : (rest.map (·.1)).contains o1 = true := by simpa using hm
            simp only [hc, if_true, hm, BSM.set, e, if_false, e']
            exact h.data x
          · have hc : (rest.map (·.1)).contains o1 = false := by simpa using hm
            simp only [hc, hm, if_false, BSM.set, e, e', Bool.false_eq_true]
            by_cases e2 : x = o1
            · simp [e2]
            · simp only [e2, if_false]; exact h.data x
  · have hwl : ¬ w.length = b.cap := by rw [← h.cc]; exact hfull
    simp only [hfull, if_false, hwl]
    refine ⟨by simp [h.keys], by simp [h.cc], ?_, ?_⟩
    · have := h.le; simp only [List.length_append, List.length_singleton]; omega
    · intro x
      rw [lookupLast_append_single]
      simp only [BSM.set]
      by_cases e : x = k
      · subst e; simp
      · have e' : ¬ k = x := fun y => e y.symm
        simp only [e, if_false, e']; exact h.data x

theorem mapValues_inv {b : BSM α} {w : List (String × α)} (h : Inv b w) (f : α → α) :
    Inv (b.mapValues f) (w.map (fun p => (p.1, f p.2))) := by
  refine ⟨?_, ?_, ?_, ?_⟩
  · simp [BSM.mapValues, h.keys, List.map_map, Function.comp_def]
  · simp [BSM.mapValues, h.cc]
  · simpa [BSM.mapValues] using h.le
  · intro k; simp only [BSM.mapValues]; rw [lookupLast_map, h.data]

theorem last_of_inv {b : BSM α} {w : List (String × α)} (h : Inv b w) :
    b.last = w.getLast?.map (fun p => lookupLast p.1 w) := by
  unfold BSM.last
  rw [h.cc, h.keys]
  cases hw : w.getLast? with
  | none =>
    have : w = [] := by simpa using hw
    subst this; simp
  | some p =>
    have hne : w ≠ [] := by intro e; subst e; simp at hw
    have hl : w.length ≠ 0 := by simpa using hne
    simp only [hl, if_false, Option.map_some]
    have : (w.map (·.1))[w.length - 1]? = some p.1 := by
      rw [List.getElem?_map]
      have : w[w.length - 1]? = w.getLast? := by
        rw [List.getLast?_eq_getElem?]
      rw [this, hw]; rfl
    rw [this]; simp [h.data]

end PRV.Proofs.C19

namespace PRV.Proofs.C19
open PRV.Model PRV.Spec.C19

def pair (a : Ann) : String × Ann := (a.id, a)

theorem findLatest_eq (id : String) (w : List Ann) :
    findLatest id w = lookupLast id (w.map pair) := by
  induction w with
  | nil => rfl
  | cons a w ih =>
    simp only [findLatest, List.map_cons, pair, lookupLast, ih]
    cases lookupLast id (List.map pair w) <;> rfl

theorem findLatest_id {id : String} {w : List Ann} {a : Ann} (h : findLatest id w = some a) :
    a.id = id := by
  induction w with
  | nil => simp [findLatest] at h
  | cons b w ih =>
    simp only [findLatest] at h
    cases hf : findLatest id w with
    | some r => rw [hf] at h; simp at h; subst h; exact ih hf
    | none =>
      rw [hf] at h
      by_cases e : b.id = id
      · simp [e] at h; subst h; exact e
      · simp [e] at h

theorem findLatest_map (id : String) (f : Ann → Ann) (hf : ∀ a, (f a).id = a.id) (w : List Ann) :
    findLatest id (w.map f) = (findLatest id w).map f := by
  induction w with
  | nil => rfl
  | cons b w ih =>
    simp only [List.map_cons, findLatest, ih, hf]
    cases findLatest id w with
    | some r => rfl
    | none => by_cases e : b.id = id <;> simp [e]

theorem stamp_id (e : Int) (a : Ann) : (stamp e a).id = a.id := by
  unfold stamp; split <;> rfl

theorem addShare_id (id : String) (n : Nat) (sh : List Nat) (a : Ann) :
    (addShare id n sh a).id = a.id := by
  unfold addShare; split <;> rfl

/-- Refinement relation between the validator model and the unbounded-log specification. -/
structure R (v : Validator) (s : State) : Prop where
  window  : s.window = v.jobs.cap
  timeout : s.timeout = v.timeout
  serial  : v.serial = s.log.length
  inv     : Inv v.jobs ((lastN s.window s.log).map pair)

theorem R_init (cap : Nat) (t : Int) : R (Validator.new cap t) { window := cap, timeout := t } :=
  ⟨rfl, rfl, rfl, by
    simp only [lastN, List.length_nil, List.drop_nil, List.map_nil]; exact inv_empty cap⟩

theorem R_get {v : Validator} {s : State} (h : R v s) (id : String) :
    v.jobs.get id = findLatest id (lastN s.window s.log) := by
  rw [findLatest_eq]; exact h.inv.data id

theorem map_pair_stamp (e : Int) (l : List Ann) :
    (l.map (stamp e)).map pair = (l.map pair).map (fun p => (p.1, stamp e p.2)) := by
  simp [List.map_map, Function.comp_def, pair, stamp_id]

theorem inv_snoc {b : BSM Ann} {cap : Nat} {log : List Ann} (hcap : b.cap = cap) (hc : 0 < cap)
    (h : Inv b ((lastN cap log).map pair)) (a : Ann) :
    Inv (b.push a.id a) ((lastN cap (log ++ [a])).map pair) := by
  rw [lastN_snoc cap hc]
  have := push_inv (hcap ▸ hc) h a.id a
  rw [hcap] at this
  unfold winStep at this ⊢
  simp only [List.length_map] at this
  by_cases hl : (lastN cap log).length = cap
  · simp only [hl, if_true] at this ⊢
    simpa [pair, List.map_tail] using this
  · simp only [hl, if_false] at this ⊢
    simpa [pair] using this

theorem R_notify {v : Validator} {s : State} (hc : 0 < v.jobs.cap) (h : R v s)
    (id : String) (clean : Bool) (now : Int) :
    R (v.addNewJob id clean now) (notify s id clean now) := by
  have hw := h.window
  unfold Validator.addNewJob notify
  cases clean with
  | false =>
    simp only [Bool.false_eq_true, if_false]
    refine ⟨by simp [push_cap, hw], h.timeout, by simp [h.serial], ?_⟩
    have := inv_snoc hw.symm (hw ▸ hc) h.inv
      { id := id, serial := s.log.length, exp := none, shares := [] }
    rw [h.serial]; exact this
  | true =>
    simp only [if_true]
    have hinv : Inv (v.scheduleCleanJobs now).jobs
        ((lastN s.window (s.log.map (stamp (now + s.timeout)))).map pair) := by
      rw [lastN_map, map_pair_stamp, h.timeout]
      exact mapValues_inv h.inv _
    have hcap : (v.scheduleCleanJobs now).jobs.cap = s.window := hw.symm
    refine ⟨by simp [push_cap, hw, Validator.scheduleCleanJobs, BSM.mapValues], h.timeout,
      by simp [h.serial], ?_⟩
    have := inv_snoc hcap (hw ▸ hc) hinv
      { id := id, serial := s.log.length, exp := none, shares := [] }
    rw [h.serial]; exact this

theorem R_submit {v : Validator} {s : State} (h : R v s)
    (id : String) (sh : List Nat) (now : Int) :
    R (v.validateAndAddShare id sh now).1 (submit s id sh now).1 ∧
    (v.validateAndAddShare id sh now).2 = (submit s id sh now).2 := by
  unfold Validator.validateAndAddShare submit
  rw [R_get h id]
  cases hf : findLatest id (lastN s.window s.log) with
  | none => exact ⟨h, rfl⟩
  | some job =>
    simp only
    by_cases he : expired job now = true
    · rw [if_pos he, if_pos he]; exact ⟨h, rfl⟩
    · rw [if_neg he, if_neg he]
      by_cases hd : job.shares.contains sh = true
      · rw [if_pos hd, if_pos hd]; exact ⟨h, rfl⟩
      · rw [if_neg hd, if_neg hd]
        refine ⟨⟨h.window, h.timeout, by simp [h.serial], ?_⟩, rfl⟩
        show Inv _ ((lastN s.window (s.log.map (addShare id job.serial sh))).map pair)
        rw [lastN_map]
        have hid := findLatest_id hf
        refine ⟨?_, ?_, ?_, ?_⟩
        · simp [h.inv.keys, List.map_map, Function.comp_def, pair, addShare_id]
        · simp [h.inv.cc]
        · simpa using h.inv.le
        · intro k
          rw [← findLatest_eq, findLatest_map _ _ (addShare_id id job.serial sh)]
          simp only [BSM.set]
          by_cases e : k = id
          · subst e; simp [hf, addShare, hid]
          · simp only [e, if_false]
            rw [h.inv.data k, ← findLatest_eq]
            cases hk : findLatest k (lastN s.window s.log) with
            | none => rfl
            | some b =>
              have hb := findLatest_id hk
              have : ¬ b.id = id := by rw [hb]; exact e
              simp [addShare, this]

end PRV.Proofs.C19

namespace PRV.Proofs.C19
open PRV.Model PRV.Spec.C19

theorem foldl_inv_gen {α : Type} (cap : Nat) (hc : 0 < cap) (l : List (String × α)) :
    ∀ (b : BSM α) (pre : List (String × α)), Inv b (lastN cap pre) → b.cap = cap →
      Inv (l.foldl (fun b p => b.push p.1 p.2) b) (lastN cap (pre ++ l)) ∧
      (l.foldl (fun b p => b.push p.1 p.2) b).cap = cap := by
  induction l with
  | nil => intro b pre h hcap; simpa using ⟨h, hcap⟩
  | cons x l ih =>
    intro b pre h hcap
    simp only [List.foldl_cons]
    have hstep := push_inv (hcap ▸ hc) h x.1 x.2
    rw [hcap, ← lastN_snoc cap hc] at hstep
    have := ih (b.push x.1 x.2) (pre ++ [x]) hstep (by rw [push_cap]; exact hcap)
    simpa [List.append_assoc] using this

theorem foldl_inv {α : Type} (cap : Nat) (hc : 0 < cap) (h : List (String × α)) :
    Inv (h.foldl (fun b p => b.push p.1 p.2) (BSM.empty cap)) (lastN cap h) ∧
    (h.foldl (fun b p => b.push p.1 p.2) (BSM.empty cap)).cap = cap := by
  have := foldl_inv_gen cap hc h (BSM.empty cap) [] (by simpa [lastN] using inv_empty cap) rfl
  simpa using this

theorem getLatest_eq {v : Validator} {s : State} (hc : 0 < v.jobs.cap) (h : R v s) :
    v.getLatestJob = latest s := by
  unfold Validator.getLatestJob latest
  rw [last_of_inv h.inv]
  have hpos : 0 < s.window := h.window ▸ hc
  have hlast : (lastN s.window s.log).getLast? = s.log.getLast? := by
    unfold lastN
    rw [List.getLast?_drop]
    split
    · rename_i hle
      have : s.log.length = 0 := by omega
      have : s.log = [] := by simpa using this
      simp [this]
    · rfl
  cases hl : s.log.getLast? with
  | none =>
    rw [List.getLast?_map, hlast, hl]; rfl
  | some a =>
    rw [hl] at hlast
    obtain ⟨pre, hpre⟩ := List.getLast?_eq_some_iff.mp hlast
    rw [hpre]
    simp [pair, lookupLast_append_single]

end PRV.Proofs.C19

namespace PRV.Proofs.C19
open PRV.Model PRV.Spec.C19

theorem findLatest_none_of_forall (id : String) (w : List Ann) (h : ∀ b ∈ w, b.id ≠ id) :
    findLatest id w = none := by
  induction w with
  | nil => rfl
  | cons b w ih =>
    simp only [findLatest]
    rw [ih (fun c hc => h c (List.mem_cons_of_mem _ hc))]
    simp [h b (List.mem_cons_self)]

theorem findLatest_mid (pre post : List Ann) (a : Ann) (hpost : ∀ b ∈ post, b.id ≠ a.id) :
    findLatest a.id (pre ++ a :: post) = some a := by
  induction pre with
  | nil =>
    simp only [List.nil_append, findLatest]
    rw [findLatest_none_of_forall _ _ hpost]; simp
  | cons p pre ih => simp only [List.cons_append, findLatest, ih]

theorem submit_verdict (s : State) (id : String) (sh : List Nat) (now : Int) :
    (submit s id sh now).2 =
      match findLatest id (lastN s.window s.log) with
      | none => .notFound
      | some a => if expired a now = true then .notFound
                  else if sh ∈ a.shares then .duplicate else .checked a.serial := by
  unfold submit
  cases findLatest id (lastN s.window s.log) with
  | none => rfl
  | some a =>
    simp only
    by_cases he : expired a now = true
    · simp [he]
    · by_cases hd : sh ∈ a.shares <;> simp [he, hd]

end PRV.Proofs.C19
