import PRV.Model.SchedSlow
import PRV.Proofs.C07
/-
Helper lemmas for the slow-destination-change model of the scheduler (`Model/SchedSlow.lean`).
-/
namespace PRV.Proofs.C07Slow
open PRV.Model.Sched (Task TaskList EndKind Out)
open PRV.Model.SchedSlow PRV.Proofs.C07

/-- the goroutine holds the head of the queue exactly while it is inside a task's `SetDest` or serving -/
def holds : Pc → Bool
  | .toTask _ _ => true
  | .serving => true
  | _ => false

structure WFs (s : S) : Prop where
  size  : s.tl.size = s.tl.tasks.length
  taken : s.pc ≠ .exited → (s.tl.taken = holds s.pc)
  head  : s.tl.taken = true → s.tl.tasks ≠ []
  toTask : ∀ tid d, s.pc = .toTask tid d → ∃ t rest, s.tl.tasks = t :: rest ∧ t.tid = tid ∧ t.dest = d

theorem retire_spec (s : S) (t : Task) (rest : List Task) (k : EndKind) (ht : s.tl.taken = true)
    (hl : s.tl.tasks = t :: rest) :
    (retire s t k).1.tl.tasks = rest ∧ (retire s t k).1.tl.taken = false ∧
    (retire s t k).1.tl.size = s.tl.size - 1 ∧
    (retire s t k).1.now = s.now ∧ (retire s t k).1.primary = s.primary ∧ (retire s t k).1.signal = s.signal ∧
    (retire s t k).1.cur = s.cur ∧ (retire s t k).1.cb = s.cb ∧ (retire s t k).1.pc = s.pc ∧
    (retire s t k).2 = [.base (.onEnd t.tid (getRem s t.tid) k)] := by
  unfold retire TaskList.unlockAndRemove
  simp [ht, hl]

/-- what the goroutine does from the top of `taskLoop` until it blocks -/
structure LoopSpec (s r : S) (outs : List OutS) : Prop where
  suffix : r.tl.tasks <:+ s.tl.tasks
  size   : s.tl.size = s.tl.tasks.length → r.tl.size = r.tl.tasks.length
  now    : r.now = s.now
  prim   : r.primary = s.primary
  cur    : r.cur = s.cur
  cb     : r.cb = s.cb
  /-- it ends inside a `SetDest`: towards the primary destination with nothing queued and nothing held, or
  towards the head of the queue, held, which is neither removed / finished nor past its deadline -/
  ends   : (r.pc = .toPrimary ∧ r.tl.tasks = [] ∧ r.tl.taken = false ∧ outs.getLast? = some (.begin s.primary none)) ∨
           (∃ t rest, r.pc = .toTask t.tid t.dest ∧ r.tl.tasks = t :: rest ∧ r.tl.taken = true ∧
              t.cancelled = false ∧ s.now < t.deadline ∧ outs.getLast? = some (.begin t.dest (some t)))
  /-- every `SetDest` entered for a task is for a task of the queue that is live -/
  begins : ∀ d t, OutS.begin d (some t) ∈ outs → t ∈ s.tl.tasks ∧ t.dest = d ∧ t.cancelled = false ∧ s.now < t.deadline
  /-- every task ended on the way was removed / finished or is past its deadline, and is gone from the queue -/
  ends_ok : ∀ tid rm k, OutS.base (.onEnd tid rm k) ∈ outs → ∃ t ∈ s.tl.tasks, t.tid = tid ∧
              ((k = .done ∧ t.cancelled = true) ∨ (k = .deadline ∧ t.deadline ≤ s.now))
  /-- the `SetDest` entered for a task is the one the goroutine ends up in: that task is the head of what is left -/
  begin_final : ∀ d t, OutS.begin d (some t) ∈ outs → r.tl.taken = true ∧ r.tl.tasks.head? = some t

theorem runLoop_spec (fuel : Nat) : ∀ (s : S), s.tl.taken = false → s.tl.tasks.length + (if s.signal then 1 else 0) < fuel →
    LoopSpec s (runLoop fuel s).1 (runLoop fuel s).2 := by
  induction fuel with
  | zero => intro s _ hf; omega
  | succ fuel ih =>
    intro s ht hf
    unfold runLoop
    cases hl : s.tl.tasks with
    | nil =>
      simp only
      by_cases hs : s.signal = true
      · simp only [hs, if_true]
        have hf' : ({ s with signal := false } : S).tl.tasks.length + (if ({ s with signal := false } : S).signal then 1 else 0) < fuel := by
          simp only [hl, List.length_nil, hs, if_true] at hf ⊢; simp; omega
        have := ih { s with signal := false } ht hf'
        exact ⟨by simpa [hl] using this.suffix, by simpa using this.size, this.now, this.prim, this.cur, this.cb,
          by simpa using this.ends, by simpa [hl] using this.begins, by simpa [hl] using this.ends_ok, this.begin_final⟩
      · simp only [hs, Bool.false_eq_true, if_false]
        refine ⟨by simp [hl], by intro h; simpa using h, rfl, rfl, rfl, rfl, Or.inl ⟨rfl, hl, ht, by simp⟩, ?_, ?_, ?_⟩
        · intro d t h; simp at h
        · intro tid rm k h; simp at h
        · intro d t h; simp at h
    | cons t rest =>
      simp only
      have hf' : ∀ (x : S), x.tl.tasks = rest → x.signal = s.signal → x.tl.tasks.length + (if x.signal then 1 else 0) < fuel := by
        intro x hx hsx; rw [hx, hsx]; rw [hl] at hf; simp only [List.length_cons] at hf; omega
      -- the two retiring branches share their shape
      have retiring : ∀ (s1 : S) (k : EndKind), s1.tl.taken = true → s1.tl.tasks = t :: rest → s1.now = s.now →
          s1.primary = s.primary → s1.signal = s.signal → s1.cur = s.cur → s1.cb = s.cb → s1.tl.size = s.tl.size →
          ((k = .done ∧ t.cancelled = true) ∨ (k = .deadline ∧ t.deadline ≤ s.now)) →
          LoopSpec s (runLoop fuel (retire s1 t k).1).1 ((retire s1 t k).2 ++ (runLoop fuel (retire s1 t k).1).2) := by
        intro s1 k h1 h2 h3 h4 h5 h6 h7 h8 hk
        obtain ⟨r1, r2, r3, r4, r5, r6, r7, r8, _, r10⟩ := retire_spec s1 t rest k h1 h2
        have := ih (retire s1 t k).1 r2 (hf' _ r1 (by rw [r6, h5]))
        refine ⟨?_, ?_, by rw [this.now, r4, h3], by rw [this.prim, r5, h4], by rw [this.cur, r7, h6], by rw [this.cb, r8, h7], ?_, ?_, ?_, ?_⟩
        rotate_right
        · intro d t' h
          rw [r10] at h
          simp only [List.mem_append, List.mem_cons, List.not_mem_nil, or_false, reduceCtorEq, false_or] at h
          exact this.begin_final d t' h
        · rw [hl]; exact (this.suffix.trans (by rw [r1]; exact List.suffix_cons t rest))
        · intro hsz
          apply this.size
          rw [r3, r1, h8, hsz, hl]; simp
        · rcases this.ends with ⟨a, b, c, d⟩ | ⟨t', rest', a, b, c, d, e, f⟩
          · left
            refine ⟨a, b, c, ?_⟩
            rw [List.getLast?_append, d, r5, h4]; rfl
          · right
            refine ⟨t', rest', a, b, c, d, by rw [← h3, ← r4]; exact e, ?_⟩
            rw [List.getLast?_append, f]; rfl
        · intro d t' h
          rw [r10] at h
          simp only [List.mem_append, List.mem_cons, List.not_mem_nil, or_false, reduceCtorEq, false_or] at h
          obtain ⟨a, b, c, e⟩ := this.begins d t' h
          rw [r1] at a
          exact ⟨by rw [hl]; exact List.mem_cons_of_mem _ a, b, c, by rw [← h3, ← r4]; exact e⟩
        · intro tid rm k' h
          rw [r10] at h
          simp only [List.mem_append, List.mem_cons, List.not_mem_nil, or_false, OutS.base.injEq, Out.onEnd.injEq] at h
          rcases h with ⟨h1', _, h3'⟩ | h
          · exact ⟨t, by rw [hl]; exact List.mem_cons_self, h1'.symm, by rw [h3']; exact hk⟩
          · obtain ⟨t', a, b, c⟩ := this.ends_ok tid rm k' h
            rw [r1] at a
            refine ⟨t', by rw [hl]; exact List.mem_cons_of_mem _ a, b, ?_⟩
            rw [r4, h3] at c; exact c
      by_cases hc : t.cancelled = true
      · simp only [hc, if_true]
        exact retiring _ .done rfl (by simp [hl]) rfl rfl rfl rfl rfl rfl (Or.inl ⟨rfl, hc⟩)
      · simp only [hc, Bool.false_eq_true, if_false]
        by_cases hd : t.deadline ≤ s.now
        · simp only [hd, if_true]
          exact retiring _ .deadline rfl (by simp [hl]) rfl rfl rfl rfl rfl rfl (Or.inr ⟨rfl, hd⟩)
        · simp only [hd, if_false]
          have hc' : t.cancelled = false := by simpa using hc
          refine ⟨by simp [hl], by intro h; simpa [hl] using h, rfl, rfl, rfl, rfl,
            Or.inr ⟨t, rest, rfl, by simp [hl], rfl, hc', by omega, by simp⟩, ?_, ?_, ?_⟩
          · intro d t' h
            simp only [List.mem_cons, List.not_mem_nil, or_false, OutS.begin.injEq, Option.some.injEq] at h
            obtain ⟨h1, h2⟩ := h
            subst h2
            exact ⟨by simp [hl], h1.symm, hc', by omega⟩
          · intro tid rm k h; simp at h
          · intro d t' h
            simp only [List.mem_cons, List.not_mem_nil, or_false, OutS.begin.injEq, Option.some.injEq] at h
            obtain ⟨_, h2⟩ := h
            subst h2
            exact ⟨rfl, by simp [hl]⟩

theorem loop_wf (s r : S) (outs : List OutS) (h : LoopSpec s r outs) (hsz : s.tl.size = s.tl.tasks.length) : WFs r := by
  rcases h.ends with ⟨a, b, c, _⟩ | ⟨t, rest, a, b, c, _, _, _⟩
  · exact ⟨h.size hsz, by intro _; rw [a, c]; rfl, by rw [c]; simp, by intro tid d hp; rw [a] at hp; cases hp⟩
  · refine ⟨h.size hsz, by intro _; rw [a, c]; rfl, by intro _; rw [b]; simp, ?_⟩
    intro tid d hp
    rw [a] at hp
    injection hp with h1 h2
    exact ⟨t, rest, b, h1, h2⟩

theorem fuel_ok (s : S) : s.tl.tasks.length + (if s.signal then 1 else 0) < fuelFor s := by
  unfold fuelFor; split <;> omega

/-- waking the goroutine: the queue only loses a prefix, and every `SetDest` it enters for a task is for a queued
task that is neither removed / finished nor past its deadline -/
structure WakeSpec (s r : S) (outs : List OutS) : Prop where
  suffix : r.tl.tasks <:+ s.tl.tasks
  begins : ∀ d t, OutS.begin d (some t) ∈ outs → t ∈ s.tl.tasks ∧ t.dest = d ∧ t.cancelled = false ∧ s.now < t.deadline
  ends_ok : ∀ tid rm k, OutS.base (.onEnd tid rm k) ∈ outs → ∃ t ∈ s.tl.tasks, t.tid = tid ∧
              ((k = .done ∧ t.cancelled = true) ∨ (k = .deadline ∧ t.deadline ≤ s.now))
  nosetdest : ∀ d b, OutS.base (.setDest d b) ∉ outs
  now    : r.now = s.now
  cur    : r.cur = s.cur
  cb     : r.cb = s.cb
  prim   : r.primary = s.primary
  wf     : WFs r
  begin_final : ∀ d t, OutS.begin d (some t) ∈ outs → r.tl.taken = true ∧ r.tl.tasks.head? = some t
  begins_tail : s.tl.taken = true → ∀ d t, OutS.begin d (some t) ∈ outs → t ∈ s.tl.tasks.tail
  held_then : r.tl.taken = true → (∃ d t, OutS.begin d (some t) ∈ outs) ∨ (r.tl.tasks = s.tl.tasks ∧ s.tl.taken = true)
  dropped_head : s.tl.taken = true → r.tl.taken = false → r.tl.tasks <:+ s.tl.tasks.tail

theorem loop_held (s r : S) (outs : List OutS) (h : LoopSpec s r outs) (ht : r.tl.taken = true) :
    ∃ d t, OutS.begin d (some t) ∈ outs := by
  rcases h.ends with ⟨_, _, c, _⟩ | ⟨t, rest, _, _, _, _, _, f⟩
  · rw [c] at ht; cases ht
  · exact ⟨t.dest, t, List.mem_of_getLast? f⟩

theorem loop_to_wake (s0 s r : S) (outs : List OutS) (h : LoopSpec s r outs) (ht : s.tl.tasks = s0.tl.tasks) (hn : s.now = s0.now)
    (hc : s.cur = s0.cur) (hb : s.cb = s0.cb) (hp : s.primary = s0.primary)
    (hno : ∀ d b, OutS.base (.setDest d b) ∉ outs) (hsz : s.tl.size = s.tl.tasks.length) (hfree : s0.tl.taken = false) : WakeSpec s0 r outs :=
  ⟨ht ▸ h.suffix, by rw [← ht, ← hn]; exact h.begins, by rw [← ht, ← hn]; exact h.ends_ok, hno,
   by rw [h.now, hn], by rw [h.cur, hc], by rw [h.cb, hb], by rw [h.prim, hp], loop_wf s r outs h hsz, h.begin_final,
   (by intro h2; rw [hfree] at h2; cases h2), fun ht' => Or.inl (loop_held s r outs h ht'),
   (by intro h2; rw [hfree] at h2; cases h2)⟩

theorem runLoop_nosetdest (fuel : Nat) : ∀ (s : S) d b, OutS.base (.setDest d b) ∉ (runLoop fuel s).2 := by
  induction fuel with
  | zero => intro s d b; simp [runLoop]
  | succ fuel ih =>
    intro s d b
    unfold runLoop
    cases hl : s.tl.tasks with
    | nil =>
      simp only
      split
      · exact ih _ d b
      · simp
    | cons t rest =>
      simp only
      have hr : ∀ (s1 : S) k, OutS.base (.setDest d b) ∉ (retire s1 t k).2 := by
        intro s1 k; unfold retire; split <;> simp
      split
      · simp only [List.mem_append, not_or]; exact ⟨hr _ _, ih _ d b⟩
      · split
        · simp only [List.mem_append, not_or]; exact ⟨hr _ _, ih _ d b⟩
        · simp

theorem wake_parked (s : S) (h : s.pc = .parked) :
    wake s = if s.signal then runLoop (fuelFor s) { s with signal := false } else (s, []) := by
  unfold wake; simp only [h]

theorem wake_serving (s : S) (h : s.pc = .serving) : wake s = serve (fuelFor s) s := by
  unfold wake; simp only [h]

theorem wake_other (s : S) (h1 : s.pc ≠ .parked) (h2 : s.pc ≠ .serving) : wake s = (s, []) := by
  unfold wake; split <;> simp_all

theorem wakeSpec_refl (s : S) (hw : WFs s) : WakeSpec s s [] :=
  ⟨List.suffix_refl _, by simp, by simp, by simp, rfl, rfl, rfl, rfl, hw, (by simp), (by simp), fun h => Or.inr ⟨rfl, h⟩,
   (by intro h1 h2; rw [h1] at h2; cases h2)⟩

theorem wake_spec_parked (s : S) (hw : WFs s) (hpc : s.pc = .parked) : WakeSpec s (wake s).1 (wake s).2 := by
  rw [wake_parked s hpc]
  have htk : s.tl.taken = false := by have := hw.taken (by rw [hpc]; simp); rw [hpc] at this; exact this
  split
  · have hf : ({ s with signal := false } : S).tl.tasks.length + (if ({ s with signal := false } : S).signal then 1 else 0) < fuelFor s := by
      simp [fuelFor]; omega
    exact loop_to_wake s { s with signal := false } _ _ (runLoop_spec _ { s with signal := false } htk hf) rfl rfl rfl rfl rfl (runLoop_nosetdest _ _) hw.size htk
  · exact wakeSpec_refl s hw

theorem wake_spec_serving (s : S) (hw : WFs s) (hpc : s.pc = .serving) : WakeSpec s (wake s).1 (wake s).2 := by
  rw [wake_serving s hpc]
  have htk : s.tl.taken = true := by have := hw.taken (by rw [hpc]; simp); rw [hpc] at this; exact this
  unfold serve
  cases hl : s.tl.tasks with
  | nil => exact wakeSpec_refl s hw
  | cons t rest =>
    simp only
    have retiring : ∀ (s1 : S) (k : EndKind), s1.tl = s.tl → s1.now = s.now → s1.primary = s.primary → s1.signal = s.signal →
        s1.cur = s.cur → s1.cb = s.cb →
        ((k = .done ∧ t.cancelled = true) ∨ (k = .deadline ∧ t.deadline ≤ s.now)) →
        WakeSpec s (runLoop (fuelFor s) (retire s1 t k).1).1 ((retire s1 t k).2 ++ (runLoop (fuelFor s) (retire s1 t k).1).2) := by
      intro s1 k h1 h3 h4 h5 h6 h7 hk
      obtain ⟨r1, r2, r3, r4, r5, r6, r7, r8, _, r10⟩ := retire_spec s1 t rest k (by rw [h1]; exact htk) (by rw [h1]; exact hl)
      have hf : (retire s1 t k).1.tl.tasks.length + (if (retire s1 t k).1.signal then 1 else 0) < fuelFor s := by
        rw [r1]; unfold fuelFor; rw [hl]; simp only [List.length_cons]; split <;> omega
      have := runLoop_spec _ (retire s1 t k).1 r2 hf
      have hsz' : (retire s1 t k).1.tl.size = (retire s1 t k).1.tl.tasks.length := by
        rw [r3, r1, h1, hw.size, hl]; simp
      refine ⟨?_, ?_, ?_, ?_, by rw [this.now, r4, h3], by rw [this.cur, r7, h6], by rw [this.cb, r8, h7], by rw [this.prim, r5, h4],
        loop_wf _ _ _ this hsz', ?_, ?_, fun ht' => Or.inl (by
          obtain ⟨d, t', hm⟩ := loop_held _ _ _ this ht'
          exact ⟨d, t', by rw [r10]; exact List.mem_append_right _ hm⟩),
        fun _ _ => by rw [hl]; exact this.suffix.trans (by rw [r1]; exact List.suffix_refl _)⟩
      rotate_right 2
      · intro d t' h
        rw [r10] at h
        simp only [List.mem_append, List.mem_cons, List.not_mem_nil, or_false, reduceCtorEq, false_or] at h
        exact this.begin_final d t' h
      · intro _ d t' h
        rw [r10] at h
        simp only [List.mem_append, List.mem_cons, List.not_mem_nil, or_false, reduceCtorEq, false_or] at h
        have a := (this.begins d t' h).1
        rw [r1] at a
        rw [hl]; exact a
      · rw [hl]; exact this.suffix.trans (by rw [r1]; exact List.suffix_cons t rest)
      · intro d t' h
        rw [r10] at h
        simp only [List.mem_append, List.mem_cons, List.not_mem_nil, or_false, reduceCtorEq, false_or] at h
        obtain ⟨a, b, c, e⟩ := this.begins d t' h
        rw [r1] at a
        exact ⟨by rw [hl]; exact List.mem_cons_of_mem _ a, b, c, by rw [← h3, ← r4]; exact e⟩
      · intro tid rm k' h
        rw [r10] at h
        simp only [List.mem_append, List.mem_cons, List.not_mem_nil, or_false, OutS.base.injEq, Out.onEnd.injEq] at h
        rcases h with ⟨h1', _, h3'⟩ | h
        · exact ⟨t, by rw [hl]; exact List.mem_cons_self, h1'.symm, by rw [h3']; exact hk⟩
        · obtain ⟨t', a, b, c⟩ := this.ends_ok tid rm k' h
          rw [r1] at a
          refine ⟨t', by rw [hl]; exact List.mem_cons_of_mem _ a, b, ?_⟩
          rw [r4, h3] at c; exact c
      · intro d b h
        rw [r10] at h
        simp only [List.mem_append, List.mem_cons, List.not_mem_nil, or_false, OutS.base.injEq, reduceCtorEq, false_or] at h
        exact runLoop_nosetdest _ _ d b h
    by_cases hc : t.cancelled = true
    · simp only [hc, if_true]
      exact retiring _ .done rfl rfl rfl rfl rfl rfl (Or.inl ⟨rfl, hc⟩)
    · simp only [hc, Bool.false_eq_true, if_false]
      by_cases hd : t.deadline ≤ s.now
      · simp only [hd, if_true]
        exact retiring _ .deadline rfl rfl rfl rfl rfl rfl (Or.inr ⟨rfl, hd⟩)
      · simp only [hd, if_false]
        have hw' : WFs { s with pc := .serving } := by
          have : ({ s with pc := .serving } : S) = s := by cases s; simp_all
          rw [this]; exact hw
        exact ⟨List.suffix_refl _, by simp, by simp, by simp, rfl, rfl, rfl, rfl, hw', (by simp), (by simp),
          fun _ => Or.inr ⟨rfl, htk⟩, (by intro _ h2; simp only at h2; rw [htk] at h2; cases h2)⟩

theorem wake_spec (s : S) (hw : WFs s) : WakeSpec s (wake s).1 (wake s).2 := by
  by_cases h1 : s.pc = .parked
  · exact wake_spec_parked s hw h1
  · by_cases h2 : s.pc = .serving
    · exact wake_spec_serving s hw h2
    · rw [wake_other s h1 h2]; exact wakeSpec_refl s hw

/-! ### what each event does to the queue before the goroutine is woken -/

/-- every queued task of the contract has been removed / finished (only the one the goroutine holds can still be queued) -/
def Clean (cid : String) (s : S) : Prop := ∀ t ∈ s.tl.tasks, t.cid = cid → t.cancelled = true

def NoBegin (cid : String) (outs : List OutS) : Prop := ∀ d t, OutS.begin d (some t) ∈ outs → t.cid ≠ cid

theorem noBegin_nil (cid : String) : NoBegin cid [] := by intro d t h; cases h

theorem noBegin_append (cid : String) (a b : List OutS) (ha : NoBegin cid a) (hb : NoBegin cid b) : NoBegin cid (a ++ b) := by
  intro d t h
  rcases List.mem_append.mp h with h | h
  · exact ha d t h
  · exact hb d t h

theorem noBegin_base (cid : String) (o : Out) (b : List OutS) (hb : NoBegin cid b) : NoBegin cid (.base o :: b) := by
  intro d t h
  rcases List.mem_cons.mp h with h | h
  · cases h
  · exact hb d t h

theorem clean_wake (s : S) (cid : String) (hw : WFs s) (hc : Clean cid s) :
    WFs (wake s).1 ∧ Clean cid (wake s).1 ∧ NoBegin cid (wake s).2 := by
  have sp := wake_spec s hw
  refine ⟨sp.wf, fun t ht => hc t (sp.suffix.subset ht), ?_⟩
  intro d t h hcid
  obtain ⟨hm, _, hcanc, _⟩ := sp.begins d t h
  have := hc t hm hcid
  rw [this] at hcanc; cases hcanc

theorem wfs_addTask (s : S) (cid dest : String) (job dl : Int) (hw : WFs s) : WFs (addTask s cid dest job dl) := by
  unfold addTask
  refine ⟨?_, hw.taken, ?_, ?_⟩
  · have := hw.size; simp only [TaskList.add, List.length_append, List.length_singleton]; push_cast; omega
  · intro _; simp [TaskList.add]
  · intro tid d hp
    obtain ⟨t0, rest, e, a, b⟩ := hw.toTask tid d hp
    exact ⟨t0, rest ++ [{ tid := s.serial, cid := cid, dest := dest, remaining := job, deadline := dl }], by simp [TaskList.add, e], a, b⟩

theorem clean_addTask (s : S) (cid c dest : String) (job dl : Int) (hc : Clean cid s) (hne : c ≠ cid) :
    Clean cid (addTask s c dest job dl) := by
  intro t ht hcid
  simp only [addTask, TaskList.add, List.mem_append, List.mem_singleton] at ht
  rcases ht with ht | ht
  · exact hc t ht hcid
  · subst ht; exact absurd hcid hne

/-- every task left after `Cancel` stems from a queued one: same identity and destination, removed if it was -/
theorem cancel_mem (l : TaskList) (cid : String) (t' : Task) (h : t' ∈ (l.cancel cid).tasks) :
    ∃ t ∈ l.tasks, t'.tid = t.tid ∧ t'.cid = t.cid ∧ t'.dest = t.dest ∧ t'.deadline = t.deadline ∧
      (t.cancelled = true → t'.cancelled = true) ∧ (t'.cid = cid → t'.cancelled = true) := by
  cases hl : l.tasks with
  | nil => rw [cancel_nil l cid hl, hl] at h; cases h
  | cons h0 rest =>
    rw [cancel_tasks l cid h0 rest hl] at h
    split at h
    · rename_i hc
      rcases List.mem_cons.mp h with h | h
      · exact ⟨h0, List.mem_cons_self, by rw [h], by rw [h], by rw [h], by rw [h], by intro _; rw [h], by intro _; rw [h]⟩
      · have hm := List.mem_filter.mp h
        refine ⟨t', List.mem_cons_of_mem _ hm.1, rfl, rfl, rfl, rfl, id, ?_⟩
        intro hcid; have := hm.2; simp [other, hcid] at this
    · have hm := List.mem_filter.mp h
      refine ⟨t', hm.1, rfl, rfl, rfl, rfl, id, ?_⟩
      intro hcid; have := hm.2; simp [other, hcid] at this

theorem wfs_cancel (s : S) (cid : String) (hw : WFs s) : WFs { s with tl := s.tl.cancel cid } := by
  have hhead : s.tl.taken = true → ∃ t0 rest, s.tl.tasks = t0 :: rest ∧
      ∃ t0' rest', (s.tl.cancel cid).tasks = t0' :: rest' ∧ t0'.tid = t0.tid ∧ t0'.dest = t0.dest := by
    intro ht
    cases hl : s.tl.tasks with
    | nil => exact absurd hl (hw.head ht)
    | cons t0 rest =>
      refine ⟨t0, rest, rfl, ?_⟩
      rw [cancel_tasks _ cid t0 rest hl]
      by_cases hc : t0.cid = cid
      · simp only [ht, hc, and_self, if_true]; exact ⟨_, _, rfl, rfl, rfl⟩
      · simp only [hc, and_false, if_false]
        have hd : other cid t0 = true := by simp [other, hc]
        rw [List.filter_cons_of_pos hd]; exact ⟨_, _, rfl, rfl, rfl⟩
  refine ⟨cancel_size _ _ hw.size, ?_, ?_, ?_⟩
  · intro hne; simp only [cancel_taken]; exact hw.taken hne
  · intro ht
    simp only [cancel_taken] at ht
    obtain ⟨_, _, _, t0', rest', e, _⟩ := hhead ht
    simp only [e]; simp
  · intro tid d hp
    obtain ⟨t0, rest, e, a, b⟩ := hw.toTask tid d hp
    have ht : s.tl.taken = true := by
      have := hw.taken (by simp only at hp; rw [hp]; simp); simp only at hp; rw [hp] at this; exact this
    obtain ⟨t1, rest1, e1, t0', rest', e', a', b'⟩ := hhead ht
    rw [e] at e1; injection e1 with e1 _; subst e1
    exact ⟨t0', rest', e', by rw [a', a], by rw [b', b]⟩

theorem clean_cancel (s : S) (cid c : String) (hc : Clean cid s) : Clean cid { s with tl := s.tl.cancel c } := by
  intro t ht hcid
  obtain ⟨t0, hm, _, hc0, _, _, hk, _⟩ := cancel_mem s.tl c t ht
  exact hk (hc t0 hm (by rw [← hc0]; exact hcid))

theorem cancel_cleans (s : S) (cid : String) : Clean cid { s with tl := s.tl.cancel cid } := by
  intro t ht hcid
  obtain ⟨_, _, _, _, _, _, _, h⟩ := cancel_mem s.tl cid t ht
  exact h hcid

theorem wfs_now (s : S) (n : Int) (hw : WFs s) : WFs { s with now := n } :=
  ⟨hw.size, hw.taken, hw.head, hw.toTask⟩

theorem wfs_setRem (s : S) (tid : Nat) (v : Int) (hw : WFs s) : WFs (setRem s tid v) :=
  ⟨hw.size, hw.taken, hw.head, hw.toTask⟩

theorem wfs_markDone (s : S) (tid : Nat) (hw : WFs s) : WFs (markDone s tid) := by
  unfold markDone
  refine ⟨by simpa using hw.size, hw.taken, ?_, ?_⟩
  · intro ht; have := hw.head ht; simpa using this
  · intro tid' d hp
    obtain ⟨t0, rest, e, a, b⟩ := hw.toTask tid' d hp
    refine ⟨(fun t : Task => if t.tid = tid then { t with cancelled := true } else t) t0,
      rest.map (fun t : Task => if t.tid = tid then { t with cancelled := true } else t), by rw [e]; rfl, ?_, ?_⟩
    · dsimp only; split <;> exact a
    · dsimp only; split <;> exact b

theorem clean_markDone (s : S) (cid : String) (tid : Nat) (hc : Clean cid s) : Clean cid (markDone s tid) := by
  intro t ht hcid
  simp only [markDone, List.mem_map] at ht
  obtain ⟨t0, hm, he⟩ := ht
  by_cases hx : t0.tid = tid
  · simp only [hx, if_true] at he; rw [← he]
  · simp only [hx, if_false] at he; subst he; exact hc _ hm hcid

theorem wfs_credit (s : S) (tid : Nat) (diff : Int) (hw : WFs s) : WFs (credit s tid diff) := by
  unfold credit
  simp only
  split
  · exact wfs_markDone _ tid (wfs_setRem s tid _ hw)
  · exact wfs_setRem s tid _ hw

theorem clean_credit (s : S) (cid : String) (tid : Nat) (diff : Int) (hc : Clean cid s) : Clean cid (credit s tid diff) := by
  unfold credit
  simp only
  split
  · exact clean_markDone _ cid tid hc
  · exact hc

theorem arrive_spec (s : S) (cid : String) (hw : WFs s) (hex : s.pc ≠ .exited) :
    WFs (arrive s).1 ∧ (arrive s).1.tl = s.tl ∧ NoBegin cid (arrive s).2 := by
  unfold arrive
  split
  · rename_i hpc
    have ht : s.tl.taken = false := by have := hw.taken hex; rw [hpc] at this; exact this
    exact ⟨⟨hw.size, fun _ => ht, hw.head, fun tid d hp => by simp at hp⟩, rfl, noBegin_base cid _ _ (noBegin_nil cid)⟩
  · rename_i tid dest hpc
    have ht : s.tl.taken = true := by have := hw.taken hex; rw [hpc] at this; exact this
    exact ⟨⟨hw.size, fun _ => ht, hw.head, fun tid d hp => by simp at hp⟩, rfl, noBegin_base cid _ _ (noBegin_nil cid)⟩
  · exact ⟨hw, rfl, noBegin_nil cid⟩

theorem dropInService_mem (l : TaskList) (t : Task) (h : t ∈ (PRV.Model.Sched.dropInService l).tasks) : t ∈ l.tasks := by
  unfold PRV.Model.Sched.dropInService at h
  by_cases ht : l.taken = true
  · cases hl : l.tasks with
    | nil => simp [ht, TaskList.unlockAndRemove, hl] at h
    | cons t0 rest =>
      simp [ht, TaskList.unlockAndRemove, hl] at h
      exact List.mem_cons_of_mem _ h
  · have ht' : l.taken = false := by simpa using ht
    simp only [ht', Bool.false_eq_true, if_false] at h; exact h

theorem leave_spec (s : S) (cid : String) (hw : WFs s) :
    WFs (leave s).1 ∧ (∀ t ∈ (leave s).1.tl.tasks, t ∈ s.tl.tasks) ∧ NoBegin cid (leave s).2 := by
  have nob : ∀ (l : List Task), NoBegin cid (disconnectOuts s l) := by
    intro l d t h
    unfold disconnectOuts at h
    simp only [List.mem_flatMap, List.mem_cons, List.not_mem_nil, or_false] at h
    obtain ⟨_, _, h | h⟩ := h <;> cases h
  unfold leave
  split
  · exact ⟨hw, fun t h => h, noBegin_nil cid⟩
  · exact ⟨hw, fun t h => h, noBegin_nil cid⟩
  · rename_i h1 h2
    refine ⟨?_, fun t h => dropInService_mem _ t h, ?_⟩
    · refine ⟨?_, fun h => absurd rfl h, ?_, fun tid d hp => by simp at hp⟩
      · by_cases ht : s.tl.taken = true
        · have hne := hw.head ht
          cases hl : s.tl.tasks with
          | nil => exact absurd hl hne
          | cons t rest =>
            have := hw.size; rw [hl] at this
            simp only [PRV.Model.Sched.dropInService, ht, if_true, TaskList.unlockAndRemove, hl, Bool.not_true, Bool.false_eq_true, if_false]
            simp only [List.length_cons] at this; push_cast at this; omega
        · have ht' : s.tl.taken = false := by simpa using ht
          simp only [PRV.Model.Sched.dropInService, ht', Bool.false_eq_true, if_false]; exact hw.size
      · by_cases ht : s.tl.taken = true
        · have hne := hw.head ht
          cases hl : s.tl.tasks with
          | nil => exact absurd hl hne
          | cons t rest => simp [PRV.Model.Sched.dropInService, ht, TaskList.unlockAndRemove, hl]
        · have ht' : s.tl.taken = false := by simpa using ht
          simp [PRV.Model.Sched.dropInService, ht']
    · apply noBegin_append
      · apply noBegin_append
        · intro d t h; split at h <;> simp at h
        · exact nob _
      · exact noBegin_base cid _ _ (noBegin_nil cid)

theorem tickHead_spec (s : S) (cid : String) (target : Int) (hw : WFs s) (hc : Clean cid s) :
    WFs (tickHead s target).1 ∧ Clean cid (tickHead s target).1 ∧ NoBegin cid (tickHead s target).2 := by
  unfold tickHead
  split
  · split
    · exact clean_wake _ cid (wfs_now s _ hw) hc
    · exact ⟨hw, hc, noBegin_nil cid⟩
  · exact ⟨hw, hc, noBegin_nil cid⟩

end PRV.Proofs.C07Slow

namespace PRV.Proofs.C07Slow
open PRV.Model.Sched (Task TaskList EndKind Out)
open PRV.Model.SchedSlow PRV.Proofs.C07

/-! ### arrival order -/

/-- the queue is in arrival order: task ids increase along it and are below the next id to be given out -/
def Ordered (s : S) : Prop := (s.tl.tasks.map (·.tid)).Pairwise (· < ·) ∧ ∀ t ∈ s.tl.tasks, t.tid < s.serial

theorem ordered_of_sublist (s r : S) (h : Ordered s) (hs : (r.tl.tasks.map (·.tid)).Sublist (s.tl.tasks.map (·.tid)))
    (hm : ∀ t ∈ r.tl.tasks, ∃ t0 ∈ s.tl.tasks, t.tid = t0.tid) (hser : s.serial ≤ r.serial) : Ordered r := by
  refine ⟨h.1.sublist hs, ?_⟩
  intro t ht
  obtain ⟨t0, h0, e⟩ := hm t ht
  have := h.2 t0 h0
  omega

theorem retire_serial (s : S) (t : Task) (k : EndKind) : (retire s t k).1.serial = s.serial := by
  unfold retire; split <;> rfl

theorem runLoop_serial (fuel : Nat) : ∀ s : S, (runLoop fuel s).1.serial = s.serial := by
  induction fuel with
  | zero => intro s; rfl
  | succ fuel ih =>
    intro s
    unfold runLoop
    split
    · split
      · rw [ih]
      · rfl
    · simp only
      split
      · rw [ih, retire_serial]
      · split
        · rw [ih, retire_serial]
        · rfl

theorem wake_serial (s : S) : (wake s).1.serial = s.serial := by
  unfold wake
  split
  · split
    · rw [runLoop_serial]
    · rfl
  · unfold serve
    split
    · rfl
    · simp only
      split
      · rw [runLoop_serial, retire_serial]
      · split
        · rw [runLoop_serial, retire_serial]
        · rfl
  · rfl

theorem ordered_suffix (s r : S) (h : Ordered s) (hs : r.tl.tasks <:+ s.tl.tasks) (hser : s.serial ≤ r.serial) : Ordered r :=
  ordered_of_sublist s r h (hs.sublist.map _) (fun t ht => ⟨t, hs.subset ht, rfl⟩) hser

/-- `b` is the id of the task a `SetDest` was last entered for (−1: none yet): it is the head while the goroutine holds
the head, and every queued task that is not held came later -/
structure OrdInv (s : S) (b : Int) : Prop where
  wf : WFs s
  ord : Ordered s
  held : s.tl.taken = true → ∃ t rest, s.tl.tasks = t :: rest ∧ (t.tid : Int) = b
  free : s.tl.taken = false → ∀ t ∈ s.tl.tasks, b < (t.tid : Int)
  lt : b < (s.serial : Int)

theorem ordered_head_lt (s : S) (h : Ordered s) (t : Task) (rest : List Task) (hl : s.tl.tasks = t :: rest) :
    ∀ t' ∈ rest, t.tid < t'.tid := by
  have := h.1
  rw [hl] at this
  simp only [List.map_cons, List.pairwise_cons, List.mem_map, forall_exists_index, and_imp, forall_apply_eq_imp_iff₂] at this
  exact this.1

/-- waking the goroutine from an ordered state: every `SetDest` it enters is for a task that arrived after the one it
last entered one for, and that task is then the last -/
theorem wake_ord (s : S) (b : Int) (h : OrdInv s b) :
    ∃ b', OrdInv (wake s).1 b' ∧ b ≤ b' ∧ ∀ d t, OutS.begin d (some t) ∈ (wake s).2 → b < (t.tid : Int) ∧ (t.tid : Int) = b' := by
  have sp := wake_spec s h.wf
  have hser := wake_serial s
  have hord : Ordered (wake s).1 := ordered_suffix s _ h.ord sp.suffix (by rw [hser])
  -- a task begun lies beyond b
  have beyond : ∀ d t, OutS.begin d (some t) ∈ (wake s).2 → b < (t.tid : Int) := by
    intro d t hm
    by_cases ht : s.tl.taken = true
    · obtain ⟨t0, rest, hl, hb⟩ := h.held ht
      have := sp.begins_tail ht d t hm
      rw [hl] at this
      have := ordered_head_lt s h.ord t0 rest hl t this
      omega
    · exact h.free (by simpa using ht) t (sp.begins d t hm).1
  by_cases hb : ∃ d t, OutS.begin d (some t) ∈ (wake s).2
  · obtain ⟨d, t, hm⟩ := hb
    obtain ⟨htk, hhead⟩ := sp.begin_final d t hm
    refine ⟨t.tid, ⟨sp.wf, hord, ?_, ?_, ?_⟩, le_of_lt (beyond d t hm), ?_⟩
    · intro _
      cases hl : (wake s).1.tl.tasks with
      | nil => rw [hl] at hhead; cases hhead
      | cons t1 rest => rw [hl] at hhead; simp only [List.head?_cons, Option.some.injEq] at hhead; subst hhead; exact ⟨_, _, rfl, rfl⟩
    · intro hf; rw [htk] at hf; cases hf
    · have := h.ord.2 t (sp.begins d t hm).1
      rw [hser]; omega
    · intro d2 t2 hm2
      obtain ⟨_, hhead2⟩ := sp.begin_final d2 t2 hm2
      rw [hhead] at hhead2
      simp only [Option.some.injEq] at hhead2
      subst hhead2
      exact ⟨beyond d2 t hm2, rfl⟩
  · refine ⟨b, ⟨sp.wf, hord, ?_, ?_, by rw [hser]; exact h.lt⟩, le_refl _, fun d t hm => absurd ⟨d, t, hm⟩ hb⟩
    · intro htk
      rcases sp.held_then htk with hx | ⟨he, hs⟩
      · exact absurd hx hb
      · rw [he]; exact h.held hs
    · intro hf t ht
      by_cases hs : s.tl.taken = true
      · obtain ⟨t0, rest, hl, hb0⟩ := h.held hs
        have := (sp.dropped_head hs hf).subset ht
        rw [hl] at this
        have := ordered_head_lt s h.ord t0 rest hl t this
        omega
      · exact h.free (by simpa using hs) t (sp.suffix.subset ht)

/-! ### the queue update of every event keeps the order invariant -/

theorem ord_addTask (s : S) (b : Int) (cid dest : String) (job dl : Int) (h : OrdInv s b) : OrdInv (addTask s cid dest job dl) b := by
  refine ⟨wfs_addTask s cid dest job dl h.wf, ?_, ?_, ?_, ?_⟩
  · refine ⟨?_, ?_⟩
    · simp only [addTask, TaskList.add, List.map_append, List.map_cons, List.map_nil]
      rw [List.pairwise_append]
      refine ⟨h.ord.1, by simp, ?_⟩
      intro a ha c hc
      simp only [List.mem_singleton] at hc
      simp only [List.mem_map] at ha
      obtain ⟨t, ht, e⟩ := ha
      have := h.ord.2 t ht
      omega
    · intro t ht
      simp only [addTask, TaskList.add, List.mem_append, List.mem_singleton] at ht
      rcases ht with ht | ht
      · have := h.ord.2 t ht; simp only [addTask]; omega
      · subst ht; simp [addTask]
  · intro ht
    obtain ⟨t, rest, hl, hb⟩ := h.held ht
    exact ⟨t, rest ++ [{ tid := s.serial, cid := cid, dest := dest, remaining := job, deadline := dl }], by simp [addTask, TaskList.add, hl], hb⟩
  · intro hf t ht
    simp only [addTask, TaskList.add, List.mem_append, List.mem_singleton] at ht
    rcases ht with ht | ht
    · exact h.free hf t ht
    · subst ht; exact h.lt
  · have := h.lt; simp only [addTask]; push_cast; omega

theorem ord_cancel (s : S) (b : Int) (cid : String) (h : OrdInv s b) : OrdInv { s with tl := s.tl.cancel cid } b := by
  have hsub : ((s.tl.cancel cid).tasks.map (·.tid)).Sublist (s.tl.tasks.map (·.tid)) := by
    cases hl : s.tl.tasks with
    | nil => rw [cancel_nil s.tl cid hl, hl]; simp
    | cons t0 rest =>
      rw [cancel_tasks s.tl cid t0 rest hl]
      split
      · simp only [List.map_cons]
        exact (List.filter_sublist.map _).cons_cons _
      · exact (List.filter_sublist.map _)
  refine ⟨wfs_cancel s cid h.wf, ?_, ?_, ?_, h.lt⟩
  · refine ordered_of_sublist s _ h.ord hsub ?_ (le_refl _)
    intro t ht
    obtain ⟨t0, hm, e, _⟩ := cancel_mem s.tl cid t ht
    exact ⟨t0, hm, e⟩
  · intro ht
    simp only [cancel_taken] at ht
    obtain ⟨t0, rest, hl, hb⟩ := h.held ht
    simp only
    rw [cancel_tasks s.tl cid t0 rest hl]
    by_cases hc : t0.cid = cid
    · simp only [ht, hc, and_self, if_true]; exact ⟨_, _, rfl, hb⟩
    · simp only [hc, and_false, if_false]
      have hd : other cid t0 = true := by simp [other, hc]
      rw [List.filter_cons_of_pos hd]; exact ⟨_, _, rfl, hb⟩
  · intro hf t ht
    simp only [cancel_taken] at hf
    obtain ⟨t0, hm, e, _⟩ := cancel_mem s.tl cid t ht
    have := h.free hf t0 hm
    omega

theorem ord_now (s : S) (b : Int) (n : Int) (h : OrdInv s b) : OrdInv { s with now := n } b :=
  ⟨wfs_now s n h.wf, h.ord, h.held, h.free, h.lt⟩

theorem ord_credit (s : S) (b : Int) (tid : Nat) (diff : Int) (h : OrdInv s b) : OrdInv (credit s tid diff) b := by
  have key : ∀ (s1 : S), OrdInv s1 b → OrdInv (markDone s1 tid) b := by
    intro s1 h1
    have hmap : (markDone s1 tid).tl.tasks.map (·.tid) = s1.tl.tasks.map (·.tid) := by
      simp only [markDone, List.map_map]
      apply List.map_congr_left
      intro t _
      simp only [Function.comp]
      split <;> rfl
    refine ⟨wfs_markDone s1 tid h1.wf, ⟨by rw [hmap]; exact h1.ord.1, ?_⟩, ?_, ?_, h1.lt⟩
    · intro t ht
      simp only [markDone, List.mem_map] at ht
      obtain ⟨t0, hm, e⟩ := ht
      have := h1.ord.2 t0 hm
      have : t.tid = t0.tid := by rw [← e]; split <;> rfl
      simp only [markDone]; omega
    · intro ht
      obtain ⟨t0, rest, hl, hb⟩ := h1.held ht
      refine ⟨(fun t : Task => if t.tid = tid then { t with cancelled := true } else t) t0,
        rest.map (fun t : Task => if t.tid = tid then { t with cancelled := true } else t), by simp only [markDone, hl, List.map_cons], ?_⟩
      dsimp only; split <;> exact hb
    · intro hf t ht
      simp only [markDone, List.mem_map] at ht
      obtain ⟨t0, hm, e⟩ := ht
      have := h1.free hf t0 hm
      have : t.tid = t0.tid := by rw [← e]; split <;> rfl
      omega
  have hrem : OrdInv (setRem s tid (getRem s tid - diff)) b := ⟨wfs_setRem s tid _ h.wf, h.ord, h.held, h.free, h.lt⟩
  unfold credit
  simp only
  split
  · exact key _ hrem
  · exact hrem

theorem ord_arrive (s : S) (b : Int) (h : OrdInv s b) (hex : s.pc ≠ .exited) : OrdInv (arrive s).1 b := by
  have ha := arrive_spec s "" h.wf hex
  have htl := ha.2.1
  have hser : (arrive s).1.serial = s.serial := by unfold arrive; split <;> rfl
  exact ⟨ha.1, ⟨by rw [htl]; exact h.ord.1, by rw [htl, hser]; exact h.ord.2⟩, by rw [htl]; exact h.held, by rw [htl]; exact h.free,
    by rw [hser]; exact h.lt⟩

theorem leave_idle (s : S) (h : s.pc = .toPrimary ∨ ∃ tid d, s.pc = .toTask tid d) : leave s = (s, []) := by
  unfold leave
  rcases h with h | ⟨tid, d, h⟩ <;> rw [h]

theorem leave_eq (s : S) (h1 : s.pc ≠ .toPrimary) (h2 : ∀ tid d, s.pc ≠ .toTask tid d) :
    (leave s).1.tl = PRV.Model.Sched.dropInService s.tl ∧ (leave s).1.serial = s.serial := by
  unfold leave
  split
  · rename_i hpc; exact absurd hpc h1
  · rename_i tid d hpc; exact absurd hpc (h2 tid d)
  · exact ⟨rfl, rfl⟩

theorem ord_leave (s : S) (b : Int) (h : OrdInv s b) : OrdInv (leave s).1 b ∧ ∀ d t, OutS.begin d (some t) ∉ (leave s).2 := by
  refine ⟨?_, fun d t hm => (leave_spec s t.cid h.wf).2.2 d t hm rfl⟩
  by_cases hidle : s.pc = .toPrimary ∨ ∃ tid d, s.pc = .toTask tid d
  · rw [leave_idle s hidle]; exact h
  · have h1 : s.pc ≠ .toPrimary := fun e => hidle (Or.inl e)
    have h2 : ∀ tid d, s.pc ≠ .toTask tid d := fun tid d e => hidle (Or.inr ⟨tid, d, e⟩)
    obtain ⟨etl, eser⟩ := leave_eq s h1 h2
    have hsuf : (PRV.Model.Sched.dropInService s.tl).tasks <:+ s.tl.tasks ∧
        (PRV.Model.Sched.dropInService s.tl).taken = false ∧
        (s.tl.taken = true → (PRV.Model.Sched.dropInService s.tl).tasks = s.tl.tasks.tail) := by
      unfold PRV.Model.Sched.dropInService
      by_cases ht : s.tl.taken = true
      · cases hq : s.tl.tasks with
        | nil => exact absurd hq (h.wf.head ht)
        | cons t0 rest =>
          simp only [ht, if_true, TaskList.unlockAndRemove, hq, Bool.not_true, Bool.false_eq_true, if_false, List.tail_cons]
          exact ⟨List.suffix_cons t0 rest, trivial, fun _ => trivial⟩
      · have ht' : s.tl.taken = false := by simpa using ht
        simp only [ht', Bool.false_eq_true, if_false]
        exact ⟨List.suffix_refl _, trivial, fun hx => by cases hx⟩
    refine ⟨(leave_spec s "" h.wf).1, ordered_suffix s _ h.ord (by rw [etl]; exact hsuf.1) (by rw [eser]), ?_, ?_, by rw [eser]; exact h.lt⟩
    · intro ht; rw [etl, hsuf.2.1] at ht; cases ht
    · intro _ t ht
      rw [etl] at ht
      by_cases hs : s.tl.taken = true
      · obtain ⟨t0, rest, hq, hb0⟩ := h.held hs
        rw [hsuf.2.2 hs, hq] at ht
        have := ordered_head_lt s h.ord t0 rest hq t ht
        omega
      · exact h.free (by simpa using hs) t (hsuf.1.subset ht)

end PRV.Proofs.C07Slow
