import PRV.Model.Session
import Mathlib.Tactic.SplitIfs
/-
Lemmas about the session model shared by C02, C03, C04.
-/
namespace PRV.Proofs.Session
open PRV.Model PRV.Model.Session

/-- the ledgers of a session: everything a share can be credited to -/
structure SameLedgers (s t : Sess) : Prop where
  minerWork : t.minerWork = s.minerWork
  workerWork : t.workerWork = s.workerWork
  minerShares : t.minerShares = s.minerShares
  srcAcc : t.srcAcc = s.srcAcc
  srcRej : t.srcRej = s.srcRej
  srcAccTheyRej : t.srcAccTheyRej = s.srcAccTheyRej
  srcRejTheyAcc : t.srcRejTheyAcc = s.srcRejTheyAcc
  cb : t.cb = s.cb
  active : t.active = s.active

theorem sameLedgers_refl (s : Sess) : SameLedgers s s := ⟨rfl, rfl, rfl, rfl, rfl, rfl, rfl, rfl, rfl⟩

theorem sameLedgers_setDest (s : Sess) (d : Dest) : SameLedgers s (setDest' s d) :=
  ⟨rfl, rfl, rfl, rfl, rfl, rfl, rfl, rfl, rfl⟩

/-- routing a share touches validator state only -/
theorem route_ledgers (pow : Pow) (s : Sess) (a : Dest) (jobId : String) (share : List Nat) (nm : String) :
    SameLedgers s (route pow s a jobId share nm).1 := by
  unfold route
  simp only
  split_ifs
  · exact sameLedgers_setDest _ _
  · split <;> exact ⟨rfl, rfl, rfl, rfl, rfl, rfl, rfl, rfl, rfl⟩
  · exact sameLedgers_setDest _ _

/-- a share is accepted exactly when the active destination accepts it, or — if it does not know
the job or the difficulty is too low there — some cached destination does -/
theorem route_accepted_iff (pow : Pow) (s : Sess) (a : Dest) (jobId : String) (share : List Nat) (nm : String) :
    (route pow s a jobId share nm).2.1 = true ↔
      ((validate pow a jobId share nm s.now).2.1 = .ok ∨
       (((validate pow a jobId share nm s.now).2.1 = .jobNotFound ∨ (validate pow a jobId share nm s.now).2.1 = .lowDiff) ∧
        (fallback pow jobId share nm (setDest' s (validate pow a jobId share nm s.now).1).now
            (setDest' s (validate pow a jobId share nm s.now).1).dests).2.isSome)) := by
  unfold route
  simp only
  split_ifs with h1 h2
  · simp [h1]
  · cases hf : (fallback pow jobId share nm (setDest' s (validate pow a jobId share nm s.now).1).now
        (setDest' s (validate pow a jobId share nm s.now).1).dests).2 with
    | some k => simp [h1, h2]
    | none => simp [h1]
  · simp [h1, h2]

/-- the target of an accepted share that is not the active destination was found by the fallback;
a rejected share stays with the active destination -/
theorem route_target (pow : Pow) (s : Sess) (a : Dest) (jobId : String) (share : List Nat) (nm : String) :
    (route pow s a jobId share nm).2.2.1 = a.key ∨
    ((route pow s a jobId share nm).2.1 = true ∧
      (fallback pow jobId share nm (setDest' s (validate pow a jobId share nm s.now).1).now
        (setDest' s (validate pow a jobId share nm s.now).1).dests).2 = some (route pow s a jobId share nm).2.2.1) := by
  unfold route
  simp only
  split_ifs with h1 h2
  · exact Or.inl rfl
  · cases hf : (fallback pow jobId share nm (setDest' s (validate pow a jobId share nm s.now).1).now
        (setDest' s (validate pow a jobId share nm s.now).1).dests).2 with
    | some k => exact Or.inr ⟨rfl, rfl⟩
    | none => exact Or.inl rfl
  · exact Or.inl rfl

/-- the fallback only ever names a destination that is in the map, knows the job, and accepted the
share -/
theorem fallback_target (pow : Pow) (jobId : String) (share : List Nat) (nm : String) (now : Int)
    (ds : List Dest) (k : String × String) (h : (fallback pow jobId share nm now ds).2 = some k) :
    ∃ d ∈ ds, d.key = k ∧ d.v.hasJob jobId = true ∧ (validate pow d jobId share nm now).2.1 = .ok := by
  induction ds with
  | nil => simp [fallback] at h
  | cons d rest ih =>
    unfold fallback at h
    split_ifs at h with hj
    · cases hv : (validate pow d jobId share nm now).2.1 with
      | ok =>
        simp only [hv] at h
        exact ⟨d, List.mem_cons_self, by simpa using h, hj, hv⟩
      | jobNotFound =>
        simp only [hv] at h
        obtain ⟨x, hx, hh⟩ := ih h
        exact ⟨x, List.mem_cons_of_mem _ hx, hh⟩
      | lowDiff =>
        simp only [hv] at h
        obtain ⟨x, hx, hh⟩ := ih h
        exact ⟨x, List.mem_cons_of_mem _ hx, hh⟩
      | duplicate =>
        simp only [hv] at h
        obtain ⟨x, hx, hh⟩ := ih h
        exact ⟨x, List.mem_cons_of_mem _ hx, hh⟩
    · obtain ⟨x, hx, hh⟩ := ih h
      exact ⟨x, List.mem_cons_of_mem _ hx, hh⟩

end PRV.Proofs.Session
