import PRV.Model.Task
import Mathlib.Tactic.SplitIfs
import Mathlib.Tactic.Linarith
/-
Invariant of the Task transition system.
-/
namespace PRV.Proofs.C12
open PRV.Model.Task

def b2n (b : Bool) : Nat := if b then 1 else 0
@[simp] theorem b2n_true : b2n true = 1 := rfl
@[simp] theorem b2n_false : b2n false = 0 := rfl
theorem b2n_le (b : Bool) : b2n b ≤ 1 := by cases b <;> simp

/-- who is responsible for the running flag being set -/
def holders (s : St) : Nat :=
  s.nLoadDone + s.nStoreRun + b2n s.spawnPending.isSome + b2n s.go.isSome + b2n s.doneLocked

def goPc (s : St) : Option GoPc := s.go.map (·.2)
def goGen (s : St) : Option Nat := s.go.map (·.1)

def Inv (s : St) : Prop :=
  holders s ≤ 1 ∧
  (s.isRunning = true ↔ holders s = 1) ∧
  s.twoHolders = false ∧ s.doubleClose = false ∧
  s.active = b2n (goPc s = some .running) ∧
  (s.doneLocked = true → s.isDone = true) ∧
  (s.isDone = true → s.nStoreRun = 0 ∧ s.spawnPending = none ∧
      (goPc s = none ∨ goPc s = some .dCloseDone ∨ goPc s = some .dReset) ∧ (s.parent = true ∨ s.ownReturned = true)) ∧
  (s.doneClosed = true → s.isDone = true ∧ goPc s ≠ some .dCloseDone) ∧
  ((goPc s = some .dSetDone ∨ goPc s = some .dCloseDone ∨ goPc s = some .dReset) →
      (s.parent = true ∨ s.ownReturned = true)) ∧
  (goPc s = some .dSetDone → s.isDone = false) ∧
  ((goPc s = some .dCloseDone ∨ goPc s = some .dReset) → s.isDone = true) ∧
  -- generations
  (∀ x, (x ∈ s.stopClosed ∨ x ∈ s.tails) → x < s.nextGen ∧ (∀ g, goGen s = some g → x < g) ∧
      (∀ g, s.spawnPending = some g → x < g)) ∧
  (∀ g, g < s.nextGen → g ∈ s.stopClosed ∨ g ∈ s.tails ∨ goGen s = some g ∨ s.spawnPending = some g) ∧
  (∀ g, (goGen s = some g ∨ s.spawnPending = some g) → g + 1 = s.nextGen ∧ s.run = some g) ∧
  (∀ g, s.run = some g → g < s.nextGen) ∧
  (∀ g, g ∈ s.cancelled → g < s.nextGen) ∧
  (∀ g, g ∈ s.stopCancel → g < s.nextGen) ∧
  (∀ g, s.go = some (g, .returned false) → (g ∈ s.cancelled ∨ s.parent = true ∨ s.ownReturned = true)) ∧
  (∀ g, s.go = some (g, .returned true) → s.ownReturned = true)

theorem inv_init : Inv {} := by
  unfold Inv holders goPc goGen
  simp

end PRV.Proofs.C12

namespace PRV.Proofs.C12
open PRV.Model.Task

set_option maxHeartbeats 1000000

theorem inv_easy (s s' : St) (l : Label) (h : Inv s) (he : exec s l = some s')
    (hl : l = .startBegin ∨ l = .stopBegin ∨ l = .parentCancel ∨ l = .stopLoadRun ∨ (∃ g, l = .stopCancel g)) :
    Inv s' := by
  obtain ⟨isRunning, isDone, doneClosed, parent, run, nextGen, cancelled, stopClosed, nCas, nLoadDone, nStoreRun,
    spawnPending, nStopLoad, stopCancel, go, tails, active, invocations, doneLocked, ownReturned, twoHolders,
    doubleClose⟩ := s
  unfold Inv holders goPc goGen at h
  simp only at h
  obtain ⟨h1, h2, h3, h4, h5, h6, h7, h8, h9, h10, h11, h12, h13, h14, h15, h16, h17, h18, h19⟩ := h
  rcases hl with rfl | rfl | rfl | rfl | ⟨g, rfl⟩
  · simp only [exec, Option.some.injEq] at he; subst he
    unfold Inv holders goPc goGen
    exact ⟨h1, h2, h3, h4, h5, h6, h7, h8, h9, h10, h11, h12, h13, h14, h15, h16, h17, h18, h19⟩
  · simp only [exec, Option.some.injEq] at he; subst he
    unfold Inv holders goPc goGen
    exact ⟨h1, h2, h3, h4, h5, h6, h7, h8, h9, h10, h11, h12, h13, h14, h15, h16, h17, h18, h19⟩
  · simp only [exec, Option.some.injEq] at he; subst he
    unfold Inv holders goPc goGen
    simp only
    refine ⟨h1, h2, h3, h4, h5, h6, ?_, h8, ?_, h10, h11, h12, h13, h14, h15, h16, h17, ?_, h19⟩
    · intro hd; obtain ⟨a, b, c, _⟩ := h7 hd; exact ⟨a, b, c, Or.inl trivial⟩
    · intro _; exact Or.inl trivial
    · intro g hg; exact Or.inr (Or.inl trivial)
  · simp only [exec] at he
    split_ifs at he
    cases run with
    | none =>
      simp only [Option.some.injEq] at he; subst he
      unfold Inv holders goPc goGen
      exact ⟨h1, h2, h3, h4, h5, h6, h7, h8, h9, h10, h11, h12, h13, h14, h15, h16, h17, h18, h19⟩
    | some g =>
      simp only [Option.some.injEq] at he; subst he
      unfold Inv holders goPc goGen
      simp only
      refine ⟨h1, h2, h3, h4, h5, h6, h7, h8, h9, h10, h11, h12, h13, h14, h15, h16, ?_, h18, h19⟩
      intro g' hg'
      rcases List.mem_cons.mp hg' with e | e
      · rw [e]; exact h15 g rfl
      · exact h17 g' e
  · simp only [exec] at he
    split_ifs at he with hc
    simp only [Option.some.injEq] at he; subst he
    have hmem : g ∈ stopCancel := by simpa using hc
    unfold Inv holders goPc goGen
    simp only
    refine ⟨h1, h2, h3, h4, h5, h6, h7, h8, h9, h10, h11, h12, h13, h14, h15, ?_, ?_, ?_, h19⟩
    · intro g' hg'
      rcases List.mem_cons.mp hg' with e | e
      · rw [e]; exact h17 g hmem
      · exact h16 g' e
    · intro g' hg'; exact h17 g' (List.mem_of_mem_erase hg')
    · intro g' hg'
      rcases h18 g' hg' with x | x
      · exact Or.inl (List.mem_cons_of_mem _ x)
      · exact Or.inr x

theorem inv_startCas (s s' : St) (h : Inv s) (he : exec s .startCas = some s') : Inv s' := by
  obtain ⟨isRunning, isDone, doneClosed, parent, run, nextGen, cancelled, stopClosed, nCas, nLoadDone, nStoreRun,
    spawnPending, nStopLoad, stopCancel, go, tails, active, invocations, doneLocked, ownReturned, twoHolders,
    doubleClose⟩ := s
  unfold Inv holders goPc goGen at h
  simp only at h
  obtain ⟨h1, h2, h3, h4, h5, h6, h7, h8, h9, h10, h11, h12, h13, h14, h15, h16, h17, h18, h19⟩ := h
  simp only [exec] at he
  split_ifs at he with h0 hr
  · simp only [Option.some.injEq] at he; subst he
    unfold Inv holders goPc goGen
    exact ⟨h1, h2, h3, h4, h5, h6, h7, h8, h9, h10, h11, h12, h13, h14, h15, h16, h17, h18, h19⟩
  · simp only [Option.some.injEq] at he; subst he
    unfold Inv holders goPc goGen
    simp only
    have hrf : isRunning = false := by simpa using hr
    subst hrf
    have hne : ¬ (nLoadDone + nStoreRun + b2n spawnPending.isSome + b2n go.isSome + b2n doneLocked = 1) :=
      fun e => by have := h2.mpr e; cases this
    refine ⟨by omega, ⟨fun _ => by omega, fun _ => trivial⟩, h3, h4, h5, h6, h7, h8, h9, h10, h11, h12, h13, h14,
      h15, h16, h17, h18, h19⟩

theorem inv_startLoadDone (s s' : St) (h : Inv s) (he : exec s .startLoadDone = some s') : Inv s' := by
  obtain ⟨isRunning, isDone, doneClosed, parent, run, nextGen, cancelled, stopClosed, nCas, nLoadDone, nStoreRun,
    spawnPending, nStopLoad, stopCancel, go, tails, active, invocations, doneLocked, ownReturned, twoHolders,
    doubleClose⟩ := s
  unfold Inv holders goPc goGen at h
  simp only at h
  obtain ⟨h1, h2, h3, h4, h5, h6, h7, h8, h9, h10, h11, h12, h13, h14, h15, h16, h17, h18, h19⟩ := h
  simp only [exec] at he
  split_ifs at he with h0 hd
  · simp only [Option.some.injEq] at he; subst he
    unfold Inv holders goPc goGen
    simp only [b2n_true]
    have hdl : b2n doneLocked = 0 := by
      cases doneLocked with
      | false => rfl
      | true => simp only [b2n_true] at h1; omega
    refine ⟨by omega, ⟨fun hh => by have := h2.mp hh; omega, fun hh => h2.mpr (by omega)⟩, h3, h4, h5,
      (fun _ => hd), h7, h8, h9, h10, h11, h12, h13, h14, h15, h16, h17, h18, h19⟩
  · simp only [Option.some.injEq] at he; subst he
    unfold Inv holders goPc goGen
    simp only
    have hdf : isDone = false := by simpa using hd
    subst hdf
    refine ⟨by omega, ⟨fun hh => by have := h2.mp hh; omega, fun hh => h2.mpr (by omega)⟩, h3, h4, h5, h6,
      (fun x => by cases x), h8, h9, h10, h11, h12, h13, h14, h15, h16, h17, h18, h19⟩

theorem inv_startStoreRun (s s' : St) (h : Inv s) (he : exec s .startStoreRun = some s') : Inv s' := by
  obtain ⟨isRunning, isDone, doneClosed, parent, run, nextGen, cancelled, stopClosed, nCas, nLoadDone, nStoreRun,
    spawnPending, nStopLoad, stopCancel, go, tails, active, invocations, doneLocked, ownReturned, twoHolders,
    doubleClose⟩ := s
  unfold Inv holders goPc goGen at h
  simp only at h
  obtain ⟨h1, h2, h3, h4, h5, h6, h7, h8, h9, h10, h11, h12, h13, h14, h15, h16, h17, h18, h19⟩ := h
  simp only [exec] at he
  split_ifs at he with h0
  cases spawnPending with
  | some y => simp only [Option.isSome_some, b2n_true] at h1; omega
  | none =>
    cases go with
    | some y => simp only [Option.isSome_some, b2n_true] at h1; omega
    | none =>
      simp only [Option.some.injEq] at he; subst he
      simp only [Option.isSome_none, b2n_false, Option.map_none] at h1 h2 h5 h7 h12 h13 h14
      have hdone : isDone = false := by
        cases isDone with
        | false => rfl
        | true => have := (h7 rfl).1; omega
      subst hdone
      unfold Inv holders goPc goGen
      simp only [Option.isSome_some, Option.isSome_none, b2n_true, b2n_false, Option.map_none]
      refine ⟨by omega, ⟨fun hh => by have := h2.mp hh; omega, fun hh => h2.mpr (by omega)⟩, h3, h4, h5, h6,
        (fun x => by cases x), h8, (fun x => by simp at x), (fun x => by simp at x), (fun x => by simp at x),
        ?_, ?_, ?_, ?_, ?_, ?_, (fun g x => by cases x), (fun g x => by cases x)⟩
      · intro x hx
        have := (h12 x hx).1
        refine ⟨by omega, (fun g hg => by cases hg), ?_⟩
        intro g hg; simp only [Option.some.injEq] at hg; omega
      · intro g hg
        by_cases e : g = nextGen
        · exact Or.inr (Or.inr (Or.inr (by rw [e])))
        · have hlt : g < nextGen := by omega
          rcases h13 g hlt with a | a | a | a
          · exact Or.inl a
          · exact Or.inr (Or.inl a)
          · cases a
          · cases a
      · intro g hg
        rcases hg with a | a
        · cases a
        · simp only [Option.some.injEq] at a; subst a; exact ⟨rfl, rfl⟩
      · intro g hg; simp only [Option.some.injEq] at hg; omega
      · intro g hg; have := h16 g hg; omega
      · intro g hg; have := h17 g hg; omega

theorem inv_startSpawn (s s' : St) (h : Inv s) (he : exec s .startSpawn = some s') : Inv s' := by
  obtain ⟨isRunning, isDone, doneClosed, parent, run, nextGen, cancelled, stopClosed, nCas, nLoadDone, nStoreRun,
    spawnPending, nStopLoad, stopCancel, go, tails, active, invocations, doneLocked, ownReturned, twoHolders,
    doubleClose⟩ := s
  unfold Inv holders goPc goGen at h
  simp only at h
  obtain ⟨h1, h2, h3, h4, h5, h6, h7, h8, h9, h10, h11, h12, h13, h14, h15, h16, h17, h18, h19⟩ := h
  simp only [exec] at he
  cases spawnPending with
  | none => cases he
  | some g =>
    cases go with
    | some y => simp only [Option.isSome_some, b2n_true] at h1; omega
    | none =>
      simp only [Option.some.injEq] at he; subst he
      simp only [Option.isSome_none, Option.isSome_some, b2n_true, b2n_false, Option.map_none] at h1 h2 h5 h7 h12 h13 h14
      have hdone : isDone = false := by
        cases isDone with
        | false => rfl
        | true => have := (h7 rfl).2.1; cases this
      subst hdone
      unfold Inv holders goPc goGen
      simp only [Option.isSome_some, Option.isSome_none, b2n_true, b2n_false, Option.map_some]
      refine ⟨by omega, ⟨fun hh => by have := h2.mp hh; omega, fun hh => h2.mpr (by omega)⟩, h3, h4, ?_, h6,
        (fun x => by cases x), (fun x => by have := (h8 x).1; cases this), (fun x => by simp at x),
        (fun x => by simp at x), (fun x => by simp at x),
        ?_, ?_, ?_, h15, h16, h17, (fun g x => by simp at x), (fun g x => by simp at x)⟩
      · rw [h5]; simp
      · intro x hx
        obtain ⟨a, _, c⟩ := h12 x hx
        refine ⟨a, ?_, (fun g' hg' => by cases hg')⟩
        intro g' hg'; simp only [Option.some.injEq] at hg'; subst hg'; exact c g rfl
      · intro g' hg'
        rcases h13 g' hg' with a | a | a | a
        · exact Or.inl a
        · exact Or.inr (Or.inl a)
        · cases a
        · exact Or.inr (Or.inr (Or.inl (by simpa using a)))
      · intro g' hg'
        rcases hg' with a | a
        · simp only [Option.some.injEq] at a; subst a; exact h14 g (Or.inr rfl)
        · cases a

end PRV.Proofs.C12

namespace PRV.Proofs.C12
open PRV.Model.Task

set_option maxHeartbeats 2000000

/-- goroutine steps that only move its program counter (and ghost/observable counters) -/
theorem inv_goMove (s s' : St) (l : Label) (h : Inv s) (he : exec s l = some s')
    (hl : l = .goBegin ∨ l = .goReturnCtx ∨ l = .goReturnOwn ∨ l = .goDecide ∨ l = .goReturnOwnCtx) : Inv s' := by
  obtain ⟨isRunning, isDone, doneClosed, parent, run, nextGen, cancelled, stopClosed, nCas, nLoadDone, nStoreRun,
    spawnPending, nStopLoad, stopCancel, go, tails, active, invocations, doneLocked, ownReturned, twoHolders,
    doubleClose⟩ := s
  unfold Inv holders goPc goGen at h
  simp only at h
  obtain ⟨h1, h2, h3, h4, h5, h6, h7, h8, h9, h10, h11, h12, h13, h14, h15, h16, h17, h18, h19⟩ := h
  cases go with
  | none => rcases hl with rfl | rfl | rfl | rfl | rfl <;> simp [exec] at he
  | some gp =>
    obtain ⟨g, pc⟩ := gp
    simp only [Option.isSome_some, b2n_true, Option.map_some] at h1 h2 h5 h7 h8 h9 h10 h11 h12 h13 h14
    have hdoneF : ∀ (_ : GoPc), (pc = .begin ∨ pc = .running ∨ pc = .returned true ∨ pc = .returned false) →
        isDone = false := by
      intro _ hp
      cases hd : isDone with
      | false => rfl
      | true =>
        rw [hd] at h7
        obtain ⟨_, _, c, _⟩ := h7 rfl
        rcases hp with rfl | rfl | rfl | rfl <;> simp at c
    rcases hl with rfl | rfl | rfl | rfl | rfl
    · -- goBegin
      cases pc <;> simp only [exec] at he <;> try (cases he)
      have hd := hdoneF .begin (Or.inl rfl); subst hd
      unfold Inv holders goPc goGen
      simp only [Option.isSome_some, b2n_true, Option.map_some]
      refine ⟨h1, h2, h3, h4, by simp [h5], h6, (fun x => by cases x), (fun x => by have := (h8 x).1; cases this),
        (fun x => by simp at x), (fun x => by simp at x), (fun x => by simp at x), h12, h13, h14, h15, h16, h17,
        (fun g x => by simp at x), (fun g x => by simp at x)⟩
    · -- goReturnCtx
      cases pc <;> simp only [exec] at he <;> try (cases he)
      split_ifs at he with hc
      simp only [Option.some.injEq] at he; subst he
      have hd := hdoneF .running (Or.inr (Or.inl rfl)); subst hd
      unfold Inv holders goPc goGen
      simp only [Option.isSome_some, b2n_true, Option.map_some]
      refine ⟨h1, h2, h3, h4, by simp [h5], h6, (fun x => by cases x), (fun x => by have := (h8 x).1; cases this),
        (fun x => by simp at x), (fun x => by simp at x), (fun x => by simp at x), h12, h13, h14, h15, h16, h17,
        ?_, (fun g x => by simp at x)⟩
      intro g' hg'
      simp only [Option.some.injEq, Prod.mk.injEq, and_true] at hg'
      subst hg'
      simp only [Bool.or_eq_true, List.contains_iff_mem] at hc
      rcases hc with hc | hc
      · exact Or.inl hc
      · exact Or.inr (Or.inl hc)
    · -- goReturnOwn
      cases pc <;> simp only [exec] at he <;> try (cases he)
      have hd := hdoneF .running (Or.inr (Or.inl rfl)); subst hd
      unfold Inv holders goPc goGen
      simp only [Option.isSome_some, b2n_true, Option.map_some]
      refine ⟨h1, h2, h3, h4, by simp [h5], h6, (fun x => by cases x), (fun x => by have := (h8 x).1; cases this),
        (fun x => by simp at x), (fun x => by simp at x), (fun x => by simp at x), h12, h13, h14, h15, h16, h17,
        (fun g x => by simp at x), (fun g x => trivial)⟩
    · -- goDecide
      cases pc <;> simp only [exec] at he <;> try (cases he)
      rename_i own
      have hd := hdoneF (.returned own) (by cases own <;> simp); subst hd
      split_ifs at he with hc
      · simp only [Option.some.injEq] at he; subst he
        unfold Inv holders goPc goGen
        simp only [Option.isSome_some, b2n_true, Option.map_some]
        refine ⟨h1, h2, h3, h4, by simp [h5], h6, (fun x => by cases x), (fun x => by have := (h8 x).1; cases this),
          (fun x => by simp at x), (fun x => by simp at x), (fun x => by simp at x), h12, h13, h14, h15, h16, h17,
          (fun g x => by simp at x), (fun g x => by simp at x)⟩
      · simp only [Option.some.injEq] at he; subst he
        unfold Inv holders goPc goGen
        simp only [Option.isSome_some, b2n_true, Option.map_some]
        refine ⟨h1, h2, h3, h4, by simp [h5], h6, (fun x => by cases x), (fun x => by have := (h8 x).1; cases this),
          ?_, (fun _ => trivial), (fun x => by simp at x), h12, h13, h14, h15, h16, h17,
          (fun g x => by simp at x), (fun g x => by simp at x)⟩
        intro _
        -- the done path is taken only if the parent ended or the function returned on its own
        cases own with
        | true => exact Or.inr (h19 g rfl)
        | false =>
          rcases h18 g rfl with hcanc | hpar | hown
          · cases hp : parent with
            | true => exact Or.inl rfl
            | false => rw [hp] at hc; simp [hcanc] at hc
          · exact Or.inl hpar
          · exact Or.inr hown
    · -- goReturnOwnCtx
      cases pc <;> simp only [exec] at he <;> try (cases he)
      have hd := hdoneF .running (Or.inr (Or.inl rfl)); subst hd
      unfold Inv holders goPc goGen
      simp only [Option.isSome_some, b2n_true, Option.map_some]
      refine ⟨h1, h2, h3, h4, by simp [h5], h6, (fun x => by cases x), (fun x => by have := (h8 x).1; cases this),
        (fun x => by simp at x), (fun x => by simp at x), (fun x => by simp at x), h12, h13, h14, h15, h16, h17,
        (fun g x => Or.inr (Or.inr trivial)), (fun g x => trivial)⟩

end PRV.Proofs.C12

namespace PRV.Proofs.C12
open PRV.Model.Task

set_option maxHeartbeats 2000000

theorem inv_goDone (s s' : St) (l : Label) (h : Inv s) (he : exec s l = some s')
    (hl : l = .goSetDone ∨ l = .goCloseDone) : Inv s' := by
  obtain ⟨isRunning, isDone, doneClosed, parent, run, nextGen, cancelled, stopClosed, nCas, nLoadDone, nStoreRun,
    spawnPending, nStopLoad, stopCancel, go, tails, active, invocations, doneLocked, ownReturned, twoHolders,
    doubleClose⟩ := s
  unfold Inv holders goPc goGen at h
  simp only at h
  obtain ⟨h1, h2, h3, h4, h5, h6, h7, h8, h9, h10, h11, h12, h13, h14, h15, h16, h17, h18, h19⟩ := h
  cases go with
  | none => rcases hl with rfl | rfl <;> simp [exec] at he
  | some gp =>
    obtain ⟨g, pc⟩ := gp
    simp only [Option.isSome_some, b2n_true, Option.map_some] at h1 h2 h5 h7 h8 h9 h10 h11 h12 h13 h14
    have hsp : spawnPending = none := by
      cases spawnPending with
      | none => rfl
      | some y => simp only [Option.isSome_some, b2n_true] at h1; omega
    have hns : nStoreRun = 0 := by omega
    rcases hl with rfl | rfl
    · -- goSetDone
      cases pc <;> simp only [exec] at he <;> try (cases he)
      have hdF : isDone = false := h10 rfl
      subst hdF
      have hdc : doneClosed = false := by
        cases hd : doneClosed with
        | false => rfl
        | true => have := (h8 hd).1; cases this
      subst hdc
      unfold Inv holders goPc goGen
      simp only [Option.isSome_some, b2n_true, Option.map_some]
      refine ⟨h1, h2, h3, h4, by simp [h5], (fun _ => trivial), ?_, (fun x => by cases x), ?_,
        (fun x => by simp at x), (fun _ => trivial), h12, h13, h14, h15, h16, h17,
        (fun g x => by simp at x), (fun g x => by simp at x)⟩
      · intro _; exact ⟨hns, hsp, Or.inr (Or.inl trivial), h9 (Or.inl rfl)⟩
      · intro _; exact h9 (Or.inl rfl)
    · -- goCloseDone
      cases pc <;> simp only [exec] at he <;> try (cases he)
      have hdT : isDone = true := h11 (Or.inl rfl)
      subst hdT
      have hdc : doneClosed = false := by
        cases hd : doneClosed with
        | false => rfl
        | true => exact absurd rfl (h8 hd).2
      subst hdc
      simp only [Bool.false_eq_true, if_false, Option.some.injEq] at he
      subst he
      unfold Inv holders goPc goGen
      simp only [Option.isSome_some, b2n_true, Option.map_some]
      refine ⟨h1, h2, h3, h4, by simp [h5], (fun _ => trivial), ?_, (fun _ => ⟨trivial, by simp⟩), ?_,
        (fun x => by simp at x), (fun _ => trivial), h12, h13, h14, h15, h16, h17,
        (fun g x => by simp at x), (fun g x => by simp at x)⟩
      · intro _; exact ⟨hns, hsp, Or.inr (Or.inr trivial), h9 (Or.inr (Or.inl rfl))⟩
      · intro _; exact h9 (Or.inr (Or.inl rfl))

theorem inv_goReset (s s' : St) (h : Inv s) (he : exec s .goReset = some s') : Inv s' := by
  obtain ⟨isRunning, isDone, doneClosed, parent, run, nextGen, cancelled, stopClosed, nCas, nLoadDone, nStoreRun,
    spawnPending, nStopLoad, stopCancel, go, tails, active, invocations, doneLocked, ownReturned, twoHolders,
    doubleClose⟩ := s
  unfold Inv holders goPc goGen at h
  simp only at h
  obtain ⟨h1, h2, h3, h4, h5, h6, h7, h8, h9, h10, h11, h12, h13, h14, h15, h16, h17, h18, h19⟩ := h
  cases go with
  | none => simp [exec] at he
  | some gp =>
    obtain ⟨g, pc⟩ := gp
    simp only [Option.isSome_some, b2n_true, Option.map_some] at h1 h2 h5 h7 h8 h9 h10 h11 h12 h13 h14
    have hsp : spawnPending = none := by
      cases spawnPending with
      | none => rfl
      | some y => simp only [Option.isSome_some, b2n_true] at h1; omega
    subst hsp
    simp only [Option.isSome_none, b2n_false] at h1 h2
    have hdl : doneLocked = false := by
      cases doneLocked with
      | false => rfl
      | true => simp only [b2n_true] at h1; omega
    subst hdl
    simp only [b2n_false] at h1 h2
    have key : ∀ (pc' : GoPc), (pc' = .sReset ∨ pc' = .dReset) → pc = pc' →
        Inv { isRunning := false, isDone := isDone, doneClosed := doneClosed, parent := parent, run := run,
              nextGen := nextGen, cancelled := cancelled, stopClosed := stopClosed, nCas := nCas,
              nLoadDone := nLoadDone, nStoreRun := nStoreRun, spawnPending := none, nStopLoad := nStopLoad,
              stopCancel := stopCancel, go := none, tails := g :: tails, active := active,
              invocations := invocations, doneLocked := false, ownReturned := ownReturned,
              twoHolders := twoHolders, doubleClose := doubleClose } := by
      intro pc' hpc' e
      subst e
      unfold Inv holders goPc goGen
      simp only [Option.isSome_none, b2n_false, Option.map_none]
      have hg1 : g + 1 = nextGen := (h14 g (Or.inl rfl)).1
      refine ⟨by omega, ⟨(fun x => by cases x), (fun x => by omega)⟩, h3, h4, ?_, (fun x => by cases x), ?_, ?_,
        (fun x => by simp at x), (fun x => by simp at x), (fun x => by simp at x), ?_, ?_,
        (fun g' x => by rcases x with a | a <;> cases a), h15, h16, h17, (fun g x => by cases x), (fun g x => by cases x)⟩
      · rw [h5]; rcases hpc' with rfl | rfl <;> simp
      · intro hd
        obtain ⟨a, b, _, d⟩ := h7 hd
        exact ⟨a, trivial, Or.inl trivial, d⟩
      · intro hd; exact ⟨(h8 hd).1, by simp⟩
      · intro x hx
        refine ⟨?_, (fun g' hg' => by cases hg'), (fun g' hg' => by cases hg')⟩
        rcases hx with a | a
        · exact (h12 x (Or.inl a)).1
        · rcases List.mem_cons.mp a with e | e
          · omega
          · exact (h12 x (Or.inr e)).1
      · intro g' hg'
        rcases h13 g' hg' with a | a | a | a
        · exact Or.inl a
        · exact Or.inr (Or.inl (List.mem_cons_of_mem _ a))
        · simp only [Option.some.injEq] at a; subst a; exact Or.inr (Or.inl List.mem_cons_self)
        · cases a
    cases pc <;> simp only [exec] at he <;> try (cases he)
    · exact key .sReset (Or.inl rfl) rfl
    · exact key .dReset (Or.inr rfl) rfl

theorem inv_goCloseStop (s s' : St) (g : Nat) (h : Inv s) (he : exec s (.goCloseStop g) = some s') : Inv s' := by
  obtain ⟨isRunning, isDone, doneClosed, parent, run, nextGen, cancelled, stopClosed, nCas, nLoadDone, nStoreRun,
    spawnPending, nStopLoad, stopCancel, go, tails, active, invocations, doneLocked, ownReturned, twoHolders,
    doubleClose⟩ := s
  unfold Inv holders goPc goGen at h
  simp only at h
  obtain ⟨h1, h2, h3, h4, h5, h6, h7, h8, h9, h10, h11, h12, h13, h14, h15, h16, h17, h18, h19⟩ := h
  simp only [exec] at he
  split_ifs at he with hc
  simp only [Option.some.injEq] at he; subst he
  have hmem : g ∈ tails := by simpa using hc
  unfold Inv holders goPc goGen
  simp only
  refine ⟨h1, h2, h3, h4, h5, h6, h7, h8, h9, h10, h11, ?_, ?_, h14, h15, h16, h17, h18, h19⟩
  · intro x hx
    rcases hx with a | a
    · rcases List.mem_cons.mp a with e | e
      · rw [e]; exact h12 g (Or.inr hmem)
      · exact h12 x (Or.inl e)
    · exact h12 x (Or.inr (List.mem_of_mem_erase a))
  · intro g' hg'
    rcases h13 g' hg' with a | a | a | a
    · exact Or.inl (List.mem_cons_of_mem _ a)
    · by_cases e : g' = g
      · exact Or.inl (by rw [e]; exact List.mem_cons_self)
      · exact Or.inr (Or.inl ((List.mem_erase_of_ne e).mpr a))
    · exact Or.inr (Or.inr (Or.inl a))
    · exact Or.inr (Or.inr (Or.inr a))

/-- **The invariant is inductive.** -/
theorem inv_step (s s' : St) (l : Label) (h : Inv s) (he : exec s l = some s') : Inv s' := by
  cases l with
  | startBegin => exact inv_easy s s' _ h he (Or.inl rfl)
  | stopBegin => exact inv_easy s s' _ h he (Or.inr (Or.inl rfl))
  | parentCancel => exact inv_easy s s' _ h he (Or.inr (Or.inr (Or.inl rfl)))
  | stopLoadRun => exact inv_easy s s' _ h he (Or.inr (Or.inr (Or.inr (Or.inl rfl))))
  | stopCancel g => exact inv_easy s s' _ h he (Or.inr (Or.inr (Or.inr (Or.inr ⟨g, rfl⟩))))
  | startCas => exact inv_startCas s s' h he
  | startLoadDone => exact inv_startLoadDone s s' h he
  | startStoreRun => exact inv_startStoreRun s s' h he
  | startSpawn => exact inv_startSpawn s s' h he
  | goBegin => exact inv_goMove s s' _ h he (Or.inl rfl)
  | goReturnCtx => exact inv_goMove s s' _ h he (Or.inr (Or.inl rfl))
  | goReturnOwn => exact inv_goMove s s' _ h he (Or.inr (Or.inr (Or.inl rfl)))
  | goDecide => exact inv_goMove s s' _ h he (Or.inr (Or.inr (Or.inr (Or.inl rfl))))
  | goReturnOwnCtx => exact inv_goMove s s' _ h he (Or.inr (Or.inr (Or.inr (Or.inr rfl))))
  | goSetDone => exact inv_goDone s s' _ h he (Or.inl rfl)
  | goCloseDone => exact inv_goDone s s' _ h he (Or.inr rfl)
  | goReset => exact inv_goReset s s' h he
  | goCloseStop g => exact inv_goCloseStop s s' g h he

theorem inv_reachable {s : St} (h : Reachable s) : Inv s := by
  induction h with
  | init => exact inv_init
  | step _ hs ih => obtain ⟨l, hl⟩ := hs; exact inv_step _ _ l ih hl

end PRV.Proofs.C12
