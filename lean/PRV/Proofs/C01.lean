import PRV.Model.Pow
import PRV.Spec.C01
/-
Lemmas relating the operation-by-operation model of `ValidateDiffFloat` to the header layout of
`Spec/C01.lean`.
-/
namespace PRV.Proofs.C01
open PRV.Base PRV.Model.Pow PRV.Spec.C01

/-! ### hex decoding -/

theorem hexVal_lt (c : Char) (v : Nat) (h : hexVal c = some v) : v < 16 := by
  unfold hexVal at h
  split at h
  · rename_i hc
    have h1 : c.toNat ≤ '9'.toNat := hc.2
    have h0 : '0'.toNat ≤ c.toNat := hc.1
    simp only [Option.some.injEq] at h
    have : ('9' : Char).toNat = 57 := by decide
    have : ('0' : Char).toNat = 48 := by decide
    omega
  · split at h
    · rename_i hc
      have h1 : c.toNat ≤ 'f'.toNat := hc.2
      have h0 : 'a'.toNat ≤ c.toNat := hc.1
      simp only [Option.some.injEq] at h
      have : ('f' : Char).toNat = 102 := by decide
      have : ('a' : Char).toNat = 97 := by decide
      omega
    · split at h
      · rename_i hc
        have h1 : c.toNat ≤ 'F'.toNat := hc.2
        have h0 : 'A'.toNat ≤ c.toNat := hc.1
        simp only [Option.some.injEq] at h
        have : ('F' : Char).toNat = 70 := by decide
        have : ('A' : Char).toNat = 65 := by decide
        omega
      · cases h

theorem hexDecodeChars_append (a b : List Char) (h : isHexChars a = true) :
    hexDecodeChars (a ++ b) = hexDecodeChars a ++ hexDecodeChars b := by
  fun_induction isHexChars a with
  | case1 => simp [hexDecodeChars]
  | case2 x y rest ih =>
    simp only [Bool.and_eq_true] at h
    obtain ⟨⟨hx, hy⟩, hr⟩ := h
    obtain ⟨vx, hvx⟩ := Option.isSome_iff_exists.mp hx
    obtain ⟨vy, hvy⟩ := Option.isSome_iff_exists.mp hy
    simp only [List.cons_append, hexDecodeChars, hvx, hvy, ih hr]
  | case3 x => cases h

theorem hexDecodeChars_length (a : List Char) (h : isHexChars a = true) :
    2 * (hexDecodeChars a).length = a.length := by
  fun_induction isHexChars a with
  | case1 => simp [hexDecodeChars]
  | case2 x y rest ih =>
    simp only [Bool.and_eq_true] at h
    obtain ⟨⟨hx, hy⟩, hr⟩ := h
    obtain ⟨vx, hvx⟩ := Option.isSome_iff_exists.mp hx
    obtain ⟨vy, hvy⟩ := Option.isSome_iff_exists.mp hy
    simp only [hexDecodeChars, hvx, hvy, List.length_cons]
    have := ih hr
    omega
  | case3 x => cases h

theorem hexDecodeChars_lt (a : List Char) : ∀ v ∈ hexDecodeChars a, v < 256 := by
  fun_induction hexDecodeChars a with
  | case1 x y rest vx vy hx hy ih =>
    intro v hv
    simp only [List.mem_cons] at hv
    rcases hv with hv | hv
    · have := hexVal_lt _ _ hx; have := hexVal_lt _ _ hy; omega
    · exact ih v hv
  | case2 => intro v hv; cases hv
  | case3 => intro v hv; cases hv

theorem hexDecode_append (a b : String) (h : isHex a = true) : hexDecode (a ++ b) = hexDecode a ++ hexDecode b := by
  unfold hexDecode
  rw [String.toList_append]
  exact hexDecodeChars_append _ _ h

theorem hexN_bytes (n : Nat) (s : String) (h : hexN n s = true) :
    (hexDecode s).length = n ∧ ∀ v ∈ hexDecode s, v < 256 := by
  unfold hexN at h
  simp only [Bool.and_eq_true, beq_iff_eq] at h
  have := hexDecodeChars_length s.toList h.1
  exact ⟨by unfold hexDecode; omega, hexDecodeChars_lt _⟩

/-- a valid 8-digit hex string decodes to four bytes -/
theorem hex4 (s : String) (h : hexN 4 s = true) :
    ∃ a b c d, hexDecode s = [a, b, c, d] ∧ a < 256 ∧ b < 256 ∧ c < 256 ∧ d < 256 := by
  obtain ⟨hl, hb⟩ := hexN_bytes 4 s h
  match hs : hexDecode s, hl with
  | [a, b, c, d], _ =>
    rw [hs] at hb
    exact ⟨a, b, c, d, rfl, hb a (by simp), hb b (by simp), hb c (by simp), hb d (by simp)⟩

/-! ### byte order -/

theorem decodeSwap_le4 (s : String) (h : hexN 4 s = true) : decodeSwap s = le4 (beVal (hexDecode s)) := by
  obtain ⟨a, b, c, d, hs, ha, hb, hc, hd⟩ := hex4 s h
  unfold decodeSwap
  rw [hs]
  simp only [List.reverse_cons, List.reverse_nil, List.nil_append, List.cons_append, beVal, List.foldl, le4]
  congr 1
  · omega
  · congr 1
    · omega
    · congr 1
      · omega
      · congr 1; omega

theorem leU32_decodeSwap (s : String) (h : hexN 4 s = true) : leU32 (decodeSwap s) = some (word s) := by
  obtain ⟨a, b, c, d, hs, ha, hb, hc, hd⟩ := hex4 s h
  unfold decodeSwap word
  rw [hs]
  simp only [List.reverse_cons, List.reverse_nil, List.nil_append, List.cons_append, leU32, beVal, List.foldl]
  congr 2
  omega

theorem word_toNat (s : String) (h : hexN 4 s = true) : (word s).toNat = beVal (hexDecode s) := by
  obtain ⟨a, b, c, d, hs, ha, hb, hc, hd⟩ := hex4 s h
  unfold word
  rw [hs, BitVec.toNat_ofNat]
  simp only [beVal, List.foldl]
  omega

theorem le32_eq (v : BitVec 32) : le32 v = le4 v.toNat := rfl

theorem leNat_eq (l : List Nat) : leNat l = leVal l := by
  induction l with
  | nil => rfl
  | cons b rest ih => simp [leNat, leVal, ih]

theorem swapWords_eq (l : List Nat) (h : l.length % 4 = 0) : swapWords l = some (swap32 l) := by
  fun_induction swap32 l with
  | case1 a b c d rest ih =>
    have : rest.length % 4 = 0 := by simp only [List.length_cons] at h; omega
    simp [swapWords, ih this]
  | case2 l hne =>
    match l, hne, h with
    | [], _, _ => rfl
    | [_], _, h => simp at h
    | [_, _], _, h => simp at h
    | [_, _, _], _, h => simp at h
    | a :: b :: c :: d :: rest, hne, _ => exact absurd rfl (hne a b c d rest)

theorem swap32_length (l : List Nat) (h : l.length % 4 = 0) : (swap32 l).length = l.length := by
  fun_induction swap32 l with
  | case1 a b c d rest ih =>
    have : rest.length % 4 = 0 := by simp only [List.length_cons] at h; omega
    simp [ih this]
  | case2 l hne =>
    match l, hne, h with
    | [], _, _ => rfl
    | [_], _, h => simp at h
    | [_, _], _, h => simp at h
    | [_, _, _], _, h => simp at h
    | a :: b :: c :: d :: rest, hne, _ => exact absurd rfl (hne a b c d rest)

theorem le4_length (n : Nat) : (le4 n).length = 4 := rfl

end PRV.Proofs.C01
