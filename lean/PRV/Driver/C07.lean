import PRV.Driver.Core
import PRV.Model.Sched
import PRV.Model.SchedSlow
namespace PRV.Driver.C07
open PRV.Driver PRV.Model.Sched

structure St where
  s : Sched := { primary := "primary", cur := "primary" }
  tl : TaskList := {}
  tlSerial : Nat := 0
  tlDead : Bool := false
  slow : PRV.Model.SchedSlow.S := { primary := "primary", cur := "primary" }

def showKind : EndKind → String
  | .done => "done" | .deadline => "deadline" | .proxyExited => "proxyexited"
  | .minerDisconnected => "minerdisconnected" | .connDest => "conndest"

def showOut : Out → String
  | .setDest d cb => s!"setdest {d} {if cb then 1 else 0}"
  | .onSubmit t d => s!"onsubmit {t} {d}"
  | .onDisconnect t r => s!"ondisconnect {t} {r}"
  | .onEnd t r k => s!"onend {t} {r} {showKind k}"
  | .destErr => "desterr"
  | .exited => "exited"

def withCount (s : Sched) (outs : List Out) : List String :=
  outs.map showOut ++ (if s.exited then [] else [s!"count {s.tl.size}"])

def showTask (t : Task) : String := s!"{t.cid}#{t.remaining}{if t.cancelled then "x" else ""}"

def dump (l : TaskList) : String :=
  let items := String.intercalate "," (l.tasks.map showTask)
  s!"list {if items = "" then "-" else items} size {l.size} taken {if l.taken then 1 else 0}"

def stepEv (st : St) (ev : Ev) : St × List String :=
  let r := step st.s ev
  ({ st with s := r.1 }, withCount r.1 r.2)

def showOutS : PRV.Model.SchedSlow.OutS → String
  | .begin d tid => s!"begin {d} {if tid.isSome then 1 else 0}"
  | .base o => showOut o

def slowLines (s : PRV.Model.SchedSlow.S) (outs : List PRV.Model.SchedSlow.OutS) : List String :=
  (if s.ambig then ["AMBIGUOUS"] else []) ++ outs.map showOutS ++ (if s.pc = .exited then [] else [s!"count {s.tl.size}"])

def stepSlow (st : St) (ev : PRV.Model.SchedSlow.Ev) : St × List String :=
  let r := PRV.Model.SchedSlow.step st.slow ev
  ({ st with slow := r.1 }, slowLines r.1 r.2)

def step (st : St) : List String → St × List String
  | ["init"] => let r := init "primary"; ({ st with s := r.1 }, withCount r.1 r.2)
  | ["add", cid, job, dl] => stepEv st (.add cid (if cid = "primary" then "primary" else cid ++ "dest") (parseInt job) (parseInt dl))
  | ["remove", cid] => stepEv st (.remove cid)
  | ["share", d] => stepEv st (.share (parseInt d))
  | ["tick", t] => stepEv st (.tick (parseInt t))
  | ["exit", k] => stepEv st (.proxyExit (k = "dest"))
  -- slow destination changes (Model/PRV.Model.SchedSlow.lean)
  | ["sinit"] => let r := PRV.Model.SchedSlow.init "primary"; ({ st with slow := r.1 }, slowLines r.1 r.2)
  | ["sadd", cid, job, dl] => stepSlow st (.add cid (cid ++ "dest") (parseInt job) (parseInt dl))
  | ["sremove", cid] => stepSlow st (.remove cid)
  | ["sshare", d] => stepSlow st (.share (parseInt d))
  | ["stick", t] => stepSlow st (.tick (parseInt t))
  | ["srelease"] => stepSlow st .release
  | ["sexit"] => stepSlow st .proxyExit
  -- the end of a history (printed by the harness only when the scheduler did not return): the model always returns
  | ["end"] => (st, [])
  | ["send"] => (st, [])
  -- raw TaskList
  | ["tladd", cid] =>
    if st.tlDead then (st, []) else
    let t : Task := { tid := st.tlSerial, cid := cid, dest := "", remaining := st.tlSerial, deadline := 0 }
    let r := st.tl.add t
    ({ st with tl := r.1, tlSerial := st.tlSerial + 1 }, [s!"len {r.2}", dump r.1])
  | ["tllock"] =>
    if st.tlDead then (st, []) else
    match st.tl.lockNext with
    | .ok (l, some t) => ({ st with tl := l }, [s!"locked {t.cid}#{t.remaining}", dump l])
    | .ok (l, none) => ({ st with tl := l }, ["locked none", dump l])
    | .error _ => (st, ["panic task%20already%20taken", dump st.tl])
  | ["tlunlockremove"] =>
    if st.tlDead then (st, []) else
    match st.tl.unlockAndRemove with
    | .ok l => ({ st with tl := l }, [dump l])
    | .error .notTaken => (st, ["panic task%20not%20taken", dump st.tl])
    | .error _ =>
      let l := { st.tl with taken := false }
      ({ st with tl := l },
        ["panic no%20tasks%20in%20queue,%20when%20there%20should%20be%20at%20least%20one", dump l])
  | ["tlcancel", cid] =>
    if st.tlDead then (st, []) else
    let l := st.tl.cancel cid; ({ st with tl := l }, [dump l])
  | _ => (st, ["bad-op"])

def machine : Machine := { σ := St, init := {}, step := step }

end PRV.Driver.C07
