import PRV.Driver.Core
/-
Monitor for C08 on the seller world's trace: chain truth is reconstructed from the ops, and every
observation is judged against it.
-/
namespace PRV.Driver.C08
open PRV.Driver

def kvGet (toks : List String) (k : String) : String :=
  ((toks.filterMap fun t => match t.splitOn "=" with
    | [a, v] => if a = k then some v else none
    | _ => none).head?).getD ""

/-- chain truth of one contract -/
structure CT where
  name : String
  purchased : Bool := false
  startedAt : Int := 0          -- s
  len : Int := 0
  host : Option String := none  -- the buyer's pool host when the payload is a valid URL for the seller
  hr : Nat := 0
  liveSince : Option Int := none   -- since when (continuously) purchased ∧ unexpired ∧ valid payload ∧ node up
  future : Option (Int × Nat) := none   -- terms waiting for the close (length, speed)
  -- the node could not read the chain when it handled this contract's last event (a refused eth_call): until the next
  -- event of the contract or a restart it acts on what it read before — what the chain said then is accepted as well
  stale : Option (Bool × Int × Int × Option String) := none   -- purchased, startedAt, len, host as last read

structure St where
  now : Int := 0
  failNext : Bool := false      -- the node refuses the next eth_call
  cs : List CT := []
  minersHr : Nat := 0
  nodeUp : Bool := false
  progress : List (String × Int × Int) := []   -- per contract: work delivered at the last observation, and when it last grew

def hostOf (payload : String) : Option String :=
  if payload.startsWith "v:" then some (String.ofList (payload.toList.drop 2)) else none

def live (now : Int) (c : CT) : Bool := c.purchased && decide (now ≤ c.startedAt + c.len) && c.host.isSome

def upd (st : St) (c : CT) : St := { st with cs := st.cs.map fun x => if x.name = c.name then c else x }

/-- recompute `liveSince` after truth changed -/
def refresh (st : St) : St :=
  { st with cs := st.cs.map fun c =>
      if live st.now c ∧ st.nodeUp ∧ c.stale.isNone then (match c.liveSince with | some _ => c | none => { c with liveSince := some st.now })
      else { c with liveSince := none } }

def applyOpOk (st : St) (op : List String) : St :=
  match op with
  | "world" :: rest => { st with minersHr := parseNat (kvGet rest "miners") * parseNat (kvGet rest "hr") }
  | "chain" :: c :: rest =>
    let ct : CT := { name := c, purchased := kvGet rest "state" = "1", startedAt := st.now - parseInt (kvGet rest "age"),
                     len := parseInt (kvGet rest "len"), host := hostOf (kvGet rest "payload"), hr := parseNat (kvGet rest "hr") }
    { st with cs := st.cs ++ [ct] }
  | ["startnode"] => refresh { st with nodeUp := true }
  | ["restart"] => refresh { st with nodeUp := true, cs := st.cs.map fun c => { c with liveSince := none } }
  | "purchased" :: c :: rest =>
    match st.cs.find? (·.name = c) with
    | some ct => refresh (upd st { ct with purchased := true, startedAt := st.now + parseInt (kvGet rest "ahead"),
                                           len := if kvGet rest "len" = "" then ct.len else parseInt (kvGet rest "len"),
                                           host := hostOf (kvGet rest "payload"),
                                           hr := if kvGet rest "hr" = "" then ct.hr else parseNat (kvGet rest "hr"), liveSince := none })
    | none => st
  | ["closed", c] =>
    match st.cs.find? (·.name = c) with
    | some ct =>
      let ct := match ct.future with
        | some (l, sp) => { ct with len := l, hr := sp, future := none }
        | none => ct
      refresh (upd st { ct with purchased := false, host := none })
    | none => st
  | "termsupdate" :: c :: rest =>
    match st.cs.find? (·.name = c) with
    | some ct =>
      let l := if kvGet rest "len" = "" then ct.len else parseInt (kvGet rest "len")
      let sp := if kvGet rest "hr" = "" then ct.hr else parseNat (kvGet rest "hr")
      if ct.purchased then upd st { ct with future := some (l, sp) } else upd st { ct with len := l, hr := sp }
    | none => st
  | "destupdate" :: c :: rest =>
    match st.cs.find? (·.name = c) with
    | some ct => refresh (upd st { ct with host := hostOf (kvGet rest "payload"), liveSince := none })
    | none => st
  | ["advance", s] => refresh { st with now := st.now + parseInt s }
  | _ => st

/-- the contract an event op is about -/
def subject : List String → Option String
  | "purchased" :: c :: _ => some c
  | ["closed", c] => some c
  | "destupdate" :: c :: _ => some c
  | "termsupdate" :: c :: _ => some c
  | _ => none

def applyOp (st : St) (op : List String) : St :=
  match op with
  | ["rpcfail", _] => { st with failNext := true }
  | _ =>
    let before := st
    let st1 := applyOpOk { st with failNext := false } op
    match subject op with
    | none =>
      -- a restart reads the chain again: nothing is stale any more
      (match op with
       | ["restart"] => { st1 with cs := st1.cs.map fun c => { c with stale := none } }
       | _ => st1)
    | some c =>
      if st.failNext then
        -- the chain moved, the node did not see it: it may go on as the chain stood before (and it is not held to engage)
        match before.cs.find? (·.name = c) with
        | some old => { st1 with cs := st1.cs.map fun x => if x.name = c then
            { x with stale := some (match old.stale with | some s => s | none => (old.purchased, old.startedAt, old.len, old.host)), liveSince := none } else x }
        | none => st1
      else
        -- a terms update makes the node read the new terms, not the destination: what it missed about the destination stays missed
        let rereadsAll : Bool := match op with | "termsupdate" :: _ => false | _ => true
        { st1 with cs := st1.cs.map fun x => if x.name == c && rereadsAll then { x with stale := none } else x }

def monObs (st : St) (op : List String) (outs : List (List String)) : St × List String :=
  let before := st
  let after := applyOp st op
  let minersL := (outs.find? (·.head? = some "miners")).getD []
  let nild := parseNat (((outs.find? (·.head? = some "nildest")).getD ["nildest", "0"])[1]?.getD "0")
  let placements : List (String × String) := (minersL.drop 1).filterMap fun t => match t.splitOn "=" with
    | [m, w] => some (m, w) | _ => none
  -- S1: a miner is on a contract's destination only while that contract is live (judged against the
  -- truth before or after the op: the op itself may be the change; expiry has one cycle of grace for
  -- the scheduler to hand the miner back)
  let okFor (s : St) (w : String) : Bool :=
    match w.splitOn "@" with
    | [c, h] => match s.cs.find? (·.name = c) with
      | some ct => (ct.purchased && ct.host == some h && decide (s.now ≤ ct.startedAt + ct.len + 1)) ||
          (match ct.stale with
           | some (p, t0, l, hh) => p && hh == some h && decide (s.now ≤ t0 + l + 1)
           | none => false)
      | none => false
    | _ => w == "defaultpool"
  let s1 := placements.filterMap fun (m, w) =>
    if okFor before w || okFor after w then none
    else some s!"PROP miner {m} is directed to {w} although no contract with that destination is purchased, unexpired and decryptable"
  -- S2
  let s2 := if nild = 0 then [] else [s!"PROP a miner was pointed at a nil destination {nild} time(s): the stratum proxy dereferences it"]
  -- work delivered to each contract's destination so far (`delivered c1=.. c2=..`): when it last grew
  let deliveredL := ((outs.find? (·.head? = some "delivered")).getD []).drop 1
  let progress : List (String × Int × Int) := deliveredL.filterMap fun t => match t.splitOn "=" with
    | [c, v] =>
      let d := parseInt v
      match before.progress.find? (fun (e : String × Int × Int) => e.1 = c) with
      | some e => some (c, d, if d > e.2.1 then after.now else e.2.2)
      | none => some (c, d, if d > 0 then after.now else 0)
    | _ => none
  let after := { after with progress := progress }
  let lastGrew (c : String) : Int := ((progress.find? (fun (e : String × Int × Int) => e.1 = c)).map (·.2.2)).getD 0
  -- S3: engaged after the start-up delay plus one cycle when hashrate is available: no miner is on the
  -- contract now and no work has reached its destination for that long (one observation between two
  -- jobs is not a gap)
  let s3 := after.cs.filterMap fun c => match c.liveSince with
    | some t0 =>
      let t := max t0 (lastGrew c.name)
      let others := (after.cs.filter fun x => x.name ≠ c.name ∧ x.liveSince.isSome).foldl (fun a x => a + x.hr) 0
      if after.now - t ≥ 80 ∧ after.now ≤ c.startedAt + c.len - 5 ∧ after.minersHr ≥ c.hr + others ∧
         !(placements.any fun (_, w) => w.startsWith (c.name ++ "@")) then
        some s!"PROP contract {c.name} has been purchased, unexpired and decryptable for {after.now - t} s with hashrate available and no miner is directed to it"
      else none
    | none => none
  -- S4: a contract that is being fulfilled is fulfilled under the terms of its purchase: the rate and length the
  -- watcher works with are the chain's for this purchase, whatever terms updates arrived meanwhile
  let s4 := outs.filterMap fun o => match o with
    | "ctr" :: c :: rest =>
      if kvGet rest "run" ≠ "1" ∨ kvGet rest "hr" = "" then none else
      let okT (s : St) : Bool := match s.cs.find? (·.name = c) with
        | some ct => !ct.purchased || (kvGet rest "hr" == toString ct.hr && kvGet rest "len" == toString ct.len)
        | none => true
      if okT before || okT after then none
      else some s!"PROP contract {c} is fulfilled at {kvGet rest "hr"} GH/s for {kvGet rest "len"} s: not the terms of its purchase on chain"
    | _ => none
  (after, s1.take 1 ++ s2 ++ s3 ++ s4.take 1)

/-- an op after which the harness prints no observation (`rpcfail`: it only arms the node's next refusal) changes the truth and
is judged with the observation of the op that follows -/
def mon (st : St) (op : List String) (outs : List (List String)) : St × List String :=
  if outs.isEmpty then (applyOp st op, []) else monObs st op outs

def monitor : Monitor := { σ := St, init := {}, step := mon }

end PRV.Driver.C08
