import PRV.Driver.Core
import PRV.Model.Secrets
namespace PRV.Driver.C18
open PRV.Driver PRV.Model.Secrets PRV.Gen.C18

structure St where
  cfg : List (String × String) := []

def cfgFn (l : List (String × String)) : Cfg := fun p => ((l.find? (·.1 = p)).map (·.2)).getD ""

def showErr : Option DecErr → String
  | none => "ok" | some .cannotDecrypt => "cannotdecrypt" | some .invalidUrl => "invalidurl"

def step (st : St) : List String → St × List String
  | ["cfgnew"] => ({ cfg := [] }, [])
  | ["cfgset", p, v] => ({ cfg := (p, v) :: st.cfg }, [])
  | ["sanitize"] =>
    let out := sanitize (cfgFn st.cfg)
    let ps := (fields.filter fun p => out p ≠ "").mergeSort (· ≤ ·)
    (st, ps.map (fun p => s!"{p} {out p}") ++ ["leak 0"])
  | ["fields"] => (st, [String.intercalate "," (fields.mergeSort (· ≤ ·))])
  | ["decrypt", _which, _kind, encEmpty, decOk, parseOk] =>
    -- the primitive's and url.Parse's verdicts are inputs; the glue is the model
    let r := decryptDest (Url := Unit) (if encEmpty = "1" then "" else "x")
      (fun _ => if decOk = "1" then some "p" else none) (fun _ => if parseOk = "1" then some () else none)
    (st, [s!"{if r.1.isSome then 0 else 1} {showErr r.2}"])
  | _ => (st, ["bad-op"])

def machine : Machine := { σ := St, init := {}, step := step }
end PRV.Driver.C18
