import PRV.Driver.Core
/-
Monitor for the lifecycle harness's random stream (tasks, faults, hang-ups, shutdown in any order):
clauses of C06 and C13 that can be read off the implementation's own trace.
-/
namespace PRV.Driver.LifeMon
open PRV.Driver

def kvGet (toks : List String) (k : String) : String :=
  ((toks.filterMap fun t => match t.splitOn "=" with
    | [a, v] => if a = k then some v else none
    | _ => none).head?).getD ""

structure St where
  maxCached : Nat := 2
  idleMs : Nat := 600000
  dials : List (String × Nat) := []       -- per pool
  budget : List (String × Nat) := []      -- per pool: 1 + faults of that pool + tasks to that pool
  tasks : List String := []               -- added, not yet ended
  exited : Bool := false
  sinceTraffic : Nat := 0                 -- ms since the last op that was not an advance
  sinceMiner : Nat := 0                   -- ms since the miner last sent something
  hadTask : Bool := false                 -- a contract task was added (connections then come and go with the tasks)
  switching : Bool := false               -- a connection was dialled for a change of destination that has not been announced to the miner yet

def bump (l : List (String × Nat)) (p : String) (n : Nat := 1) : List (String × Nat) :=
  match l.find? (·.1 = p) with
  | some (_, k) => (l.filter (·.1 ≠ p)) ++ [(p, k + n)]
  | none => l ++ [(p, n)]

def get (l : List (String × Nat)) (p : String) : Nat := ((l.find? (·.1 = p)).map (·.2)).getD 0

def mon (st : St) (op : List String) (outs : List (List String)) : St × List String :=
  match op with
  | "cfg" :: rest => ({ st with maxCached := parseNat (kvGet rest "maxcached"), idleMs := parseNat (kvGet rest "idle") }, [])
  | "pool" :: name :: _ => ({ st with budget := bump st.budget name 1 }, [])
  | _ =>
    let stateL := (outs.find? (·.head? = some "state")).getD []
    if stateL.isEmpty then (st, []) else
    let liveTxt := kvGet stateL "live"
    let live := if liveTxt = "-" then [] else liveTxt.splitOn ","
    let runs := parseNat (kvGet stateL "runs")
    let pipes := parseNat (kvGet stateL "pipes")
    let sched := kvGet stateL "sched"
    let listed := kvGet stateL "listed"
    -- bookkeeping
    let st1 : St := match op with
      | ["task", id, pool, _] => { st with tasks := st.tasks ++ [id], budget := bump st.budget pool 1, hadTask := true }
      -- a task whose change of destination loses the miner (it hangs up on the first line of the re-send)
      | ["taskx", id, pool, _] => { st with tasks := st.tasks ++ [id], budget := bump st.budget pool 1, hadTask := true }
      | "poolclose" :: pool :: _ => { st with budget := bump st.budget pool 1 }
      | _ => st
    let newDials := outs.filterMap fun o => match o with
      | ["factory", "dial", p, "->", _] => some p | _ => none
    let st2 := { st1 with dials := newDials.foldl (fun d p => bump d p 1) st1.dials }
    let ended := outs.filterMap fun o => match o with
      | "session" :: "task" :: id :: _ => some id | _ => none
    let st3 := { st2 with tasks := st2.tasks.filter fun t => !ended.contains t }
    let nowExited := sched.startsWith "exited"
    let st4 := { st3 with exited := nowExited,
                          sinceTraffic := (match op with | ["advance", ms] => st3.sinceTraffic + parseNat ms | _ => 0),
                          sinceMiner := (match op with
                            | ["advance", ms] => st3.sinceMiner + parseNat ms + 1
                            | "msubmit" :: _ => 0
                            | ["start"] => 0
                            | "startfail" :: _ => 0
                            | "startbad" :: _ => 0
                            | _ => st3.sinceMiner + 1) }
    let failed := outs.any (fun o => o.take 2 = ["factory", "dial"] && o.getLast? == some "refused")
    -- clauses
    let relayL := (outs.find? (·.head? = some "relay")).getD []
    let s2d := parseNat (kvGet relayL "s2d")
    let d2s := parseNat (kvGet relayL "d2s")
    let c1 := (if runs ≤ 1 ∧ pipes ≤ 1 then [] else [s!"C13 more than one relay loop: {runs} Proxy.Run and {pipes} Pipe.Run goroutines"]) ++
      (if s2d ≤ 1 ∧ d2s ≤ 1 then [] else [s!"C13 more than one relay loop: {s2d} goroutines read the miner's connection, {d2s} relay from a pool"])
    -- "plus one being established during a switch": a change of destination is in progress from the dial until the
    -- miner has been given the new destination's job (clean notify) — it may wait for a pool answer in between
    let announced := outs.any fun o => match o with
      | "tominer" :: "notify" :: r => r.any (· == "clean=true") | _ => false
    let anyClosed := outs.any fun o => match o with | ["topool", _, "closed"] => true | _ => false
    let switchingNow : Bool := (!newDials.isEmpty && !announced) || (st.switching && !announced && !anyClosed && newDials.isEmpty)
    let c2 := if live.length ≤ st.maxCached + (if switchingNow then 1 else 0) then [] else
      [s!"C13 the session holds {live.length} pool connections ({liveTxt}), the configured maximum is {st.maxCached}"]
    let c3 := if nowExited ∧ (live ≠ [] ∨ runs ≠ 0 ∨ pipes ≠ 0 ∨ listed ≠ "0") then
      [s!"C13 the session has ended but live={liveTxt} runs={runs} pipes={pipes} listed={listed}"] else []
    let c4 := if nowExited ∧ !st.exited ∧ !st3.tasks.isEmpty then
      [s!"C13 the session has ended and the queued tasks {st3.tasks} were not told"] else []
    -- the reconnect storm: a connection is opened and closed again by the proxy in one step although
    -- nothing failed and the session goes on
    let dialled := outs.filterMap fun o => match o with
      | ["factory", "dial", _, "->", pc] => some pc | _ => none
    let closedNow := outs.filterMap fun o => match o with | ["topool", pc, "closed"] => some pc | _ => none
    let churn := dialled.filter fun pc => closedNow.contains pc
    let failed := outs.any (fun o => o.take 2 = ["factory", "dial"] && o.getLast? == some "refused")
    let isPoolClose : Bool := match op with | "poolclose" :: _ => true | _ => false
    let c5 := if churn.isEmpty || nowExited || failed || isPoolClose || st1.hadTask then [] else
      [s!"C06 replacement connections keep being opened: {churn} was connected and closed again at once although the session goes on"]
    let c6 := match op with
      | "task" :: _ => if failed ∧ nowExited ∧ !st.exited then
          ["C06 after a failed change of destination the miner was not kept on its pool: the session ended"] else []
      | _ => []
    -- a pool connection closed by the proxy needs a reason
    let closes := outs.filterMap fun o => match o with | ["topool", pc, "closed"] => some pc | _ => none
    let switched := outs.any fun o => match o with
      | "tominer" :: "notify" :: r => r.any (· == "clean=true") | _ => false
    let explained : Bool := match op with
      | "poolclose" :: _ => true
      | ["minerclose"] => true
      | "taskx" :: _ => true
      | ["shutdown"] => true
      | _ => nowExited || switched || failed ||
             decide (st4.sinceTraffic + 1000 ≥ st.idleMs) || decide (st4.sinceMiner + 1000 ≥ st.idleMs) || !newDials.isEmpty
    let c7 := if closes.isEmpty || explained || st1.hadTask then [] else
      [s!"C06 the proxy closed the healthy pool connection {closes} without a failure, a switch, idleness or the end of the session"]
    let c8 := match op with
      | "startfail" :: _ => if nowExited ∧ live = [] ∧ listed = "0" then [] else
          [s!"C06 a pool failure during the first handshake left the miner hanging: live={liveTxt} sched={sched} listed={listed}"]
      | "startbad" :: _ => if nowExited ∧ live = [] ∧ listed = "0" then [] else
          [s!"C13 a peer that is no stratum miner was not released: live={liveTxt} sched={sched} listed={listed}"]
      | _ => []
    let c9 := if !nowExited ∧ st4.sinceMiner > st.idleMs + 2000 then
      [s!"C13 the miner sent nothing for {st4.sinceMiner} ms and its connection was not closed (configured idle time {st.idleMs} ms)"] else []
    -- the tasks are told only once the miner no longer counts as connected (the contract asks for a replacement from
    -- inside the notification: it must not be given the dying session)
    let c10 := (outs.filterMap fun o => match o with
      | ["session", "task", id, "told-while-the-miner-still-counts-as-connected"] =>
        some s!"C13 task {id} was told that the miner disconnected while the miner still counted as connected and not disconnecting: a replacement can be handed to the ending session and is never told"
      | _ => none).take 1
    ({ st4 with switching := switchingNow && !nowExited }, c1 ++ c2 ++ c3 ++ c4 ++ c5 ++ c6 ++ c7 ++ c8 ++ c9 ++ c10)

def monitor : Monitor := { σ := St, init := {}, step := mon }

/-! ### real-time histories: a destination change still under way when the reconnect wait of the failed pool ends -/

/-- the active pool (pa) broke; during the reconnect wait a task towards pb was queued and its destination change took its
time.  Once everything has settled: the task is in service ⇒ the miner is relayed with pb, in both directions, and with
nobody else, by exactly one connection to pb, and the broken pool was not dialled again on top of it; the task ended ⇒ the
miner is back with its default pool through exactly one replacement; or the session was released. -/
def monRT (_ : Unit) (op : List String) (outs : List (List String)) : Unit × List String :=
  match op with
  | "rt" :: _ =>
    let line (k : String) : List String := ((outs.find? (·.head? = some k)).getD []).drop 1
    let dials := line "dials"; let relay := line "relay"
    let task := (line "task").headD "?"; let sched := (line "sched").headD "?"
    let n (l : List String) (k : String) : Nat := (kvGet l k).toNat?.getD 0
    let what := s!"dials pa={n dials "pa"} pb={n dials "pb"}, pb→miner={n relay "pb-to-miner"} pa→miner={n relay "pa-to-miner"} miner→pb={n relay "miner-to-pb"} miner→pa={n relay "miner-to-pa"}"
    if sched ≠ "running" then ((), []) else
    if task = "serving" then
      if n relay "pb-to-miner" = 1 ∧ n relay "miner-to-pb" = 1 ∧ n relay "pa-to-miner" = 0 ∧ n relay "miner-to-pa" = 0 ∧
         n dials "pb" = 1 ∧ n dials "pa" = 1 then ((), [])
      else ((), [s!"C06 a destination change was under way when the reconnect wait of the failed pool ended; the task is in service and the miner is not relayed with the task's pool by one connection: {what}"])
    else
      if n relay "pa-to-miner" = 1 ∧ n relay "pb-to-miner" = 0 ∧ n dials "pa" ≤ 2 then ((), [])
      else ((), [s!"C06 the destination change failed ({task}) and the miner is not served by its default pool through one replacement: {what}"])
  | _ => ((), [])

def monitorRT : Monitor := { σ := Unit, init := (), step := monRT }

end PRV.Driver.LifeMon
