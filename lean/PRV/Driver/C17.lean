import PRV.Driver.Core
import PRV.Model.Cred
import PRV.Base.Hex
namespace PRV.Driver.C17
open PRV.Driver PRV.Model.Cred PRV.Base

def dec (s : String) : Str := if s = "-" then [] else hexDecode s
def enc (s : Str) : String := if s.isEmpty then "-" else hexEncode s

/-- url tokens: hasUser user hasPwd pwd host rest -/
def parseUrl : List String → Option (Url × List String)
  | hu :: u :: hp :: p :: h :: r :: more =>
    let ui : Option UserInfo := if hu = "1" then some { username := dec u, password := if hp = "1" then some (dec p) else none } else none
    some ({ user := ui, host := dec h, rest := dec r }, more)
  | _ => none

def showUrl (u : Url) : String :=
  match u.user with
  | none => s!"0 - 0 - {enc u.host} {enc u.rest}"
  | some i => match i.password with
    | none => s!"1 {enc i.username} 0 - {enc u.host} {enc u.rest}"
    | some p => s!"1 {enc i.username} 1 {enc p} {enc u.host} {enc u.rest}"

def step (st : Unit) : List String → Unit × List String
  | "copy" :: rest => match parseUrl rest with
    | some (u, _) => (st, [showUrl (copyURL u)]) | none => (st, ["bad-op"])
  | "setuser" :: rest => match parseUrl rest with
    | some (u, [n]) => (st, [showUrl (setUserName u (dec n))]) | _ => (st, ["bad-op"])
  | "setworker" :: rest => match parseUrl rest with
    | some (u, [n]) => (st, [showUrl (setWorkerName u (dec n))]) | _ => (st, ["bad-op"])
  | ["cut", s] => let r := cutDot (dec s); (st, [s!"{enc r.1} {enc r.2.1} {if r.2.2 then 1 else 0}"])
  | "destname" :: np :: inc :: rest => match parseUrl rest with
    | some (u, _) => (st, [enc (getDestUserName (np = "1") (dec inc) u)]) | none => (st, ["bad-op"])
  | "should" :: np :: inc :: rest => match parseUrl rest with
    | some (u, _) => (st, [if shouldPropagate (np = "1") (dec inc) u then "1" else "0"]) | none => (st, ["bad-op"])
  | ["ishex", s] => (st, [if isHexAddress (dec s) then "1" else "0"])
  | "adjusted" :: rest => match parseUrl rest with
    | some (u, [id]) => (st, [showUrl (adjustedDest u (dec id))]) | _ => (st, ["bad-op"])
  | "authorize" :: np :: inc :: rest => match parseUrl rest with
    | some (u, _) => let r := authorize (np = "1") (dec inc) u; (st, [s!"{enc r.1} {enc r.2.1}"]) | none => (st, ["bad-op"])
  | _ => (st, ["bad-op"])

def machine : Machine := { σ := Unit, init := (), step := step }
end PRV.Driver.C17
