import PRV.Driver.Core
import PRV.Model.Seller
/-
Model driver for the controller part of the seller world: predicts the `ctr` lines (state, run,
dest, err) of harness/contract/verif_seller_test.go; the `miners` and `nildest` lines are not
predicted (they are judged by the monitor).
-/
namespace PRV.Driver.C08m
open PRV.Driver PRV.Model.Seller

def kvGet (toks : List String) (k : String) : String :=
  ((toks.filterMap fun t => match t.splitOn "=" with
    | [a, v] => if a = k then some v else none
    | _ => none).head?).getD ""

def payloadOf (k : String) : Payload :=
  if k.startsWith "v:" then .valid (String.ofList (k.toList.drop 2))
  else if k = "empty" ∨ k = "" then .empty else .bad

structure St where
  now : Int := 0
  chain : List (String × Chain) := []
  future : List (String × Int × Int) := []   -- terms waiting for the close of a running contract: (len, speed)
  failNext : Bool := false                   -- the node refuses the next eth_call
  ctl : List (String × Ctl) := []
  up : Bool := false

def line (n : String) (c : Ctl) : String :=
  let r := c.run.isSome
  s!"ctr {n} state={if r then "running" else "pending"} run={if r then 1 else 0} dest={match c.terms.dest with | some h => h | none => "-"} err={if c.err then 1 else 0} hr={c.terms.speed} len={c.terms.len}"

/-- an event at the very second a running watcher's contract ends: which of the two comes first is not
determined -/
def boundary (st : St) : Bool :=
  st.ctl.any fun (_, c) => match c.run with
    | some since => decide (exitAt c.terms since = st.now)
    | none => c.terms.purchased && decide (c.terms.startedAt + c.terms.len = st.now)

def lines (st : St) : List String :=
  (if boundary st then ["AMBIGUOUS"] else []) ++ st.ctl.map fun (n, c) => line n c

def getCh (st : St) (n : String) : Chain := ((st.chain.find? (·.1 = n)).map (·.2)).getD {}
def setCh (st : St) (n : String) (c : Chain) : St := { st with chain := st.chain.map fun x => if x.1 = n then (n, c) else x }
def updCtl (st : St) (n : String) (f : Ctl → Ctl) : St := { st with ctl := st.ctl.map fun x => if x.1 = n then (n, f x.2) else x }
def settleAll (st : St) : St := { st with ctl := st.ctl.map fun (n, c) => (n, settle c st.now) }

def stepOk (st : St) (op : List String) : St × List String :=
  match op with
  | "world" :: _ => (st, [])
  | "chain" :: n :: rest =>
    let c : Chain := { purchased := kvGet rest "state" = "1", startedAt := st.now - parseInt (kvGet rest "age"),
                       len := parseInt (kvGet rest "len"), speed := parseInt (kvGet rest "hr"), payload := if kvGet rest "state" = "1" then payloadOf (kvGet rest "payload") else .empty }
    ({ st with chain := st.chain ++ [(n, c)] }, [])
  | ["startnode"] =>
    let st' := { st with up := true, ctl := st.chain.map fun (n, ch) => (n, boot ch st.now) }
    (st', lines st')
  | ["restart"] =>
    let st' := { st with up := true, ctl := st.chain.map fun (n, ch) => (n, boot ch st.now) }
    (st', lines st')
  | "purchased" :: n :: rest =>
    let old := getCh st n
    let ch : Chain := { purchased := true, startedAt := st.now + parseInt (kvGet rest "ahead"), len := if kvGet rest "len" = "" then old.len else parseInt (kvGet rest "len"),
                        speed := if kvGet rest "hr" = "" then old.speed else parseInt (kvGet rest "hr"), payload := payloadOf (kvGet rest "payload") }
    let st1 := settleAll (setCh st n ch)
    let st2 := updCtl st1 n fun c => onPurchased c ch st.now
    (st2, lines st2)
  | ["closed", n] =>
    let ch0 : Chain := { (getCh st n) with purchased := false, payload := .empty }
    let ch : Chain := match st.future.find? (·.1 = n) with
      | some (_, l, sp) => { ch0 with len := l, speed := sp }
      | none => ch0
    let st := { st with future := st.future.filter (·.1 ≠ n) }
    let st1 := settleAll (setCh st n ch)
    let st2 := updCtl st1 n fun c => onClosed c ch
    (st2, lines st2)
  | "destupdate" :: n :: rest =>
    let ch : Chain := { (getCh st n) with payload := payloadOf (kvGet rest "payload") }
    let st1 := settleAll (setCh st n ch)
    let st2 := updCtl st1 n fun c => onDestUpdated c ch st.now
    (st2, lines st2)
  | "termsupdate" :: n :: rest =>
    let old := getCh st n
    let l := if kvGet rest "len" = "" then old.len else parseInt (kvGet rest "len")
    let sp := if kvGet rest "hr" = "" then old.speed else parseInt (kvGet rest "hr")
    let st0 := if old.purchased then { st with future := (st.future.filter (·.1 ≠ n)) ++ [(n, l, sp)] }
               else setCh st n { old with len := l, speed := sp }
    let st1 := settleAll st0
    let st2 := updCtl st1 n fun c => onTermsUpdated c (getCh st1 n)
    (st2, lines st2)
  | ["otherevent", _] =>
    -- an event without a handler changes nothing
    let st1 := settleAll st
    (st1, lines st1)
  | ["advance", s] =>
    let st1 := settleAll { st with now := st.now + parseInt s }
    (st1, lines st1)
  | _ => (st, ["bad-op"])

/-- the chain changes as the op says; the handler of its event cannot read it -/
def stepNoRpc (st : St) (op : List String) : St × List String :=
  -- the chain table moves exactly as in `stepOk` (discarding what the handler did), then the blind handler runs
  let chainAfter := (stepOk st op).1
  let st0 : St := { st with chain := chainAfter.chain, future := chainAfter.future, failNext := false }
  let st1 := settleAll st0
  match op with
  | "purchased" :: n :: _ => let st2 := updCtl st1 n onPurchasedNoRpc; (st2, lines st2)
  | ["closed", n] => let st2 := updCtl st1 n onClosedNoRpc; (st2, lines st2)
  | "destupdate" :: n :: _ => let st2 := updCtl st1 n onDestUpdatedNoRpc; (st2, lines st2)
  | "termsupdate" :: n :: _ => let st2 := updCtl st1 n onTermsUpdatedNoRpc; (st2, lines st2)
  | _ => stepOk { st with failNext := false } op

def step (st : St) (op : List String) : St × List String :=
  match op with
  | ["rpcfail", _] => ({ st with failNext := true }, [])
  | _ => if st.failNext then stepNoRpc st op else stepOk st op

def machine : Machine := { σ := St, init := {}, step := step }
end PRV.Driver.C08m
