import PRV.Driver.Core
import PRV.Model.Alloc
namespace PRV.Driver.C11
open PRV.Driver PRV.Model.Alloc PRV.Gen.C11 PRV.Gen.C20

structure St where
  pop : List Miner := []

def absR (a : Rat) : Rat := if a ≥ 0 then a else -a
def near (a b : Rat) : Bool := decide (absR (a - b) ≤ absR a / 1000000000 + 1 / 1000000)

def parseTasks (s : String) : List Rat :=
  if s = "-" then [] else (s.splitOn ",").filterMap (fun t => t.toInt?.map (fun (i : Int) => (i : Rat)))

def sumR (l : List Rat) : Rat := l.foldl (· + ·) 0

def findMiner (pop : List Miner) (id : String) : Option Miner := pop.find? (·.id = id)

/-- implementation allocations from "alloc <id> <job> <contract>" lines -/
def implAllocs (outs : List (List String)) : List (String × Rat) :=
  outs.filterMap fun l => match l with
    | ["alloc", id, job, _] => (parseRat job).map (fun j => (id, j))
    | _ => none

def implRem (outs : List (List String)) : Option Rat :=
  (outs.filterMap fun l => match l with | ["rem", x] => parseRat x | _ => none).head?

def implIds (outs : List (List String)) : List String :=
  match (outs.filterMap fun l => match l with | ["ids", x] => some x | _ => none).head? with
  | some "-" => []
  | some s => s.splitOn ","
  | none => []

def sortAllocs (a : List (String × Rat)) : List (String × Rat) := a.mergeSort (fun x y => x.1 ≤ y.1)

def sameAllocs (a b : List (String × Rat)) : Bool :=
  let a := sortAllocs a; let b := sortAllocs b
  a.length == b.length && (a.zip b).all (fun (x, y) => x.1 == y.1 && near x.2 y.2)

def showAllocs (a : List (String × Rat)) : String :=
  String.intercalate "," ((sortAllocs a).map fun (i, j) => s!"{i}={showRat j}")

def applyAllocs (pop : List Miner) (a : List (String × Rat)) : List Miner :=
  pop.map fun m => match a.find? (·.1 = m.id) with
    | some (_, j) => { m with tasks := m.tasks + 1, scheduled := m.scheduled + (ratTrunc j : Rat) }
    | none => m

def dupIds (l : List String) : Bool := l.eraseDups.length != l.length

def monFull (st : St) (req dur : String) (outs : List (List String)) : St × List String :=
    let req : Rat := (parseInt req : Rat); let dur := parseInt dur
    let impl := implAllocs outs
    let ids := implIds outs
    let model := allocateFull st.pop req
    let modelJobs := model.1.map fun (i, r) => (i, ghsToJobSubmittedV2 r dur)
    let corr := (if sameAllocs impl modelJobs then [] else [s!"CORR full allocations model {showAllocs modelJobs} impl {showAllocs impl}"]) ++
      (match implRem outs with
       | some r => if near model.2 r then [] else [s!"CORR full remainder model {showRat model.2} impl {showRat r}"]
       | none => ["PROP remainder is not a finite number"]) ++
      (if ids = model.1.map (·.1) then [] else [s!"CORR full order model {model.1.map (·.1)} impl {ids}"])
    -- the property, judged on the implementation's own output
    let rates := ids.filterMap fun i => (findMiner st.pop i).map (·.hr)
    let inel := ids.filter fun i => match findMiner st.pop i with
      | some m => m.vetting || m.disconnecting || m.tasks != 0
      | none => true
    let fits := (ids.foldl (fun (acc : Rat × Bool) i => match findMiner st.pop i with
      | some m => (acc.1 - m.hr, acc.2 && decide (m.hr ≤ acc.1))
      | none => acc) (req, true)).2
    let prop := (if inel.isEmpty then [] else [s!"PROP whole-miner task given to an ineligible miner {inel}"]) ++
      (if req ≥ 0 ∧ sumR rates > req then [s!"PROP whole-miner allocation exceeds the request: {showRat (sumR rates)} > {showRat req}"] else []) ++
      (if fits then [] else ["PROP a chosen miner's rate did not fit into what was still missing"]) ++
      (if dupIds (impl.map (·.1)) then ["PROP a miner received more than one task in one call"] else []) ++
      (if (impl.map (·.1)).mergeSort (· ≤ ·) = ids.mergeSort (· ≤ ·) then [] else ["PROP returned miner ids differ from the miners that received tasks"]) ++
      (match implRem outs with
       | some r => if near (req - sumR rates) r then [] else [s!"PROP remainder {showRat r} is not request minus handed-out rates {showRat (req - sumR rates)}"]
       | none => [])
    ({ st with pop := applyAllocs st.pop impl }, prop ++ corr)

def mon (st : St) (op : List String) (outs : List (List String)) : St × List String :=
  match op with
  | ["miner", id, hr, vet, disc, tasks] =>
    let ts := parseTasks tasks
    ({ st with pop := st.pop ++ [{ id := id, hr := (parseInt hr : Rat), vetting := vet = "1", disconnecting := disc = "1",
                                   tasks := ts.length, scheduled := sumR ts }] }, [])
  | ["full", req, dur] => monFull st req dur outs
  | ["partial", need, rem] =>
    let need : Rat := (parseInt need : Rat); let rem := parseInt rem
    let impl := implAllocs outs
    let model := allocatePartial st.pop need rem
    let corr := (if sameAllocs impl model.1 then [] else [s!"CORR partial allocations model {showAllocs model.1} impl {showAllocs impl}"]) ++
      (match implRem outs with
       | some r => if near model.2 r then [] else [s!"CORR partial remainder model {showRat model.2} impl {showRat r}"]
       | none => ["PROP remainder is not a finite number"])
    let bad := impl.filterMap fun (i, j) => match findMiner st.pop i with
      | none => some s!"task for unknown miner {i}"
      | some m =>
        if m.vetting || m.disconnecting then some s!"task given to an ineligible miner {i}"
        else if j < allocationMinJob then some s!"task {showRat j} for {i} is smaller than the minimum chunk"
        else if j > (expectedJob m rem - m.scheduled) * (1 + 1 / 1000000000) + 1 / 1000000 then
          some s!"task {showRat j} for {i} exceeds what it can do in the remaining time on top of its load ({showRat (expectedJob m rem - m.scheduled)})"
        else none
    let tot := sumR (impl.map (·.2))
    let prop := bad.map ("PROP " ++ ·) ++
      (if tot > need * (1 + 1 / 1000000000) + 1 / 1000000 ∧ need ≥ 0 then [s!"PROP partial allocation {showRat tot} exceeds the requested work {showRat need}"] else []) ++
      (if dupIds (impl.map (·.1)) then ["PROP a miner received more than one task in one call"] else [])
    ({ st with pop := applyAllocs st.pop impl }, prop ++ corr)
  | ["gone", id] =>
    -- the miner's session is over (it is still listed until the TCP handler removes it): it is disconnecting from now on; the tasks
    -- it held were ended
    ({ st with pop := st.pop.map fun m => if m.id = id then { m with disconnecting := true, tasks := 0, scheduled := 0 } else m }, [])
  | ["fullr", req, dur, victim, newhr] =>
    -- a miner's measured rate moves between the allocator's snapshot and the hand-out: the call is judged as a `full` call on
    -- the snapshot (what fits, what is accounted, how much work each task carries); later calls see the new rate
    let r := monFull st req dur outs
    let fired := outs.any (· == ["fired", "1"])
    let reqR : Rat := (parseInt req : Rat)
    let handed := sumR ((implAllocs outs).map (·.2))
    let cap := ghsToJobSubmittedV2 reqR (parseInt dur)
    let over := if reqR ≥ 0 ∧ handed > cap * (1 + 1 / 1000000000) + 1 then
      [s!"PROP the work handed out ({showRat handed}) is more than the requested hashrate amounts to over the duration ({showRat cap})"] else []
    ({ r.1 with pop := r.1.pop.map fun m => if m.id = victim ∧ fired then { m with hr := (parseInt newhr : Rat) } else m }, over ++ r.2)
  | [kind, _, _, victim] =>
    -- a miner that starts disconnecting while tasks are being handed out (after the first hand-out)
    -- must not receive one afterwards.  Judged by the monitor only.
    if kind = "fullx" ∨ kind = "partialx" then
      let impl := implAllocs outs
      let fired := outs.any (· == ["fired", "1"])
      let late := if kind = "fullx" then (implIds outs).tail else
        -- partial: the order of hand-out is not observable; the victim is "late" unless it is the only one
        (if impl.length ≤ 1 then [] else impl.map (·.1))
      let wasDisc := match findMiner st.pop victim with | some m => m.disconnecting | none => true
      let viol := fired && !wasDisc && (if kind = "fullx" then late.contains victim else
        -- for partial calls only flag when the victim is certainly not the first: it is not the
        -- first of the model's hand-out order
        (late.contains victim && (allocatePartial st.pop ((op.getD 1 "0").toInt?.getD 0 : Int) (parseInt (op.getD 2 "0"))).1.head?.map (·.1) != some victim))
      let pop' := (applyAllocs st.pop impl).map fun m => if m.id = victim ∧ fired then { m with disconnecting := true } else m
      -- the whole-miner call reports as remainder exactly the request minus the rates it handed out — also when a miner of
      -- its snapshot turned out to be gone
      let remC : List String := if kind ≠ "fullx" then [] else
        match implRem outs with
        | some rem =>
          let req : Rat := (parseInt (op.getD 1 "0") : Rat)
          let given := sumR ((implIds outs).filterMap fun i => (findMiner st.pop i).map (·.hr))
          if near rem (req - given) then [] else
            [s!"PROP the whole-miner call reports a remainder of {showRat rem}; the request {showRat req} minus the rates it handed out ({showRat given}) is {showRat (req - given)}"]
        | none => []
      ({ st with pop := pop' }, (if viol then [s!"PROP a task was handed to miner {victim} after it started disconnecting"] else []) ++ remC)
    else (st, [])
  | _ => (st, [])

def monitor : Monitor := { σ := St, init := {}, step := mon }

end PRV.Driver.C11
