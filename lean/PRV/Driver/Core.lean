/-
Line-protocol driver core.  Input lines:
  "# case ..."  reset the machine, echoed
  "> op ..."    an operation: echoed, then one "< out" line per model output
  anything else ("< ..." lines of the implementation transcript, notes) is dropped,
so that feeding the implementation's transcript yields the model's transcript of the same ops.
-/
namespace PRV.Driver

structure Machine where
  σ : Type
  init : σ
  step : σ → List String → σ × List String

def tokens (line : String) : List String :=
  (line.splitOn " ").filter (· ≠ "")

def untok (s : String) : String := if s = "-" then "" else s

partial def loop (m : Machine) (inp : IO.FS.Stream) (out : IO.FS.Stream) (s : m.σ) : IO Unit := do
  let line ← inp.getLine
  if line.isEmpty then return ()
  let line := String.ofList (line.toList.reverse.dropWhile (fun c => c = '\n' || c = '\r')).reverse
  if line.startsWith "# case" then
    out.putStrLn line
    loop m inp out m.init
  else if line.startsWith "> " then
    out.putStrLn line
    let (s', outs) := m.step s (tokens (String.ofList (line.toList.drop 2)))
    for o in outs do out.putStrLn ("< " ++ o)
    loop m inp out s'
  else
    loop m inp out s

def run (m : Machine) : IO Unit := do
  let inp ← IO.getStdin
  let out ← IO.getStdout
  loop m inp out m.init
  out.flush

def parseInt (s : String) : Int := s.toInt?.getD 0
def parseNat (s : String) : Nat := s.toNat?.getD 0

end PRV.Driver
