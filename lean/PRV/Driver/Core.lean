/-
Line-protocol driver core.  Input lines:
  "# case ..."  reset the machine, echoed
  "> op ..."    an operation: echoed, then one "< out" line per model output
  anything else ("< ..." lines of the implementation transcript, notes) is dropped,
so that feeding the implementation's transcript yields the model's transcript of the same ops.
-/
namespace PRV.Driver

structure Machine where
  σ : Type
  init : σ
  step : σ → List String → σ × List String

def tokens (line : String) : List String :=
  (line.splitOn " ").filter (· ≠ "")

def untok (s : String) : String := if s = "-" then "" else s

partial def loop (m : Machine) (inp : IO.FS.Stream) (out : IO.FS.Stream) (s : m.σ) : IO Unit := do
  let line ← inp.getLine
  if line.isEmpty then return ()
  let line := String.ofList (line.toList.reverse.dropWhile (fun c => c = '\n' || c = '\r')).reverse
  if line.startsWith "# case" then
    out.putStrLn line
    loop m inp out m.init
  else if line.startsWith "> " then
    out.putStrLn line
    let (s', outs) := m.step s (tokens (String.ofList (line.toList.drop 2)))
    for o in outs do out.putStrLn ("< " ++ o)
    loop m inp out s'
  else
    loop m inp out s

def run (m : Machine) : IO Unit := do
  let inp ← IO.getStdin
  let out ← IO.getStdout
  loop m inp out m.init
  out.flush

def parseInt (s : String) : Int := s.toInt?.getD 0
def parseNat (s : String) : Nat := s.toNat?.getD 0

end PRV.Driver

namespace PRV.Driver

/-- A monitor sees each operation *together with* what the implementation answered and returns
complaints (empty = fine).  Used where the specification is a relation (bounds, clauses) or where
the comparison with the model needs arithmetic (exact rationals vs float64). -/
structure Monitor where
  σ : Type
  init : σ
  step : σ → List String → List (List String) → σ × List String

partial def monLoop (m : Monitor) (inp out : IO.FS.Stream) (s : m.σ)
    (pending : Option (String × List (List String))) : IO Unit := do
  let flush (s : m.σ) : IO m.σ := do
    match pending with
    | none => return s
    | some (op, outs) =>
      let (s', cs) := m.step s (tokens op) outs.reverse
      for c in cs do out.putStrLn ("! " ++ c ++ " @ " ++ op)
      return s'
  let line ← inp.getLine
  if line.isEmpty then
    let _ ← flush s
    return ()
  let line := String.ofList (line.toList.reverse.dropWhile (fun c => c = '\n' || c = '\r')).reverse
  if line.startsWith "# case" then
    let _ ← flush s
    out.putStrLn line
    monLoop m inp out m.init none
  else if line.startsWith "> " then
    let s' ← flush s
    monLoop m inp out s' (some (String.ofList (line.toList.drop 2), []))
  else if line.startsWith "< " then
    match pending with
    | some (op, outs) =>
      monLoop m inp out s (some (op, tokens (String.ofList (line.toList.drop 2)) :: outs))
    | none => monLoop m inp out s none
  else
    monLoop m inp out s pending

def runMonitor (m : Monitor) : IO Unit := do
  let inp ← IO.getStdin
  let out ← IO.getStdout
  monLoop m inp out m.init none
  out.flush

/-- "num/den" or "num" -/
def parseRat (s : String) : Option Rat :=
  match s.splitOn "/" with
  | [n] => n.toInt?.map (fun x => (x : Rat))
  | [n, d] => match n.toInt?, d.toNat? with
      | some x, some y => if y = 0 then none else some ((x : Rat) / (y : Rat))
      | _, _ => none
  | _ => none

def showRat (r : Rat) : String := if r.den = 1 then toString r.num else s!"{r.num}/{r.den}"

end PRV.Driver
