import PRV.Driver.Core
import PRV.Model.Validator
import PRV.Model.Share
import PRV.Gen.C19
namespace PRV.Driver.C19
open PRV.Driver PRV.Model PRV.Spec.C19 PRV.Base

structure St where
  v   : Validator := Validator.new PRV.Gen.C19.jobCacheSize 0
  s   : State := { window := 30, timeout := 0 }
  b   : BSM Nat := BSM.empty 1

def showVerdict : Verdict → String
  | .notFound => "notfound" | .duplicate => "dup" | .checked n => s!"checked {n}"

def shareKey (en2 nt no vm : String) : List Nat :=
  serializeShare (hexDecode en2) (hexDecode nt) (hexDecode no)
    (hexDecode (if vm = "-" then "00000000" else vm))

def showOptNat : Option Nat → String | none => "none" | some n => toString n

/-- `useSpec = false`: the model of the code; `true`: the unbounded-log specification. -/
def step (useSpec : Bool) (st : St) : List String → St × List String
  | ["new", t] =>
    ({ st with v := Validator.new PRV.Gen.C19.jobCacheSize (parseInt t),
               s := { window := 30, timeout := parseInt t } }, [])
  | ["notify", id, c, now, _, _] =>
    if useSpec then ({ st with s := notify st.s id (c = "1") (parseInt now) }, [])
    else ({ st with v := st.v.addNewJob id (c = "1") (parseInt now) }, [])
  | ["submit", id, en2, nt, no, vm, now] =>
    let sh := shareKey en2 nt no vm
    if useSpec then
      let r := submit st.s id sh (parseInt now); ({ st with s := r.1 }, [showVerdict r.2])
    else
      let r := st.v.validateAndAddShare id sh (parseInt now); ({ st with v := r.1 }, [showVerdict r.2])
  | ["hasjob", id] =>
    if useSpec then (st, [toString (findLatest id (lastN st.s.window st.s.log)).isSome])
    else (st, [toString (st.v.hasJob id)])
  | ["latest"] =>
    if useSpec then (st, [showOptNat (latest st.s)]) else (st, [showOptNat st.v.getLatestJob])
  | ["bnew", cap] => ({ st with b := BSM.empty (parseNat cap) }, [])
  | ["bpush", k, v] =>
    if st.b.pushPanics then (st, ["PANIC"]) else ({ st with b := st.b.push k (parseNat v) }, [])
  | ["bget", k] => (st, [showOptNat (st.b.get k)])
  | ["blast"] => (st, [match st.b.last with | some (some v) => toString v | some none => "0" | none => "none"])
  | ["bcount"] => (st, [toString st.b.count])
  | ["sershare", en2, nt, no, vm] => (st, [hexEncode (shareKey en2 nt no vm)])
  | _ => (st, ["bad-op"])

def machine (useSpec : Bool) : Machine := { σ := St, init := {}, step := step useSpec }

end PRV.Driver.C19
