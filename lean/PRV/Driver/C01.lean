import PRV.Driver.Core
import PRV.Model.Pow
import PRV.Spec.C01
/-
Driver for C01.
  vd <en1> <mask> <diff> <job×9> <submit…>      ValidateDiffFloat
  vdi <en1> <mask> <uint> <job×9> <submit…>     ValidateDiff (uint64 wrapper)
Strings are hex-of-bytes tokens ("-" = empty); a job entry is `s:<tok>`, `a:<tok>,<tok>,…` (`a:` = empty
list) or `o` (some other JSON value); diff is an exact rational `n/d`, or nan, +inf, -inf.
Outputs: `ok <diff> <0|1>` or `panic`.
The monitor evaluates the specification (Spec/C01.lean) on well-formed inputs and compares the
implementation's own answer with it.
-/
namespace PRV.Driver.C01
open PRV.Driver PRV.Base PRV.Model.Pow

def bytesStr (b : List Nat) : String := String.ofList (b.map Char.ofNat)
def dec (s : String) : String := if s = "-" then "" else bytesStr (hexDecode s)

def parseJVal (t : String) : JVal :=
  if t = "o" then .other
  else if t.startsWith "s:" then .str (dec (String.ofList (t.toList.drop 2)))
  else if t = "a:" then .arr []
  else if t.startsWith "a:" then .arr (((String.ofList (t.toList.drop 2)).splitOn ",").map dec)
  else .other

def parseInput : List String → Option (Input × Option Rat)
  | en1 :: mask :: diff :: rest =>
    if rest.length < 9 then none else
    some ({ en1 := dec en1, mask := dec mask, job := (rest.take 9).map parseJVal, submit := (rest.drop 9).map dec },
          parseRat diff)
  | _ => none

def sha : Hash := PRV.Base.Sha256.sha256

def showRes : Res → String
  | .panic _ => "panic"
  | .ok t m => s!"ok {t} {if m then 1 else 0}"

def step (st : Unit) : List String → Unit × List String
  | "vd" :: rest => match parseInput rest with
    | some (inp, d) => (st, [showRes (validateDiff sha inp d)])
    | none => (st, ["bad-op"])
  | "same" :: rest => match parseInput rest with
    | some (inp, d) => (st, [showRes (validateDiff sha inp d)])
    | none => (st, ["bad-op"])
  | "vdi" :: rest => match parseInput rest with
    | some (inp, d) => (st, [showRes (validateDiff sha inp d)])
    | none => (st, ["bad-op"])
  | _ => (st, ["bad-op"])

def machine : Machine := { σ := Unit, init := (), step := step }

/-! ### monitor: the specification on the implementation's answers -/

open PRV.Spec.C01 in
def specOf (inp : Input) : Option (String × String × Job × Share) :=
  match inp.job, inp.submit with
  | [_, .str ph, .str g1, .str g2, .arr br, .str ver, .str nb, _, _], [_, _, e2, nt, no] =>
    some (inp.en1, inp.mask, { prevHash := ph, gen1 := g1, gen2 := g2, branches := br, version := ver, nbits := nb },
          { en2 := e2, ntime := nt, nonce := no, bits := none })
  | [_, .str ph, .str g1, .str g2, .arr br, .str ver, .str nb, _, _], [_, _, e2, nt, no, b] =>
    some (inp.en1, inp.mask, { prevHash := ph, gen1 := g1, gen2 := g2, branches := br, version := ver, nbits := nb },
          { en2 := e2, ntime := nt, nonce := no, bits := some b })
  | _, _ => none

structure MonSt where
  last : Option (String × List String) := none   -- (group tag, outputs) of the previous op

open PRV.Spec.C01 in
def mon (st : MonSt) (op : List String) (outs : List (List String)) : MonSt × List String :=
  match op with
  | kind :: rest =>
    if kind ≠ "vd" ∧ kind ≠ "vdi" ∧ kind ≠ "same" then (st, []) else
    if kind = "same" then
      -- `same <vd op…>`: differs from the previous op only in what must not matter
      match parseInput rest, st.last with
      | some _, some (_, prev) =>
        let cur := (outs.head?.getD [])
        (st, if cur = prev then [] else [s!"PROP the verdict changed from {prev} to {cur} although only the worker name, the job id text or version bits outside the mask changed"])
      | _, _ => (st, [])
    else
    match parseInput rest with
    | none => (st, ["CORR bad op"])
    | some (inp, d) =>
      let out := outs.head?.getD []
      let st' : MonSt := { last := some ("", out) }
      match specOf inp with
      | none => (st', [])
      | some (en1, mask, j, s) =>
        if !wellFormed en1 mask j s then (st', []) else
        let h := shareHash sha en1 mask j s
        if h = 0 then (st', []) else
        let t := shareDiff sha en1 mask j s
        let meetsB : Bool := match d with | none => false | some d => decide (d * (h : Rat) ≤ (D1 : Rat))
        let want := ["ok", toString (t % 2 ^ 64), if meetsB then "1" else "0"]
        if out = want then (st', [])
        else if out.head? = some "ok" ∧ out[2]? ≠ want[2]? then
          (st', [s!"PROP a share of difficulty {t} (hash {h}) was {if out[2]? = some "1" then "accepted" else "refused"} at job difficulty {rest[2]?.getD "?"}"])
        else (st', [s!"PROP the implementation answered {out}, the specification says {want}"])
  | _ => (st, [])

def monitor : Monitor := { σ := MonSt, init := {}, step := mon }

end PRV.Driver.C01
