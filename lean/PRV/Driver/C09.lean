import PRV.Driver.Core
import PRV.Model.Delivery
import PRV.Gen.C11
/-
Monitor for C09 on the seller world's delivery histories.

Property clauses (PROP):
  * the work that reached the contract's destination (`delivered c1=<GH/s × s>`, counted by the fake
    miners) never leads rate × elapsed by more than one cycle's worth, and does not lag it by more
    than one cycle's worth while enough hashrate is connected;
  * a miner that leaves the contract is replaced: what it owed does not stay unarranged for 25 s
    while a free miner large enough for the job is connected.
Correspondence (CORR), the watcher's own account against `Model/Delivery.lean`:
  * every delivery log entry against `cycleEnd`;
  * the request after a miner left against `replace` (with the allocator's answer as observed);
  * the booked work against the work that was really delivered; the cycle clock only moves forward.
-/
namespace PRV.Driver.C09
open PRV.Driver
open PRV.Model.Delivery

def kvGet (toks : List String) (k : String) : String :=
  ((toks.filterMap fun t => match t.splitOn "=" with
    | [a, v] => if a = k then some v else none
    | _ => none).head?).getD ""

def idList (s : String) : List String := (s.splitOn ",").filter (· ≠ "")

/-- one `acct` line: the watcher's running account at an observation -/
structure Obs where
  target : Int
  rem : Int
  added : Int
  full : List String
  part : List String
  conn : List String

def parseObs (toks : List String) : Obs :=
  { target := parseInt (kvGet toks "target"), rem := parseInt (kvGet toks "rem"), added := parseInt (kvGet toks "added"),
    full := idList (kvGet toks "full"), part := idList (kvGet toks "partial"), conn := idList (kvGet toks "conn") }

structure St where
  now : Int := 0
  cycle : Int := 60
  miners : List (String × Int) := []     -- connected miners and their hashrate
  rate : Int := 0                        -- contracted GH/s
  t0 : Option Int := none
  len : Int := 0
  enough : Bool := true                  -- enough hashrate connected ever since the purchase
  acc : Option Acc := none               -- the model's account of the running contract
  prev : Option Obs := none              -- the account at the previous observation
  prevNow : Int := 0
  prevDelivered : Int := 0
  drift : Int := 0                       -- model request − implementation request, after a disagreement
  obl : Option (Int × Int × Int) := none -- a replacement that is owed: since when, how much, tasks handed out then
  freeSince : List (String × Int) := []  -- miners without work for the contract, and since when
  peak : Int := 0                        -- the largest fleet seen
  booked : Int := 0                      -- Σ actual × cycle over the logged cycles
  nlogs : Int := 0
  enoughSince : Option Int := none       -- since when enough hashrate has been connected without a break
  lagAtRec : Int := 0                    -- how far behind the contract was then
  spareMin : Int := 0                    -- the least spare hashrate (fleet − rate) since
  unknownSince : List (String × Int) := []  -- miners directed to the contract's destination that the watcher's account does not list

def total (st : St) : Int := st.miners.foldl (fun a m => a + m.2) 0
def hrOf (st : St) (id : String) : Int := ((st.miners.find? (·.1 = id)).map (·.2)).getD 0
def sumHr (st : St) (ids : List String) : Int := ids.foldl (fun a i => a + hrOf st i) 0

/-- `hashrate.GHSToJobSubmittedV2` in whole units -/
def jobOf (ghs secs : Int) : Int := ghs * (max secs 0) * 1000000000 / 4294967296

def minJob : Int := PRV.Gen.C11.allocationMinJob.floor

/-- the model's `cycleEnd` against one delivery log entry -/
def checkLog (fleet : Int) (acc : Acc) (toks : List String) : Acc × List String :=
  let g := fun k => parseInt (kvGet toks k)
  let actual := g "actual"; let under := g "under"; let gunder := g "gunder"; let next := g "next"
  -- both `actual` and `under` are truncated floats: rate − actual is known to ±1
  let c1 := if (acc.H - actual - under).natAbs > 1 then
    [s!"CORR cycle log: under={under} is not rate − actual = {acc.H} − {actual}"] else []
  -- the booked shortfall is the truncated one; run the model on it
  let acc' := cycleEnd { acc with full := 0 } (acc.H - under)
  let c2 := if acc'.gU ≠ gunder then
    [s!"CORR cycle log: gunder={gunder}, the model books {acc'.gU} (= previous {acc.gU} + this cycle's {under})"] else []
  -- the request: exact when there is no full miner; otherwise rate + shortfall less the full miners'
  -- current hashrate, which the log does not report: between nothing and the connected fleet
  let fullNow := acc'.target - next
  let c3 := if g "full" = 0 then
      (if acc'.target ≠ next then [s!"CORR cycle log: next={next}, the model requests {acc'.target} (rate {acc.H} + shortfall {acc'.gU}, no full miners)"] else [])
    else
      (if fullNow < -1 ∨ fullNow > fleet + fleet / 50 + 2 then
        [s!"CORR cycle log: next={next}, the model requests {acc'.target} less the full miners' hashrate, which would be {fullNow} (fleet {fleet})"] else [])
  ({ acc' with gU := gunder }, c1 ++ c2 ++ c3)

/-- the request after a miner left, by the model's `replace`, with the allocator's answer as observed:
returns the values the model allows -/
def replaceCandidates (st : St) (p q : Obs) (id : String) (wasFull : Bool) (owed : Int) : List Int :=
  let exp := p.target + st.drift + owed
  let newFull := q.full.filter (fun i => !p.full.contains i)
  let shedIds := p.full.filter (fun i => !q.full.contains i && i != id)
  let handedOut := q.added - p.added
  let job := jobOf exp q.rem
  let mk := fun (partF : Int → Int) =>
    let al : Alloc := { addFull := fun _ => sumHr st newFull, shed := fun _ => sumHr st shedIds, addPartial := partF }
    (replace al { H := st.rate, target := p.target + st.drift } owed wasFull).1.target
  if handedOut = 0 then
    -- nothing was handed out: the amount stays requested — or, below the allocator's minimum job, is
    -- dropped (AllocatePartialForJob reports a job under the minimum as placed when it has a candidate miner)
    [mk fun _ => 0] ++ (if job * 10 < minJob * 11 then [mk fun r => r] else [])
  else
    -- something was handed out: one-cycle jobs cover between nothing and all of what whole miners left open
    let lo := mk fun r => r
    let hi := mk fun _ => 0
    if q.target < lo then [lo] else if q.target > hi then [hi] else [q.target]

def mon (st : St) (op : List String) (outs : List (List String)) : St × List String :=
  let downToks := ((outs.find? (·.head? = some "down")).getD [])
  let downId := (downToks.drop 1).head?.getD "-"
  let st1 : St := match op with
    | "world" :: rest =>
      let hrs := (kvGet rest "hrs").splitOn ","
      { st with cycle := parseInt (kvGet rest "cycle"),
                miners := (List.range hrs.length).map fun i => (s!"m{i}", parseInt (hrs[i]?.getD "0")) }
    | "purchased" :: _ :: rest => { st with t0 := some st.now, rate := parseInt (kvGet rest "hr"), len := parseInt (kvGet rest "len"), enough := true,
                                              acc := some { H := parseInt (kvGet rest "hr"), target := parseInt (kvGet rest "hr") } }
    | ["restart"] => { st with acc := st.acc.map fun a => { a with gU := 0 }, prev := none, obl := none, drift := 0 }
    | ["advance", s] => { st with now := st.now + parseInt s }
    | ["minerdown", m] => let id := if m.startsWith "@" then downId else m
                          { st with miners := st.miners.filter (·.1 ≠ id) }
    | "minerup" :: m :: rest => { st with miners := st.miners ++ [(m, parseInt (kvGet rest "hr"))] }
    | _ => st
  -- "enough eligible hashrate": a fifth more than the contracted rate
  let st2 := { st1 with enough := st1.enough && decide (total st1 * 5 ≥ st1.rate * 6) }
  let deliveredTxt := (((outs.find? (·.head? = some "delivered")).getD []).drop 1).head?.getD "c1=0"
  let delivered : Int := parseInt (((deliveredTxt.splitOn "=")[1]?).getD "0")
  let el := match st2.t0 with | some t0 => min (st2.now - t0) st2.len | none => 0
  let ended := match st2.t0 with | some t0 => decide (st2.now - t0 ≥ st2.len) | none => true
  let fleet := total st1 + total st
  let st2 := { st2 with peak := max st2.peak fleet }
  -- the cycle log entries printed with this observation
  let logs := outs.filter (·.head? = some "cyclelog")
  let (accN, logComplaints) := logs.foldl (fun (r : Option Acc × List String) toks =>
      match r.1 with
      | none => r
      | some a => let (a', cs) := checkLog fleet a (toks.drop 2); (some a', r.2 ++ cs)) (st2.acc, [])
  -- booked work against delivered work: what the log has booked by the last cycle end lies between
  -- what had been delivered at the previous observation and what has been delivered now
  let bookedNow := logs.foldl (fun b toks => b + parseInt (kvGet toks "actual") * st2.cycle) st2.booked
  let nlogsNow : Int := st2.nlogs + (logs.length : Int)
  let tolB := nlogsNow * st2.cycle + st2.peak * 3 + delivered / 100
  let booksC := if logs.length = 1 ∧ !ended then
      (if bookedNow + tolB < st2.prevDelivered then
        [s!"CORR the delivery log has booked {bookedNow} GHs by the end of cycle {nlogsNow}, but {st2.prevDelivered} GHs had already reached the destination before: delivered work is missing from the books"]
       else if bookedNow > delivered + tolB then
        [s!"CORR the delivery log has booked {bookedNow} GHs by the end of cycle {nlogsNow}, but only {delivered} GHs reached the destination"] else [])
    else []
  let st2 := { st2 with acc := accN, booked := bookedNow, nlogs := nlogsNow }
  let st2 := if logs.isEmpty then st2 else { st2 with drift := 0, obl := none }
  -- the running account
  let acct := (outs.find? (·.head? = some "acct")).map parseObs
  -- the cycle clock only moves forward between cycle ends
  let clockC := match st2.prev, acct with
    | some p, some q => if logs.isEmpty ∧ p.rem > 0 ∧ q.rem > p.rem - (st2.now - st2.prevNow) + 1 then
        [s!"CORR the cycle clock went back: {q.rem} s remain, {p.rem} s remained {st2.now - st2.prevNow} s ago and no cycle end was booked"] else []
    | _, _ => []
  -- a miner left: the request against the model's `replace`
  let role := kvGet downToks "role"
  let owed := parseInt (kvGet downToks "owed")
  let (st3, replC) := match st2.prev, acct with
    | some p, some q =>
      if (role = "full" ∨ role = "partial") ∧ owed > 0 ∧ logs.isEmpty ∧ q.rem > 0 then
        -- `owed` is printed truncated: the amount the code used lies in [owed, owed + 1)
        let cands := replaceCandidates st2 p q downId (role = "full") owed ++ replaceCandidates st2 p q downId (role = "full") (owed + 1)
        let near := cands.filter fun c => (c - q.target).natAbs ≤ 2
        let tm := (near.head?).getD ((cands.head?).getD q.target)
        let exp := p.target + st2.drift + owed
        let c := if near.isEmpty then
          [s!"CORR after {downId} ({role}, owed {owed} GH/s) left: the request is {q.target}, the model's replace gives {cands} (request before {p.target + st2.drift}, tasks handed out {q.added - p.added})"] else []
        let drift := if near.isEmpty then tm - q.target else 0
        -- a replacement is owed when nothing was handed out although the amount is worth a job
        let obl := if tm > thresholdAdjust ∧ q.added = p.added ∧ jobOf tm q.rem * 10 ≥ minJob * 12 then some (st2.now, tm, q.added) else none
        let _ := exp
        ({ st2 with drift := drift, obl := obl }, c)
      else (st2, [])
    | _, _ => (st2, [])
  -- free miners
  let st4 := match acct with
    | some q =>
      let free := q.conn.filter fun i => !q.full.contains i && !q.part.contains i
      { st3 with freeSince := free.map fun i => (i, ((st3.freeSince.find? (fun (e : String × Int) => e.1 = i)).map (fun (e : String × Int) => e.2)).getD st3.now) }
    | none => { st3 with freeSince := [], obl := none }
  -- the owed replacement
  let (st5, oblC) := match st4.obl, acct with
    | some (since, amount, added), some q =>
      if q.added > added ∨ q.rem ≤ 0 then ({ st4 with obl := none }, [])
      else
        let big := st4.freeSince.filter fun (e : String × Int) =>
          decide (st4.now - max e.2 since ≥ 25 ∧ jobOf (hrOf st4 e.1) q.rem * 10 ≥ minJob * 12)
        if !big.isEmpty ∧ jobOf amount q.rem * 10 ≥ minJob * 12 ∧ !ended then
          ({ st4 with obl := none },
           [s!"PROP a miner that left the contract is not replaced: {amount} GH/s have been owed for {st4.now - since} s, no task was handed out, and {(big.map fun (e : String × Int) => e.1)} (of {(big.map fun (e : String × Int) => hrOf st4 e.1)} GH/s) had no work for at least 25 s with {q.rem} s of the cycle left"])
        else (st4, [])
    | _, _ => (st4, [])
  -- the watcher knows who works for it: a miner directed to the contract's destination is listed as a full or a partial miner
  -- (it is what the watcher sheds when it is ahead and releases when the contract stops)
  let placedOn : List String := (((outs.find? (·.head? = some "miners")).getD []).drop 1).filterMap fun t => match t.splitOn "=" with
    | [m, w] => if w.startsWith "c1@" then some m else none
    | _ => none
  let (st5, knownC) := match acct with
    | some q =>
      let unk := placedOn.filter fun i => q.conn.contains i && !q.full.contains i && !q.part.contains i
      let since := unk.map fun i => (i, ((st5.unknownSince.find? (fun (e : String × Int) => e.1 = i)).map (fun (e : String × Int) => e.2)).getD st5.now)
      let old := since.filter fun (e : String × Int) => decide (st5.now - e.2 ≥ 20)
      ({ st5 with unknownSince := since },
       if old.isEmpty ∨ ended then [] else
         [s!"PROP miners {old.map fun (e : String × Int) => e.1} have been directed to the contract's destination for {old.map fun (e : String × Int) => st5.now - e.2} s and the watcher's account lists them neither as full nor as partial miners (full {q.full}, partial {q.part}): they can neither be shed nor released"])
    | none => ({ st5 with unknownSince := [] }, [])
  let st6 := { st5 with prev := acct, prevNow := st5.now, prevDelivered := delivered }
  match st6.t0 with
  | none => (st6, logComplaints)
  | some _ =>
    let due := st6.rate * el
    let cycleWorth := st6.rate * st6.cycle
    -- one second of every connected miner is the granularity of the fake miners' crediting
    let slack := total st6 + cycleWorth / 50
    let lead := delivered - due
    let lag := st6.rate * (el - 10) - delivered
    let c1 := if lead > cycleWorth + slack then
      [s!"PROP delivery runs ahead of the contracted rate by {lead} GHs, more than one cycle's worth ({cycleWorth}): delivered {delivered}, due {due} after {el} s"] else []
    -- what earlier cycles fell short is made up once enough hashrate is connected again: with a spare of `spareMin` GH/s the
    -- shortfall of then is gone after 2·lag/(spare·cycle) cycles (half the spare put to use), and three more to get going
    let enoughNow := decide (total st6 * 5 ≥ st6.rate * 6)
    let st6 := if enoughNow then
        (match st6.enoughSince with
         | some _ => { st6 with spareMin := min st6.spareMin (total st6 - st6.rate) }
         | none => { st6 with enoughSince := some st6.now, lagAtRec := max lag 0, spareMin := total st6 - st6.rate })
      else { st6 with enoughSince := none }
    let c3 := match st6.enoughSince with
      | some tr =>
        let need := 4 + (2 * st6.lagAtRec) / (max st6.spareMin 1 * st6.cycle)
        -- a carried shortfall at or under the adjustment threshold is never requested again (`adjustHashrate` does nothing inside
        -- ±AdjustmentThresholdGHS): that much may stay owed for good — DESIGN.md §6.3
        if !st6.enough ∧ !ended ∧ st6.now - tr ≥ need * st6.cycle ∧ lag > cycleWorth + slack + PRV.Gen.C09.thresholdAdjust * st6.cycle then
          [s!"PROP what earlier cycles fell short is not made up: {lag} GHs behind the contracted rate, more than one cycle's worth ({cycleWorth}), although enough hashrate ({st6.spareMin} GH/s to spare at least) has been connected for {st6.now - tr} s ({need} cycles are {need * st6.cycle} s); the contract was {st6.lagAtRec} GHs behind when it came"] else []
      | none => []
    let c2 := if st6.enough ∧ el > st6.cycle ∧ lag > cycleWorth + slack then
      [s!"PROP delivery falls behind the contracted rate by {lag} GHs, more than one cycle's worth ({cycleWorth}) although enough hashrate is connected: delivered {delivered}, due {due} after {el} s"] else []
    -- C20: the mean hashrate the contract reports is the work that reached its destination over the time since the
    -- fulfilment started (whole seconds; one second of the fleet and one part in twenty of slack)
    let estC := match (outs.find? (·.head? = some "est")) with
      | some toks =>
        let mean := parseInt (kvGet toks "mean")
        -- the counter is started when the allocation begins, ten seconds after the purchase
        let elm := el - 10
        if elm ≥ 20 ∧ !ended ∧ (mean * elm - delivered).natAbs > (delivered / 20).natAbs + (st6.peak * 3).natAbs then
          [s!"C20 the contract reports a mean of {mean} GH/s {elm} s after it started delivering, but {delivered} GHs reached its destination: {delivered / elm} GH/s"]
        else []
      | none => []
    (st6, logComplaints ++ booksC ++ clockC ++ replC ++ oblC ++ knownC ++ c1 ++ c2 ++ c3 ++ estC)

def monitor : Monitor := { σ := St, init := {}, step := mon }

end PRV.Driver.C09
