import PRV.Driver.Core
import PRV.Driver.Sess
import PRV.Spec.C19
/-
Monitors for the session properties C02, C03, C04, judged on the implementation's own trace.
Everything is reconstructed from the op lines (what the harness made the miner / the pools do) and
the output lines (what the miner and the pools received, callbacks, ledgers): nothing of the
model's internal state is used.  Complaints are prefixed with the property id.
-/
namespace PRV.Driver.SessMon
open PRV.Driver PRV.Spec.C19 PRV.Driver.Sess

/-- one pool connection as the *pool* and the trace see it -/
structure PConn where
  pool    : String
  idx     : Nat
  user    : String := ""
  live    : Bool := true
  -- what the pool currently associates with new jobs
  diffTxt : String
  xn1     : String
  xn2size : Nat
  mask    : String
  mem     : State                      -- announcement log (Spec.C19)
  assoc   : List (String × String × String × Nat × String) := []   -- per serial: job, diffTxt, xn1, size, mask
  tmpls   : List String := []          -- per serial: the block template announced (input of the proof of work)
deriving Repr

structure PoolC where
  name : String
  mask : String
  en1 : String
  en2size : Nat
  diffTxt : String
  rejects : Bool
  jobN : Nat := 0

structure Ledger where
  acc : Nat := 0
  rej : Nat := 0
  accTheyRej : Nat := 0
  rejTheyAcc : Nat := 0
  work : Nat := 0
  shares : Nat := 0
  worker : Nat := 0
  dests : List (String × Nat × Nat × Nat) := []    -- pool, aa, ar, ra (summed over its connections)
deriving Repr, DecidableEq

structure Mon where
  vr : Bool := false
  pools : List PoolC := []
  conns : List PConn := []
  active : Option (String × Nat) := none
  cb : Option Nat := none
  cbN : Nat := 0
  now : Int := 0
  started : Bool := false
  -- what the miner was told last
  mMask : String := ""
  mXn : String := ""
  mXnSize : Nat := 0
  mDiff : String := ""
  led : Ledger := {}
  ambiguous : Bool := false
  timeout : Int := 120000000000

def findConn (m : Mon) (k : String × Nat) : Option PConn := m.conns.find? fun c => c.pool = k.1 ∧ c.idx = k.2
def setConn (m : Mon) (c : PConn) : Mon :=
  { m with conns := m.conns.map fun x => if x.pool = c.pool ∧ x.idx = c.idx then c else x }
def lastLive (m : Mon) (pool : String) : Option PConn :=
  (m.conns.filter fun c => c.pool = pool ∧ c.live).foldl (fun acc c => match acc with
    | none => some c
    | some a => if a.idx < c.idx then some c else some a) none

def kvOf (l : List String) (k : String) : String := kvGet l k

/-- announce a job on a connection with the pool's current association -/
def announce (m : Mon) (c : PConn) (job : String) (clean : Bool) (tmpl : String := "t0") : PConn :=
  { c with mem := notify c.mem job clean m.now,
           assoc := c.assoc ++ [(job, c.diffTxt, c.xn1, c.xn2size, c.mask)],
           tmpls := c.tmpls ++ [tmpl] }

def newConn (m : Mon) (p : PoolC) (idx : Nat) : PConn :=
  let c : PConn := { pool := p.name, idx := idx, diffTxt := p.diffTxt, xn1 := p.en1, xn2size := p.en2size,
                     mask := p.mask, mem := { window := 30, timeout := m.timeout } }
  announce m c (p.name ++ "-j" ++ toString (p.jobN + 1)) true

/-- parse "stats ..." lines into a ledger -/
def parseLedger (outs : List (List String)) : Ledger :=
  outs.foldl (fun (l : Ledger) o => match o with
    | "stats" :: "src" :: r => { l with acc := parseNat (kvOf r "acc"), rej := parseNat (kvOf r "rej"),
                                        accTheyRej := parseNat (kvOf r "acc_theyrej"), rejTheyAcc := parseNat (kvOf r "rej_theyacc") }
    | "stats" :: "miner" :: r => { l with work := parseNat (kvOf r "work"), shares := parseNat (kvOf r "shares") }
    | "stats" :: "worker" :: r => { l with worker := parseNat (kvOf r "work") }
    | "stats" :: "dest" :: p :: r =>
      let aa := parseNat (kvOf r "aa"); let ar := parseNat (kvOf r "ar"); let ra := parseNat (kvOf r "ra")
      match l.dests.find? (·.1 = p) with
      | some (_, a, b, c) => { l with dests := (l.dests.filter (·.1 ≠ p)) ++ [(p, a + aa, b + ar, c + ra)] }
      | none => { l with dests := l.dests ++ [(p, aa, ar, ra)] }
    | _ => l) {}

def destCell (l : Ledger) (p : String) : Nat × Nat × Nat :=
  match l.dests.find? (·.1 = p) with | some (_, a, b, c) => (a, b, c) | none => (0, 0, 0)

/-- update "what the miner was told last" from the tominer lines of one op -/
def absorbMiner (m : Mon) (outs : List (List String)) : Mon :=
  outs.foldl (fun (m : Mon) o => match o with
    | ["tominer", "set_difficulty", v] => { m with mDiff := String.ofList ((v.toList.drop 1).dropLast) }
    | ["tominer", "set_extranonce", v] =>
      -- ["xn",size]
      match (String.ofList ((v.toList.drop 1).dropLast)).splitOn "," with
      | [x, sz] => { m with mXn := String.ofList ((x.toList.drop 1).dropLast), mXnSize := parseNat sz }
      | _ => m
    | ["tominer", "set_version_mask", v] =>
      { m with mMask := String.ofList ((v.toList.drop 2).dropLast.dropLast) }
    | _ => m) m

def minerLines (outs : List (List String)) : List (List String) := outs.filter fun o => o.head? = some "tominer"

def numEq (a b : String) : Bool := a = b || (parseRat a).isSome && parseRat a = parseRat b

/-- clause C03(a): at a job notification the miner's last delivered values are the issuing pool's
association for that job -/
def checkNotify (m : Mon) (c : PConn) (job : String) : List String :=
  match (c.assoc.reverse.find? (·.1 = job)) with
  | none => [s!"C03 the miner is notified of job {job} which the assigned pool {c.pool}.{c.idx} never announced"]
  | some (_, d, x, sz, _) =>
    -- the version mask is state of the connection, not of a job: what the pool holds now
    let mk := c.mask
    (if numEq m.mDiff d then [] else
      [s!"C03 job {job} of {c.pool}: the difficulty last delivered to the miner is {m.mDiff}, the pool associates {d}"]) ++
    (if m.mXn = x ∧ m.mXnSize = sz then [] else
      [s!"C03 job {job} of {c.pool}: the extranonce last delivered to the miner is {m.mXn}/{m.mXnSize}, the pool associates {x}/{sz}"]) ++
    (if !m.vr ∨ m.mMask = mk then [] else
      [s!"C03 job {job} of {c.pool}: the version mask last delivered to the miner is {m.mMask}, the pool associates {mk}"])

/-- walk the tominer lines of an op in order, checking every notify against what was delivered before it -/
def walkMiner (m : Mon) (c : Option PConn) (lines : List (List String)) : Mon × List String :=
  lines.foldl (fun (acc : Mon × List String) o =>
    let m := acc.1
    match o with
    | "tominer" :: "notify" :: r =>
      let job := kvOf r "job"
      let cs := match c with
        | some c => checkNotify m c job
        | none => ["C03 a job notification reaches the miner while no pool is assigned"]
      (m, acc.2 ++ cs)
    | _ => (absorbMiner m [o], acc.2)) (m, [])

/-- does the share meet the difficulty the pool associates with announcement `serial`?  The share's difficulty against
that announcement's data (template, extranonce1, the connection's mask) is read from the table the harness measured. -/
def specPow (tbl : List ((String × String × String) × Nat)) (vb : String) (c : PConn) (serial : Nat) : Bool :=
  match c.assoc[serial]? with
  | some (_, d, x, _, _) =>
    let key := ((c.tmpls[serial]?).getD "t0", tokOf x, if vb = "-" then "-" else tokOf c.mask)
    decide (diffUnits d ≤ ((tbl.find? (·.1 = key)).map (·.2)).getD 0)
  | none => false

/-- would this connection's job memory honour the share (known, unexpired, not a repeat, meets the
job's difficulty)?  Returns the updated connection and the verdict. -/
def specTry (tbl : List ((String × String × String) × Nat)) (vb : String) (m : Mon) (c : PConn) (job : String) (share : List Nat) :
    PConn × String × Option Nat :=
  let r := submit c.mem job share m.now
  let c' := { c with mem := r.1 }
  match r.2 with
  | .notFound => (c', "notfound", none)
  | .duplicate => (c', "dup", none)
  | .checked n => if specPow tbl vb c n then (c', "ok", some n) else (c', "low", some n)

def hasJobSpec (c : PConn) (job : String) : Bool := (findLatest job (lastN c.mem.window c.mem.log)).isSome

def mon (m : Mon) (op : List String) (outs : List (List String)) : Mon × List String :=
  let m := if m.started then { m with now := m.now + 1000000 } else m
  let led0 := parseLedger outs
  let led : Ledger := { led0 with dests := (led0.dests.filter fun (_, a, b, c) => a + b + c > 0).mergeSort (fun x y => x.1 ≤ y.1) }
  let sameLedger : List String :=
    let a : Ledger := { led with dests := [] }
    let b : Ledger := { m.led with dests := [] }
    if decide (a = b) && (decide (led.dests = m.led.dests) || op.head? == some "setdest") then []
    else ["C04 the ledgers changed although no share was submitted"]
  match op with
  | "cfg" :: r => ({ m with vr := kvOf r "vr" = "1" }, [])
  | "pool" :: name :: r =>
    let p : PoolC := {
      name := name
      mask := kvOf r "mask"
      en1 := kvOf r "en1"
      en2size := parseNat (kvOf r "en2size")
      diffTxt := kvOf r "diff"
      rejects := kvOf r "reject" ≠ "-" }
    ({ m with pools := m.pools ++ [p] }, [])
  | "poolflag" :: name :: r =>
    ({ m with pools := m.pools.map fun p => if p.name = name then { p with rejects := kvOf r "reject" ≠ "-" } else p }, [])
  | ["start"] =>
    match m.pools.head? with
    | none => (m, [])
    | some p =>
      let c := newConn m p 1
      let user := ((outs.filterMap fun o => match o with
        | "topool" :: _ :: "authorize" :: r => some (kvOf r "user") | _ => none).head?).getD ""
      let c := { c with user := user, mask := if m.vr then p.mask else "" , assoc := c.assoc.map fun (j, d, x, sz, _) => (j, d, x, sz, if m.vr then p.mask else "") }
      let m1 := { m with conns := [c], active := some (p.name, 1), started := true,
                         pools := m.pools.map fun q => if q.name = p.name then { q with jobN := 1 } else q,
                         mXn := p.en1, mXnSize := p.en2size, mMask := if m.vr then p.mask else "", led := led }
      -- subscribe/configure results tell the miner extranonce and mask; then set_difficulty + notify
      let w := walkMiner m1 (some c) (minerLines outs)
      (w.1, w.2)
  | ["advance", t] => ({ m with now := m.now + parseInt t, led := led }, sameLedger)
  | ["notify", pool, job, tmpl, clean] =>
    match lastLive m pool with
    | none => ({ m with led := led }, sameLedger)
    | some c =>
      let c' := announce m c job (clean = "1") tmpl
      let m1 := setConn m c'
      let isAct := m.active = some (c.pool, c.idx)
      let lines := minerLines outs
      let expect := if isAct then 1 else 0
      let relay := if lines.length = expect then [] else
        [if isAct then s!"C03 a job of the assigned pool {pool} was not relayed to the miner exactly once"
         else s!"C03 a job of the parked pool {pool} reached the miner"]
      let w := walkMiner m1 (if isAct then some c' else none) lines
      ({ w.1 with led := led }, relay ++ w.2 ++ sameLedger)
  | [kind, pool, a] =>
    if kind = "diff" ∨ kind = "vmask" then
      match lastLive m pool with
      | none => ({ m with led := led }, sameLedger)
      | some c =>
        let c' := if kind = "diff" then { c with diffTxt := a } else { c with mask := a }
        let isAct := m.active = some (c.pool, c.idx)
        let lines := minerLines outs
        let want := if kind = "diff" then ["tominer", "set_difficulty", s!"[{a}]"] else ["tominer", "set_version_mask", s!"[\"{a}\"]"]
        let relay := if isAct then (if lines = [want] then [] else [s!"C03 {kind} of the assigned pool {pool} was not relayed unaltered"])
                     else (if lines.isEmpty then [] else [s!"C03 {kind} of the parked pool {pool} reached the miner"])
        ({ absorbMiner (setConn m c') lines with led := led }, relay ++ sameLedger)
    else if kind = "setdest" then
      let ok := outs.any (· == ["session", "setdest-ret", "nil"])
      if !ok then ({ m with led := led, cbN := if a = "cb" then m.cbN + 1 else m.cbN }, sameLedger) else
      let hasCb := a = "cb"
      let (cb, cbN) := if hasCb then (some (m.cbN + 1), m.cbN + 1) else (none, m.cbN)
      -- connections the proxy closed during this op
      let closed := outs.filterMap fun o => match o with
        | ["topool", pc, "closed"] => some pc | _ => none
      let m0 := { m with conns := m.conns.map fun c => if closed.contains s!"{c.pool}.{c.idx}" then { c with live := false } else c }
      let dialed := (outs.filterMap fun o => match o with
        | ["factory", "dial", _, "->", pc] => ((pc.splitOn ".").getLast?).bind String.toNat? | _ => none).head?
      let wantUser := "acct" ++ pool ++ ".w" ++ pool
      let (m1, target) : Mon × Option PConn := match dialed with
        | some idx =>
          match m0.pools.find? (·.name = pool) with
          | some p =>
            let c := newConn m0 p idx
            let c := { c with user := wantUser, mask := if m0.vr then p.mask else "",
                              assoc := c.assoc.map fun (j, d, x, sz, _) => (j, d, x, sz, if m0.vr then p.mask else "") }
            ({ m0 with conns := m0.conns ++ [c],
                       pools := m0.pools.map fun q => if q.name = pool then { q with jobN := q.jobN + 1 } else q }, some c)
          | none => (m0, none)
        | none => (m0, (m0.conns.filter fun c => c.pool = pool ∧ c.live ∧ c.user = wantUser).getLast?)
      match target with
      | none => ({ m1 with led := led, cb := cb, cbN := cbN }, sameLedger)
      | some c =>
        let same := m.active = some (c.pool, c.idx)
        let lines := minerLines outs
        let latest := (c.assoc.getLast?.map (·.1)).getD "?"
        let shape : List String :=
          if same then (if lines.isEmpty then [] else ["C03 a switch to the current destination sent messages to the miner"])
          else match lines with
            | ["tominer", "set_version_mask", _] :: ["tominer", "set_extranonce", _] :: ["tominer", "set_difficulty", _] ::
               ("tominer" :: "notify" :: r) :: more =>
              (if kvOf r "clean" = "true" then [] else ["C03 the job re-announced on a switch is not flagged clean-jobs"]) ++
              (if kvOf r "job" = latest then [] else [s!"C03 the job re-announced on a switch is {kvOf r "job"}, the new pool's latest job is {latest}"]) ++
              -- what follows the re-announced job can only be the new pool's current extranonce / difficulty
              (if more.all (fun o => o == ["tominer", "set_extranonce", s!"[\"{c.xn1}\",{c.xn2size}]"] ||
                                     o == ["tominer", "set_difficulty", s!"[{c.diffTxt}]"]) then []
               else ["C03 a destination change is followed by messages that are not the new pool's current extranonce or difficulty"])
            | _ => ["C03 a destination change did not reach the miner as version mask, extranonce, difficulty, clean-jobs notify"]
        let m2 := { m1 with active := some (c.pool, c.idx), cb := cb, cbN := cbN }
        let w := walkMiner m2 (some c) lines
        ({ w.1 with led := led }, shape ++ w.2 ++ sameLedger)
    else (m, [])
  | ["xn", pool, x, sz] =>
    match lastLive m pool with
    | none => ({ m with led := led }, sameLedger)
    | some c =>
      let c' := { c with xn1 := x, xn2size := parseNat sz }
      let isAct := m.active = some (c.pool, c.idx)
      let lines := minerLines outs
      let want := ["tominer", "set_extranonce", s!"[\"{x}\",{sz}]"]
      let relay := if isAct then (if lines = [want] then [] else [s!"C03 set_extranonce of the assigned pool {pool} was not relayed unaltered"])
                   else (if lines.isEmpty then [] else [s!"C03 set_extranonce of the parked pool {pool} reached the miner"])
      ({ absorbMiner (setConn m c') lines with led := led }, relay ++ sameLedger)
  | "submit" :: id :: _user :: job :: en2 :: nt :: no :: vb :: sdRest =>
    let tbl := parseSd sdRest
    let share := shareKey en2 nt no vb
    let replies := outs.filterMap fun o => match o with
      | "tominer" :: "result" :: r => if kvOf r "id" = id then some (r.getLast?.getD "") else none
      | _ => none
    let fwds := outs.filterMap fun o => match o with
      | "topool" :: pc :: "submit" :: r => if kvOf r "id" = id then some (pc, kvOf r "user") else none
      | _ => none
    let c02a := (if fwds.length ≤ 1 then [] else [s!"C02 a share was forwarded to {fwds.length} pool connections"]) ++
                (if replies.length = 1 then [] else [s!"C02 the miner received {replies.length} replies to submit {id}"])
    let accepted : Bool := decide (replies = ["ok"])
    -- specification: the active connection first, then the other live connections knowing the job
    match m.active.bind (findConn m) with
    | none => ({ m with led := led }, c02a)
    | some a =>
      let t1 := specTry tbl vb m a job share
      let m1 := setConn m t1.1
      let others := m1.conns.filter fun c => c.live ∧ ¬ (c.pool = a.pool ∧ c.idx = a.idx) ∧ hasJobSpec c job
      let (m2, owner, amb) : Mon × Option PConn × Bool :=
        if t1.2.1 = "ok" then (m1, some t1.1, false)
        else if t1.2.1 = "notfound" ∨ t1.2.1 = "low" then
          match others with
          | [] => (m1, none, false)
          | [c] => let t := specTry tbl vb m1 c job share
                   (setConn m1 t.1, if t.2.1 = "ok" then some t.1 else none, false)
          | _ => (m1, none, true)
        else (m1, none, false)
      if amb ∨ m.ambiguous then ({ m2 with ambiguous := true, led := led }, c02a) else
      let specAccept := owner.isSome
      let c02d := if accepted = specAccept then [] else
        [if accepted then s!"C02 submit {id} was accepted although no connected pool's job memory honours it (job {job})"
         else s!"C02 submit {id} for a known, unexpired, new share meeting the job's difficulty (job {job}) was refused"]
      -- where it went and under which name
      let c02b := match owner, fwds with
        | some o, [(pc, u)] =>
          (if pc = s!"{o.pool}.{o.idx}" then [] else [s!"C02 the accepted share of job {job} was forwarded to {pc}, its job was issued by {o.pool}.{o.idx}"]) ++
          (if accepted ∧ u ≠ o.user ∧ pc = s!"{o.pool}.{o.idx}" then [s!"C02 the share was forwarded to {pc} under the name {u}, that connection was authorised as {o.user}"] else [])
        | some o, [] => if accepted then [s!"C02 the accepted share of job {job} was not forwarded to {o.pool}.{o.idx}"] else []
        | _, _ => []
      -- C04: ledgers
      let credit : Nat := match owner with
        | some o => (match (findLatest job (lastN o.mem.window o.mem.log)) with
            | some ann => ((o.assoc[ann.serial]?).map (fun (_, d, _, _, _) => diffUnits d)).getD 0
            | none => 0)
        | none => 0
      let cbLines := outs.filterMap fun o => match o with | ["cb", k, d] => some (parseNat k, parseNat d) | _ => none
      let toOwn : Bool := match owner with | some o => decide (m.active = some (o.pool, o.idx)) | none => false
      let wantCb : List (Nat × Nat) := match m.cb with
        | some k => if accepted && specAccept && toOwn then [(k, credit)] else []
        | none => []
      let fwdPool : Option String := (fwds.head?.map fun (pc, _) => ((pc.splitOn ".").head?).getD "")
      let poolRejects : Bool := match fwdPool.bind (fun p => m.pools.find? (·.name = p)) with
        | some p => p.rejects | none => false
      let old := m.led
      let expLed : Ledger :=
        if accepted then
          { old with acc := old.acc + 1, work := old.work + credit, shares := old.shares + 1, worker := old.worker + credit,
                     accTheyRej := old.accTheyRej + (if poolRejects && fwds.length == 1 then 1 else 0) }
        else
          { old with rej := old.rej + 1, rejTheyAcc := old.rejTheyAcc + (if !poolRejects && fwds.length == 1 then 1 else 0) }
      let c04 :=
        (if accepted = specAccept then
          (if led.work = expLed.work ∧ led.shares = expLed.shares then [] else
            [s!"C04 submit {id}: miner total went from {old.work}/{old.shares} shares to {led.work}/{led.shares}, expected {expLed.work}/{expLed.shares} (job difficulty {credit})"]) ++
          (if led.worker = expLed.worker then [] else
            [s!"C04 submit {id}: worker total went from {old.worker} to {led.worker}, expected {expLed.worker}"]) ++
          (if cbLines = wantCb then [] else
            [s!"C04 submit {id}: task callbacks invoked {cbLines}, expected {wantCb}"])
         else []) ++
        (if led.acc = expLed.acc ∧ led.rej = expLed.rej then [] else
          [s!"C04 submit {id}: accepted/rejected counters {led.acc}/{led.rej}, expected {expLed.acc}/{expLed.rej}"]) ++
        (if led.accTheyRej = expLed.accTheyRej ∧ led.rejTheyAcc = expLed.rejTheyAcc then [] else
          [s!"C04 submit {id}: verdict counters acc_theyrej/rej_theyacc {led.accTheyRej}/{led.rejTheyAcc}, expected {expLed.accTheyRej}/{expLed.rejTheyAcc}"]) ++
        (match fwdPool with
         | some p =>
           let o := destCell old p; let n := destCell led p
           let want : Nat × Nat × Nat := match accepted, poolRejects with
             | true, true => (o.1, o.2.1 + 1, o.2.2)
             | true, false => (o.1 + 1, o.2.1, o.2.2)
             | false, true => o
             | false, false => (o.1, o.2.1, o.2.2 + 1)
           if n = want then [] else [s!"C04 submit {id}: counters of destination {p} went from {o} to {n}, expected {want}"]
         | none => [])
      ({ m2 with led := led }, c02a ++ c02d ++ c02b ++ c04)
  | _ => (m, [])

def monitor : Monitor := { σ := Mon, init := {}, step := mon }

end PRV.Driver.SessMon
