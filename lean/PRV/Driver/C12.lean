import PRV.Driver.Core
import PRV.Model.Task
namespace PRV.Driver.C12
open PRV.Driver PRV.Model.Task

structure DSt where
  m : PRV.Model.Task.St := {}
  stopGen : List (String × Option Nat) := []   -- caller thread -> generation its Stop loaded
  goGen : List (String × Nat) := []            -- goroutine thread -> generation
  bad : Bool := false

def b (x : Bool) : String := if x then "1" else "0"

def obs (s : PRV.Model.Task.St) : String :=
  s!"obs running={b s.isRunning} done={b s.isDone} doneClosed={b s.doneClosed} active={s.active} inv={s.invocations} overlap={b s.twoHolders}"

def lookup {α : Type} (l : List (String × α)) (k : String) : Option α := (l.find? (·.1 = k)).map (·.2)

def apply (st : DSt) (l : Label) : DSt × List String :=
  match exec st.m l with
  | some m' => ({ st with m := m' }, [obs m'])
  | none => ({ st with bad := true }, ["not-enabled-in-model"])

/-- model mode -/
def step (st : DSt) : List String → DSt × List String
  | "prog" :: _ => (st, [])
  | "blocked" :: _ => (st, [obs st.m])
  | ["step", th, point] =>
    match point with
    | "op.start" => apply st .startBegin
    | "start.cas" => apply st .startCas
    | "start.loadDone" => apply st .startLoadDone
    | "start.storeRun" => apply st .startStoreRun
    | "start.spawn" => apply st .startSpawn
    | "ret.start" => (st, [obs st.m])
    | "op.stop" => apply st .stopBegin
    | "stop.loadRun" =>
      let r := apply st .stopLoadRun
      ({ r.1 with stopGen := (th, st.m.run) :: r.1.stopGen.filter (·.1 ≠ th) }, r.2)
    | "stop.cancel" =>
      match lookup st.stopGen th with
      | some (some g) => apply st (.stopCancel g)
      | _ => ({ st with bad := true }, ["not-enabled-in-model"])
    | "op.cancel" => apply st .parentCancel
    | "go.begin" =>
      let g := match st.m.go with | some (g, _) => g | none => 0
      let r := apply st .goBegin
      ({ r.1 with goGen := (th, g) :: r.1.goGen }, r.2)
    | "go.returned" => apply st .goDecide
    | "go.reset" => apply st .goReset
    | "go.setDone" => apply st .goSetDone
    | "go.closeDone" => apply st .goCloseDone
    | "go.closeStop" =>
      match lookup st.goGen th with
      | some g => apply st (.goCloseStop g)
      | none => ({ st with bad := true }, ["not-enabled-in-model"])
    | _ => ({ st with bad := true }, ["unknown-point " ++ point])
  | ["step", th, point, arg] =>
    match point with
    | "run.wait" =>
      if arg = "own" then apply st .goReturnOwn
      else if arg = "ownctx" then apply st .goReturnOwnCtx else apply st .goReturnCtx
    | "ret.stop" =>
      -- the channel Stop returned: closed iff no generation was published or its stop channel is closed
      let closed := match lookup st.stopGen th with
        | some (some g) => st.m.stopClosed.contains g
        | _ => true
      (st, if arg = s!"closed={b closed}" then [obs st.m] else [s!"stop-channel-state model closed={b closed}", obs st.m])
    | "op.wait" =>
      let closed := match lookup st.stopGen th with
        | some (some g) => st.m.stopClosed.contains g
        | _ => true
      (st, if closed then [obs st.m] else ["wait-not-enabled-in-model", obs st.m])
    | _ => ({ st with bad := true }, ["unknown-point " ++ point])
  | _ => (st, ["bad-op"])

def machine : Machine := { σ := DSt, init := {}, step := step }

/-! ### monitor: the property judged on the implementation trace alone (no point names of the
goroutine's internals are used: only op begin/return, the running function, channel states) -/

structure Mon where
  inside : List String := []          -- caller threads inside Start/Stop
  invAtStop : List (String × Nat) := []
  lastOps : List (String × List String) := []   -- recent ops per thread, newest first
  quietSince : List (String × Bool) := []       -- since T's op.stop no other caller took a step
  pendingCas : Option String := none  -- T did start.cas under the premise of clause 4; waiting for its next point
  ownReturned : Bool := false
  parentCancelled : Bool := false
  unbegun : Nat := 0                  -- goroutines created that have not yet called the function
  active : Nat := 0
  inv : Nat := 0
  done : Bool := false
  ownRet : Bool := false              -- the current invocation returned on its own and completion is still to be signalled
  ownCtx : Bool := false              -- … with a context error of an inner operation (ambiguous once a Stop is called)
  running : Bool := false
  cancelSince : Bool := false         -- a Stop has cancelled something since the current generation was published

def getField (fields : List String) (k : String) : Option String :=
  (fields.filterMap fun f => match f.splitOn "=" with | [a, v] => if a = k then some v else none | _ => none).head?

def mon (st : Mon) (op : List String) (outs : List (List String)) : Mon × List String :=
  let obsF := (outs.filter (fun l => l.head? = some "obs")).head?.getD []
  let active := ((getField obsF "active").bind String.toNat?).getD st.active
  let inv := ((getField obsF "inv").bind String.toNat?).getD st.inv
  let done := (getField obsF "done") = some "1"
  let doneClosed := (getField obsF "doneClosed") = some "1"
  let overlap := (getField obsF "overlap") = some "1"
  let running := match getField obsF "running" with | some v => v = "1" | none => st.running
  -- "completion is signalled exactly when the function returns on its own": by the time the running flag drops after such a
  -- return the done channel is closed (a return with an inner operation's context error counts unless a Stop was called
  -- meanwhile, which makes the cause ambiguous)
  let c5 := if st.running ∧ !running ∧ st.ownRet ∧ !doneClosed then
      ["PROP the function returned on its own and completion was not signalled: the running flag is reset, the done channel is open"] else []
  let st := { st with running := running, ownRet := if st.running ∧ !running then false else st.ownRet }
  let panics := (outs.filter (fun l => l.head? = some "panic")).map (fun l => "PROP the task panicked: " ++ String.intercalate " " l)
  let base := c5 ++ (if overlap then ["PROP the function ran twice concurrently"] else []) ++ panics ++
    (if (doneClosed || done) && !(st.ownReturned || st.parentCancelled ||
          (op.getD 2 "" = "run.wait" ∧ (op.getD 3 "" = "own" ∨ op.getD 3 "" = "ownctx")) || op.getD 2 "" = "op.cancel") then
      ["PROP completion signalled although the function neither returned on its own nor the parent context ended"] else [])
  match op with
  | "blocked" :: rest =>
    let names := (rest.head?.getD "").splitOn ","
    let waiters := names.filter fun n => (st.lastOps.find? (·.1 = n)).map (·.2.head?) = some (some "wait")
    (st, base ++ (if waiters.isEmpty then [] else [s!"PROP a waiter is left blocked: {waiters}"]))
  | "step" :: th :: point :: rest =>
    let isCaller := th.startsWith "T"
    -- any step of another caller thread breaks "quiet" of everybody else
    let quiet := if isCaller then st.quietSince.map (fun (t, q) => if t = th then (t, q) else (t, false)) else st.quietSince
    let st := { st with quietSince := quiet, active := active, inv := inv, done := done }
    let ops (t : String) : List String := ((st.lastOps.find? (·.1 = t)).map (·.2)).getD []
    let pushOp (o : String) : List (String × List String) := (th, o :: ops th) :: st.lastOps.filter (·.1 ≠ th)
    -- clause 4 resolution: the thread that did start.cas under the premise must not return at once
    let (st, c4) := match st.pendingCas with
      | some t =>
        if t = th then
          ({ st with pendingCas := none }, if point = "ret.start" then
            ["PROP a Start issued after waiting for Stop() to complete was dropped (nobody else was calling, the function was not running, the task was not done)"] else [])
        else (st, [])
      | none => (st, [])
    match point with
    | "op.start" => ({ st with inside := th :: st.inside, lastOps := pushOp "start" }, base ++ c4)
    | "ret.start" => ({ st with inside := st.inside.filter (· ≠ th) }, base ++ c4)
    | "op.stop" =>
      let othersInside := st.inside.filter (· ≠ th)
      ({ st with inside := th :: st.inside, lastOps := pushOp "stop",
                 invAtStop := (th, st.inv) :: st.invAtStop.filter (·.1 ≠ th),
                 quietSince := (th, othersInside.isEmpty) :: st.quietSince.filter (·.1 ≠ th) }, base ++ c4)
    | "ret.stop" => ({ st with inside := st.inside.filter (· ≠ th) }, base ++ c4)
    | "op.wait" =>
      -- the wait on Stop()'s channel has completed: no invocation begun before that Stop call is active
      let before := ((st.invAtStop.find? (·.1 = th)).map (·.2)).getD 0
      let v := if (ops th).head? = some "stop" ∧ active > 0 ∧ inv ≤ before then
        ["PROP after waiting for Stop() to complete the function is still running"] else []
      ({ st with lastOps := pushOp "wait" }, base ++ c4 ++ v)
    | "op.cancel" => ({ st with parentCancelled := true, lastOps := pushOp "cancel" }, base ++ c4)
    | "start.cas" =>
      let prem := (ops th).take 3 = ["start", "wait", "stop"] ∧ ((st.quietSince.find? (·.1 = th)).map (·.2)) = some true ∧
        active = 0 ∧ st.unbegun = 0 ∧ !done ∧ (st.inside.filter (· ≠ th)).isEmpty
      ({ st with pendingCas := if prem then some th else st.pendingCas }, base ++ c4)
    | "start.spawn" => ({ st with unbegun := st.unbegun + 1 }, base ++ c4)
    | "go.begin" => ({ st with unbegun := st.unbegun - 1, ownRet := false, ownCtx := false }, base ++ c4)
    | "run.wait" =>
      let own := rest.head? = some "own"
      let ownctx := rest.head? = some "ownctx"
      -- a Stop that cancelled before the return makes a context error the stop's, not the function's own
      ({ st with ownReturned := st.ownReturned || own || ownctx,
                 ownRet := own || (ownctx && !st.cancelSince && !st.parentCancelled), ownCtx := ownctx }, base ++ c4)
    | "start.storeRun" => ({ st with cancelSince := false }, base ++ c4)
    | "stop.cancel" => ({ st with cancelSince := true, ownRet := st.ownRet && !st.ownCtx }, base ++ c4)
    | _ => (st, base ++ c4)
  | _ => (st, base)

def monitor : Monitor := { σ := Mon, init := {}, step := mon }

/-! ### the tasks where they are used: a direction of a `Pipe`, the handshake's `pipeSync` (harness/proxy/verif_c12pipe_test.go) -/

def kv (toks : List String) (k : String) : String := (getField toks k).getD ""

def monPipe (_ : Unit) (op : List String) (outs : List (List String)) : Unit × List String :=
  let hung := (outs.filter (·.head? = some "hung")).map fun l => "PROP the history did not come to rest: " ++ String.intercalate " " l
  let cs := match op with
    | "dir" :: rest =>
      let st := (outs.find? (·.head? = some "stopped")).getD []
      let rs := (outs.find? (·.head? = some "restarted")).getD []
      (if kv st "waited" = "1" then [] else [s!"PROP the wait on Stop() of a pipe direction stopped in {kv rest "stop"} did not complete: a waiter is left blocked"]) ++
      (if kv st "done" = "0" then [] else [s!"PROP completion was signalled for a pipe direction that was stopped (in {kv rest "stop"}, parent context alive, error {kv st "err"}): the function did not return on its own"]) ++
      (if kv rs "relayed" = "1" then [] else [s!"PROP a pipe direction stopped in {kv rest "stop"} and started again does not relay: the start was dropped"])
    | "sync" :: rest =>
      let en := (outs.find? (·.head? = some "ended")).getD []
      let e := kv rest "end"
      if e = "stop" then
        (if kv en "waited" = "1" then [] else [s!"PROP the wait on Stop() of the handshake's pipe (next message queued: {kv rest "queued"}) did not complete"]) ++
        (if kv en "done" = "0" then [] else ["PROP completion was signalled for a handshake pipe that was stopped"])
      else
        (if kv en "done" = "1" then [] else [s!"PROP the handshake's pipe ended ({e}, next message queued: {kv rest "queued"}) and completion was not signalled: whoever waits for the handshake is left blocked"])
    | _ => []
  ((), hung ++ cs)

def monitorPipe : Monitor := { σ := Unit, init := (), step := monPipe }

end PRV.Driver.C12
