import PRV.Driver.Core
import PRV.Model.Session
import PRV.Base.Hex
namespace PRV.Driver.Sess
open PRV.Driver PRV.Model PRV.Model.Session PRV.Base

structure DSt where
  s : Sess := { maxCached := 2, vr := false, minerUser := "", notPropagate := false, cleanTimeout := 120000000000,
                idle := 600000000000 }
  started : Bool := false

def kvGet (toks : List String) (k : String) : String :=
  ((toks.filterMap fun t => match t.splitOn "=" with
    | [a, v] => if a = k then some v else none
    | _ => none).head?).getD ""

/-- a decimal JSON number in units of 2^-16 (exact for the dyadic values the generator uses) -/
def diffUnits (txt : String) : Nat :=
  match txt.splitOn "." with
  | [a] => a.toNat?.getD 0 * 65536
  | [a, f] => ((a.toNat?.getD 0) * 10 ^ f.length + f.toNat?.getD 0) * 65536 / 10 ^ f.length
  | _ => 0

def streamName : Out → String
  | .cb _ _ => "cb"
  | .factory _ _ => "factory"
  | .session _ => "session"
  | .toMiner _ => "tominer"
  | .toPool p c _ => s!"topool {p}.{c}"

def showOut : Out → String
  | .cb k d => s!"cb {k} {d}"
  | .factory p (some c) => s!"factory dial {p} -> {p}.{c}"
  | .factory p none => s!"factory dial {p} refused"
  | .session w => s!"session {w}"
  | .toMiner l => s!"tominer {l}"
  | .toPool p c l => s!"topool {p}.{c} {l}"

def sortOuts (o : List Out) : List Out := o.mergeSort (fun a b => streamName a ≤ streamName b)

def stats (s : Sess) : List String :=
  let ds := (s.dests.map fun d => s!"stats dest {d.pool} aa={d.aa} ar={d.ar} ra={d.ra} diff={d.diff}").mergeSort (· ≤ ·)
  let act := match activeDest s with | some d => d.pool | none => "-"
  [s!"stats src acc={s.srcAcc} rej={s.srcRej} acc_theyrej={s.srcAccTheyRej} rej_theyacc={s.srcRejTheyAcc}",
   s!"stats miner work={s.minerWork} shares={s.minerShares}",
   s!"stats worker work={s.workerWork}"] ++ ds ++ [s!"stats active {act} cached={s.dests.length}"]

/-- all generated jobs are template t0 and all generated shares have share difficulty 0:
they meet a job's difficulty iff that difficulty is 0 (the proof-of-work itself is C01's) -/
def pow0 : Pow := fun _ _ _ d => d == 0

/-- the share's difficulty (units of 2^-16) against every job data it could be hashed with, as the harness measured it
with its own SHA-256: `sd=<template>/<extranonce1>/<mask or - for a five-parameter submit>/<units>,…` -/
def parseSd (rest : List String) : List ((String × String × String) × Nat) :=
  match rest.find? (·.startsWith "sd=") with
  | none => []
  | some tok => ((String.ofList (tok.toList.drop 3)).splitOn ",").filterMap fun e => match e.splitOn "/" with
    | [t, x, m, u] => some ((t, x, m), u.toNat?.getD 0)
    | _ => none

def tokOf (x : String) : String := if x = "" then "~" else x

/-- proof of work from the measured table: the share meets difficulty `d` against job data `j` under `mask` -/
def powOf (tbl : List ((String × String × String) × Nat)) (vb : String) : Pow := fun j mask _ d =>
  let key := (j.tmpl, tokOf j.xn1, if vb = "-" then "-" else tokOf mask)
  decide (d ≤ ((tbl.find? (·.1 = key)).map (·.2)).getD 0)

def shareKey (en2 nt no vm : String) : List Nat :=
  serializeShare (hexDecode en2) (hexDecode nt) (hexDecode no) (hexDecode (if vm = "-" then "00000000" else vm))

def strBytes (s : String) : List Nat := s.toList.map (·.toNat)
def bytesStr (b : List Nat) : String := String.ofList (b.map Char.ofNat)

/-- the initial handshake on the default pool (C15's subject; here only its outcome) -/
def startSession (s : Sess) : Sess × List Out :=
  match s.pools.head? with
  | none => (s, [])
  | some p =>
    let urlUser := "acct" ++ p.name ++ ".w" ++ p.name
    let u : Cred.Url := { user := some { username := strBytes urlUser, password := some (strBytes ("pwd" ++ p.name)) },
                          host := strBytes (p.name ++ ":3333"), rest := [] }
    let user := bytesStr (Cred.getDestUserName s.notPropagate (strBytes s.minerUser) u)
    let job := p.name ++ "-j1"
    let d : Dest := {
      pool := p.name, conn := 1, user := user, diff := p.diff, diffTxt := p.diffTxt, xn1 := p.en1, xn2size := p.en2size,
      mask := if s.vr then p.mask else "",
      v := (Validator.new 30 s.cleanTimeout).addNewJob job true s.now,
      jobs := [{ jobId := job, tmpl := "t0", diff := p.diff, diffTxt := p.diffTxt, xn1 := p.en1, xn2size := p.en2size }] }
    let outs : List Out :=
      [.factory p.name (some 1), .session "connected"] ++
      (if s.vr then [Out.toMiner ("result id=1 value:{\"version-rolling\":true,\"version-rolling.mask\":\"" ++ p.mask ++ "\"}"),
                     Out.toPool p.name 1 "configure id=1 mask=1fffe000 minbits=2 contract=<nil>"] else []) ++
      [.toMiner s!"result id=2 value:[[[\"mining.set_difficulty\",\"1\"],[\"mining.notify\",\"1\"]],\"{p.en1}\",{p.en2size}]",
       .toMiner "result id=3 ok",
       .toMiner s!"set_difficulty [{p.diffTxt}]",
       .toMiner s!"notify job={job} clean=true ntime=64c25820",
       .toPool p.name 1 "subscribe id=2",
       .toPool p.name 1 s!"authorize id=3 user={user} pwd=pwd{p.name}"]
    ({ setPool s { p with conns := 1, jobN := 1 } with dests := [d], active := some d.key, negMask := if s.vr then p.mask else "" }, outs)

def emit (st : DSt) (r : Sess × List Out) : DSt × List String :=
  let amb := if r.1.ambiguous then ["AMBIGUOUS"] else []
  ({ st with s := r.1 }, amb ++ (sortOuts r.2).map showOut ++ stats r.1)

def step1 (st : DSt) : List String → DSt × List String
  | "cfg" :: rest =>
    ({ st with s := { st.s with maxCached := parseNat (kvGet rest "maxcached"), vr := kvGet rest "vr" = "1",
                                minerUser := kvGet rest "user", notPropagate := kvGet rest "notprop" = "1" } }, [])
  | "pool" :: name :: rest =>
    let v := match kvGet rest "reject" with | "err" => PoolVerdict.rejectErr | "false" => .rejectFalse | _ => .accept
    let p : PoolCfg := { name := name, mask := kvGet rest "mask", en1 := kvGet rest "en1",
                         en2size := parseNat (kvGet rest "en2size"), diffTxt := kvGet rest "diff",
                         diff := diffUnits (kvGet rest "diff"), verdict := v }
    ({ st with s := { st.s with pools := st.s.pools ++ [p] } }, [])
  | ["start"] => emit st (startSession st.s)
  | ["notify", pool, job, tmpl, clean] => emit st (onNotify st.s pool job tmpl (clean = "1"))
  | ["diff", pool, txt] => emit st (onDiff st.s pool txt (diffUnits txt))
  | ["xn", pool, xn1, size] => emit st (onExtranonce st.s pool xn1 (parseNat size))
  | ["vmask", pool, mask] => emit st (onMask st.s pool mask)
  | "submit" :: id :: _user :: job :: en2 :: nt :: no :: vb :: rest =>
    emit st (submit (powOf (parseSd rest) vb) st.s id job en2 nt no vb "s" (shareKey en2 nt no vb))
  | ["setdest", pool, cb] => emit st (switchTo st.s pool (cb = "cb"))
  | ["advance", t] => emit st ({ st.s with now := st.s.now + parseInt t }, [])
  | "poolflag" :: pool :: rest =>
    let v := match kvGet rest "reject" with | "err" => PoolVerdict.rejectErr | "false" => .rejectFalse | _ => .accept
    match findPool st.s pool with
    | some p => ({ st with s := setPool st.s { p with verdict := v } }, [])
    | none => (st, [])
  | _ => (st, ["bad-op"])

/-- every event after the start happens 1 ms after the previous one -/
def step (st : DSt) (toks : List String) : DSt × List String :=
  let st := if st.started then { st with s := { st.s with now := st.s.now + 1000000 } } else st
  let r := step1 st toks
  (if toks = ["start"] then { r.1 with started := true } else r.1, r.2)

def machine : Machine := { σ := DSt, init := {}, step := step }
end PRV.Driver.Sess
