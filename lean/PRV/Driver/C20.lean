import PRV.Driver.Core
import PRV.Gen.C20
import PRV.Model.Estimators
namespace PRV.Driver.C20
open PRV.Driver PRV.Gen.C20 PRV.Model.Est

/-- exact value of a non-negative finite Float -/
def floatToRat (f : Float) : Rat :=
  if f ≤ 0 then 0 else
    let (m, e) := f.frExp
    let n : Nat := (m * 9007199254740992.0).toUInt64.toNat   -- m * 2^53
    let k : Int := e - 53
    if k ≥ 0 then (n : Rat) * (2 : Rat) ^ k.toNat else (n : Rat) / (2 : Rat) ^ (-k).toNat

def intToFloat (i : Int) : Float := Float.ofInt i

/-- decay weight exp(-Δ/halfLife) as the exact value of the Float result -/
def decay (halfLife : Int) (Δ : Int) : Rat :=
  floatToRat (Float.exp (-(intToFloat Δ) / intToFloat halfLife))

structure St where
  mean : Mean := {}
  ema : Ema := {}
  halfLife : Int := 1
  emaSum : Rat := 0
  sma : Sma := { window := 1 }
  -- specification-level view of the mean: work added since the last reset, first event since then
  specTotal : Nat := 0
  specFirst : Option Int := none

def absR (a : Rat) : Rat := if a ≥ 0 then a else -a

/-- |a-b| ≤ rel*|a| + abs -/
def near (a b rel abs : Rat) : Bool := decide (absR (a - b) ≤ rel * absR a + abs)

def u53 : Rat := 1 / (2 : Rat) ^ 53

def finite (s : String) : Option Rat := parseRat s

def conv (f : String) (x : Rat) (d : Int) : Option Rat :=
  match f with
  | "JobSubmittedToHS" => some (jobSubmittedToHS x)
  | "HSToJobSubmitted" => some (hsToJobSubmitted x)
  | "GHSToJobSubmitted" => some (ghsToJobSubmitted x)
  | "JobSubmittedToGHS" => some (jobSubmittedToGHS x)
  | "GHSToJobSubmittedV2" => some (ghsToJobSubmittedV2 x d)
  | "JobSubmittedToGHSV2" => some (jobSubmittedToGHSV2 x d)
  | "GHSToHS" => some (ghsToHS x.floor)
  | "HSToGHS" => some (hsToGHS x)
  | _ => none

def mon (st : St) (op : List String) (outs : List (List String)) : St × List String :=
  match op, outs with
  | ["conv", f, x, d], [[r]] =>
    match parseRat x, finite r with
    | some x, some r =>
      match conv f x (parseInt d) with
      | some m =>
        if f = "HSToGHS" then
          -- the integer result may differ by one only when x/1e9 is within rounding of an integer
          let q := x / (10 : Rat) ^ 9
          let frac := q - (q.floor : Rat)
          let edge := decide (frac ≤ 4 * u53 * absR q) || decide (1 - frac ≤ 4 * u53 * absR q)
          (st, if m = r || edge then [] else [s!"CORR {f} model {showRat m} impl {showRat r}"])
        else (st, if near m r (8 * u53) 0 then [] else [s!"CORR {f} model {showRat m} impl {showRat r}"])
      | none => (st, ["CORR unknown function " ++ f])
    | _, _ => (st, [s!"PROP conversion result is not finite: {f} {r}"])
  | ["rt", kind, x, _d], [[r]] =>
    match parseRat x, finite r with
    | some x, some r =>
      -- proved: ≤ (1+u)^4-1 for the plain pair; the V2 pair has 10 rounded operations
      let bound := if kind = "plain" then 6 * u53 else 14 * u53
      (st, if near x r bound 0 then [] else [s!"PROP round trip {kind} off by more than the proved bound: {showRat x} -> {showRat r}"])
    | _, _ => (st, [s!"PROP round trip result is not finite: {r}"])
  | ["mnew"], _ => ({ st with mean := {}, specTotal := 0, specFirst := none }, [])
  | ["mstart", now], _ =>
    ({ st with mean := st.mean.start (parseInt now), specFirst := st.specFirst.or (some (parseInt now)) }, [])
  | ["madd", d, now], _ =>
    ({ st with mean := st.mean.add (parseNat d) (parseInt now), specTotal := st.specTotal + parseNat d,
               specFirst := st.specFirst.or (some (parseInt now)) }, [])
  | ["mreset"], _ => ({ st with mean := st.mean.reset, specTotal := 0, specFirst := none }, [])
  | ["mval", now, t], [[r]] =>
    let m := st.mean.valuePer (parseInt now) (parseInt t)
    match m, finite r with
    | some m, some r =>
      let specViol := match st.specFirst with
        | some f =>
          if f < parseInt now ∧ t = "1000000000" then
            let want : Rat := (st.specTotal : Rat) / ((parseInt now - f : Int) : Rat)
            if near want r (4 * u53) 0 then [] else
              [s!"PROP mean is not total work over elapsed time: work {st.specTotal} over {parseInt now - f}s, reported {showRat r}"]
          else []
        | none => []
      (st, specViol ++ (if near m r (4 * u53) 0 then [] else [s!"CORR mean model {showRat m} impl {showRat r}"]) ++
           (if r < 0 then ["PROP mean is negative"] else []))
    | none, some r => (st, [s!"CORR mean model divides by zero, impl {showRat r}"])
    | none, none => (st, if t = "1000000000" then [s!"PROP mean is not finite: {r}"] else [])
    | some _, none => (st, [s!"PROP mean is not finite: {r}"])
  | ["mtotal"], [[w, sh]] =>
    (st, if parseNat w = st.mean.totalWork ∧ parseNat sh = st.mean.shares then []
         else [s!"CORR mean totals model {st.mean.totalWork}/{st.mean.shares} impl {w}/{sh}"])
  | ["enew", hl], _ => ({ st with ema := {}, halfLife := parseInt hl, emaSum := 0 }, [])
  | ["eadd", v, now], _ =>
    match parseRat v with
    | some v => ({ st with ema := st.ema.add (decay st.halfLife) v (parseInt now), emaSum := st.emaSum + v }, [])
    | none => (st, ["CORR bad ema add"])
  | ["ereset"], _ => ({ st with ema := st.ema.reset, emaSum := 0 }, [])
  | ["eval", now], [[r]] =>
    match finite r with
    | some r =>
      let m := st.ema.valueAt (decay st.halfLife) (parseInt now)
      (st, (if near m r (1 / 1000000000) (1 / (10 : Rat) ^ 200) then [] else [s!"CORR ema model {showRat m} impl {showRat r}"]) ++
           (if r < 0 then ["PROP ema is negative"] else []) ++
           (if r > st.emaSum * (1 + 1 / 1000000000) then ["PROP ema exceeds everything that was added"] else []))
    | none => (st, [s!"PROP ema is not finite: {r}"])
  | ["snew", w], _ => ({ st with sma := { window := parseInt w } }, [])
  | ["sadd", v, now], _ => ({ st with sma := st.sma.add (parseInt v) (parseInt now) }, [])
  | ["sval", now], [[r]] =>
    let (s', m) := st.sma.value (parseInt now)
    let st := { st with sma := s' }
    match m, finite r with
    | some m, some r =>
      (st, (if near m r (4 * u53) 0 then [] else [s!"CORR sma model {showRat m} impl {showRat r}"]) ++
           (if r < 0 then ["PROP sma is negative"] else []))
    | _, none => (st, [s!"PROP sma is not finite: {r}"])
    | none, some _ => (st, ["CORR sma model undefined (window 0)"])
  | _, _ => (st, [])

def monitor : Monitor := { σ := St, init := {}, step := mon }

end PRV.Driver.C20
