import PRV.Driver.Core
import PRV.Model.Manager
namespace PRV.Driver.C16
open PRV.Driver PRV.Model.Manager

def kvGet (toks : List String) (k : String) : String :=
  ((toks.filterMap fun t => match t.splitOn "=" with
    | [a, v] => if a = k then some v else none
    | _ => none).head?).getD ""

def w (x : String) : String := if x = "-" then "" else x

structure DSt where
  s : St := { me := "me" }
  started : Bool := false
  pending : Option Ev := none      -- a purchase event whose eth_call is in flight

def watchedLine (s : St) : String :=
  let l := s.watched.mergeSort (· ≤ ·)
  "watched " ++ (if l.isEmpty then "-" else ",".intercalate l)

/-- controller starts / exits are reported in the order they happen -/
def diffOuts (before after : List String) : List String :=
  ((before.filter (fun a => !after.contains a)).map (fun a => s!"ctl exit {a}") ++
   (after.filter (fun a => !before.contains a)).map (fun a => s!"ctl start {a}")).mergeSort (· ≤ ·)

def step (st : DSt) (op : List String) : DSt × List String :=
  let apply (ev : Ev) : DSt × List String :=
    if !st.started then
      -- before the manager runs only the chain changes
      let s' := PRV.Model.Manager.step { st.s with watched := [] } ev
      ({ st with s := { s' with watched := [] } }, ["watched -"])
    else
      let s' := PRV.Model.Manager.step st.s ev
      ({ st with s := s' }, diffOuts st.s.watched s'.watched ++ [watchedLine s'])
  let restartWith (s1 : St) : DSt × List String :=
    let s' := PRV.Model.Manager.step s1 .restart
    ({ st with s := s', started := true },
     (st.s.watched.map (fun a => s!"ctl exit {a}") ++ s'.watched.map (fun a => s!"ctl start {a}")).mergeSort (· ≤ ·) ++ [watchedLine s'])
  match op with
  | "chain" :: a :: rest =>
    let c : Contract := { addr := a, seller := w (kvGet rest "seller"), buyer := w (kvGet rest "buyer"),
                          validator := w (kvGet rest "validator"), running := kvGet rest "state" = "1" }
    ({ st with s := setChain st.s c }, ["watched -"])
  | "startmgr" :: _ =>
    let s' := PRV.Model.Manager.step st.s .start
    ({ s := s', started := true }, diffOuts [] s'.watched ++ [watchedLine s'])
  | "restart" :: _ =>
    let s' := PRV.Model.Manager.step st.s .restart
    ({ s := s', started := true },
     (st.s.watched.map (fun a => s!"ctl exit {a}") ++ s'.watched.map (fun a => s!"ctl start {a}")).mergeSort (· ≤ ·) ++ [watchedLine s'])
  | "created" :: a :: rest =>
    if kvGet rest "rpcfail" = "" ∨ !st.started then apply (.created a (w (kvGet rest "seller"))) else
    -- the handler cannot read the contract: the manager ends, the supervisor starts the process again (a fresh scan)
    restartWith (setChain st.s { addr := a, seller := w (kvGet rest "seller") })
  | "purchased" :: a :: rest =>
    if kvGet rest "rpcfail" = "" ∨ !st.started then apply (.purchased a (w (kvGet rest "buyer")) (w (kvGet rest "validator"))) else
    match find st.s a with
    | some c => restartWith (setChain st.s { c with buyer := w (kvGet rest "buyer"), validator := w (kvGet rest "validator"), running := true })
    | none => restartWith st.s
  | "purchasedslow" :: a :: rest =>
    -- the chain changes now, the event is handled when the node's answer arrives
    match find st.s a with
    | some c =>
      let b := w (kvGet rest "buyer"); let v := w (kvGet rest "validator")
      ({ st with s := setChain st.s { c with buyer := b, validator := v, running := true }, pending := some (.purchased a b v) },
       [watchedLine st.s])
    | none => (st, [watchedLine st.s])
  | ["rpcrelease"] =>
    match st.pending with
    | some ev => let r := apply ev; ({ r.1 with pending := none }, r.2)
    | none => (st, [watchedLine st.s])
  | ["closed", a] => apply (.closed a)
  | ["ctlexit", a] => apply (.ctlExit a)
  -- the harness did not let the controller of the purchase that is running on chain return (C10: a buyer /
  -- validator controller returns when its purchase has ended): nothing happens
  | ["ctlexit-refused", _] => (st, [watchedLine st.s])
  | ["deleted", a, _] =>
    let r := apply (.deleteFlag a)
    (r.1, ((if st.started ∧ st.s.watched.contains a then [s!"ctl sync {a}"] else []) ++ r.2.dropLast).mergeSort (· ≤ ·) ++ r.2.getLast?.toList)
  | ["settled"] => (st, [watchedLine st.s])
  | _ => (st, ["bad-op"])

def machine : Machine := { σ := DSt, init := {}, step := step }

/-- monitor: at the end of a history (`settle` marker op) the watched set is the specified one -/
def monStep (st : DSt) (op : List String) (outs : List (List String)) : DSt × List String :=
  let r := step st op
  let watchedImpl := ((outs.find? (·.head? = some "watched")).getD []).drop 1
  let implSet : List String := match watchedImpl with | ["-"] => [] | [l] => l.splitOn "," | _ => []
  match op with
  | ["settled"] =>
    let want := (shouldWatch st.s).mergeSort (· ≤ ·)
    (st, if implSet = want then [] else [s!"PROP once the events have settled the node watches {implSet}, its own contracts are {want}"])
  | _ => (r.1, [])

def monitor : Monitor := { σ := DSt, init := {}, step := monStep }


/-! ### the buyer / validator side end to end (harness/contractmanager/verif_buyerworld_test.go): one purchase per history -/

def bwKv (toks : List String) (k : String) : String :=
  ((toks.filterMap fun t => match t.splitOn "=" with | [a, v] => if a = k then some v else none | _ => none).head?).getD ""

def monBW (_ : Unit) (op : List String) (outs : List (List String)) : Unit × List String :=
  match op with
  | "world" :: w =>
    let role := bwKv w "role"; let dest := bwKv w "dest"; let fault := bwKv w "fault"
    let ended := outs.any (· == ["mgr", "ended"])
    let ctr := (outs.find? (·.head? = some "ctr")).getD []
    let fin := if ended then (outs.find? (·.head? = some "restarted")).getD [] else ctr
    let own : Bool := role != "none"
    let watched : Bool := bwKv fin "watched" == "1"
    let pd := bwKv fin "pooldest"; let err : Bool := bwKv fin "err" == "1"
    let hung := if outs.any (·.head? = some "hung") then ["C16 the history did not come to rest"] else []
    let c16 :=
      (if own && !watched then [s!"C16 a contract purchased with this node as {role} is not watched once things have settled (fault: {fault}; the manager {if ended then "ended and was restarted" else "kept running"})"] else []) ++
      (if !own && watched then ["C16 a contract of other parties is watched"] else [])
    let c15 := if watched && dest == "ok" && (pd != "ok" || err) then
      [s!"C15 a contract held as {role} whose pool destination decrypts is routed to '{pd}' (error flag {err}): connections announcing it are not attached to its pool"] else []
    let c18 :=
      (if watched && (dest == "foreign" || dest == "garbage" || dest == "noturl") && !err then
        [s!"C18 a pool destination that cannot be decrypted or parsed ({dest}) raised no error: the contract is served with pool '{pd}'"] else []) ++
      (if watched && dest != "empty" && pd == "default" && !err then
        [s!"C18 a contract whose chain entry carries an encrypted pool destination ({dest}) is served with the node's default pool and no error (fault: {fault}): not fail-closed"] else [])
    ((), hung ++ c16 ++ c15 ++ c18)
  | _ => ((), [])

def monitorBW : Monitor := { σ := Unit, init := (), step := monBW }

end PRV.Driver.C16
