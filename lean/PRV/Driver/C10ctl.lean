import PRV.Driver.Core
import PRV.Model.BuyerCheck
/-
Monitor for C10's close / retry loop on the buyer-controller harness: the transactions the real
ControllerBuyer sent to the (fake) node are judged against `Model.Buyer.closeLoop` / `reasonFor`
(the regenerated reason chain and retry delay) and against the property's clauses.
-/
namespace PRV.Driver.C10ctl
open PRV.Driver
open PRV.Model.Buyer
open PRV.Gen.C10

def kvGet (toks : List String) (k : String) : String :=
  ((toks.filterMap fun t => match t.splitOn "=" with
    | [a, v] => if a = k then some v else none
    | _ => none).head?).getD ""

structure Attempt where
  reason : Nat
  at_ : Int      -- s since the purchase
  ok : Bool

structure St where
  now : Int := 0
  len : Int := 0
  sto : Int := 0
  lastShare : Int := 0                -- last share of this purchase (the purchase itself counts as one)
  maxGap : Int := 0                   -- longest silence seen in this purchase
  attempts : List Attempt := []
  closedAt : Option Int := none       -- somebody else closed the contract (event emitted)
  cancelled : Bool := false
  faultSeenAt : Option Int := none    -- first observation at which the watcher had ended with a fault
  done : Bool := false                -- complaints are reported once per history

/-- the sentinel error the watcher's verdict `Is` -/
def sentinel (werr : String) : String :=
  if werr = "sharetimeout" then "ErrShareTimeout" else if werr = "underdelivery" then "ErrUnderdelivery"
  else if werr = "dest" then "ErrContractDest" else ""

def isFault (werr : String) : Bool := werr = "sharetimeout" || werr = "underdelivery" || werr = "dest" || werr.startsWith "other"

/-- the observed transactions as the model's actions: a close, then the pause before the next one -/
def observed : List Attempt → List Action
  | [] => []
  | [a] => [.closeEarly a.reason]
  | a :: b :: rest => .closeEarly a.reason :: .sleep ((b.at_ - a.at_) * 1000000000) :: observed (b :: rest)

def mon (st : St) (op : List String) (outs : List (List String)) : St × List String :=
  let st1 : St := match op with
    | "start" :: rest => { st with len := parseInt (kvGet rest "len"), sto := parseInt (kvGet rest "sto") }
    | "repurchase" :: rest => { len := parseInt (kvGet rest "len"), sto := st.sto, done := st.done }
    | ["advance", s] => { st with now := st.now + parseInt s, maxGap := max st.maxGap (st.now + parseInt s - st.lastShare) }
    | ["share"] => { st with lastShare := st.now }
    | ["closedevent"] => { st with closedAt := some (st.closedAt.getD st.now) }
    | ["cancel"] => { st with cancelled := true }
    | _ => st
  let ctl := (outs.find? (·.head? = some "ctl")).getD []
  let werr := kvGet ctl "werr"
  let alive : Bool := kvGet ctl "alive" = "1"
  let ret := kvGet ctl "ret"
  let newTx := (outs.filter (·.head? = some "tx")).map fun t =>
    ({ reason := parseNat (kvGet t "reason"), at_ := parseInt (kvGet t "at"), ok := kvGet t "ok" = "1" } : Attempt)
  let st2 := { st1 with attempts := st1.attempts ++ newTx,
                        faultSeenAt := if isFault werr then some (st1.faultSeenAt.getD st1.now) else st1.faultSeenAt }
  if st2.done then (st2, []) else
  let atts := st2.attempts
  let expReason := reasonFor (fun s => s = sentinel werr)
  -- K2: nothing is sent unless the watcher ended with a delivery fault
  let k2 := if !isFault werr ∧ !atts.isEmpty then
      [s!"PROP a close transaction was sent although the validation had not found a fault (watcher: {werr})"] else []
  -- K0: a share-timeout verdict needs a silence longer than the timeout within this purchase
  let k0 := if werr = "sharetimeout" ∧ st2.maxGap ≤ st2.sto then
      [s!"PROP the validation reported a share timeout {st2.now} s into the purchase; the longest silence since the purchase was {st2.maxGap} s, the timeout is {st2.sto} s"] else []
  -- K1: the reason is the verdict's
  let k1 := if isFault werr then (atts.filter (·.reason ≠ expReason)).take 1 |>.map fun a =>
      s!"PROP the contract was closed with reason {a.reason}; the verdict was {werr}, whose reason is {expReason}" else []
  -- K3: the sequence of transactions is the model's close loop: retry every `retryDelay` until one succeeds, then stop
  let rounds := atts.map fun a => (false, a.ok)
  -- after a failed transaction the model pauses; that pause is still running when the history is observed
  let expected0 := closeLoop expReason rounds
  let expected := match atts.getLast? with
    | some a => if a.ok then expected0 else expected0.dropLast
    | none => expected0
  let k3 := if isFault werr ∧ k1.isEmpty ∧ observed atts ≠ expected then
      (if (observed atts).length > expected.length then
        [s!"PROP a close transaction was sent after one had succeeded ({atts.length} transactions, the model's close loop sends {(expected.filter fun a => match a with | .closeEarly _ => true | _ => false).length})"]
       else [s!"PROP the close transactions do not follow the retry loop (one every {retryDelay / 1000000000} s until one succeeds): sent at {atts.map (·.at_)} s"]) else []
  let succeeded := atts.any (·.ok)
  -- K6: once a close has succeeded the controller is finished
  let k6 := if succeeded ∧ (alive ∨ ret ≠ "nil") ∧ !st2.cancelled then
      [s!"PROP the contract was closed by the controller, which is still running (alive={alive} ret={ret})"] else []
  -- K4: while every transaction fails, nobody else closes and the contract has time left, the controller keeps trying
  let expired := decide (st2.now ≥ st2.len)
  let k4 := match atts.head?, st2.faultSeenAt with
    | some a0, _ =>
      if isFault werr ∧ !succeeded ∧ st2.closedAt.isNone ∧ !expired ∧ !st2.cancelled ∧
         (atts.length : Int) ≠ (st2.now - a0.at_) / (retryDelay / 1000000000) + 1 then
        [s!"PROP the controller stopped retrying: {atts.length} close transactions in the {st2.now - a0.at_} s since the first one failed, the retry delay is {retryDelay / 1000000000} s"] else []
    | none, some t =>
      if isFault werr ∧ st2.closedAt.isNone ∧ !st2.cancelled ∧ st2.now < st2.len ∧ t < st2.len then
        [s!"PROP the validation found a fault ({werr}) and no close transaction was sent"] else []
    | none, none => []
  -- K5: a contract closed by somebody else is not closed again: the retry loop ends once the event is seen
  let k5 := match st2.closedAt with
    | some t =>
      let after := atts.filter (·.at_ > t)
      if st2.now - t ≥ 350 ∧ !st2.cancelled ∧ (after.length > 30 ∨ alive) then
        [s!"PROP the contract was closed by somebody else {st2.now - t} s ago and the controller is still trying to close it: {after.length} close transactions since (alive={alive})"] else []
    | none => []
  let cs := k0 ++ k2 ++ k1 ++ k3 ++ k6 ++ k4 ++ k5
  ({ st2 with done := !cs.isEmpty }, cs)

def monitor : Monitor := { σ := St, init := {}, step := mon }

end PRV.Driver.C10ctl
