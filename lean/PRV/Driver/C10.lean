import PRV.Driver.Core
import PRV.Model.BuyerCheck
import PRV.Spec.C10
namespace PRV.Driver.C10
open PRV.Driver PRV.Model.Buyer PRV.Gen.C10 PRV.Spec.C10

def showVerdict : Verdict → String
  | .ok => "ok" | .shareTimeout => "sharetimeout" | .underdelivery => "underdelivery"
  | .finished => "finished"

def optInt (s : String) : Option Int := if s = "none" then none else s.toInt?

/-- relative closeness used when an exact rational is compared with a float64 result -/
def close (a b : Rat) : Bool :=
  let d := if a ≥ b then a - b else b - a
  let m := if a ≥ 0 then a else -a
  decide (d ≤ m / 1000000000000 + 1 / (10 : Rat) ^ 300)

/-- model mode: the transcript of the model for ops whose output is deterministic text -/
def step (st : Unit) : List String → Unit × List String
  | ["chk", now, vs, endT, fin, last, fs, sto, target, actual, thr, flat] =>
    match parseRat target, parseRat actual, parseRat thr with
    | some t, some a, some th =>
      let i : CheckIn := {
        now := parseInt now
        validatorStart := parseInt vs
        endTime := optInt endT
        finishedBefore := (fin = "1")
        -- the code keeps the last submit time in whole unix seconds (Mean.lastSubmitTime); the bubble's clock starts on a whole second
        lastShare := (optInt last).map fun x => x / 1000000000 * 1000000000
        fulfilStart := parseInt fs
        shareTimeout := parseInt sto
        target := t
        actual := a
        threshold := th
        flatness := parseInt flat }
      let r := check i
      (st, [showVerdict r.1 ++ " " ++ (if r.2 then "1" else "0")])
    | _, _, _ => (st, ["bad-op"])
  | ["reason", e] => (st, [toString (reasonFor (· = e))])
  | ["consts"] => (st, [s!"{skipPeriod} {retryDelay}"])
  | "tol" :: _ => (st, [])      -- judged by the monitor (float result)
  | "tolpair" :: _ => (st, [])
  | _ => (st, ["bad-op"])

def machine : Machine := { σ := Unit, init := (), step := step }

/-- monitor mode: tolerance observations against the generated definition (correspondence, up to
float rounding) and against the specification clauses (property). -/
def mon (st : Unit) (op : List String) (outs : List (List String)) : Unit × List String :=
  match op, outs with
  | ["tol", e, m, f, s], [[r]] =>
    match parseRat m, parseRat r with
    | some m, some r =>
      let e := parseInt e; let f := parseInt f; let s := parseInt s
      let model := getMaxGlobalError e m f s
      let c1 := if close model r then [] else [s!"CORR model {showRat model} impl {showRat r}"]
      (st, c1 ++ (tolClauses e m f s r).map ("PROP " ++ ·))
    | _, _ => (st, [s!"PROP tolerance is not a finite number: {r}"])
  | ["tolpair", e1, e2, _m, _f, _s], [[r1], [r2]] =>
    match parseRat r1, parseRat r2 with
    | some r1, some r2 => (st, (tolPairClauses (parseInt e1) (parseInt e2) r1 r2).map ("PROP " ++ ·))
    | _, _ => (st, ["PROP tolerance is not a finite number"])
  | _, _ => (st, [])

def monitor : Monitor := { σ := Unit, init := (), step := mon }

end PRV.Driver.C10
