import PRV.Driver.Core
import PRV.Model.Parse
import PRV.Base.Hex
/-
Monitor for C05's parser transcript: `> parse <hex>` with `< shape …` (the JSON shape of the line,
decoded independently of the repository's structs) and `< verdict ok <kind> | unknown | invalid | panic`.
The expected verdict is recomputed from the shape with Model/Parse.lean.
-/
namespace PRV.Driver.C05
open PRV.Driver PRV.Model.Parse PRV.Base

def bytesStr (b : List Nat) : String := String.ofList (b.map Char.ofNat)

/-- recursive-descent parser of the one-token JSON shape -/
partial def pJV (cs : List Char) : Option (JV × List Char) :=
  match cs with
  | '-' :: r => some (.absent, r)
  | 'N' :: r => some (.null, r)
  | 'B' :: r => some (.bool, r)
  | 'D' :: r => some (.dec, r)
  | 'I' :: r =>
    let lit := r.takeWhile (fun c => c.isDigit || c == '-')
    some (.int ((String.ofList lit).toInt?.getD 0), r.drop lit.length)
  | 'S' :: r =>
    let h := r.takeWhile (fun c => c.isAlphanum || c == '-')
    let s := if h == ['-'] then "" else bytesStr (hexDecode (String.ofList h))
    some (.str s, r.drop h.length)
  | 'A' :: '[' :: r =>
    let rec items (cs : List Char) (acc : List JV) : Option (List JV × List Char) :=
      match cs with
      | ']' :: r => some (acc.reverse, r)
      | ',' :: r => items r acc
      | _ => match pJV cs with
        | some (v, r) => items r (v :: acc)
        | none => none
    (items r []).map fun (l, r) => (.arr l, r)
  | 'O' :: '[' :: r =>
    match pJV r with
    | some (a, ';' :: r1) => match pJV r1 with
      | some (b, ';' :: r2) => match pJV r2 with
        | some (c, ';' :: r3) => match pJV r3 with
          | some (d, ']' :: r4) => some (.obj a b c d, r4)
          | _ => none
        | _ => none
      | _ => none
    | _ => none
  | _ => none

def jv (t : String) : JV := match pJV t.toList with | some (v, _) => v | none => .absent

def field (toks : List String) (k : String) : JV :=
  match toks.find? (·.startsWith (k ++ "=")) with
  | some t => jv (String.ofList (t.toList.drop (k.length + 1)))
  | none => .absent

def expected : List String → Verdict
  | ["shape", "notjson"] => .invalid
  | ["shape", "top", t] => match jv t with | .null => .unknown | _ => .invalid
  | "shape" :: "obj" :: rest => objectVerdict (field rest "id") (field rest "method") (field rest "params") (field rest "result") (field rest "error")
  | _ => .invalid

def showV : Verdict → List String
  | .ok k => ["verdict", "ok", k]
  | .unknown => ["verdict", "unknown"]
  | .invalid => ["verdict", "invalid"]

/-- session transcripts: what a hostile line must not do to others.
 * a line from a parked pool leaves the relay between the miner and its active pool alone: nothing is
   closed but (possibly) the parked connection itself, and the miner's next share is answered;
 * the second connection of the process completes its handshake whatever the first one received. -/
structure SSt where
  active : String := "pa"
  parkedHit : Bool := false

def monS (st : SSt) (op : List String) (outs : List (List String)) : SSt × List String :=
  match op with
  | ["start"] => ({ active := "pa", parkedHit := false }, [])
  | ["setdest", p, _] => if outs.any (· == ["session", "setdest-ret", "nil"]) then ({ st with active := p }, []) else (st, [])
  | ["praw", p, _] =>
    if p = st.active then (st, []) else
    let bad := outs.filter fun o => match o with
      | ["tominer", "closed"] => true
      | "session" :: "run-exited" :: _ => true
      | ["topool", pc, "closed"] => pc.startsWith (st.active ++ ".")
      | _ => false
    ({ st with parkedHit := true }, if bad.isEmpty then [] else [s!"PROP a line from the parked pool {p} disturbed the active relay: {bad}"])
  | "submit" :: id :: _ =>
    if st.parkedHit then
      let answered := outs.any fun o => match o with | "tominer" :: "result" :: r => r.any (· == s!"id={id}") | _ => false
      ({ st with parkedHit := false }, if answered then [] else [s!"PROP after a line from a parked pool the miner's share {id} for its active pool was not answered"])
    else (st, [])
  | ["p", "1", "res", "3", "ok"] =>
    if outs.any (· == ["k1", "session", "connected"]) then (st, [])
    else (st, ["PROP the second connection of the process did not complete its handshake"])
  | _ => (st, [])

def monitorS : Monitor := { σ := SSt, init := {}, step := monS }

def mon (st : Unit) (op : List String) (outs : List (List String)) : Unit × List String :=
  match op with
  | ["parse", _] =>
    match outs with
    | [shape, verdict] =>
      if verdict = ["verdict", "panic"] then (st, ["PROP the parser panicked"])
      else
        let want := showV (expected shape)
        if verdict = want then (st, [])
        else (st, [s!"CORR the parser answered {verdict}, the model of the decoding and validation says {want} for {shape}"])
    | _ => (st, ["CORR malformed transcript"])
  | _ => (st, [])

def monitor : Monitor := { σ := Unit, init := (), step := mon }
end PRV.Driver.C05
