import PRV.Driver.Core
import PRV.Driver.Sess
import PRV.Model.Life
/-
Driver for the lifecycle model (C06; regular fragment: faults of the active / a parked connection,
reconnects that succeed, are refused or are not authorised, miner disconnect, shutdown).
-/
namespace PRV.Driver.Life
open PRV.Driver PRV.Model PRV.Model.Session PRV.Model.Life PRV.Driver.Sess

structure St where
  l : Life := { s := { maxCached := 2, vr := false, minerUser := "acct.rig7", notPropagate := false,
                       cleanTimeout := 120000000000, idle := 600000000000 } }
  started : Bool := false

def stateLine (l : Life) : String :=
  let live := (l.s.dests.map fun d => s!"{d.pool}.{d.conn}").mergeSort (· ≤ ·)
  let liveTxt := if live.isEmpty then "-" else ",".intercalate live
  match l.phase with
  | .relaying => s!"state live={liveTxt} runs=1 pipes=1 sched=running listed=1"
  | .waiting _ => s!"state live={liveTxt} runs=1 pipes=0 sched=running listed=1"
  | .released _ => s!"state live={liveTxt} runs=0 pipes=0 sched=exited listed=0"

/-- the TCP handler reports nothing about the session itself: session events are not observable -/
def observable : Out → Bool
  | .session _ => false
  | _ => true

def emit (st : St) (r : Life × List Out) : St × List String :=
  ({ st with l := r.1 }, (sortOuts (r.2.filter observable)).map showOut ++ [stateLine r.1])

def setFlag (l : List (String × Bool)) (p : String) (b : Bool) : List (String × Bool) := (l.filter (·.1 ≠ p)) ++ [(p, b)]

def inSess (l : Life) (f : Sess → Sess × List Out) : Life × List Out :=
  match l.phase with
  | .relaying => let r := f l.s; ({ l with s := r.1 }, r.2)
  | _ => (l, [])

def cfgOp (st : St) : List String → Option St
  | "cfg" :: rest =>
    some { st with l := { st.l with s := { st.l.s with maxCached := parseNat (kvGet rest "maxcached"),
                                                       idle := (parseInt (kvGet rest "idle")) * 1000000 } } }
  | "pool" :: name :: rest =>
    let p : PoolCfg := { name := name, mask := "1fffe000", en1 := "ffee", en2size := 4, diffTxt := "0", diff := 0, verdict := .accept }
    some { st with l := { st.l with s := { st.l.s with pools := st.l.s.pools ++ [p] },
                                    reach := setFlag st.l.reach name (kvGet rest "reach" ≠ "0"),
                                    auth := setFlag st.l.auth name (kvGet rest "auth" ≠ "0") } }
  | ["poolreach", p, b] => some { st with l := { st.l with reach := setFlag st.l.reach p (b ≠ "0") } }
  | ["poolauth", p, b] => some { st with l := { st.l with auth := setFlag st.l.auth p (b ≠ "0") } }
  | ["reportcb"] => some st
  | _ => none

def evOp (l : Life) : List String → Option (Life × List Out)
  | "poolclose" :: p :: _ => some (poolClose l p)
  | ["pnotify", p, job] => some (inSess l fun s => onNotify s p job "t0" false)
  | ["msubmit", id, job] =>
    let nonce := String.ofList (List.replicate (8 - id.length) '0') ++ id
    some (inSess l fun s => submit pow0 s id job "00000001" "64c25820" nonce "-" "s" (shareKey "00000001" "64c25820" nonce "-"))
  -- a contract task longer than the history: the scheduler changes the destination at once, with the task's callback
  | ["task", _id, p, _ms] => some (inSess l fun s => switchTo s p true)
  | ["minerclose"] => some (minerClose l)
  | ["shutdown"] => some (shutdown l)
  | ["advance", ms] => some (tick l ((parseInt ms) * 1000000))
  | _ => none

/-- every event after `start` happens one millisecond after the previous one (the reconnect may fire
in that millisecond; what it produces is reported with the event) -/
def step (st : St) (op : List String) : St × List String :=
  match cfgOp st op with
  | some st' => (st', [])
  | none =>
    if op = ["start"] then
      let r := startSession st.l.s
      -- (the lifecycle harness does not report the end of the handshake as a session event)
      emit { st with started := true } ({ st.l with s := r.1 }, r.2.filter (· ≠ Out.session "connected"))
    else
      let t := tick st.l 1000000
      match evOp t.1 op with
      | some r => emit st (r.1, t.2 ++ r.2)
      | none => (st, ["bad-op"])

def machine : Machine := { σ := St, init := {}, step := step }

end PRV.Driver.Life
