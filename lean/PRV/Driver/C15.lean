import PRV.Driver.Core
import PRV.Model.Handshake
/-
Driver for C15: several connections in one process, each its own `HS`; ops as in
harness/proxy/verif_c15_test.go.  Outputs are prefixed with the connection (`k<n>`), streams in
the order factory, session, tominer, topool.
-/
namespace PRV.Driver.C15

def kvGet (toks : List String) (k : String) : String :=
  match toks.find? (fun t => t.startsWith (k ++ "=")) with
  | some t => String.ofList (t.toList.drop (k.length + 1))
  | none => ""
open PRV.Driver PRV.Model.Handshake

structure St where
  notProp : Bool := false
  pools : List PoolUrl := []
  reach : List String := []
  contracts : List Contract := []
  conns : List (Nat × HS) := []

def mkUrl (h : String) : PoolUrl := { host := h, user := "acct" ++ h ++ ".w" ++ h, pwd := "pwd" ++ h }

def rank : Out → Nat
  | .factory _ => 0 | .session _ => 1 | .toMiner _ => 2 | .toPool _ _ _ => 3

def showOut (k : Nat) : Out → String
  | .factory l => s!"k{k} factory {l}"
  | .session l => s!"k{k} session {l}"
  | .toMiner l => s!"k{k} tominer {l}"
  | .toPool p n l => s!"k{k} topool {p}.{n} {l}"

def sortOuts (os : List Out) : List Out :=
  (os.filter (rank · = 0)) ++ (os.filter (rank · = 1)) ++ (os.filter (rank · = 2)) ++ (os.filter (rank · = 3))

def apply (st : St) (k : Nat) (ev : Ev) : St × List String :=
  match st.conns.find? (·.1 = k) with
  | none => (st, [])
  | some (_, hs) =>
    let r := step hs ev
    ({ st with conns := st.conns.map fun (i, h) => if i = k then (i, r.1) else (i, h) }, (sortOuts r.2).map (showOut k))

def resPayload : String → String
  | "ok" => "ok"
  | "false" => "false"
  | _ => "err:[24,\"Unauthorized\",null]"

def step1 (st : St) : List String → St × List String
  | "cfg" :: rest => ({ st with notProp := kvGet rest "notprop" = "1" }, [])
  | "pool" :: h :: rest =>
    ({ st with pools := st.pools ++ [mkUrl h], reach := if kvGet rest "reach" = "1" then st.reach ++ [h] else st.reach }, [])
  | ["contract", id, v, p] => ({ st with contracts := st.contracts ++ [{ id := id, validator := v, pool := p }] }, [])
  | ["conn", k] =>
    match st.pools.head? with
    | none => (st, ["bad-op"])
    | some d =>
      let hs : HS := { notPropagate := st.notProp, defaultPool := d, pools := st.pools, reachable := st.reach, contracts := st.contracts }
      ({ st with conns := (st.conns.filter (·.1 ≠ parseNat k)) ++ [(parseNat k, hs)] }, [])
  | ["m", k, "configure", id, mask, minbits, c] => apply st (parseNat k) (.mConfigure id mask minbits (if c = "-" then "" else c))
  | ["m", k, "subscribe", id] => apply st (parseNat k) (.mSubscribe id)
  | ["m", k, "authorize", id, user] => apply st (parseNat k) (.mAuthorize id user)
  | ["m", k, "submit"] => apply st (parseNat k) .mSubmit
  | ["p", k, "cfgres", id, mask] => apply st (parseNat k) (.pCfgResult id mask)
  | ["p", k, "subres", id, en1, size] => apply st (parseNat k) (.pSubResult id en1 (parseNat size))
  | ["p", k, "res", id, v] => apply st (parseNat k) (.pResult id (v = "ok") (resPayload v))
  | ["p", k, "notify", job] => apply st (parseNat k) (.pNotify job)
  | ["p", k, "diff", d] => apply st (parseNat k) (.pDiff d)
  | ["p", k, "xn", en1, size] => apply st (parseNat k) (.pExtranonce en1 (parseNat size))
  | ["p", k, "vmask", m] => apply st (parseNat k) (.pMask m)
  | _ => (st, ["bad-op"])

/-- pool events only reach a connection that has a destination -/
def step (st : St) (op : List String) : St × List String :=
  match op with
  | "p" :: k :: _ =>
    match st.conns.find? (·.1 = parseNat k) with
    | some (_, hs) => if hs.dest.isNone then (st, []) else step1 st op
    | none => (st, [])
  | _ => step1 st op

def machine : Machine := { σ := St, init := {}, step := step }

end PRV.Driver.C15
