import PRV.Driver.Core
import PRV.Model.Conn
import PRV.Base.Hex
/-
Driver for C14.
read cases:   send <hex> | read | cancel        outputs: msg <hex> | invalid | blocked | cancelled | busy | idle
write cases:  w <id> <hex> <cut|-> …            (sequential writes) outputs: ok | cancelled | closed, and `wire <hex>` after `wire`
The monitor judges concurrent-writer cases (`cw` ops) on the final wire.
-/
namespace PRV.Driver.C14
open PRV.Driver PRV.Model.Conn PRV.Base

def strBytes (s : String) : List Nat := s.toList.map (·.toNat)

def startsWith (l p : List Nat) : Bool := l.take p.length == p

/-- the harness's line conventions -/
def classify (l : List Nat) : Kind :=
  if startsWith l (strBytes "{\"id\":null,\"method\":\"mining.") then .known
  else if startsWith l (strBytes "{\"id\":9") then .known      -- answers: ids 900.., no method
  else if startsWith l (strBytes "{\"id\":7,\"method\":\"foo.") then .unknown
  else .invalid

structure St where
  r : RSt := {}
  reading : Bool := false
  w : WSt := {}

def dec (s : String) : List Nat := if s = "-" then [] else hexDecode s
def enc (b : List Nat) : String := if b.isEmpty then "-" else hexEncode b

def showR : ROut → List String
  | .msg l => [s!"msg {enc l.dropLast}"]
  | .invalid _ => ["invalid"]
  | .blocked => ["blocked"]

def tryRead (st : St) : St × List String :=
  let r := readCall classify st.r
  match r.2 with
  | .blocked => ({ st with r := r.1, reading := true }, ["blocked"])
  | o => ({ st with r := r.1, reading := false }, showR o)

def step (st : St) : List String → St × List String
  | ["send", h] =>
    let st := { st with r := recv st.r (dec h) }
    if st.reading then
      let t := tryRead st
      (t.1, if t.1.reading then [] else t.2)
    else (st, [])
  -- bytes arrive and the pending read's context is cancelled at that instant
  | ["sendc", h] =>
    let st := { st with r := recv st.r (dec h) }
    if st.reading then
      let t := readCancelled classify st.r
      ({ st with r := t.1, reading := false }, match t.2 with | some o => showR o | none => ["cancelled"])
    else (st, [])
  | ["read"] => if st.reading then (st, ["busy"]) else tryRead st
  -- a Read cancelled between its start and the clearing of its deadline returns the cancellation and takes nothing
  | ["readx"] => if st.reading then (st, ["busy"]) else (st, ["cancelled"])
  | ["cancel"] =>
    if st.reading then ({ st with r := cancel st.r st.r.pending.length, reading := false }, ["cancelled"])
    else (st, ["idle"])
  | ["w", _id, h, cut] =>
    let r := write st.w (dec h) (if cut = "-" then none else some (parseNat cut))
    ({ st with w := r.1 }, [match r.2 with | .ok => "ok" | .cancelled => "cancelled" | .closedErr => "closed"])
  | ["wire"] => (st, [s!"wire {enc st.w.wire}"])
  | _ => (st, ["bad-op"])

def machine : Machine := { σ := St, init := {}, step := step }

/-! ### monitor for concurrent writers: the wire is a sequence of whole messages -/

structure MonSt where
  msgs : List (String × List Nat) := []     -- id, bytes
  okIds : List String := []
  cutIds : List String := []

/-- peel complete lines -/
def linesOf : Nat → List Nat → List (List Nat) × List Nat
  | 0, p => ([], p)
  | fuel + 1, p => match takeLine p with
    | none => ([], p)
    | some (l, r) => let x := linesOf fuel r; (l :: x.1, x.2)

def mon (st : MonSt) (op : List String) (outs : List (List String)) : MonSt × List String :=
  match op with
  | ["cw", id, h] => ({ st with msgs := st.msgs ++ [(id, dec h)] }, [])
  | "cres" :: _ =>
    -- results of the concurrent writes: `< res <id> ok|cancelled|closed`
    let oks := outs.filterMap fun o => match o with | ["res", id, "ok"] => some id | _ => none
    let cuts := outs.filterMap fun o => match o with | ["res", id, "cancelled"] => some id | _ => none
    ({ st with okIds := st.okIds ++ oks, cutIds := st.cutIds ++ cuts }, [])
  | ["cwire"] =>
    match outs with
    | [["wire", h]] =>
      let wire := dec h
      let (ls, tail) := linesOf (wire.length + 1) wire
      let bodies := ls.map (·.dropLast)
      let known := st.msgs.map (·.2)
      let c1 := if bodies.all (known.contains ·) then [] else ["PROP the wire carries a line that is not one of the written messages (interleaved or corrupted bytes)"]
      let okBodies := st.msgs.filterMap fun (id, b) => if st.okIds.contains id then some b else none
      let c2 := if okBodies.all (fun b => (bodies.filter (· == b)).length = (okBodies.filter (· == b)).length) then []
                else ["PROP a message whose Write returned nil is not on the wire exactly once"]
      let c3 := if tail.isEmpty then [] else
        (if st.cutIds.isEmpty then ["PROP the wire ends in a fragment although no write was cut"] else [])
      (st, c1 ++ c2 ++ c3)
    | _ => (st, ["CORR no wire line"])
  | _ => (st, [])

def monitor : Monitor := { σ := MonSt, init := {}, step := mon }

end PRV.Driver.C14
