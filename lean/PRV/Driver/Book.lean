import PRV.Driver.Core
import PRV.Model.WorkerBook
/-
Driver for the per-worker share record (GlobalHashrate):  init <w> | submit <w> <diff> | reset <w> | advance <s>
after every op: `w=<last|-,work|-> …` for the three worker names of the harness.  The bubble's clock starts at 2000-01-01T00:00:00Z.
-/
namespace PRV.Driver.Book
open PRV.Driver PRV.Model.WorkerBook

structure St where
  b : Book := []
  now : Int := 946684800

def names : List String := ["wa", "wb", "0xc1"]

def showW (b : Book) (w : String) : String :=
  let l := match lastSubmit b w with | some t => toString t | none => "-"
  let k := match totalWork b w with | some t => toString t | none => "-"
  s!"{w}={l},{k}"

def obs (st : St) : List String := [" ".intercalate (names.map (showW st.b))]

def step (st : St) : List String → St × List String
  | ["init", w] => let s := { st with b := initRec st.b w }; (s, obs s)
  | ["connect", w] => let s := { st with b := onConnect st.b w }; (s, obs s)
  | ["submit", w, d] => let s := { st with b := onSubmit st.b w (parseInt d) st.now }; (s, obs s)
  | ["reset", w] => let s := { st with b := reset st.b w }; (s, obs s)
  | ["advance", d] => let s := { st with now := st.now + parseInt d }; (s, obs s)
  | _ => (st, ["bad-op"])

def machine : Machine := { σ := St, init := {}, step := step }
end PRV.Driver.Book
