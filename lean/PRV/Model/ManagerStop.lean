/-
How `ContractManager.Run` ends (contract_manager.go): whatever makes its body return — its own context, the end of the
event subscription, a call the node refused during the start-up scan or in an event handler — the deferred function runs,
and `Run` returns only when that function does.  The controllers of the contracts run under the context `Run` derived for
them; a controller is assumed to return when that context is cancelled and *not* assumed to return otherwise (a running
purchase keeps its controller busy for as long as it lasts).
-/
namespace PRV.Model.ManagerStop

inductive DStep where
  | cancel        -- the derived context is cancelled
  | wait          -- contractsWG.Wait()
  | other         -- a log line
deriving Repr, DecidableEq

structure St where
  parentLive : Bool := true   -- the context `Run` was given is not cancelled
  ctxLive    : Bool := true   -- the context the contracts run under is not cancelled
  running    : Nat            -- controllers that have not returned
deriving Repr

/-- controllers whose context is cancelled return -/
def settle (s : St) : St := if s.ctxLive && s.parentLive then s else { s with running := 0 }

/-- the deferred function; `none`: blocked in `Wait` for ever -/
def runDefer : List DStep → St → Option St
  | [], s => some s
  | .cancel :: r, s => runDefer r (settle { s with ctxLive := false })
  | .wait :: r, s => if (settle s).running = 0 then runDefer r (settle s) else none
  | .other :: r, s => runDefer r s

def toStep (call : String) : DStep :=
  if call = "cancel" then .cancel else if call = "contractsWG.Wait" then .wait else .other

end PRV.Model.ManagerStop
