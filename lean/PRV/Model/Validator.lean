import PRV.Model.BSM
import PRV.Spec.C19
/-
Model of `validator/validator.go` + `mining_job.go` as far as job memory is concerned (C19).
The proof-of-work check itself (`ValidateDiff`) is C01's subject and appears here only as the
verdict `.checked serial` = "ValidateDiff was run against the data of announcement `serial`".
A stored job is represented by the specification's `Ann` record: `serial` stands for the captured
notify/diff/extranonce ("that job's data"), `exp` for `expirationTime` (none = zero time),
`shares` for the `shares` sync.Map keyed by the 20-byte `SerializeShare` array.
-/
namespace PRV.Model
open PRV.Spec.C19

structure Validator where
  jobs    : BSM Ann
  timeout : Int
  serial  : Nat            -- number of AddNewJob calls so far

namespace Validator

def new (cap : Nat) (timeout : Int) : Validator :=
  { jobs := BSM.empty cap, timeout := timeout, serial := 0 }

/-- `ScheduleCleanJobs`: every stored job that has no expiration yet gets `now + timeout`. -/
def scheduleCleanJobs (v : Validator) (now : Int) : Validator :=
  { v with jobs := v.jobs.mapValues (stamp (now + v.timeout)) }

/-- `AddNewJob` -/
def addNewJob (v : Validator) (id : String) (clean : Bool) (now : Int) : Validator :=
  let v1 := if clean then v.scheduleCleanJobs now else v
  { v1 with
    jobs := v1.jobs.push id { id := id, serial := v.serial, exp := none, shares := [] }
    serial := v.serial + 1 }

/-- `ValidateAndAddShare` up to the call of `ValidateDiff`. -/
def validateAndAddShare (v : Validator) (id : String) (sh : List Nat) (now : Int) :
    Validator × Verdict :=
  match v.jobs.get id with
  | none => (v, .notFound)
  | some job =>
    if expired job now then (v, .notFound)
    else if job.shares.contains sh then (v, .duplicate)
    else
      let job' : Ann := { job with shares := sh :: job.shares }
      let jobs' : BSM Ann := { v.jobs with data := BSM.set v.jobs.data id (some job') }
      ({ v with jobs := jobs' }, .checked job.serial)

def hasJob (v : Validator) (id : String) : Bool := (v.jobs.get id).isSome

/-- `GetLatestJob` (serial of the returned copy) -/
def getLatestJob (v : Validator) : Option Nat :=
  match v.jobs.last with
  | some (some j) => some j.serial
  | _ => none

end Validator
end PRV.Model
