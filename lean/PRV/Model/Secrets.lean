import PRV.Gen.C18
/-
C18 models.
(1) `GetSanitized`, regenerated as straight-line assignments (Gen.C18.sanitizeStmts), interpreted
    over configurations as maps from leaf field paths to values.
(2) The glue around the ECIES primitive: lib.DecryptString + EncryptedTerms.Decrypt /
    DecryptPoolDest + ContractFactory.getDestURL, with the primitive and url.Parse as parameters.
-/
namespace PRV.Model.Secrets
open PRV.Gen.C18

abbrev Cfg := String → String    -- leaf field path ↦ value ("" = zero value)

def secrets : List String := ["Marketplace.WalletPrivateKey", "Marketplace.Mnemonic", "Blockchain.EthNodeAddress"]

/-- value written by one assignment `pub.dst = cfg.src` (src "" = a constant / zero value) -/
def valueOf (cfg : Cfg) (a : String × String) : String := if a.2 = "" then "" else cfg a.2

/-- straight-line assignments into a zero value: the last assignment to a field wins
(`rev` = the statements in reverse source order) -/
def evalRev (cfg : Cfg) : List (String × String) → Cfg
  | [], _ => ""
  | a :: older, p => if a.1 = p then valueOf cfg a else evalRev cfg older p

/-- `GetSanitized` -/
def sanitize (cfg : Cfg) : Cfg := evalRev cfg sanitizeStmts.reverse

/-- the assignment that determines the final value of field `p` -/
def finalStmt (p : String) : Option (String × String) := sanitizeStmts.reverse.find? (·.1 = p)

/-- no field's final value is copied from a secret field -/
def noSecretSource : Bool :=
  fields.all fun p => match finalStmt p with
    | none => true
    | some a => !secrets.contains a.2

def stmtsTargetFields : Bool := sanitizeStmts.all fun a => fields.contains a.1

/-! ### decryption glue -/
inductive DecErr where
  | cannotDecrypt | invalidUrl
deriving Repr, DecidableEq

/-- `EncryptedTerms.Decrypt` / `DecryptPoolDest`: destination and error returned -/
def decryptDest {Url : Type} (enc : String) (dec : String → Option String) (parse : String → Option Url) :
    Option Url × Option DecErr :=
  if enc = "" then (none, none)
  else match dec enc with
    | none => (none, some .cannotDecrypt)
    | some plain => match parse plain with
      | none => (none, some .invalidUrl)
      | some u => (some u, none)

end PRV.Model.Secrets
