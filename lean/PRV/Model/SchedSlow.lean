import PRV.Model.Sched
/-
A finer-grained model of `allocator/scheduler.go` for histories in which `SetDest` takes time: the
scheduler goroutine is blocked inside the proxy's `SetDest` until the proxy answers (`release`), and
tasks are added, removed and credited meanwhile.  `Model/Sched.lean` describes the histories in which every
`SetDest` returns before the next event; that the two agree there is not proved in Lean (DESIGN.md §8) — each is tied to
the real scheduler by its own correspondence run (harness/allocator/verif_c07_test.go: fast and slow cases).

The goroutine's position is explicit: parked on `newTaskSignal`, inside `SetDest` (towards the primary
destination or towards a task's), or serving the task at the head of the queue.  `newTaskSignal` is a
one-token channel (`signal`).
-/
namespace PRV.Model.SchedSlow
open PRV.Model.Sched

inductive Pc where
  | parked                                  -- second select of mainLoop: waits for newTaskSignal
  | toPrimary                               -- inside SetDest(primaryDest, nil)
  | toTask (tid : Nat) (dest : String)      -- inside SetDest(task.Dest, onSubmit)
  | serving                                 -- second select of taskLoop
  | exited
deriving Repr, DecidableEq

inductive OutS where
  | begin (dest : String) (task : Option Task)    -- SetDest was entered (towards the primary destination, or to put `task` in service)
  | base (o : Out)
deriving Repr, DecidableEq

structure S where
  tl      : TaskList := {}
  now     : Int := 0
  primary : String
  cur     : String                 -- destination the proxy points at (changes when SetDest returns)
  cb      : Option Nat := none     -- task whose submit callback the proxy holds (changes when SetDest returns)
  pc      : Pc := .parked
  signal  : Bool := false
  serial  : Nat := 0
  ended   : List Nat := []         -- tasks whose end callback was invoked (ghost)
  rem     : List (Nat × Int) := []  -- remaining work of every task ever added (the callbacks outlive the queue entry)
  ambig   : Bool := false          -- a task was found both removed / finished and past its deadline: Go's select picks either reason
deriving Repr

inductive Ev where
  | add (cid dest : String) (job : Int) (deadline : Int)
  | remove (cid : String)
  | share (diff : Int)
  | tick (now : Int)
  | release                         -- the proxy's SetDest returns (successfully)
  | proxyExit                       -- the proxy's Run returns (the miner is gone)
deriving Repr

def getRem (s : S) (tid : Nat) : Int := ((s.rem.find? (·.1 = tid)).map (·.2)).getD 0
def setRem (s : S) (tid : Nat) (v : Int) : S := { s with rem := s.rem.map fun x => if x.1 = tid then (tid, v) else x }

/-- retire the head (in service): OnEnd, UnlockAndRemove -/
def retire (s : S) (t : Task) (kind : EndKind) : S × List OutS :=
  match s.tl.unlockAndRemove with
  | .ok tl => ({ s with tl := tl, ended := s.ended ++ [t.tid] }, [.base (.onEnd t.tid (getRem s t.tid) kind)])
  | .error _ => (s, [])

/-- The goroutine runs from the top of `taskLoop` until it blocks: parked, inside a `SetDest`, or serving. -/
def runLoop : Nat → S → S × List OutS
  | 0, s => (s, [])
  | fuel + 1, s =>
    match s.tl.tasks with
    | [] =>
      -- taskLoop returns; mainLoop: a pending signal sends it round again, otherwise to the primary destination
      if s.signal then runLoop fuel { s with signal := false }
      else ({ s with pc := .toPrimary }, [.begin s.primary none])
    | t :: _ =>
      let s1 := { s with tl := { s.tl with taken := true } }
      if t.cancelled then
        let r := retire { s1 with ambig := s1.ambig || decide (t.deadline ≤ s.now) } t .done; let r2 := runLoop fuel r.1; (r2.1, r.2 ++ r2.2)
      else if t.deadline ≤ s.now then
        let r := retire s1 t .deadline; let r2 := runLoop fuel r.1; (r2.1, r.2 ++ r2.2)
      else ({ s1 with pc := .toTask t.tid t.dest }, [.begin t.dest (some t)])

/-- the second select of `taskLoop` for the head in service -/
def serve (fuel : Nat) (s : S) : S × List OutS :=
  match s.tl.tasks with
  | [] => (s, [])
  | t :: _ =>
    if t.cancelled then
      let r := retire { s with ambig := s.ambig || decide (t.deadline ≤ s.now) } t .done; let r2 := runLoop fuel r.1; (r2.1, r.2 ++ r2.2)
    else if t.deadline ≤ s.now then
      let r := retire s t .deadline; let r2 := runLoop fuel r.1; (r2.1, r.2 ++ r2.2)
    else ({ s with pc := .serving }, [])

def fuelFor (s : S) : Nat := 2 * s.tl.tasks.length + 4

/-- wake the goroutine if what it waits for has happened -/
def wake (s : S) : S × List OutS :=
  match s.pc with
  | .parked => if s.signal then runLoop (fuelFor s) { s with signal := false } else (s, [])
  | .serving => serve (fuelFor s) s
  | _ => (s, [])

def disconnectOuts (s : S) (ts : List Task) : List OutS :=
  ts.flatMap fun t => [.base (.onDisconnect t.tid (getRem s t.tid)), .base (.onEnd t.tid (getRem s t.tid) .minerDisconnected)]

/-- `AddTask`: the task joins the queue; `newTaskSignal` gets its token only when the queue became non-empty -/
def addTask (s : S) (cid dest : String) (job deadline : Int) : S :=
  let t : Task := { tid := s.serial, cid := cid, dest := dest, remaining := job, deadline := deadline }
  let r := s.tl.add t
  { s with tl := r.1, serial := s.serial + 1, rem := s.rem ++ [(t.tid, job)], signal := s.signal || decide (r.2 = 1) }

/-- time passes up to `target`: the goroutine's deadline timer fires at the deadline of the task in service, not at the
end of the advance — the next task's first select sees the clock of that moment -/
def tickHead (s : S) (target : Int) : S × List OutS :=
  match s.pc, s.tl.tasks with
  | .serving, t :: _ =>
    if !t.cancelled ∧ s.now < t.deadline ∧ t.deadline ≤ target then wake { s with now := t.deadline } else (s, [])
  | _, _ => (s, [])

/-- `task.Cancel()`: the task's cancel channel is closed (its queue entry, if it still has one, is marked) -/
def markDone (s : S) (tid : Nat) : S :=
  { s with tl := { s.tl with tasks := s.tl.tasks.map fun t => if t.tid = tid then { t with cancelled := true } else t } }

/-- the submit callback of task `tid` runs: the work is booked, and the task cancels itself when it is done -/
def credit (s : S) (tid : Nat) (diff : Int) : S :=
  let v := getRem s tid - diff
  if v ≤ 0 then markDone (setRem s tid v) tid else setRem s tid v

/-- the proxy's `SetDest` returns: destination and callback are installed -/
def arrive (s : S) : S × List OutS :=
  match s.pc with
  | .toPrimary => ({ s with cur := s.primary, cb := none, pc := .parked }, [.base (.setDest s.primary false)])
  | .toTask tid dest => ({ s with cur := dest, cb := some tid, pc := .serving }, [.base (.setDest dest true)])
  | _ => (s, [])

/-- the proxy's `Run` returned: the task in service is ended, every queued task is told, the scheduler exits -/
def leave (s : S) : S × List OutS :=
  match s.pc with
  | .toPrimary => (s, [])     -- not generated while a SetDest is in progress
  | .toTask _ _ => (s, [])
  | _ =>
    let head : List OutS := match s.tl.taken, s.tl.tasks with
      | true, t :: _ => [.base (.onEnd t.tid (getRem s t.tid) .proxyExited)]
      | _, _ => []
    let outs := head ++ disconnectOuts s s.tl.tasks
    ({ s with tl := dropInService s.tl, pc := .exited, ended := s.ended ++ s.tl.tasks.map (·.tid) }, outs ++ [.base .exited])

def step (s : S) (ev : Ev) : S × List OutS :=
  if s.pc = .exited then (s, []) else
  match ev with
  | .add cid dest job deadline => wake (addTask s cid dest job deadline)
  | .remove cid => wake { s with tl := s.tl.cancel cid }
  | .tick target =>
    let r1 := tickHead s target
    let r2 := wake { r1.1 with now := max r1.1.now target }
    (r2.1, r1.2 ++ r2.2)
  | .share diff =>
    -- the callback the proxy holds belongs to a task that may have left the queue already
    match s.cb with
    | none => (s, [])
    | some tid =>
      let r := wake (credit s tid diff)
      (r.1, .base (.onSubmit tid diff) :: r.2)
  | .release =>
    let a := arrive s
    let r := wake a.1
    (r.1, a.2 ++ r.2)
  | .proxyExit => leave s

/-- start-up: `Run` finds the proxy on the primary destination and enters `mainLoop` -/
def init (primary : String) : S × List OutS :=
  runLoop 3 { primary := primary, cur := primary }

def run (s : S) : List Ev → List (List OutS)
  | [] => []
  | e :: es => (step s e).2 :: run (step s e).1 es

def runState (s : S) : List Ev → S
  | [] => s
  | e :: es => runState (step s e).1 es

end PRV.Model.SchedSlow
