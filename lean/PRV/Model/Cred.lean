/-
Model of the credential handling: lib/dest.go (SplitUsername, JoinUsername, SetUserName,
SetWorkerName, CopyURL), handler_first_connect.go (getDestUserName, shouldPropagateWorkerName,
hasLightningAddress, hasPPLPHost, isContractAddress, the name/password computed by
onMiningAuthorize) and contract_seller_v2.go (getAdjustedDest).
Strings are byte lists; a URL is its user-info plus everything else (`rest`, which no function
here reads except the host).
-/
namespace PRV.Model.Cred

abbrev Str := List Nat

structure UserInfo where
  username : Str
  password : Option Str      -- none: no password component (`user@host`), some []: `user:@host`
deriving Repr, DecidableEq

structure Url where
  user : Option UserInfo     -- none: no user-info at all (`//host`)
  host : Str
  rest : Str                 -- scheme, path, query, fragment ... (opaque)
deriving Repr, DecidableEq

def dot : Nat := 46
def at_ : Nat := 64

/-- `strings.Cut(s, ".")` -/
def cutDot : Str → Str × Str × Bool
  | [] => ([], [], false)
  | c :: cs => if c = dot then ([], cs, true) else
      let r := cutDot cs; (c :: r.1, r.2.1, r.2.2)

def join (account worker : Str) : Str := account ++ [dot] ++ worker

/-- `u.User.Username()` (empty for a nil user-info) -/
def Url.username (u : Url) : Str := match u.user with | some i => i.username | none => []
/-- `u.User.Password()` -/
def Url.password (u : Url) : Option Str := match u.user with | some i => i.password | none => none

/-- `lib.SetUserName`: only the user name changes; a password stays exactly as it was (present or not) -/
def setUserName (u : Url) (name : Str) : Url := { u with user := some { username := name, password := u.password } }

/-- `lib.SetWorkerName` -/
def setWorkerName (u : Url) (worker : Str) : Url := setUserName u (join (cutDot u.username).1 worker)

/-- `lib.CopyURL` -/
def copyURL (u : Url) : Url := u

def lowerByte (c : Nat) : Nat := if 65 ≤ c ∧ c ≤ 90 then c + 32 else c
def isInfix (p : Str) : Str → Bool
  | [] => p.isEmpty
  | c :: cs => (p.isPrefixOf (c :: cs)) || isInfix p cs

def pplp : Str := [112, 112, 108, 112]

def isHexByte (c : Nat) : Bool := (48 ≤ c && c ≤ 57) || (97 ≤ c && c ≤ 102) || (65 ≤ c && c ≤ 70)

/-- go-ethereum `common.IsHexAddress` -/
def isHexAddress (s : Str) : Bool :=
  let body := match s with
    | 48 :: x :: rest => if x = 120 ∨ x = 88 then rest else s
    | _ => s
  body.length == 40 && body.all isHexByte

def hasLightningAddress (u : Url) : Bool := u.username.contains at_
def hasPPLPHost (u : Url) : Bool := isInfix pplp (u.host.map lowerByte)

def shouldPropagate (notPropagate : Bool) (incoming : Str) (dest : Url) : Bool :=
  !notPropagate && !hasLightningAddress dest && !hasPPLPHost dest && !isHexAddress incoming

/-- `getDestUserName` -/
def getDestUserName (notPropagate : Bool) (incoming : Str) (dest : Url) : Str :=
  if shouldPropagate notPropagate incoming dest ∧ (cutDot incoming).2.2 then
    join (cutDot dest.username).1 (cutDot incoming).2.1
  else dest.username

/-- what `onMiningAuthorize` sends to the pool: (user name, password), and the URL it leaves behind -/
def authorize (notPropagate : Bool) (incoming : Str) (dest : Url) : Str × Str × Url :=
  let dest' := if shouldPropagate notPropagate incoming dest ∧ (cutDot incoming).2.2
    then setWorkerName dest (cutDot incoming).2.1 else dest
  (dest'.username, dest'.password.getD [], dest')

/-- `getAdjustedDest`: destination of a contract with the contract address as user name -/
def adjustedDest (dest : Url) (contractID : Str) : Url := setUserName (copyURL dest) contractID

end PRV.Model.Cred
