import PRV.Gen.C10
/-
Model of `ContractWatcherBuyer.checkIncomingHashrate` + `isReceivingAcceptableHashrate`
(contract_buyer.go) as a pure function of what they read, and of the close/retry loop of
`ControllerBuyer.Run` (controller_buyer.go).  Times are Int nanoseconds.
-/
namespace PRV.Model.Buyer
open PRV.Gen.C10

structure CheckIn where
  now            : Int
  validatorStart : Int            -- validation starts strictly after this instant
  endTime        : Option Int     -- none: start time is zero (contract not running on chain)
  finishedBefore : Bool           -- validation stage already `Finished`
  lastShare      : Option Int     -- last submit time of the contract's worker (second-truncated)
  fulfilStart    : Int
  shareTimeout   : Int
  target         : Rat
  actual         : Rat
  threshold      : Rat
  flatness       : Int

inductive Verdict where
  | ok | shareTimeout | underdelivery | finished
deriving Repr, DecidableEq

/-- `time.Now().After(EndTime())`; a zero end time lies in the past -/
def expired (i : CheckIn) : Bool := match i.endTime with
  | none => true
  | some e => decide (e < i.now)

def started (i : CheckIn) : Bool := decide (i.validatorStart < i.now)

def tolerance (i : CheckIn) : Rat :=
  getMaxGlobalError (i.now - i.fulfilStart) i.threshold i.flatness skipPeriod

/-- `isReceivingAcceptableHashrate` -/
def hashrateOK (i : CheckIn) : Bool :=
  decide (relativeError i.target i.actual ≤ tolerance i) || decide (i.actual > i.target)

def silence (i : CheckIn) : Int := i.now - i.lastShare.getD i.fulfilStart

/-- `checkIncomingHashrate`: verdict and the new validation stage (`true` = Finished) -/
def check (i : CheckIn) : Verdict × Bool :=
  let fin := i.finishedBefore || expired i
  if !started i then (.ok, fin)
  else if fin then (.finished, fin)
  else if silence i > i.shareTimeout then (.shareTimeout, fin)
  else if !hashrateOK i then (.underdelivery, fin)
  else (.ok, fin)

/-! ### close / retry loop of the controller -/

/-- which sentinel errors the watcher's error `Is` -/
structure ErrKind where
  isClosed : Bool := false       -- context cancelled = closed by an event
  is : String → Bool := fun _ => false

/-- the `errors.Is` chain, regenerated from the source -/
def reasonFor (is : String → Bool) : Nat :=
  match reasonChain.find? (fun r => is r.1) with
  | some r => r.2
  | none => reasonDefault

inductive Action where
  | closeEarly (reason : Nat)
  | sleep (ns : Int)
deriving Repr, DecidableEq

/-- One element per pass through the `Done()` branch: is the contract available on chain (closed
by someone else) at that moment, and does the close transaction succeed. -/
def closeLoop (reason : Nat) : List (Bool × Bool) → List Action
  | [] => []
  | (avail, txOk) :: rest =>
    if avail then []
    else .closeEarly reason :: (if txOk then [] else .sleep retryDelay :: closeLoop reason rest)

/-- what the controller does once the watcher is done with error `err` (none = ended normally) -/
def onWatcherDone (err : Option ErrKind) (rounds : List (Bool × Bool)) : List Action :=
  match err with
  | none => []
  | some e => if e.isClosed then [] else closeLoop (reasonFor e.is) rounds

end PRV.Model.Buyer
