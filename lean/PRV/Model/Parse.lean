import PRV.Base.Hex
import PRV.Gen.C05
/-
What `ParseStratumMessage` answers for a line, as a function of the JSON shape of the line:
`encoding/json`'s decoding of the message structs (one level deep: that is all the structs look
at) followed by the shape validation of validate.go, whose tables are regenerated (`Gen/C05.lean`).

Decoding rules encoded (each observed on the real parser; the correspondence check re-observes
them on every run): a missing or `null` member leaves the zero value (nil slice / nil pointer / ""
/ 0); a JSON array into a fixed Go array fills the first n elements, type-checks only those and
drops the rest, a shorter one leaves zero values; an element of the wrong JSON kind is an error for
the whole line; `null` as an element is the zero value; numbers into `int` must be integer
literals within 64 bits; `[n]json.RawMessage` keeps every slot verbatim (missing slots empty);
`interface{}` takes anything; an `id` that is not an integer (or null / absent) is an error; a line
that is not a JSON object is an error, except `null`; an unknown method with a `result` member is a
result, whose `error` member must be an array or null; otherwise the line is "unknown" (skipped).
-/
namespace PRV.Model.Parse
open PRV.Base PRV.Gen

/-- one JSON value as far as the message structs can tell values apart -/
inductive JV where
  | absent
  | null
  | bool
  | int (v : Int)                  -- an integer literal
  | dec                            -- any other number (fraction, exponent)
  | str (s : String)
  | arr (l : List JV)
  | obj (mask minbits mindiff contract : JV)   -- an object: the members the configure extension knows
deriving Repr

inductive Verdict where
  | ok (kind : String)
  | unknown
  | invalid
deriving Repr, DecidableEq

def fitsInt (v : Int) : Bool := decide (-(2 ^ 63 : Int) ≤ v) && decide (v < (2 ^ 63 : Int))

def hexDigits (d : Nat) (s : String) : Bool := isHex s && s.toList.length == d

/-- into a Go `string` -/
def elemStr : JV → Option String
  | .str s => some s
  | .null => some ""
  | .absent => some ""
  | _ => none

/-- into a Go `int` -/
def elemInt : JV → Option Int
  | .int v => if fitsInt v then some v else none
  | .null => some 0
  | .absent => some 0
  | _ => none

/-- into a Go `float64` -/
def elemFloat : JV → Bool
  | .int _ => true
  | .dec => true
  | .null => true
  | .absent => true
  | _ => false

def mapOpt (f : JV → Option α) : List JV → Option (List α)
  | [] => some []
  | x :: rest => match f x, mapOpt f rest with
    | some a, some as => some (a :: as)
    | _, _ => none

/-- `[]string` -/
def strSlice : JV → Option (List String)
  | .absent => some []
  | .null => some []
  | .arr l => mapOpt elemStr l
  | _ => none

/-- `*[n]string`: `none` = decoding error, `some none` = nil pointer -/
def strArr (n : Nat) : JV → Option (Option (List String))
  | .absent => some none
  | .null => some none
  | .arr l => match mapOpt elemStr (l.take n) with
    | some xs => some (some (xs ++ List.replicate (n - xs.length) ""))
    | none => none
  | _ => none

/-- `id` into `*int` / `int` -/
def idOk : JV → Bool
  | .absent => true
  | .null => true
  | .int v => fitsInt v
  | _ => false

/-! ### the guards of validate.go -/

def ruleHolds (params : List String) : String × Nat × Nat → Bool
  | ("minlen", n, _) => decide (params.length ≥ n)
  | ("hex", i, _) => match params[i]? with | some s => isHex s | none => false
  | ("hexN", i, d) => match params[i]? with | some s => hexDigits d s | none => false
  | ("opthexN", i, d) => match params[i]? with | some s => hexDigits d s | none => true
  | _ => false

/-- `MiningSubmit.Validate` -/
def submitValid (params : List String) : Bool := C05.submitRules.all (ruleHolds params)

/-- a notify slot (`json.RawMessage`) as the validation sees it -/
inductive Slot where
  | missing
  | null
  | str (s : String)
  | strs (l : List String)      -- an array of strings
  | bool
  | other
deriving Repr, DecidableEq

def slotOf : JV → Slot
  | .absent => .missing
  | .null => .null
  | .str s => .str s
  | .bool => .bool
  | .arr l => match mapOpt (fun | .str s => some s | _ => none) l with
    | some ss => .strs ss
    | none => .other
  | _ => .other

def slotStr (slots : List Slot) (i : Nat) : Option String :=
  match slots[i]? with | some (.str s) => some s | _ => none

/-- `MiningNotify.Validate` -/
def notifyValid (slots : List Slot) : Bool :=
  C05.notifyStringSlots.all (fun i => (slotStr slots i).isSome) &&
  (match slotStr slots 1 with | some s => hexDigits C05.hashDigits s | none => false) &&
  (match slotStr slots 2, slotStr slots 3 with | some a, some b => isHex a && isHex b | _, _ => false) &&
  C05.notifyWordSlots.all (fun i => match slotStr slots i with | some s => hexDigits C05.hexWordDigits s | none => false) &&
  (match slots[4]? with | some (Slot.strs l) => l.all (hexDigits C05.hashDigits) | _ => false) &&
  (match slots[8]? with | some Slot.bool => true | _ => false)

/-- `validExtranonce` -/
def extranonceValid (xn size : JV) : Bool :=
  (match xn with | .str s => isHex s | _ => false) &&
  (match size with | .int v => decide (0 ≤ v) && fitsInt v | _ => false)

def maskOk (s : String) : Bool := s = "" || hexDigits C05.hexWordDigits s

/-! ### the verdict -/

def nine (l : List JV) : List Slot := ((l.take 9).map slotOf) ++ List.replicate (9 - (l.take 9).length) .missing

def typed (method : String) (params : JV) : Verdict :=
  match method with
  | "mining.submit" =>
    match strSlice params with
    | some ps => if submitValid ps then .ok "submit" else .invalid
    | none => .invalid
  | "mining.authorize" => match strArr 2 params with | some (some _) => .ok "authorize" | _ => .invalid
  | "mining.subscribe" => match strArr 2 params with | some (some _) => .ok "subscribe" | _ => .invalid
  | "mining.set_version_mask" =>
    match strArr 1 params with
    | some (some [m]) => if hexDigits C05.hexWordDigits m then .ok "setmask" else .invalid
    | _ => .invalid
  | "mining.set_difficulty" =>
    match params with
    | .arr l => if ((l.take 1).all elemFloat) then .ok "setdiff" else .invalid
    | _ => .invalid
  | "mining.multi_version" =>
    match params with
    | .arr l => if ((l.take 1).all fun x => (elemInt x).isSome) then .ok "multiversion" else .invalid
    | _ => .invalid
  | "mining.set_extranonce" =>
    match params with
    | .arr l => if extranonceValid (l[0]?.getD .null) (l[1]?.getD .null) then .ok "setxn" else .invalid
    | _ => .invalid
  | "mining.notify" =>
    match params with
    | .absent => .invalid
    | .null => .invalid
    | .arr l => if notifyValid (nine l) then .ok "notify" else .invalid
    | _ => .invalid
  | "mining.configure" =>
    match params with
    | .arr l =>
      match l[1]? with
      | none => .invalid                          -- the extension slot is empty: nothing to decode
      | some JV.null => .ok "configure"
      | some (JV.obj mask minbits mindiff contract) =>
        match elemStr mask, elemInt minbits, elemInt mindiff, elemStr contract with
        | some m, some _, some _, some _ => if maskOk m then .ok "configure" else .invalid
        | _, _, _, _ => .invalid
      | some _ => .invalid
    | _ => .invalid
  | _ => .unknown

def knownMethods : List String :=
  ["mining.submit", "mining.authorize", "mining.subscribe", "mining.set_version_mask", "mining.set_difficulty",
   "mining.multi_version", "mining.set_extranonce", "mining.notify", "mining.configure"]

/-- a line that is a JSON object -/
def objectVerdict (id method params result error : JV) : Verdict :=
  if !idOk id then .invalid else
  match method with
  | .str m =>
    if knownMethods.contains m then typed m params
    else resultOr result error
  | .absent => resultOr result error
  | .null => resultOr result error
  | _ => .invalid
where
  resultOr (result error : JV) : Verdict :=
    match result with
    | .absent => .unknown
    | _ => match error with
      | .absent => .ok "result"
      | .null => .ok "result"
      | .arr _ => .ok "result"
      | _ => .invalid

end PRV.Model.Parse
