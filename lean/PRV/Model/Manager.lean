/-
Model of `ContractManager` (contractmanager/contract_manager.go): which contracts the node watches,
as a function of the chain state and of the clone-factory events, handled one at a time.

Chain side: every contract has a seller, and while it is purchased a buyer and possibly a
validator (`GetContract` reports buyer and validator only in the running state).  Node side: the
set of contracts with a live controller.  A controller of a contract the node sells runs for ever;
a controller of a contract the node buys or validates returns when that purchase has ended
(`ctlExit`), and only then is the entry removed.
-/
namespace PRV.Model.Manager

structure Contract where
  addr      : String
  seller    : String
  buyer     : String := ""      -- "" = none
  validator : String := ""
  running   : Bool := false
deriving Repr, DecidableEq

structure St where
  me      : String
  chain   : List Contract := []
  watched : List String := []      -- contracts with a live controller, oldest first
deriving Repr, DecidableEq

/-- what `GetContract` reports: buyer and validator only while running -/
def view (c : Contract) : Contract := if c.running then c else { c with buyer := "", validator := "" }

/-- `isOurContract` -/
def ours (me : String) (c : Contract) : Bool :=
  let v := view c
  v.seller == me || v.buyer == me || v.validator == me

/-- the test of `handleContractPurchased` -/
def oursAsBuyer (me : String) (c : Contract) : Bool :=
  let v := view c
  v.buyer == me || v.validator == me

def find (s : St) (a : String) : Option Contract := s.chain.find? (·.addr = a)

/-- `AddContract`: nothing happens when the contract already has a controller -/
def add (s : St) (a : String) : St := if s.watched.contains a then s else { s with watched := s.watched ++ [a] }

def setChain (s : St) (c : Contract) : St :=
  if s.chain.any (·.addr = c.addr) then { s with chain := s.chain.map fun x => if x.addr = c.addr then c else x }
  else { s with chain := s.chain ++ [c] }

inductive Ev where
  | start                                            -- `Run`: scan the contract list
  | restart
  | created (a seller : String)
  | purchased (a buyer validator : String)           -- chain update + clonefactoryContractPurchased
  | closed (a : String)                              -- chain update (no clone-factory event)
  | ctlExit (a : String)                             -- the contract's controller returns
  | deleteFlag (a : String)
deriving Repr

def scan (s : St) : St := s.chain.foldl (fun s c => if ours s.me c then add s c.addr else s) s

def step (s : St) : Ev → St
  | .start => scan s
  | .restart => scan { s with watched := [] }
  | .created a seller =>
    let s1 := setChain s { addr := a, seller := seller }
    match find s1 a with
    | some c => if ours s.me c then add s1 a else s1
    | none => s1
  | .purchased a buyer validator =>
    match find s a with
    | none => s
    | some c =>
      let c' := { c with buyer := buyer, validator := validator, running := true }
      let s1 := setChain s c'
      if oursAsBuyer s.me c' then add s1 a else s1
  | .closed a =>
    match find s a with
    | none => s
    | some c => setChain s { c with running := false, buyer := "", validator := "" }
  | .ctlExit a => { s with watched := s.watched.filter (· ≠ a) }
  | .deleteFlag _ => s

def run (s : St) (evs : List Ev) : St := evs.foldl step s

/-- the contracts the node should be watching -/
def shouldWatch (s : St) : List String := (s.chain.filter (ours s.me)).map (·.addr)

end PRV.Model.Manager
