/-
Where a buyer's / validator's node sends the hashrate of a contract it holds (contract_factory.go `CreateContract`, buyer branch;
contract_buyer.go `PoolDest`; hashrate_ethereum.go `GetContract`): the chain entry carries an encrypted pool destination or none;
the node reads it (the call may be refused), decrypts it with its own key and parses it.
-/
namespace PRV.Model.BuyerDest

/-- what the chain entry's destination field turns out to be for this node -/
inductive Payload where
  | none                 -- no pool destination given
  | ok (host : String)   -- decrypts with the node's key to a url
  | undecryptable        -- encrypted for another key, or not a ciphertext
  | notUrl               -- decrypts, but is no url
deriving Repr, DecidableEq

inductive Role where | buyer | validator
deriving Repr, DecidableEq

structure Contract where
  dest : Option String   -- Terms.DestinationURL
  err  : Bool            -- contractErr is set
deriving Repr, DecidableEq

/-- `GetContract`: a refused call makes the read fail as a whole — no terms, no contract -/
def readDest (p : Payload) (callRefused : Bool) : Option Payload := if callRefused then Option.none else some p

/-- `CreateContract` for a contract this node holds as buyer or validator: the role plays no part -/
def create (_ : Role) (p : Payload) : Contract :=
  match p with
  | .none => { dest := Option.none, err := false }
  | .ok h => { dest := some h, err := false }
  | .undecryptable => { dest := Option.none, err := true }
  | .notUrl => { dest := Option.none, err := true }

/-- `PoolDest`: the contract's destination, the node's default pool when there is none -/
def poolDest (c : Contract) (default : String) : String := c.dest.getD default

/-- the contract the manager ends up with for a purchase it was told about -/
def pickedUp (r : Role) (p : Payload) (callRefused : Bool) : Option Contract := (readDest p callRefused).map (create r)

end PRV.Model.BuyerDest
