/-
Model of `internal/lib/bstackmap.go` (BoundStackMap) — the operations the validator uses:
Push, Get, At(-1), Range(update every value), Count.

Go state            model
  capacity          cap
  orderedKeys       keys   (oldest first)
  dataMap           data   (total function to Option)
  cc                cc
-/
namespace PRV.Model

structure BSM (α : Type) where
  cap  : Nat
  keys : List String
  data : String → Option α
  cc   : Nat

namespace BSM
variable {α : Type}

def empty (cap : Nat) : BSM α := { cap := cap, keys := [], data := fun _ => none, cc := 0 }

/-- Go: `orderedKeys[0]` with an empty slice panics (only reachable with capacity 0). -/
def pushPanics (b : BSM α) : Prop := b.cc = b.cap ∧ b.keys = []

instance (b : BSM α) : Decidable b.pushPanics := by unfold pushPanics; infer_instance

def set (d : String → Option α) (k : String) (v : Option α) : String → Option α :=
  fun x => if x = k then v else d x

/-- `Push`: at capacity the oldest key leaves `orderedKeys`, and its map entry is deleted unless
the same key occurs again later in `orderedKeys` (a re-announced id must stay retrievable). -/
def push (b : BSM α) (k : String) (v : α) : BSM α :=
  if b.cc = b.cap then
    match b.keys with
    | [] => b
    | o :: rest =>
      let d := if rest.contains o then b.data else set b.data o none
      { b with keys := rest ++ [k], data := set d k (some v) }
  else
    { b with cc := b.cc + 1, keys := b.keys ++ [k], data := set b.data k (some v) }

def get (b : BSM α) (k : String) : Option α := b.data k

/-- `At(-1)`: index `cc-1` of orderedKeys, then the map (zero value when the key is absent). -/
def last (b : BSM α) : Option (Option α) :=
  if b.cc = 0 then none else
    match b.keys[b.cc - 1]? with
    | none => none      -- Go would panic (index out of range); unreachable under the invariant
    | some k => some (b.data k)

/-- `Range(f)` where `f` mutates every stored value in place and never stops. -/
def mapValues (b : BSM α) (f : α → α) : BSM α := { b with data := fun k => (b.data k).map f }

def count (b : BSM α) : Nat := b.cc

end BSM
end PRV.Model
