import PRV.Gen.C09
/-
Model of the seller watcher's cycle accounting (contract_seller_v2.go: `onCycleEnd`,
`adjustHashrate`), in whole GH/s.  One step = one cycle.  The allocator is a parameter: what it
hands out for a request.
-/
namespace PRV.Model.Delivery

structure Acc where
  H      : Int            -- contracted rate
  full   : Int := 0       -- hashrate of the full miners (they persist from cycle to cycle)
  gU     : Int := 0       -- globalUnderDeliveryGHS: cumulative shortfall (negative: ahead)
  target : Int            -- deliveryTargetGHS at the start of the cycle
deriving Repr, DecidableEq

/-- `onCycleEnd`: book the cycle's actual average rate -/
def cycleEnd (a : Acc) (actual : Int) : Acc :=
  let gU := a.gU + (a.H - actual)
  { a with gU := gU, target := a.H - a.full + gU }

/-- what the allocator does with a request -/
structure Alloc where
  addFull    : Int → Int      -- hashrate of whole miners handed out for a request (persist)
  addPartial : Int → Int      -- rate covered by one-cycle jobs
  shed       : Int → Int      -- full-miner hashrate removed when asked to shed `x`

/-- the thresholds are the ones in the source (regenerated) -/
def thresholdAdjust : Int := PRV.Gen.C09.thresholdAdjust
def thresholdFull : Int := PRV.Gen.C09.thresholdFull
def thresholdPartial : Int := PRV.Gen.C09.thresholdPartial

/-- `adjustHashrate` at the start of a cycle: returns the new account (full miners changed, target
reduced by what was arranged) and the rate the partial miners will deliver this cycle -/
def adjust (al : Alloc) (a : Acc) : Acc × Int :=
  if a.target.natAbs ≤ thresholdAdjust.natAbs then (a, 0) else
  let t0 := a.target
  let removed := if t0 < -thresholdFull then al.shed (-t0) else 0
  let t1 := t0 + removed
  let added := if t1 > thresholdFull then al.addFull t1 else 0
  let t2 := t1 - added
  let part := if t2 > thresholdPartial then al.addPartial t2 else 0
  let t3 := t2 - part
  ({ a with full := a.full - removed + added, target := t3 }, part)

/-- `replaceMiner`: a miner of the contract has left; `owed` is its hashrate (a full miner) or the rate
its unfinished job amounts to over the rest of the cycle (a one-cycle job).  The caller subtracts what
could be arranged on the spot; the rest stays in the request. -/
def replace (al : Alloc) (a : Acc) (owed : Int) (wasFull : Bool) : Acc × Int :=
  adjust al { a with target := a.target + owed, full := if wasFull then a.full - owed else a.full }

/-- the 10 s re-allocation tick: whatever is still requested is tried again -/
def tick (al : Alloc) (a : Acc) : Acc × Int :=
  if a.target > 0 then adjust al a else (a, 0)

/-- one whole cycle in which the arranged miners deliver what they were arranged for, except for a
disturbance `lost` (miners that left, shares that did not come) -/
def cycle (al : Alloc) (a : Acc) (lost : Int) : Acc × Int :=
  let r := adjust al a
  let actual := r.1.full + r.2 - lost
  (cycleEnd r.1 actual, actual)

/-- the share callback of partial miners: one-cycle jobs are called off once the cycle's average rate has reached the
contracted rate plus the shortfall carried so far — `offered` is what full and partial miners would deliver if left alone -/
def cutoff (a : Acc) (offered : Int) : Int := min offered (max (a.H + a.gU) a.full)

/-- a cycle in which the partial miners deliver as much as they can (`spare` on top of what was arranged) until the
callback calls them off -/
def cycleCut (al : Alloc) (a : Acc) (spare : Int) : Acc × Int :=
  let r := adjust al a
  let actual := cutoff r.1 (r.1.full + r.2 + spare)
  (cycleEnd r.1 actual, actual)

/-- an allocator that can always arrange exactly what is asked with one-cycle jobs -/
def ideal : Alloc := { addFull := fun _ => 0, addPartial := fun r => r, shed := fun _ => 0 }

end PRV.Model.Delivery
