/-
Models of the hashrate estimators (hashrate/mean.go, ema.go, sma.go).
Work amounts are integers (the credited difficulty is a uint64 in the proxy); times are Int
(unix seconds for Mean, nanoseconds for Ema/Sma).  `none` stands for a float division by zero
(+Inf or NaN in Go).
-/
namespace PRV.Model.Est

/-! ### Mean -/
structure Mean where
  totalWork : Nat := 0
  first     : Int := 0     -- unix seconds, 0 = unset
  last      : Int := 0
  shares    : Nat := 0
deriving Repr, DecidableEq

namespace Mean
/-- `maybeSetFirstSubmitTime`: CompareAndSwap(0, t) -/
def maybeSetFirst (m : Mean) (nowSec : Int) : Mean := if m.first = 0 then { m with first := nowSec } else m
def start (m : Mean) (nowSec : Int) : Mean := m.maybeSetFirst nowSec
def add (m : Mean) (diff : Nat) (nowSec : Int) : Mean :=
  { ({ m with totalWork := m.totalWork + diff, shares := m.shares + 1 } : Mean).maybeSetFirst nowSec with
    last := nowSec }
def reset (m : Mean) : Mean := { m with totalWork := 0, first := 0, last := 0 }
/-- `GetTotalDuration` in ns -/
def totalDuration (m : Mean) (nowSec : Int) : Int := (nowSec - m.first) * 1000000000
/-- `ValuePer(t)` = `float64(totalWork) / float64(totalDuration / t)` (integer division of durations) -/
def valuePer (m : Mean) (nowSec : Int) (t : Int) : Option Rat :=
  let dur := m.totalDuration nowSec
  if dur = 0 then some 0
  else
    let q := Int.tdiv dur t
    if q = 0 then none else some ((m.totalWork : Rat) / (q : Rat))
end Mean

/-! ### Ema, parametric in the decay weight `w Δ = exp(-Δ/halfLife)` -/
structure Ema where
  lastValue : Rat := 0
  lastTime  : Int := 0
deriving Repr

namespace Ema
def valueAt (w : Int → Rat) (e : Ema) (now : Int) : Rat :=
  if e.lastValue = 0 then 0 else e.lastValue * w (now - e.lastTime)
def add (w : Int → Rat) (e : Ema) (v : Rat) (now : Int) : Ema :=
  { lastValue := e.valueAt w now + v, lastTime := now }
def reset (_e : Ema) : Ema := {}
/-- adds at given instants, oldest first -/
def run (w : Int → Rat) (e : Ema) : List (Rat × Int) → Ema
  | [] => e
  | (v, t) :: rest => run w (e.add w v t) rest
end Ema

/-! ### Sma -/
structure Sma where
  window : Int
  items  : List (Int × Int) := []   -- (timestamp, value), newest first (PushFront)
  sum    : Int := 0
deriving Repr

namespace Sma
def add (s : Sma) (v : Int) (ts : Int) : Sma := { s with items := (ts, v) :: s.items, sum := s.sum + v }

/-- `check`: pop from the back while the oldest element is older than the window.
    (`dropExpired` works on the reversed list: oldest first) -/
def dropExpired (window now : Int) : List (Int × Int) → Int → List (Int × Int) × Int
  | [], sum => ([], sum)
  | (ts, v) :: rest, sum =>
    if now - ts ≤ window then ((ts, v) :: rest, sum) else dropExpired window now rest (sum - v)

def check (s : Sma) (now : Int) : Sma :=
  let r := dropExpired s.window now s.items.reverse s.sum
  { s with items := r.1.reverse, sum := r.2 }

/-- `Value()` after `check()`: sum / window -/
def value (s : Sma) (now : Int) : Sma × Option Rat :=
  let s' := s.check now
  (s', if s.window = 0 then none else some ((s'.sum : Rat) / (s.window : Rat)))
end Sma

end PRV.Model.Est
