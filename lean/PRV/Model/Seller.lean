/-
Model of the seller side of one contract: `ControllerSeller` (event handlers, start-up) and the
life of `ContractWatcherSellerV2` as far as "is it fulfilling, and towards which destination" goes.
Time in seconds.  The chain is a parameter of every handler (what `GetContract` would answer now).
-/
namespace PRV.Model.Seller

/-- the encrypted destination on chain, by what decrypting it gives -/
inductive Payload where
  | valid (host : String)    -- decrypts to a pool URL
  | empty                    -- no payload
  | bad                      -- does not decode / decrypt / parse
deriving Repr, DecidableEq

/-- what the chain says about the contract -/
structure Chain where
  purchased : Bool := false
  startedAt : Int := 0
  len       : Int := 0
  speed     : Int := 0          -- GH/s; together with `len` the commercial terms of the (next) purchase
  payload   : Payload := .empty
deriving Repr, DecidableEq

/-- the terms the controller holds -/
structure Terms where
  purchased : Bool := false     -- a start time is set only for a purchased contract
  startedAt : Int := 0
  len       : Int := 0
  speed     : Int := 0
  dest      : Option String := none
deriving Repr, DecidableEq

structure Ctl where
  terms : Terms := {}
  run   : Option Int := none     -- the watcher is running since …
  err   : Bool := false
deriving Repr, DecidableEq

/-- `BaseTerms.isRunning`: the end time lies in the future -/
def Terms.shouldRun (t : Terms) (now : Int) : Bool := t.purchased && decide (now < t.startedAt + t.len)

/-- `EncryptedTerms.Decrypt`: terms (destination nil unless the payload decrypts to a URL) and whether it failed -/
def load (ch : Chain) : Terms × Bool :=
  let base : Terms := { purchased := ch.purchased, startedAt := ch.startedAt, len := ch.len, speed := ch.speed }
  match ch.payload with
  | .valid h => ({ base with dest := some h }, false)
  | .empty => (base, false)
  | .bad => (base, true)

/-- the watcher stops by itself: at the contract's end, or ten seconds after a start that finds the
contract not running on chain -/
def exitAt (t : Terms) (since : Int) : Int :=
  if t.purchased ∧ since + 10 < t.startedAt + t.len then t.startedAt + t.len else since + 10

def settle (c : Ctl) (now : Int) : Ctl :=
  match c.run with
  | none => c
  | some since => if exitAt c.terms since ≤ now then { c with run := none } else c

/-- `handleContractPurchased` (also what start-up does when the contract is found running) -/
def onPurchased (c : Ctl) (ch : Chain) (now : Int) : Ctl :=
  if c.run.isSome then { c with err := false } else
  let l := load ch
  if l.2 then { c with terms := l.1, err := true } else
  if !l.1.shouldRun now then { c with terms := l.1, err := false } else
  match l.1.dest with
  | none => { c with terms := l.1, err := true }
  | some _ => { terms := l.1, run := some now, err := false }

/-- `handleContractClosed` -/
def onClosed (c : Ctl) (ch : Chain) : Ctl :=
  let l := load ch
  { terms := l.1, run := none, err := l.2 }

/-- `handleCipherTextUpdated` -/
def onDestUpdated (c : Ctl) (ch : Chain) (now : Int) : Ctl :=
  let l := load ch
  if l.2 then { terms := l.1, run := none, err := true } else
  match l.1.dest with
  | none => { terms := l.1, run := none, err := true }
  | some _ =>
    -- the code means to leave a fulfilment with the same destination alone, but compares the adjusted
    -- destination (user name = contract address) with the raw one, which never match: the watcher is always
    -- (re)started — and, started on a contract that is over, stops by itself ten seconds later (`exitAt`)
    { terms := l.1, run := some now, err := false }

/-- `handlePurchaseInfoUpdated` (the seller changed price / speed / length): the terms are read again and
handed to the watcher, which refuses them while it is running ("terms will apply after closeout") -/
def onTermsUpdated (c : Ctl) (ch : Chain) : Ctl :=
  let l := load ch
  if c.run.isSome then { c with err := l.2 } else { c with terms := l.1, err := l.2 }

/-! ### the same handlers when the node refuses the `eth_call` (a transient RPC failure): the chain cannot be read -/

/-- purchase event, chain unreadable: a running fulfilment is left alone (the handler returns before it reads);
otherwise nothing starts and the error is recorded -/
def onPurchasedNoRpc (c : Ctl) : Ctl := if c.run.isSome then { c with err := false } else { c with err := true }

/-- close event, chain unreadable: the fulfilment is stopped all the same; the terms held stay as they were -/
def onClosedNoRpc (c : Ctl) : Ctl := { c with run := none, err := true }

/-- destination update, chain unreadable: nothing is known about the new destination — nothing is touched, the error is recorded -/
def onDestUpdatedNoRpc (c : Ctl) : Ctl := { c with err := true }

/-- terms update, chain unreadable -/
def onTermsUpdatedNoRpc (c : Ctl) : Ctl := { c with err := true }

/-- a fresh controller (start-up, restart): the factory hands it the terms without a destination -/
def boot (ch : Chain) (now : Int) : Ctl :=
  let t : Terms := { purchased := ch.purchased, startedAt := ch.startedAt, len := ch.len, speed := ch.speed }
  let c : Ctl := { terms := t }
  if t.shouldRun now then onPurchased c ch now else c

/-- the events of one contract's life as the node sees them -/
inductive Ev where
  | purchased | closed | destUpdated | termsUpdated | restart | tick
  | purchasedNoRpc | closedNoRpc | destUpdatedNoRpc | termsUpdatedNoRpc    -- the event arrives while the node refuses calls
deriving Repr, DecidableEq

/-- one event, handled at `now` with the chain answering `ch`: the watcher first stops by itself if its time
has come (`settle`), then the handler runs; a restart builds a fresh controller from the chain -/
def apply (c : Ctl) (e : Ev) (ch : Chain) (now : Int) : Ctl :=
  let c := settle c now
  match e with
  | .purchased => onPurchased c ch now
  | .closed => onClosed c ch
  | .destUpdated => onDestUpdated c ch now
  | .termsUpdated => onTermsUpdated c ch
  | .restart => boot ch now
  | .tick => c
  | .purchasedNoRpc => onPurchasedNoRpc c
  | .closedNoRpc => onClosedNoRpc c
  | .destUpdatedNoRpc => onDestUpdatedNoRpc c
  | .termsUpdatedNoRpc => onTermsUpdatedNoRpc c

/-- a whole history: each event with what the chain answers at that moment and the time -/
def runHist (c : Ctl) (h : List (Ev × Chain × Int)) : Ctl := h.foldl (fun c x => apply c x.1 x.2.1 x.2.2) c

/-- is the watcher fulfilling, and towards which pool -/
def fulfilling (c : Ctl) : Option String := if c.run.isSome then c.terms.dest else none

end PRV.Model.Seller
