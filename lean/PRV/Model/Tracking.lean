/-
The watcher's books about one miner against what that miner's scheduler holds for the contract
(`contract_seller_v2.go`: addFullMiners / addPartialMiners and their end callbacks; `scheduler.go`: taskLoop).

An allocation pass can only take a miner whose queue is empty (`IsFree`), the end callback of a partial job does
`fullMiners.Remove(ID); removePartialMiner(ID)`, the one of a whole-miner job `fullMiners.Remove(ID)`.  `taskLoop` calls the
end callback *before* it frees the slot (`Gen.C07.taskLoopBranches`, `source_onEnd_before_unlock`), so nothing can be
allocated between the two: retiring a task is one step (`endTask`).  The swapped order is two steps (`freeSlot`, then
`notifyEnd`) with room for an allocation in between.
-/
namespace PRV.Model.Tracking

inductive Holds where
  | nothing | partialJob | wholeMiner
deriving Repr, DecidableEq

structure St where
  holds  : Holds := .nothing     -- what the miner's queue holds for the contract
  inFull : Bool := false         -- the watcher lists it as a full miner
  inPart : Bool := false         -- … as a partial miner
  /-- (swapped order only) a task whose slot was freed and whose owner has not been told yet -/
  pending : Holds := .nothing
deriving Repr, DecidableEq

inductive Ev where
  | allocFull        -- the watcher takes the miner whole (only when its queue is empty)
  | allocPartial     -- the watcher hands it a partial job (only when its queue is empty)
  | endTask          -- the scheduler retires the task: owner told, then slot freed — one step
  | freeSlot         -- swapped order, first half: the slot is freed
  | notifyEnd        -- swapped order, second half: the owner is told
deriving Repr, DecidableEq

/-- what the end callback of a task of kind `k` does to the books -/
def told (s : St) (k : Holds) : St :=
  match k with
  | .partialJob => { s with inFull := false, inPart := false }
  | .wholeMiner => { s with inFull := false }
  | .nothing => s

def step (s : St) : Ev → St
  | .allocFull => if s.holds = .nothing then { s with holds := .wholeMiner, inFull := true } else s
  | .allocPartial => if s.holds = .nothing then { s with holds := .partialJob, inPart := true } else s
  | .endTask => { told s s.holds with holds := .nothing }
  | .freeSlot => if s.pending = .nothing then { s with holds := .nothing, pending := s.holds } else s
  | .notifyEnd => { told s s.pending with pending := .nothing }

def run (s : St) (evs : List Ev) : St := evs.foldl step s

/-- the books agree with the queue: listed as full exactly when held whole, as partial exactly when it holds a partial job -/
def Tracked (s : St) : Prop :=
  (s.inFull = true ↔ s.holds = .wholeMiner) ∧ (s.inPart = true ↔ s.holds = .partialJob)

/-- the code's order: no half steps -/
def codeOrder : Ev → Bool
  | .freeSlot | .notifyEnd => false
  | _ => true

end PRV.Model.Tracking
