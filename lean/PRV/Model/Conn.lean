/-
Model of `StratumConnection.Read` / `Write` (proxy/conn.go) at the byte level.

Read side.  `pending` = bytes received from the peer and not yet handed out by `ReadBytes('\n')`
(bufio's buffer and everything behind it), `stash` = `readBuffer`, the fragment saved when a pending
read was interrupted.  One `Read` call takes complete lines one at a time: the stash is put in front
of the first line taken, unknown-method lines are skipped, an invalid line is returned as an error,
a known one as the message.  When no complete line is available the call blocks; cancelling it moves
what `ReadBytes` had collected so far (some newline-free prefix of `pending`) to the stash.

Write side.  `Write` holds the write mutex for its whole body, so writes are atomic with respect to
each other; a write may be cut by cancellation after the peer took only a prefix.  After a cut that
put at least one byte on the wire the connection is closed (nothing may follow the fragment).
-/
namespace PRV.Model.Conn

inductive Kind where | known | unknown | invalid
deriving Repr, DecidableEq

/-- split off the first complete line, newline included -/
def takeLine : List Nat → Option (List Nat × List Nat)
  | [] => none
  | b :: rest =>
    if b = 10 then some ([10], rest)
    else match takeLine rest with
      | some (l, r) => some (b :: l, r)
      | none => none

structure RSt where
  pending : List Nat := []
  stash   : List Nat := []
  -- history (ghost) variables
  sent    : List Nat := []            -- everything the peer sent so far
  taken   : List (List Nat) := []     -- every line `Read` consumed (returned, skipped or refused), in order
  returned : List (List Nat) := []    -- the lines returned as messages
deriving Repr

inductive ROut where
  | msg (line : List Nat)
  | invalid (line : List Nat)
  | blocked
deriving Repr, DecidableEq

def recv (s : RSt) (seg : List Nat) : RSt := { s with pending := s.pending ++ seg, sent := s.sent ++ seg }

/-- one `Read` call, run until it returns or blocks -/
def read (cls : List Nat → Kind) : Nat → RSt → RSt × ROut
  | 0, s => (s, .blocked)
  | fuel + 1, s =>
    match takeLine s.pending with
    | none => (s, .blocked)
    | some (l, rest) =>
      let line := s.stash ++ l
      let s' := { s with pending := rest, stash := [], taken := s.taken ++ [line] }
      match cls line with
      | .unknown => read cls fuel s'
      | .invalid => (s', .invalid line)
      | .known => ({ s' with returned := s'.returned ++ [line] }, .msg line)

def readCall (cls : List Nat → Kind) (s : RSt) : RSt × ROut := read cls (s.pending.length + 1) s

/-- a blocked read is cancelled after `ReadBytes` collected the first `k` pending bytes -/
def cancel (s : RSt) (k : Nat) : RSt :=
  { s with stash := s.stash ++ s.pending.take k, pending := s.pending.drop k }

/-- a pending `Read` whose context is cancelled at the instant the next bytes come in (the stop of a relay direction racing
a line from the peer): a line those bytes completed has already been taken out of the socket by `ReadBytes`, so it is
handed out as usual — returned, refused, or skipped, after which the loop sees the cancellation; when no line is complete
the call returns the cancellation and what was collected goes to the stash.  `none` = the call returned the cancellation. -/
def readCancelled (cls : List Nat → Kind) (s : RSt) : RSt × Option ROut :=
  match takeLine s.pending with
  | none => (cancel s s.pending.length, none)
  | some _ =>
    let r := read cls 1 s
    (r.1, match r.2 with | .blocked => none | o => some o)

/-! ### write side -/

structure WSt where
  wire   : List Nat := []
  closed : Bool := false
  done   : List (List Nat) := []    -- messages whose Write returned nil, in order
  cutAt  : Option (List Nat × Nat) := none   -- the write that was cut with bytes on the wire
deriving Repr

inductive WOut where | ok | cancelled | closedErr
deriving Repr, DecidableEq

/-- `Write msg`; `cut = some k`: the peer took only `k` bytes of the line before the writer was cancelled -/
def write (s : WSt) (msg : List Nat) (cut : Option Nat) : WSt × WOut :=
  if s.closed then (s, .closedErr)
  else
    let line := msg ++ [10]
    match cut with
    | none => ({ s with wire := s.wire ++ line, done := s.done ++ [msg] }, .ok)
    | some k =>
      if k ≥ line.length then ({ s with wire := s.wire ++ line, done := s.done ++ [msg] }, .ok)
      else if k = 0 then (s, .cancelled)
      else ({ s with wire := s.wire ++ line.take k, closed := true, cutAt := some (msg, k) }, .cancelled)

end PRV.Model.Conn
