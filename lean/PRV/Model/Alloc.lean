import PRV.Gen.C11
import PRV.Gen.C20
/-
Model of `allocator.go` (getMinersSnapshot, AllocateFullMinersForHR, AllocatePartialForJob) and of
the status predicates of `scheduler.go` they use, over a population snapshot.  Rates and work in ℚ,
durations Int ns.
-/
namespace PRV.Model.Alloc
open PRV.Gen.C11 PRV.Gen.C20

structure Miner where
  id            : String
  hr            : Rat        -- HashrateGHS()
  vetting       : Bool
  disconnecting : Bool
  tasks         : Nat        -- queue length
  scheduled     : Rat        -- GetTotalScheduledJob(): remaining work of queued tasks
deriving Repr

structure Item where
  id            : String
  hr            : Rat
  jobRemaining  : Rat
  timeRemaining : Int
deriving Repr

def eligible (m : Miner) : Bool := !m.vetting && !m.disconnecting
def expectedJob (m : Miner) (rem : Int) : Rat := ghsToJobSubmittedV2 m.hr rem
def isFree (m : Miner) : Bool := m.tasks == 0
def isPartialBusy (m : Miner) (rem : Int) : Bool := decide (m.tasks > 0) && decide (m.scheduled < expectedJob m rem)

def freeItem (m : Miner) (rem : Int) : Item :=
  { id := m.id, hr := m.hr * hashratePredictionAdjustment, jobRemaining := expectedJob m rem, timeRemaining := rem }

def partialItem (m : Miner) (rem : Int) : Item :=
  let jr := expectedJob m rem - m.scheduled
  { id := m.id, hr := m.hr, jobRemaining := jr,
    timeRemaining := ratTrunc (jobSubmittedToGHS jr / m.hr * 1000000000) }

/-- free miners, sorted by rate descending (stable) -/
def freeItems (pop : List Miner) (rem : Int) : List Item :=
  ((pop.filter (fun m => eligible m && isFree m)).map (freeItem · rem)).mergeSort (fun a b => decide (a.hr ≥ b.hr))

/-- partially busy miners, sorted by remaining capacity ascending (stable); none when `rem = 0` -/
def partialItems (pop : List Miner) (rem : Int) : List Item :=
  if rem = 0 then [] else
  ((pop.filter (fun m => eligible m && isPartialBusy m rem)).map (partialItem · rem)).mergeSort
    (fun a b => decide (a.jobRemaining ≤ b.jobRemaining))

abbrev Allocs := List (String × Rat)

/-- loop of `AllocateFullMinersForHR`: (miner, rate) chosen, and the remainder -/
def fullLoop : List Item → Rat → Allocs × Rat
  | [], r => ([], r)
  | it :: rest, r =>
    if it.hr ≤ r ∧ it.hr > 0 then
      let res := fullLoop rest (r - it.hr)
      ((it.id, it.hr) :: res.1, res.2)
    else fullLoop rest r

def allocateFull (pop : List Miner) (req : Rat) : Allocs × Rat := fullLoop (freeItems pop 0) req

/-- first loop of `AllocatePartialForJob` (partially busy miners).  Result: allocations, what is
still needed, and whether the function returned from inside the loop (remainder 0). -/
def partialLoop : List Item → Rat → Allocs × Rat × Bool
  | [], need => ([], need, false)
  | it :: rest, need =>
    if need < allocationMinJob then ([], need, true)
    else if it.jobRemaining < allocationMinJob then partialLoop rest need
    else if it.timeRemaining < allocationMinDuration then partialLoop rest need
    else if ratTrunc it.hr = 0 then partialLoop rest need   -- float division by zero: skipped (amd64)
    else if ratTrunc (need / ghsToHS (ratTrunc it.hr) * 1000000000) < allocationMinDuration then
      partialLoop rest need
    else if it.jobRemaining ≥ need then ([(it.id, need)], need, true)
    else
      let res := partialLoop rest (need - it.jobRemaining)
      ((it.id, it.jobRemaining) :: res.1, res.2.1, res.2.2)

/-- second loop (free miners) -/
def freeLoop (rem : Int) : List Item → Rat → Allocs × Rat
  | [], need => ([], need)
  | it :: rest, need =>
    if need < allocationMinJob then ([], 0)
    else
      let cap := ghsToJobSubmittedV2 it.hr rem
      if cap ≤ allocationMinJob then freeLoop rem rest need
      else
        let amount := if cap ≤ need then cap else need
        let res := freeLoop rem rest (need - amount)
        ((it.id, amount) :: res.1, res.2)

def allocatePartial (pop : List Miner) (need : Rat) (rem : Int) : Allocs × Rat :=
  let p := partialLoop (partialItems pop rem) need
  if p.2.2 then (p.1, 0)
  else
    let f := freeLoop rem (freeItems pop rem) p.2.1
    (p.1 ++ f.1, f.2)

def total (a : Allocs) : Rat := (a.map (·.2)).sum

end PRV.Model.Alloc
