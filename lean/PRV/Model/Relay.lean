/-
Model of the relay loops of one session: `Pipe` (two directions, each a `lib.Task`) as `Proxy.Run`,
`ConnectDest`, `replacedMeanwhile` and `setDest` create, stop and start them (proxy.go, pipe.go).
A direction that ended with an error is finished for good (`lib.Task`: a done task does not start
again); a stopped one can be started again.  `fixed = false` is `Proxy.Run` before commit 900d8c3.
-/
namespace PRV.Model.Relay

inductive Dir where
  | idle      -- never started, or stopped
  | running
  | dead      -- returned with an error: cannot be started again
deriving Repr, DecidableEq

def Dir.stop : Dir → Dir
  | .running => .idle
  | d => d

def Dir.start : Dir → Dir
  | .idle => .running
  | d => d

structure Pipe where
  s2d : Dir := .idle      -- reads the miner's connection
  d2s : Dir := .idle      -- reads the active pool connection
deriving Repr, DecidableEq

def Pipe.stopBoth (p : Pipe) : Pipe := { s2d := p.s2d.stop, d2s := p.d2s.stop }
def Pipe.startBoth (p : Pipe) : Pipe := { s2d := p.s2d.start, d2s := p.d2s.start }

structure Relay where
  cur : Option Pipe := none     -- `p.pipe`
  old : List Pipe := []         -- pipes the proxy no longer refers to
  running : Bool := false       -- `Proxy.Run` is executing
deriving Repr, DecidableEq

inductive Op where
  | runStart        -- the scheduler starts Proxy.Run (first time, or again after it exited with a destination error)
  | destError       -- the active pool connection fails: that direction ends with an error, Pipe.Run stops the other one
  | sourceError     -- the miner's connection fails
  | renew           -- ConnectDest / replacedMeanwhile after the reconnect delay: a fresh pipe replaces the current one
  | setDest         -- a change of destination: both directions stopped, destination swapped, both started
  | runExit         -- Proxy.Run returns (Pipe.Run has stopped what was running)
deriving Repr, DecidableEq

def fresh : Pipe := { s2d := .running, d2s := .running }

def step (fixed : Bool) (r : Relay) : Op → Relay
  | .runStart =>
    -- `p.pipe = NewPipe(...)`; since 900d8c3 the pipe it replaces is stopped first
    let prev := match r.cur with
      | some p => [if fixed then p.stopBoth else p]
      | none => []
    { cur := some fresh, old := prev ++ r.old, running := true }
  | .destError => { r with cur := r.cur.map fun p => { s2d := p.s2d.stop, d2s := if p.d2s = .running then .dead else p.d2s } }
  | .sourceError => { r with cur := r.cur.map fun p => { s2d := if p.s2d = .running then .dead else p.s2d, d2s := p.d2s.stop } }
  | .renew =>
    match r.cur with
    | some p => { r with cur := some fresh, old := p.stopBoth :: r.old }
    | none => r
  | .setDest => { r with cur := r.cur.map fun p => p.stopBoth.startBoth }
  | .runExit => { r with cur := r.cur.map Pipe.stopBoth, running := false }

def run (fixed : Bool) (ops : List Op) : Relay := ops.foldl (step fixed) {}

def pipes (r : Relay) : List Pipe := r.cur.toList ++ r.old

/-- goroutines reading the miner's connection / a pool connection as the active destination -/
def sourceReaders (r : Relay) : Nat := ((pipes r).filter fun p => p.s2d = .running).length
def destReaders (r : Relay) : Nat := ((pipes r).filter fun p => p.d2s = .running).length

end PRV.Model.Relay
