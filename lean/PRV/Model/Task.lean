/-
Model of `internal/lib/task.go` (Task.Start / Stop / the task goroutine) as a labelled transition
system whose steps are exactly the atomic operations of the code (the verif points).  Any number of
Start / Stop calls may be in flight; caller threads that are at the same program point are
interchangeable, so they are counted.  Generations number the invocations (`taskRun` values).
-/
namespace PRV.Model.Task

/-- position of the goroutine that still holds the running flag -/
inductive GoPc where
  | begin                   -- about to call runFunc
  | running                 -- inside runFunc
  | returned (own : Bool)   -- runFunc returned (own = with an error of its own, not a context error)
  | sReset                  -- stop path: about to reset the running flag
  | dSetDone                -- done path: about to set isDone
  | dCloseDone              -- about to close the done channel
  | dReset                  -- about to reset the running flag
deriving Repr, DecidableEq

structure St where
  isRunning    : Bool := false
  isDone       : Bool := false
  doneClosed   : Bool := false
  parent       : Bool := false        -- parent context cancelled
  run          : Option Nat := none   -- latest published generation
  nextGen      : Nat := 0
  cancelled    : List Nat := []       -- generations cancelled by Stop
  stopClosed   : List Nat := []       -- generations whose stop channel is closed
  -- Start calls in flight, by program point
  nCas         : Nat := 0
  nLoadDone    : Nat := 0
  nStoreRun    : Nat := 0
  spawnPending : Option Nat := none   -- run published, goroutine not yet spawned
  -- Stop calls in flight
  nStopLoad    : Nat := 0
  stopCancel   : List Nat := []       -- about to cancel generation g (and return its stop channel)
  -- goroutines
  go           : Option (Nat × GoPc) := none  -- the goroutine holding the running flag
  tails        : List Nat := []       -- goroutines past the reset, about to close their stop channel
  active       : Nat := 0             -- runFunc invocations in progress
  invocations  : Nat := 0
  doneLocked   : Bool := false        -- a Start returned at the isDone check, leaving the flag set
  ownReturned  : Bool := false        -- ghost: the function returned with an error of its own
  -- things that must never happen
  twoHolders   : Bool := false        -- a goroutine was spawned while another still held the flag
  doubleClose  : Bool := false        -- a channel was closed twice (panic)
deriving Repr

inductive Label where
  | startBegin | startCas | startLoadDone | startStoreRun | startSpawn
  | stopBegin | stopLoadRun | stopCancel (g : Nat)
  | parentCancel
  | goBegin | goReturnCtx | goReturnOwn | goReturnOwnCtx | goDecide
  | goReset | goSetDone | goCloseDone
  | goCloseStop (g : Nat)
deriving Repr, DecidableEq

/-- one atomic step; `none` = not enabled -/
def exec (s : St) : Label → Option St
  | .startBegin => some { s with nCas := s.nCas + 1 }
  | .startCas =>
    if s.nCas = 0 then none
    else if s.isRunning then some { s with nCas := s.nCas - 1 }                       -- CAS failed: return
    else some { s with nCas := s.nCas - 1, isRunning := true, nLoadDone := s.nLoadDone + 1 }
  | .startLoadDone =>
    if s.nLoadDone = 0 then none
    else if s.isDone then some { s with nLoadDone := s.nLoadDone - 1, doneLocked := true }
    else some { s with nLoadDone := s.nLoadDone - 1, nStoreRun := s.nStoreRun + 1 }
  | .startStoreRun =>
    if s.nStoreRun = 0 then none
    else match s.spawnPending with
      | some _ => some { s with twoHolders := true }
      | none => some { s with nStoreRun := s.nStoreRun - 1, run := some s.nextGen, nextGen := s.nextGen + 1,
                              spawnPending := some s.nextGen }
  | .startSpawn =>
    match s.spawnPending with
    | none => none
    | some g =>
      match s.go with
      | some _ => some { s with twoHolders := true }
      | none => some { s with spawnPending := none, go := some (g, .begin) }
  | .stopBegin => some { s with nStopLoad := s.nStopLoad + 1 }
  | .stopLoadRun =>
    if s.nStopLoad = 0 then none
    else match s.run with
      | none => some { s with nStopLoad := s.nStopLoad - 1 }              -- returns a closed channel
      | some g => some { s with nStopLoad := s.nStopLoad - 1, stopCancel := g :: s.stopCancel }
  | .stopCancel g =>
    if s.stopCancel.contains g then
      some { s with stopCancel := s.stopCancel.erase g, cancelled := g :: s.cancelled }
    else none
  | .parentCancel => some { s with parent := true }
  | .goBegin =>
    match s.go with
    | some (g, .begin) => some { s with go := some (g, .running), active := s.active + 1,
                                        invocations := s.invocations + 1 }
    | _ => none
  | .goReturnCtx =>
    match s.go with
    | some (g, .running) =>
      if s.cancelled.contains g || s.parent then
        some { s with go := some (g, .returned false), active := s.active - 1 }
      else none
    | _ => none
  | .goReturnOwn =>
    match s.go with
    | some (g, .running) => some { s with go := some (g, .returned true), active := s.active - 1,
                                          ownReturned := true }
    | _ => none
  | .goReturnOwnCtx =>
    -- an error of its own that is context-typed (e.g. an internal timeout): indistinguishable from
    -- honouring a cancellation once the generation has been cancelled
    match s.go with
    | some (g, .running) => some { s with go := some (g, .returned false), active := s.active - 1,
                                          ownReturned := true }
    | _ => none
  | .goDecide =>
    match s.go with
    | some (g, .returned own) =>
      -- `ctx.Err() == nil && subCtx.Err() != nil && isContextErr`
      if !s.parent && s.cancelled.contains g && !own then some { s with go := some (g, .sReset) }
      else some { s with go := some (g, .dSetDone) }
    | _ => none
  | .goSetDone =>
    match s.go with
    | some (g, .dSetDone) => some { s with go := some (g, .dCloseDone), isDone := true }
    | _ => none
  | .goCloseDone =>
    match s.go with
    | some (g, .dCloseDone) =>
      if s.doneClosed then some { s with doubleClose := true }
      else some { s with go := some (g, .dReset), doneClosed := true }
    | _ => none
  | .goReset =>
    match s.go with
    | some (g, .sReset) => some { s with go := none, isRunning := false, tails := g :: s.tails }
    | some (g, .dReset) => some { s with go := none, isRunning := false, tails := g :: s.tails }
    | _ => none
  | .goCloseStop g =>
    -- each goroutine closes the stop channel of its own `taskRun` exactly once (program order)
    if s.tails.contains g then some { s with tails := s.tails.erase g, stopClosed := g :: s.stopClosed }
    else none

def Step (s s' : St) : Prop := ∃ l, exec s l = some s'

inductive Reachable : St → Prop where
  | init : Reachable {}
  | step {s s'} : Reachable s → Step s s' → Reachable s'

def runLabels (s : St) : List Label → Option St
  | [] => some s
  | l :: ls => match exec s l with
    | none => none
    | some s' => runLabels s' ls

end PRV.Model.Task
