import PRV.Model.Session
/-
Model of what happens to a miner session when its active pool connection fails (Proxy.Run's
reconnect branch, Proxy.ConnectDest, Scheduler.Run's handling of destination errors), on top of
the session model: the failed connection is dropped, relaying stops, `RECONNECT_TIMEOUT` later one
replacement connection to the same destination is dialled, shaken hands with and announced to the
miner, and relaying resumes; if that fails the miner is released (its connection closed).
-/
namespace PRV.Model.Life
open PRV.Model PRV.Model.Session

def reconnectDelay : Int := 3000000000   -- RECONNECT_TIMEOUT, ns

inductive Phase where
  | relaying
  | waiting (due : Int)      -- the active connection failed; the reconnect is due at `until`
  | released (kind : String)   -- the session is over and the miner's connection closed
deriving Repr, DecidableEq

structure Life where
  s : Sess
  phase : Phase := .relaying
  reach : List (String × Bool) := []   -- does a dial of the pool succeed
  auth  : List (String × Bool) := []   -- does the pool authorise
  dials : Nat := 0                     -- pool connections dialled because of a failure (history)
  faults : Nat := 0                    -- failures of the active connection (history)
  minerGone : Bool := false            -- the miner hung up while nothing was reading from it (during the wait)


def flag (l : List (String × Bool)) (p : String) : Bool := ((l.find? (·.1 = p)).map (·.2)).getD true

/-- the pool closes its newest connection -/
def poolClose (l : Life) (pool : String) : Life × List Out :=
  match l.phase, lastConnOf l.s pool with
  | .relaying, some d =>
    if isActive l.s d then
      ({ l with s := { l.s with dests := l.s.dests.filter (·.key ≠ d.key) },
                phase := .waiting (l.s.now + reconnectDelay), faults := l.faults + 1 },
       [.toPool d.pool d.conn "closed"])
    else
      -- a parked connection: its autoread ends, it is closed and forgotten
      ({ l with s := { l.s with dests := l.s.dests.filter (·.key ≠ d.key) } }, [.toPool d.pool d.conn "closed"])
  | _, _ => (l, [])

/-- everything the session holds is closed and the miner is released -/
def release (l : Life) (kind : String) (extra : List Out) : Life × List Out :=
  ({ l with s := { l.s with dests := [], active := none }, phase := .released kind },
   extra ++ (if l.minerGone then [] else [.toMiner "closed"]) ++ l.s.dests.map fun d => Out.toPool d.pool d.conn "closed")

/-- the reconnect, when it is due -/
def reconnect (l : Life) : Life × List Out :=
  match l.phase with
  | .waiting due =>
    if l.s.now < due then (l, []) else
    match l.s.active with
    | none => (l, [])
    | some (pool, user) =>
      match findPool l.s pool with
      | none => (l, [])
      | some p =>
        if !flag l.reach pool then
          release { l with dials := l.dials } "connect-dest" [.factory pool none, .session "dest-err connect-dest"]
        else
          let a := acquire l.s pool p user
          if !flag l.auth pool then
            -- dialled, not authorised: the new connection is closed again, the miner released
            release { l with s := a.1, dials := l.dials + 1 } "connect-dest"
              (a.2.2 ++ [.session "dest-err connect-dest", .toPool pool a.2.1.conn "closed"])
          else
            if l.minerGone then
              -- nobody was reading from the miner during the wait: its hang-up is noticed when the
              -- replacement is announced to it; the replacement is closed and the session ends
              ({ l with s := { a.1 with dests := [], active := none }, phase := .released "change-dest", dials := l.dials + 1 },
               a.2.2 ++ [.toPool pool a.2.1.conn "closed"])
            else
            match resend a.2.1 with
            | none => (l, [])
            | some msgs =>
              ({ l with s := { a.1 with dests := a.1.dests ++ [a.2.1], active := some a.2.1.key },
                        phase := .relaying, dials := l.dials + 1 },
               a.2.2 ++ msgs)
  | _ => (l, [])

def minerClose (l : Life) : Life × List Out :=
  match l.phase with
  | .released _ => (l, [])
  | .waiting _ => ({ l with minerGone := true }, [.toMiner "closed"])
  | .relaying => release l "source" []

def shutdown (l : Life) : Life × List Out :=
  match l.phase with
  | .released _ => (l, [])
  | _ => release l "shutdown" []

/-- time passes (the reconnect fires when due) -/
def tick (l : Life) (ns : Int) : Life × List Out :=
  reconnect { l with s := { l.s with now := l.s.now + ns } }

end PRV.Model.Life
