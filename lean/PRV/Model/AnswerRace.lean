/-
A handshake handler sends a request to the pool and waits for the answer (handler_first_connect.go: onMiningConfigure /
onMiningSubscribe / onMiningAuthorize): the handler's goroutine registers the answer's callback (`dest.onceResult`) and writes the
request (`dest.Write`); the pool's answer is read by another goroutine (`ConnDest.Read` looks the callback up when the line
arrives).  The pool cannot answer before the request is on the wire.  Two threads, atomic steps, every interleaving.
-/
namespace PRV.Model.AnswerRace

inductive Step where
  | register     -- dest.onceResult(id, callback)
  | write        -- dest.Write(request)
  | answer       -- the reader goroutine takes the pool's answer off the connection and looks the callback up
deriving Repr, DecidableEq

structure St where
  registered : Bool := false
  written    : Bool := false
  handled    : Option Bool := none     -- some true: the callback ran; some false: no callback was found (the answer goes to the miner as it is)
deriving Repr, DecidableEq

def step (s : St) : Step → St
  | .register => { s with registered := true }
  | .write => { s with written := true }
  | .answer => { s with handled := some s.registered }

def run (tr : List Step) : St := tr.foldl step {}

def mergesF : Nat → List Step → List Step → List (List Step)
  | 0, _, _ => []
  | _ + 1, [], ys => [ys]
  | _ + 1, xs, [] => [xs]
  | n + 1, x :: xs, y :: ys => (mergesF n xs (y :: ys)).map (x :: ·) ++ (mergesF n (x :: xs) ys).map (y :: ·)

def merges (xs ys : List Step) : List (List Step) := mergesF (xs.length + ys.length + 1) xs ys

/-- the pool answers only what it has received -/
def valid (tr : List Step) : Bool :=
  match tr.idxOf? .write, tr.idxOf? .answer with
  | some w, some a => w < a
  | _, _ => false

def good (s : St) : Bool := s.handled == some true

def senderOf (calls : List String) : List Step :=
  calls.filterMap fun c => if c = "dest.onceResult" then some .register else if c = "dest.Write" then some .write else none

end PRV.Model.AnswerRace
