/-
Model of `hashrate/global_hashrate.go` (the process-wide, per-worker-name share record a buyer / validator reads its
"last share" from) and of how `ContractWatcherBuyer.run` prepares it at the start of a purchase.  Times are unix seconds
(`Mean.lastSubmitTime`, where 0 means "no share yet"); work in whole units.
-/
namespace PRV.Model.WorkerBook

structure Rec where
  last   : Int := 0
  work   : Int := 0
  shares : Nat := 0
deriving Repr, DecidableEq

abbrev Book := List (String × Rec)

def load (b : Book) (w : String) : Option Rec := (b.find? (·.1 = w)).map (·.2)

/-- `Initialize`: `LoadOrStore` of a fresh record — an existing record is kept -/
def initRec (b : Book) (w : String) : Book := if (load b w).isSome then b else b ++ [(w, ({} : Rec))]

/-- `OnSubmit`: `LoadOrStore`, then the record books the share -/
def onSubmit (b : Book) (w : String) (diff now : Int) : Book :=
  (initRec b w).map fun e => if e.1 = w then (e.1, ({ last := now, work := e.2.work + diff, shares := e.2.shares + 1 } : Rec)) else e

/-- `OnConnect`: `LoadOrStore`, then the record counts one more connection — what was measured so far is untouched -/
def onConnect (b : Book) (w : String) : Book := initRec b w

/-- `Reset`: the record is deleted -/
def reset (b : Book) (w : String) : Book := b.filter (·.1 ≠ w)

/-- `GetLastSubmitTime`: no record, or a record without a share, is "not ok" -/
def lastSubmit (b : Book) (w : String) : Option Int :=
  match load b w with
  | some r => if r.last = 0 then none else some r.last
  | none => none

def totalWork (b : Book) (w : String) : Option Int := (load b w).map (·.work)

/-- the first two statements `ContractWatcherBuyer.run` makes on the record of its contract -/
def startPurchase (b : Book) (id : String) : Book := initRec (reset b id) id

/-- the instant `checkIncomingHashrate` measures the silence from -/
def reference (b : Book) (id : String) (startedAt : Int) : Int := (lastSubmit b id).getD startedAt

/-- the shares of a purchase, in order of arrival -/
def submits (b : Book) (id : String) : List (Int × Int) → Book
  | [] => b
  | (diff, now) :: rest => submits (onSubmit b id diff now) id rest

end PRV.Model.WorkerBook
