import PRV.Base.Hex
/-
Model of `SerializeShare` (mining_job.go): the 20-byte duplicate-detection key.
`copy(hash[:8], en2)`, `copy(hash[8:12], ntime[:4])`, `copy(hash[12:16], nonce[:4])`,
`copy(hash[16:20], vmask[:4])`.
The Go code panics / reads beyond `len` when ntime/nonce/vmask decode to fewer than 4 bytes
(slice-to-capacity); that is C05's subject.  Here the model is defined for fields that decode to at
least 4 bytes and pads short input with zeros otherwise (flagged by `wellFormed`).
-/
namespace PRV.Model
open PRV.Base

def padTake (n : Nat) (l : List Nat) : List Nat := (l ++ List.replicate n 0).take n

def serializeShare (en2 ntime nonce vmask : List Nat) : List Nat :=
  padTake 8 en2 ++ padTake 4 ntime ++ padTake 4 nonce ++ padTake 4 vmask

/-- submits the duplicate theorem speaks about: extranonce2 of the job's fixed size `n ≤ 8`,
4-byte ntime / nonce / version bits -/
def shareWellFormed (n : Nat) (en2 ntime nonce vmask : List Nat) : Prop :=
  en2.length = n ∧ n ≤ 8 ∧ ntime.length = 4 ∧ nonce.length = 4 ∧ vmask.length = 4

end PRV.Model
