/-
The end of a seller watcher's goroutine against a handler that waited for it (contract_seller_v2.go `StartFulfilling`,
`SetTerms`; controller_seller.go: a destination update, or a close followed by a purchase, stops the watcher, waits for
`Done()`, sets the new terms and starts it again).  Two threads, atomic steps, every interleaving.
-/
namespace PRV.Model.WatcherStop

inductive Step where
  | clearFlag       -- goroutine: isRunning = false
  | closeDone       -- goroutine: close(doneCh)
  | setTerms        -- handler: SetTerms(new) — refused while the flag is set
  | start           -- handler: StartFulfilling — sets the flag, a new goroutine runs with the terms then in force
deriving Repr, DecidableEq

structure St where
  flag    : Bool := true           -- isRunning (the old watcher is running)
  done    : Bool := false          -- doneCh of the old run is closed
  terms   : Nat := 0               -- 0 = the old terms, 1 = the new ones
  watcher : Option Nat := none     -- the terms the *new* watcher runs with
deriving Repr, DecidableEq

def step (s : St) : Step → St
  | .clearFlag => { s with flag := false }
  | .closeDone => { s with done := true }
  | .setTerms => if s.flag then s else { s with terms := 1 }
  | .start => { s with flag := true, watcher := some s.terms }

def run (tr : List Step) : St := tr.foldl step {}

/-- all merges of two step lists (fuel: the total length) -/
def mergesF : Nat → List Step → List Step → List (List Step)
  | 0, _, _ => []
  | _ + 1, [], ys => [ys]
  | _ + 1, xs, [] => [xs]
  | n + 1, x :: xs, y :: ys => (mergesF n xs (y :: ys)).map (x :: ·) ++ (mergesF n (x :: xs) ys).map (y :: ·)

def merges (xs ys : List Step) : List (List Step) := mergesF (xs.length + ys.length + 1) xs ys

/-- the handler waits for `Done()`: none of its steps precedes the close -/
def valid (tr : List Step) : Bool :=
  match tr.idxOf? .closeDone, tr.idxOf? .setTerms with
  | some c, some h => c < h
  | _, _ => false

/-- the new watcher runs, with the new terms, and can be stopped (the flag says so) -/
def good (s : St) : Bool := s.flag && s.watcher == some 1

def handler : List Step := [.setTerms, .start]

/-- the goroutine's last two effects as its statements have them -/
def goroutineOf (stmts : List String) : List Step :=
  stmts.filterMap fun t => if t = "p.isRunning = false" then some .clearFlag else if t = "close(doneCh)" then some .closeDone else none

end PRV.Model.WatcherStop
