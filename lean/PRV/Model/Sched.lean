/-
Model of `allocator/tasklist.go` (TaskList) and of `allocator/scheduler.go` (Run / mainLoop /
taskLoop / onDisconnect) as a machine that is run to quiescence after every external event.
Times are Int ns; work is Int (RemainingJobToSubmit is an int64).
-/
namespace PRV.Model.Sched

structure Task where
  tid       : Nat        -- serial of the Add that created it
  cid       : String     -- contract id
  dest      : String
  remaining : Int
  deadline  : Int
  cancelled : Bool := false
deriving Repr, DecidableEq

/-! ### TaskList -/
structure TaskList where
  tasks : List Task := []
  taken : Bool := false
  size  : Int := 0
deriving Repr

inductive TLPanic where
  | alreadyTaken | notTaken | emptyQueue
deriving Repr, DecidableEq

namespace TaskList
def add (l : TaskList) (t : Task) : TaskList × Nat :=
  ({ l with tasks := l.tasks ++ [t], size := l.size + 1 }, l.tasks.length + 1)

def lockNext (l : TaskList) : Except TLPanic (TaskList × Option Task) :=
  if l.taken then .error .alreadyTaken
  else match l.tasks with
    | [] => .ok (l, none)
    | t :: _ => .ok ({ l with taken := true }, some t)

def unlockAndRemove (l : TaskList) : Except TLPanic TaskList :=
  if !l.taken then .error .notTaken
  else match l.tasks with
    | [] => .error .emptyQueue
    | _ :: rest => .ok { tasks := rest, taken := false, size := l.size - 1 }

/-- `Cancel(contractID)`: the task in service is cancelled (stays until the scheduler retires it),
every other task of the contract is removed. -/
def cancelRest (cid : String) : List Task → List Task × Nat
  | [] => ([], 0)
  | t :: rest =>
    let r := cancelRest cid rest
    if t.cid = cid then (r.1, r.2 + 1) else (t :: r.1, r.2)

def cancel (l : TaskList) (cid : String) : TaskList :=
  match l.tasks with
  | [] => l
  | h :: rest =>
    if l.taken ∧ h.cid = cid then
      let r := cancelRest cid rest
      { l with tasks := { h with cancelled := true } :: r.1, size := l.size - r.2 }
    else
      let r := cancelRest cid (h :: rest)
      { l with tasks := r.1, size := l.size - r.2 }
end TaskList

/-! ### Scheduler -/
inductive EndKind where
  | done          -- nil error: work submitted or removed
  | deadline
  | proxyExited
  | minerDisconnected
  | connDest
deriving Repr, DecidableEq

inductive Out where
  | setDest (dest : String) (hasCb : Bool)
  | onSubmit (tid : Nat) (diff : Int)
  | onDisconnect (tid : Nat) (remaining : Int)
  | onEnd (tid : Nat) (remaining : Int) (kind : EndKind)
  | destErr
  | exited
deriving Repr, DecidableEq

structure Sched where
  tl      : TaskList := {}
  now     : Int := 0
  primary : String
  cur     : String            -- destination the proxy points at
  cb      : Option Nat := none  -- task whose submit callback is installed
  idle    : Bool := false     -- parked on the primary destination waiting for a task
  exited  : Bool := false
  serial  : Nat := 0
deriving Repr

inductive Ev where
  | add (cid dest : String) (job : Int) (deadline : Int)
  | remove (cid : String)
  | share (diff : Int)
  | tick (now : Int)
  | proxyExit (destErr : Bool)
deriving Repr

/-- retire the task in service with `kind` (OnEnd + UnlockAndRemove) -/
def retire (s : Sched) (t : Task) (kind : EndKind) : Sched × List Out :=
  match s.tl.unlockAndRemove with
  | .ok tl => ({ s with tl := tl }, [.onEnd t.tid t.remaining kind])
  | .error _ => (s, [.onEnd t.tid t.remaining kind])   -- unreachable (see `settle_no_panic`)

/-- Run the scheduler goroutine until it blocks.  `fuel` bounds the number of tasks retired. -/
def settle : Nat → Sched → Sched × List Out
  | 0, s => (s, [])
  | fuel + 1, s =>
    if s.exited then (s, []) else
    match s.tl.tasks with
    | [] =>
      if s.idle then (s, [])
      else ({ s with idle := true, cur := s.primary, cb := none }, [.setDest s.primary false])
    | t :: _ =>
      if s.tl.taken then
        -- in service: second select of taskLoop
        if t.cancelled then
          let r := retire s t .done; let r2 := settle fuel r.1; (r2.1, r.2 ++ r2.2)
        else if t.deadline ≤ s.now then
          let r := retire s t .deadline; let r2 := settle fuel r.1; (r2.1, r.2 ++ r2.2)
        else (s, [])
      else
        -- LockNextTask + first select (a cancellation or a deadline already in the past is seen
        -- here) + SetDest
        let s1 := { s with tl := { s.tl with taken := true }, idle := false }
        if t.cancelled then
          let r := retire s1 t .done; let r2 := settle fuel r.1; (r2.1, r.2 ++ r2.2)
        else if t.deadline ≤ s.now then
          let r := retire s1 t .deadline; let r2 := settle fuel r.1; (r2.1, r.2 ++ r2.2)
        else
          ({ s1 with cur := t.dest, cb := some t.tid }, [.setDest t.dest true])

def fuelFor (s : Sched) : Nat := 2 * s.tl.tasks.length + 3

/-- Time passes up to `target`: the scheduler wakes at every deadline of the task in service on
the way (its timer), not only at the end. -/
def advance : Nat → Sched → Int → Sched × List Out
  | 0, s, target => settle (fuelFor s) { s with now := max s.now target }
  | fuel + 1, s, target =>
    match s.tl.taken, s.tl.tasks with
    | true, t :: _ =>
      if !t.cancelled ∧ s.now < t.deadline ∧ t.deadline ≤ target then
        let r := settle (fuelFor s) { s with now := t.deadline }
        let r2 := advance fuel r.1 target
        (r2.1, r.2 ++ r2.2)
      else settle (fuelFor s) { s with now := max s.now target }
    | _, _ => settle (fuelFor s) { s with now := max s.now target }

/-- `if p.tasks.taskTaken { p.tasks.UnlockAndRemove() }` -/
def dropInService (tl : TaskList) : TaskList :=
  if tl.taken then (match tl.unlockAndRemove with | .ok tl' => tl' | .error _ => tl) else tl

/-- `onDisconnect`: every queued task is told, the one in service is dropped -/
def disconnectOuts (ts : List Task) : List Out :=
  ts.flatMap fun t => [.onDisconnect t.tid t.remaining, .onEnd t.tid t.remaining .minerDisconnected]

def step (s : Sched) (ev : Ev) : Sched × List Out :=
  if s.exited then (s, []) else
  match ev with
  | .add cid dest job deadline =>
    let t : Task := { tid := s.serial, cid := cid, dest := dest, remaining := job, deadline := deadline }
    let s1 := { s with tl := (s.tl.add t).1, serial := s.serial + 1 }
    settle (fuelFor s1) s1
  | .remove cid =>
    let s1 := { s with tl := s.tl.cancel cid }
    settle (fuelFor s1) s1
  | .tick now => advance (s.tl.tasks.length + 1) s now
  | .share diff =>
    match s.cb, s.tl.tasks with
    | some tid, t :: rest =>
      if s.tl.taken ∧ t.tid = tid then
        let rem := t.remaining - diff
        let t' := { t with remaining := rem, cancelled := t.cancelled || decide (rem ≤ 0) }
        let s1 := { s with tl := { s.tl with tasks := t' :: rest } }
        let r := settle (fuelFor s1) s1
        (r.1, .onSubmit tid diff :: r.2)
      else (s, [])
    | _, _ => (s, [])
  | .proxyExit destErr =>
    -- the task in service (if any) is ended with "proxy exited" by taskLoop
    let head : List Out := match s.tl.taken, s.tl.tasks with
      | true, t :: _ => [.onEnd t.tid t.remaining .proxyExited]
      | _, _ => []
    if destErr then
      -- Run: UnlockAndRemove, report; a proxy that exited while on the primary destination could not
      -- reconnect it: the miner is released (every queued task is told); otherwise back to the
      -- primary destination and on with the queue
      if s.cur = s.primary then
        let tl := dropInService s.tl
        ({ s with tl := tl, cb := none, exited := true }, head ++ [.destErr] ++ disconnectOuts tl.tasks ++ [.exited])
      else
      let back : List Out := [.setDest s.primary false]
      let s1 := { s with tl := dropInService s.tl, cur := s.primary, cb := none, idle := false }
      let r := settle (fuelFor s1) s1
      (r.1, head ++ [.destErr] ++ back ++ r.2)
    else
      let outs := head ++ disconnectOuts s.tl.tasks
      ({ s with tl := dropInService s.tl, exited := true }, outs ++ [.exited])

def init (primary : String) : Sched × List Out :=
  settle 3 { primary := primary, cur := primary }

def run (s : Sched) : List Ev → List (List Out)
  | [] => []
  | e :: es => (step s e).2 :: run (step s e).1 es

end PRV.Model.Sched
